(* C03 — a disable comment on the reported line silences exactly that error.
   Property theorems only (each closed by [exact] + Print Assumptions) and non-vacuity examples.
   Model: Directors/Model.v (executable, tied to pytype/directors/directors.py by the correspondence check);
   vocabulary: Directors/Spec.v; proofs: Directors/Proofs.v.

   Reading guide.  D, D' are the flattened outputs of the real parser (one event per (line range, comment)
   pair, in processing order) for the program before and after the edit; g is the `disable` option, fr the
   parser's function ranges, rl its return lines.  [inserted P D D' A] says D' is D plus the events A.
   An error is (same file, line l0, class, "raised by a RETURN opcode"); filter_error returns
   (logged?, line the error carries afterwards).  [reported_line] is that final line: l0 except for an
   implicit `return None`, which filter_error moves to the end of the enclosing function. *)
From Coq Require Import ZArith List Bool Arith NArith Sorting.Sorted.
From PV Require Import Generated.C03_ErrorClasses Directors.Model Directors.Spec Directors.Proofs.
From Coq Require Import Sorting.Permutation Lia.
From PV Require Import Directors.Parser Directors.ParserSpec Directors.ParserProofs Directors.ParserOrder Directors.ParserNest Directors.ParserIns Directors.ParserE2E.
From PV Require Import Directors.ErrorLog Directors.ErrorLogProofs Directors.ErrorLogE2E.
Import ListNotations.
Open Scope Z_scope.

(* ---- _LineSet ---------------------------------------------------------------------------------- *)

(* membership = the per-line entry if there is one, else the parity of the number of transitions <= l
   (what bisect returns on the sorted transition list) *)
Theorem lineset_contains_spec : forall ls l, StronglySorted Z.lt (ls_trans ls) ->
  contains ls l = match dict_get l (ls_lines ls) with
                  | Some b => b
                  | None => Nat.odd (length (filter (fun t => t <=? l) (ls_trans ls)))
                  end.
Proof. exact contains_sem. Qed.
Print Assumptions lineset_contains_spec.

(* membership in terms of the history of calls: the last set_line(l, b) wins; otherwise the last
   start_range(p, m) with p <= l decides; otherwise not a member.  For every history whose start_range
   lines are non-decreasing and >= 0 (the order in which the director sees stand-alone comments). *)
Theorem lineset_spec : forall ops ls l, mono_from 0 ops -> run_ops ls_empty ops = Ok ls ->
  contains ls l =
  match last_set ops l with
  | Some b => b
  | None => match range_last ops l with Some m => m | None => false end
  end.
Proof. exact lineset_spec_lemma. Qed.
Print Assumptions lineset_spec.

(* ... and such a history never raises (no ValueError / IndexError from start_range) *)
Theorem lineset_never_raises : forall ops, mono_from 0 ops -> exists ls, run_ops ls_empty ops = Ok ls.
Proof. exact lineset_total_lemma. Qed.
Print Assumptions lineset_never_raises.

(* ---- trailing "# pytype: disable=E" ------------------------------------------------------------- *)

(* The guarantee quoted in directors.py.  The comment (trailing, on line L, naming E) sits in a range
   [cev] that keeps class E (a statement range keeps every class; a call range only function-call classes).
   Every error of class E whose reported line is L — or the range's start line when E is adjustable — is
   filtered, whatever else the file contains (other directives, global disables, any function ranges),
   PROVIDED no trailing enable=E is processed after it. *)
Theorem trailing_disable_silences : forall g fr rl D1 D2 cev st e l0 lr L E,
  ev_comment cev = trailing_disable L E ->
  accepted_name E = true -> keep (ev_call cev) E = true ->
  Forall (fun ev => trailing_enable_of E (ev_comment ev) = false) D2 ->
  build_events g fr (D1 ++ cev :: D2) = Ok st ->
  e_same_file e = true -> e_line e = Some l0 -> e_name e = E ->
  reported_line st rl e l0 = Ok lr ->
  (eff_line lr = L \/ eff_line lr = adjust_line L E (ev_start cev)) ->
  filter_error st rl e = Ok (false, Some lr).
Proof. exact silences_lemma. Qed.
Print Assumptions trailing_disable_silences.

(* the side condition is necessary: a trailing enable=E on a later line of the same statement undoes it *)
Theorem trailing_disable_silences_refuted :
  exists E D1 cev D2,
    is_adjustable E = true /\ accepted_name E = true /\
    ev_comment cev = trailing_disable 2 E /\ ev_call cev = false /\ ev_start cev <= 2 <= ev_end cev /\
    verdict_events [] [] [] (D1 ++ cev :: D2) (same_file_err 2 E false) = Ok (true, Some 2).
Proof. exact silences_refuted_lemma. Qed.
Print Assumptions trailing_disable_silences_refuted.

(* filter_error rewrites the line only for implicit returns *)
Theorem reported_line_plain : forall st rl e l0, plain_error rl e l0 -> reported_line st rl e l0 = Ok l0.
Proof. exact plain_reported. Qed.
Print Assumptions reported_line_plain.

(* Frame: adding the copies [Ad] of a trailing disable=E on line L (one per range it sits in) never makes
   the construction raise, and the verdict of every error is unchanged except for class E (or every class
   when E is the wildcard) on the lines in [touched_disable E L Ad] = L and the start line of each keeping
   range — provided the error's reported line itself is unchanged (see the _line_refuted theorem). *)
Theorem trailing_disable_frame : forall g fr rl D D' Ad L E st,
  inserted (fun ev => ev_comment ev = trailing_disable L E) D D' Ad ->
  build_events g fr D = Ok st ->
  exists st', build_events g fr D' = Ok st' /\
    forall e l0 lr, e_same_file e = true -> e_line e = Some l0 ->
      reported_line st rl e l0 = Ok lr -> reported_line st' rl e l0 = Ok lr ->
      (e_name e <> E /\ E <> all_errors) \/ ~ In (eff_line lr) (touched_disable E L Ad) ->
      filter_error st' rl e = filter_error st rl e.
Proof. exact disable_frame_full. Qed.
Print Assumptions trailing_disable_frame.

(* the reported-line hypothesis is necessary: the comment's statement range makes _parse_src_tree move the
   end of the enclosing function, so an implicit-return error of ANOTHER class is reported elsewhere *)
Theorem trailing_disable_frame_line_refuted :
  exists E L fr D D' Ad e l1 l2,
    E <> all_errors /\ e_name e <> E /\
    inserted (fun ev => ev_comment ev = trailing_disable L E /\ ev_start ev <= L <= ev_end ev) D D' Ad /\
    verdict_events [] fr [] D e = Ok (true, Some l1) /\
    verdict_events [] fr [] D' e = Ok (true, Some l2) /\ l1 <> l2.
Proof. exact frame_line_refuted_lemma. Qed.
Print Assumptions trailing_disable_frame_line_refuted.

(* ---- the full statement "silences exactly that error" ------------------------------------------- *)

(* REFUTED on the faithful model, for every adjustable class: the directive on the last line of a
   two-line statement also silences class E on the statement's first line. *)
Theorem exactly_that_error_refuted : forall E, is_adjustable E = true -> accepted_name E = true ->
  let D := @nil event in
  let D' := [mkE false 3 4 (trailing_disable 4 E)] in
  let e2 := same_file_err 3 E false in
  inserted (fun ev => ev_comment ev = trailing_disable 4 E /\ ev_start ev <= 4 <= ev_end ev) D D' D' /\
  verdict_events [] [] [] D e2 = Ok (true, Some 3) /\
  verdict_events [] [] [] D' e2 = Ok (false, Some 3).
Proof. exact exactly_refuted_lemma. Qed.
Print Assumptions exactly_that_error_refuted.

(* PARTIAL: when every range the comment sits in starts on L itself or E is not adjustable, no trailing
   enable=E exists, and reported lines are stable: the errors of class E reported on L are silenced and
   every other (line, class) keeps its verdict. *)
Theorem exactly_that_error_partial : forall g fr rl D D' Ad L E st,
  inserted (fun ev => ev_comment ev = trailing_disable L E /\
                      (is_adjustable E = false \/ ev_start ev = L)) D D' Ad ->
  (exists cev, In cev Ad /\ ev_call cev = false) ->
  Forall (fun ev => trailing_enable_of E (ev_comment ev) = false) D' ->
  accepted_name E = true -> E <> all_errors ->
  build_events g fr D = Ok st ->
  exists st', build_events g fr D' = Ok st' /\
    forall e l0 lr, e_same_file e = true -> e_line e = Some l0 ->
      reported_line st rl e l0 = Ok lr -> reported_line st' rl e l0 = Ok lr ->
      (e_name e = E /\ eff_line lr = L -> filter_error st' rl e = Ok (false, Some lr)) /\
      (~ (e_name e = E /\ eff_line lr = L) -> filter_error st' rl e = filter_error st rl e).
Proof. exact exactly_partial_lemma. Qed.
Print Assumptions exactly_that_error_partial.

(* ---- trailing "# type: ignore" ------------------------------------------------------------------ *)

(* unconditional: nothing can take a line out of the ignore set *)
Theorem type_ignore_silences : forall g fr rl D1 D2 cev st e l0 lr L,
  ev_comment cev = trailing_ignore L ->
  build_events g fr (D1 ++ cev :: D2) = Ok st ->
  e_same_file e = true -> e_line e = Some l0 ->
  reported_line st rl e l0 = Ok lr ->
  (eff_line lr = L \/ eff_line lr = ev_start cev) ->
  filter_error st rl e = Ok (false, Some lr).
Proof. exact ignore_silences_lemma. Qed.
Print Assumptions type_ignore_silences.

Theorem type_ignore_frame : forall g fr rl D D' Ad L st,
  inserted (fun ev => ev_comment ev = trailing_ignore L) D D' Ad ->
  build_events g fr D = Ok st ->
  exists st', build_events g fr D' = Ok st' /\
    forall e l0 lr, e_same_file e = true -> e_line e = Some l0 ->
      reported_line st rl e l0 = Ok lr -> reported_line st' rl e l0 = Ok lr ->
      ~ In (eff_line lr) (touched_ignore L Ad) ->
      filter_error st' rl e = filter_error st rl e.
Proof. exact ignore_frame_full. Qed.
Print Assumptions type_ignore_frame.

(* ---- stand-alone directives --------------------------------------------------------------------- *)

(* disable=E on its own line L ... enable=E on its own line M > L, no stand-alone directive naming E in
   between, E not already range-disabled at L (`previous` is False in start_range), stand-alone comments
   seen in line order: the verdict changes exactly for class E (every class for the wildcard) on
   L <= line < M, where it becomes "filtered" unless a per-line enable entry exists; nowhere else. *)
Theorem standalone_disable_range : forall g fr rl D1 Dmid D2 L M E sL eL sM eM st1 st st',
  accepted_name E = true -> L < M ->
  let evL := mkE false sL eL (standalone_disable L E) in
  let evM := mkE false sM eM (standalone_enable M E) in
  open_mono 0 (D1 ++ evL :: Dmid ++ evM :: D2) ->
  Forall (fun ev => open_directive_of E (ev_comment ev) = false) Dmid ->
  build_events g fr D1 = Ok st1 ->
  Nat.odd (length (ls_trans (dis_get (d_dis st1) E))) = false ->
  build_events g fr (D1 ++ Dmid ++ D2) = Ok st ->
  build_events g fr (D1 ++ evL :: Dmid ++ evM :: D2) = Ok st' ->
  forall e l0 lr, e_same_file e = true -> e_line e = Some l0 ->
    reported_line st rl e l0 = Ok lr -> reported_line st' rl e l0 = Ok lr ->
    ((e_name e <> E /\ E <> all_errors) \/ ~ (L <= eff_line lr < M) ->
       filter_error st' rl e = filter_error st rl e) /\
    ((e_name e = E \/ E = all_errors) -> L <= eff_line lr < M ->
       dict_get (eff_line lr) (ls_lines (dis_get (d_dis st) E)) <> Some false ->
       filter_error st' rl e = Ok (false, Some lr)).
Proof. exact standalone_pair_filter. Qed.
Print Assumptions standalone_disable_range.

(* without a matching enable: to the end of the file (line 0 = "below the file" included) *)
Theorem standalone_disable_to_eof : forall g fr rl D1 D2 L E sL eL st st',
  accepted_name E = true ->
  let evL := mkE false sL eL (standalone_disable L E) in
  open_mono 0 (D1 ++ evL :: D2) ->
  Forall (fun ev => open_directive_of E (ev_comment ev) = false) D2 ->
  build_events g fr (D1 ++ D2) = Ok st ->
  build_events g fr (D1 ++ evL :: D2) = Ok st' ->
  forall e l0 lr, e_same_file e = true -> e_line e = Some l0 ->
    reported_line st rl e l0 = Ok lr -> reported_line st' rl e l0 = Ok lr ->
    ((e_name e <> E /\ E <> all_errors) \/ eff_line lr < L ->
       filter_error st' rl e = filter_error st rl e) /\
    ((e_name e = E \/ E = all_errors) -> L <= eff_line lr ->
       dict_get (eff_line lr) (ls_lines (dis_get (d_dis st) E)) <> Some false ->
       filter_error st' rl e = Ok (false, Some lr)).
Proof. exact standalone_eof_filter. Qed.
Print Assumptions standalone_disable_to_eof.

(* "# type: ignore" on its own line L: every error from L on is filtered, nothing before L changes *)
Theorem type_ignore_standalone : forall g fr rl D1 D2 L sL eL st st',
  let evL := mkE false sL eL (standalone_ignore L) in
  open_mono 0 (D1 ++ evL :: D2) ->
  build_events g fr (D1 ++ D2) = Ok st ->
  build_events g fr (D1 ++ evL :: D2) = Ok st' ->
  forall e l0 lr, e_same_file e = true -> e_line e = Some l0 ->
    reported_line st rl e l0 = Ok lr -> reported_line st' rl e l0 = Ok lr ->
    (eff_line lr < L -> filter_error st' rl e = filter_error st rl e) /\
    (L <= eff_line lr -> filter_error st' rl e = Ok (false, Some lr)).
Proof. exact standalone_ignore_filter. Qed.
Print Assumptions type_ignore_standalone.

(* ---- non-vacuity --------------------------------------------------------------------------------- *)

(* the error-class tables are what the theorems' side conditions need *)
Example classes_available :
  is_adjustable witness_class = true /\ accepted_name witness_class = true /\
  is_fce witness_class = true /\ witness_class <> all_errors /\
  is_adjustable implicit_return_error = true /\ accepted_name all_errors = true /\
  existsb (fun n => accepted_name n && negb (is_adjustable n)) known_error_names = true.
Proof. vm_compute. repeat split; try reflexivity; discriminate. Qed.

(* a history mixing everything: [2,5) then a per-line override, a cancelled pair, an open end *)
Definition hist : list lsop :=
  [ORange 0 false; ORange 2 true; OSet 3 false; ORange 5 false; OSet 7 true; ORange 9 true; ORange 9 false;
   ORange 12 true].
Example hist_ok : mono_from 0 hist /\
  exists ls, run_ops ls_empty hist = Ok ls /\ ls_trans ls = [2; 5; 12] /\
             map (contains ls) [1; 2; 3; 4; 5; 7; 9; 11; 12; 100] =
             [false; true; false; true; false; true; false; false; true; true].
Proof. split; [simpl; repeat split; discriminate | eexists; split; [reflexivity | split; reflexivity]]. Qed.

(* x = [f("a"),          line 3       base range (3,6), call range (4,5) for g(...)
        g(1,             line 4
          2),  # pytype: disable=E    line 5  <- the appended comment; E a function-call class
        f("b")]          line 6
   with an unrelated stand-alone disable of another class before it and a global disable. *)
Definition E0 := witness_class.
Definition other := implicit_return_error.
Definition D_before : list event :=
  [mkE false 1 1 (standalone_disable 1 other)].
Definition c0 := trailing_disable 5 E0.
Definition added0 := [mkE false 3 6 c0; mkE true 4 5 c0].
Definition D_after : list event := D_before ++ added0.
Example silences_hyps :
  inserted (fun ev => ev_comment ev = c0) D_before D_after added0 /\
  Forall (fun ev => trailing_enable_of E0 (ev_comment ev) = false) [mkE true 4 5 c0] /\
  keep false E0 = true /\ keep true E0 = true /\
  touched_disable E0 5 added0 = [5; 3; 5; 4] /\
  (exists st, build_events [other] [(1, 1)] D_after = Ok st) /\
  map (fun l => verdict_events [other] [(1, 1)] [] D_after (same_file_err l E0 false)) [3; 4; 5; 6] =
  [Ok (false, Some 3); Ok (false, Some 4); Ok (false, Some 5); Ok (true, Some 6)] /\
  map (fun l => verdict_events [other] [(1, 1)] [] D_before (same_file_err l E0 false)) [3; 4; 5; 6] =
  [Ok (true, Some 3); Ok (true, Some 4); Ok (true, Some 5); Ok (true, Some 6)].
Proof.
  split. { unfold D_after, D_before, added0. simpl. constructor. repeat constructor. }
  split. { repeat constructor. }
  vm_compute. repeat split; try reflexivity. eexists. reflexivity.
Qed.

(* def f() -> int:       line 2 (function range 2..4)
     x = g(1,            line 3
           2)            line 4   implicit return reported on line 4; directive appended there *)
Example implicit_return_case :
  let c := trailing_disable 4 implicit_return_error in
  let D' := [mkE false 3 4 c; mkE true 3 4 c] in
  let e := mkErr true (Some 3) implicit_return_error true in
  verdict_events [] [(1, 1); (2, 4)] [1] [] e = Ok (true, Some 4) /\
  verdict_events [] [(1, 1); (2, 4)] [1] D' e = Ok (false, Some 3).
Proof. vm_compute. split; reflexivity. Qed.

(* stand-alone disable at 4 ... enable at 8 around a per-line enable on 6 and an earlier closed range *)
Definition S1 : list event :=
  [mkE false 1 1 (standalone_disable 1 E0); mkE false 2 2 (standalone_enable 2 E0)].
Definition Smid : list event := [mkE false 6 6 (mkC 6 (Pytype [CEnable [E0]]) false);
                                 mkE false 7 7 (standalone_disable 7 other)].
Definition S2 : list event := [mkE false 10 10 (standalone_disable 10 E0)].
Example standalone_hyps :
  let evL := mkE false 4 4 (standalone_disable 4 E0) in
  let evM := mkE false 8 8 (standalone_enable 8 E0) in
  open_mono 0 (S1 ++ evL :: Smid ++ evM :: S2) /\
  Forall (fun ev => open_directive_of E0 (ev_comment ev) = false) Smid /\
  (exists st1, build_events [] [] S1 = Ok st1 /\
               Nat.odd (length (ls_trans (dis_get (d_dis st1) E0))) = false) /\
  map (fun l => verdict_events [] [] [] (S1 ++ evL :: Smid ++ evM :: S2) (same_file_err l E0 false))
      [1; 2; 3; 4; 5; 6; 7; 8; 9; 10; 0] =
  [Ok (false, Some 1); Ok (true, Some 2); Ok (true, Some 3); Ok (false, Some 4); Ok (false, Some 5);
   Ok (true, Some 6); Ok (false, Some 7); Ok (true, Some 8); Ok (true, Some 9); Ok (false, Some 10);
   Ok (false, Some 0)] /\
  map (fun l => verdict_events [] [] [] (S1 ++ Smid ++ S2) (same_file_err l E0 false))
      [1; 2; 3; 4; 5; 6; 7; 8; 9; 10; 0] =
  [Ok (false, Some 1); Ok (true, Some 2); Ok (true, Some 3); Ok (true, Some 4); Ok (true, Some 5);
   Ok (true, Some 6); Ok (true, Some 7); Ok (true, Some 8); Ok (true, Some 9); Ok (false, Some 10);
   Ok (false, Some 0)].
Proof.
  vm_compute. split; [repeat split; discriminate|]. split; [repeat constructor|].
  split; [eexists; split; reflexivity|]. split; reflexivity.
Qed.


(* ==== the parser (pytype/directors/parser.py, ast-level logic) ====================================
   Model: Directors/Parser.v — BaseVisitor's post-order traversal over a mini tree (the node kinds
   _ParseVisitor distinguishes, spans as (lineno, end_lineno)), _process_structured_comments /
   _add_structured_comment_group on an insertion-ordered dict, _visit_function_def's signature range incl.
   the defaultdict it grows, decorators, with/try/match, returns and function ranges.  [raw] is the
   tokenizer's output (line -> comments, strictly increasing lines: [raw_ok]); [body] any list of trees, of
   any size and nesting, with ANY spans (no well-formedness is needed for the theorems below). *)

(* Every group of the visitor's output is right: a call range (Call/Compare/Subscript) holds EXACTLY the
   trailing "pytype:" / "type: ignore" comments of its lines, in line order, each once — whatever happened
   to the dict before or after (no directive of an earlier line is dropped, none added twice); a statement
   range only holds comments of the source that sit on its own lines. *)
Theorem parser_groups_exact : forall raw body, raw_ok raw ->
  Forall (group_ok raw) (v_groups (parse raw body)).
Proof. exact parse_groups_ok. Qed.
Print Assumptions parser_groups_exact.

(* A call range of the tree with a comment line inside it has a group in the output. *)
Theorem parser_call_group_exists : forall raw body s e l cs, raw_ok raw ->
  In (s, e) (flat_map calls_of body) -> In (l, cs) raw -> in_range s e l = true ->
  od_has (mkK true s e) (v_groups (parse raw body)) = true.
Proof. exact parse_call_group_exists. Qed.
Print Assumptions parser_call_group_exists.

(* What the Director model consumes: in every (line range, comment) event the comment's line lies inside
   the range — the side condition [ev_start ev <= L <= ev_end ev] of the Director theorems above, PROVED of
   the parser's output — and a call-range event always carries a trailing directive (never a stand-alone
   comment, never a plain type comment), so [touched_disable] only ever adds start lines of ranges that
   contain the directive's line. *)
Theorem parser_events_in_range : forall raw body ev, raw_ok raw ->
  In ev (events_of (director_groups (parse raw body))) ->
  ev_start ev <= c_line (ev_comment ev) <= ev_end ev /\
  (ev_call ev = true -> c_open (ev_comment ev) = false /\ c_body (ev_comment ev) <> TypeOther).
Proof. exact parse_director_events. Qed.
Print Assumptions parser_events_in_range.

(* The dict of groups stays well-formed whatever the tree: keys distinct, ascending by start line (the
   invariant the reverse search/scan of _add_structured_comment_group relies on), every range non-empty. *)
Theorem parser_groups_sorted : forall raw body, raw_ok raw -> tinv (v_groups (parse raw body)).
Proof. exact parse_tinv. Qed.
Print Assumptions parser_groups_sorted.

(* No comment is ever lost or duplicated: the statement-range groups together hold exactly the comments of
   the file (as a multiset) ... *)
Theorem parser_statement_groups_partition : forall raw body, raw_ok raw ->
  Permutation (bc (v_groups (parse raw body))) (all_comments raw).
Proof. exact parse_partition. Qed.
Print Assumptions parser_statement_groups_partition.

(* ... so every comment of the file — directive or not, trailing or stand-alone — sits in a statement-range
   group whose range contains its line: the "base-group containment" hypothesis of
   [trailing_disable_silences] (existence of [cev] with [keep false E = true]) PROVED of the parser. *)
Theorem parser_base_group_containment : forall raw body c, raw_ok raw -> In c (all_comments raw) ->
  exists ev, In ev (events_of (director_groups (parse raw body))) /\ ev_call ev = false /\
             ev_comment ev = pc_c c /\ ev_start ev <= c_line (pc_c c) <= ev_end ev.
Proof. exact parse_base_event. Qed.
Print Assumptions parser_base_group_containment.

(* Every statement range the visitor asks for (simple statement, header of if/for/while/with, handler type,
   decorator, annotated assignment with a value, return, and the function signature range
   (def line, [sig_line raw f]) with its approximated end incl. the function-type-comment rule) that holds a comment line is covered by a
   statement-range group of the output — the range itself or a larger range that absorbed it. *)
Theorem parser_statement_range_covered : forall raw body s e l cs, raw_ok raw ->
  In (s, e) (flat_map (reqs_of raw) body) -> In (l, cs) raw -> in_range s e l = true ->
  covers s e (v_groups (parse raw body)).
Proof. exact parse_statement_covered. Qed.
Print Assumptions parser_statement_range_covered.

(* "The comment lands in the group of the statement range containing its line": PARTIAL — it needs the
   statement-range groups of the output not to share lines ([parser_comment_in_own_statement_refuted] below
   shows the hypothesis is necessary: two statements on one physical line).  Then the one group that holds the
   comment covers the whole statement range, so a trailing directive is adjusted to a line at or before the
   start of its own statement and never to a later one. *)
Theorem parser_comment_in_own_statement_partial : forall raw body s e l cs c, raw_ok raw ->
  In (s, e) (flat_map (reqs_of raw) body) -> In (l, cs) raw -> In c cs -> in_range s e l = true ->
  base_disjoint (v_groups (parse raw body)) ->
  exists k v, In (k, v) (v_groups (parse raw body)) /\ k_call k = false /\ In c v /\ k_s k <= s /\ e <= k_e k.
Proof. exact parse_comment_with_statement. Qed.
Print Assumptions parser_comment_in_own_statement_partial.

(* [inserted] — the hypothesis of the frame theorems — for a trailing comment: [raw'] is the tokenizer's map of
   the source with the comment [c] (not stand-alone), [erraw c raw'] the map of the same source with that
   comment's text blanked (a plain "#": the token stays, so its line keeps its entry).  Erasing commutes with
   the WHOLE visitor ([parse_erase]: groups, order, function ranges, returns, everything), hence the events of
   the commented source are those of the blanked source plus events carrying [c], each in a range around c's
   line.  PARTIAL with respect to the property's edit ("append the comment to a line"): that a plain comment
   token on a line that had none is event-neutral is not proved; the check monitors it on the real parser for
   every edit, together with "the tokenizer's map of the blanked source is the erased map". *)
Theorem parser_trailing_comment_inserted_partial : forall raw' body c, raw_ok raw' -> pc_open c = false ->
  (forall x, In x (all_comments raw') -> pc_eqb x c = true -> pc_c x = pc_c c) ->
  exists Ad,
    inserted (fun ev => ev_comment ev = pc_c c /\ ev_start ev <= c_line (pc_c c) <= ev_end ev)
             (events_of (director_groups (parse (erraw c raw') body)))
             (events_of (director_groups (parse raw' body))) Ad.
Proof. exact parse_trailing_inserted. Qed.
Print Assumptions parser_trailing_comment_inserted_partial.

(* Return lines (used to tell implicit from explicit returns) are exactly the linenos of the Return nodes,
   in visiting order; function ranges are exactly the dict built from (first decorator line or def line,
   end_lineno) of every (Async)FunctionDef in visiting order (a later def with the same start overwrites). *)
Theorem parser_return_lines_exact : forall raw body,
  v_returns (parse raw body) = flat_map returns_of body.
Proof. exact parse_returns. Qed.
Print Assumptions parser_return_lines_exact.

Theorem parser_function_ranges_exact : forall raw body,
  v_fr (parse raw body) = dict_of (flat_map funcs_of body).
Proof. exact parse_fr. Qed.
Print Assumptions parser_function_ranges_exact.

(* "A comment lands in the group of the statement whose lines contain it" is REFUTED as stated: two
   statements sharing a physical line —  x = (1,        line 1
                                          2); y = (3,   line 2   # pytype: disable=E
                                          4)            line 3
   the comment follows tokens of the second statement (lines 2-3) but is grouped under the first (1-2),
   because the first request that contains the comment's line absorbs its single-line group. *)
Definition pcm (l : Z) (b : cbody) (o : bool) (d : N) : pcomment := mkPC (mkC l b o) d.
Definition semi_raw : rawmap := [(2, [pcm 2 (Pytype [CDisable [witness_class]]) false 0])].
Definition semi_body : list node := [NStmt 1 2 []; NStmt 2 3 []].
Theorem parser_comment_in_own_statement_refuted :
  raw_ok semi_raw /\
  map (fun kv => (k_s (fst kv), k_e (fst kv), length (snd kv))) (v_groups (parse semi_raw semi_body)) =
  [(1, 2, 1%nat); (2, 3, 0%nat)].
Proof. split; [simpl; repeat split; try constructor; auto; reflexivity | vm_compute; reflexivity]. Qed.
Print Assumptions parser_comment_in_own_statement_refuted.

(* non-vacuity: a decorated function with a multi-line signature, a multi-line call inside a multi-line
   statement with directives on two of its lines, a with block with a return, a stand-alone directive
     1  # pytype: disable=E0          (stand-alone)
     2  @deco(1,   # type: ignore
     3        2)
     4  def f(a,   # pytype: disable=E0
     5        b):
     6    with cm() as w:
     7      return g(1,   # pytype: disable=E0
     8               h(2),  # pytype: enable=E0
     9               3)                                                                          *)
Definition ex_raw : rawmap :=
  [(1, [pcm 1 (Pytype [CDisable [witness_class]]) true 0]);
   (2, [pcm 2 TypeIgnore false 1]);
   (4, [pcm 4 (Pytype [CDisable [witness_class]]) false 0]);
   (7, [pcm 7 (Pytype [CDisable [witness_class]]) false 0]);
   (8, [pcm 8 (Pytype [CEnable [witness_class]]) false 2])].
Definition ex_body : list node :=
  [NFunc (mkF 4 9 None (Some 5) 6 [(2, 3)])
     [NCall 2 3 [];
      NWith 6 9 (Some 6) 6 [NCall 6 6 []; NReturn 7 9 [NCall 7 9 [NCall 8 8 []]]]]].
Example parser_inserted_example :
  let c := pcm 8 (Pytype [CEnable [witness_class]]) false 2 in
  pc_open c = false /\
  (forall x, In x (all_comments ex_raw) -> pc_eqb x c = true -> pc_c x = pc_c c) /\
  length (events_of (director_groups (parse ex_raw ex_body))) = 9%nat /\
  length (events_of (director_groups (parse (erraw c ex_raw) ex_body))) = 6%nat.
Proof.
  split; [reflexivity|]. split; [|vm_compute; split; reflexivity].
  intros x I E. vm_compute in I.
  repeat (destruct I as [<-|I]; [try discriminate E; try reflexivity|]); contradiction.
Qed.

Example parser_example :
  raw_ok ex_raw /\
  map (fun kv => (k_call (fst kv), k_s (fst kv), k_e (fst kv), map pc_line (snd kv)))
      (v_groups (parse ex_raw ex_body)) =
  [(false, 1, 1, [1]); (false, 2, 3, [2]); (true, 2, 3, [2]); (false, 4, 5, [4]);
   (false, 7, 9, [7; 8]); (true, 7, 9, [7; 8]); (true, 8, 8, [8])] /\
  v_fr (parse ex_raw ex_body) = [(2, 9)] /\ v_returns (parse ex_raw ex_body) = [7] /\
  block_returns (parse ex_raw ex_body) = [(6, [7])] /\
  In (7, 9) (flat_map calls_of ex_body) /\ In (7, 9) (flat_map (reqs_of ex_raw) ex_body) /\
  In (2, 3) (flat_map (reqs_of ex_raw) ex_body) /\ In (4, 5) (flat_map (reqs_of ex_raw) ex_body) /\ base_disjoint (v_groups (parse ex_raw ex_body)).
Proof.
  split; [simpl; repeat split; try constructor; auto; reflexivity|].
  split; [vm_compute; reflexivity|]. split; [vm_compute; reflexivity|]. split; [vm_compute; reflexivity|].
  split; [vm_compute; reflexivity|]. split; [vm_compute; auto 10|]. split; [vm_compute; auto 10|].
  split; [vm_compute; auto 10|]. split; [vm_compute; auto 10|]. apply base_disjointb_sound. vm_compute. reflexivity.
Qed.

(* ==== source level: parser model followed by the Director model ======================================
   The guarantee quoted in directors.py with NO hypothesis about the parser's output left: for any tree and any
   comment map, a trailing "# pytype: disable=E" anywhere in the file filters every error of class E reported
   on its line, provided the file has no trailing enable=E (the side condition shown necessary above). *)
Theorem source_trailing_disable_silences : forall g raw body c L E st rl e l0 lr,
  raw_ok raw -> In c (all_comments raw) -> pc_c c = trailing_disable L E ->
  accepted_name E = true ->
  Forall (fun ev => trailing_enable_of E (ev_comment ev) = false)
         (events_of (director_groups (parse raw body))) ->
  build g (v_fr (parse raw body)) (director_groups (parse raw body)) = Ok st ->
  e_same_file e = true -> e_line e = Some l0 -> e_name e = E ->
  reported_line st rl e l0 = Ok lr -> eff_line lr = L ->
  filter_error st rl e = Ok (false, Some lr).
Proof. exact PV.Directors.ParserE2E.source_trailing_disable_silences. Qed.
Print Assumptions source_trailing_disable_silences.

Definition src_raw : rawmap := [(5, [pcm 5 (Pytype [CDisable [witness_class]]) false 0])].
Example source_example :
  raw_ok src_raw /\
  Forall (fun ev => trailing_enable_of witness_class (ev_comment ev) = false)
         (events_of (director_groups (parse src_raw ex_body))) /\
  map (fun l => verdict_src [] src_raw ex_body (same_file_err l witness_class false)) [3; 4; 5; 6] =
  [Ok (true, Some 3); Ok (false, Some 4); Ok (false, Some 5); Ok (true, Some 6)].
Proof.
  split; [simpl; repeat split; try constructor; auto; reflexivity|].
  split; [vm_compute; repeat constructor | vm_compute; reflexivity].
Qed.

(* ==== the error log (pytype/errors/errors.py ErrorLog + the wiring in vm.run_program) ==================
   Model: Directors/ErrorLog.v.  A history is any list of log operations: _add (every logging method),
   error(line=...), checkpoint / revert (nested), copy_from (of the latest record or of any list),
   set_error_filter.  [accepted f e]: e was let through by f and carries the line f gave it. *)

(* Invariant over every history: once a filter is installed (and not replaced), every error in the log was
   either there before or was accepted by the filter — whatever checkpoints, reverts and copies happen. *)
Theorem log_filter_invariant : forall f errs cps rec ops st,
  no_setfilter ops -> run (mkL errs (Some f) cps rec) ops = Ok st ->
  Forall (fun e => In e errs \/ accepted f e) (l_errors st).
Proof. exact log_invariant_lemma. Qed.
Print Assumptions log_filter_invariant.

(* vm.run_program: Director.__init__ logs [pre] (no filter yet), set_error_filter(director.filter_error),
   then the analysis [post].  Every error of the final report that the Director did not log itself satisfies
   the Director's filter for (its final line, its class): other file / no line / in none of the line sets. *)
Theorem final_report_satisfies_filter : forall st rl pre post lst,
  no_setfilter post -> run l_empty (program_history pre (filter_error st rl) post) = Ok lst ->
  Forall (fun e => In e pre \/ clear_of st e) (l_errors lst).
Proof. exact final_report_clear_lemma. Qed.
Print Assumptions final_report_satisfies_filter.

(* REFUTED without the "In e pre" escape: an error logged while the Director is constructed (invalid-directive,
   late-directive, ignored-type-comment of _process_type) stays in the report although the filter rejects it. *)
Theorem final_report_satisfies_filter_refuted :
  exists D st e lst,
    build_events [] [] D = Ok st /\
    run l_empty (program_history [e] (filter_error st []) []) = Ok lst /\
    In e (l_errors lst) /\ e_same_file e = true /\
    filter_error st [] e = Ok (false, e_line e).
Proof. exact prefilter_escape_lemma. Qed.
Print Assumptions final_report_satisfies_filter_refuted.

(* [source_trailing_disable_silences] lifted from "the Director says filtered" to "absent from the final
   report": for any tree, comment map and analysis history, no error of class E on line L that the analysis
   logs reaches the report when the file has a trailing disable=E on L (and no trailing enable=E). *)
Theorem source_trailing_disable_absent_from_report : forall g raw body c L E st rl pre post lst,
  raw_ok raw -> In c (all_comments raw) -> pc_c c = trailing_disable L E ->
  accepted_name E = true ->
  Forall (fun ev => trailing_enable_of E (ev_comment ev) = false)
         (events_of (director_groups (parse raw body))) ->
  build g (v_fr (parse raw body)) (director_groups (parse raw body)) = Ok st ->
  no_setfilter post ->
  run l_empty (program_history pre (filter_error st rl) post) = Ok lst ->
  Forall (fun e => In e pre \/ ~ is_target L E e) (l_errors lst).
Proof. exact source_report_silenced_lemma. Qed.
Print Assumptions source_trailing_disable_absent_from_report.

(* "... and every other reported error unchanged": the same history under a filter f' that only additionally
   rejects errors in tgt gives the same log minus tgt elements — positions of checkpoints shift, records
   shrink, copies are re-filtered — PROVIDED every record that is copied holds only errors of other files
   (eval_expr compiles the annotation without a filename; monitored on every real run). *)
Theorem report_frame_partial : forall tgt f f' a a' rec ops st st',
  (forall e, tgt e = true -> e_same_file e = true) -> narrows tgt f f' ->
  dropped tgt a' a -> no_setfilter ops -> copies_foreign (mkS a [] (Some f) rec) ops ->
  run (mkL a (Some f) [] rec) ops = Ok st -> run (mkL a' (Some f') [] rec) ops = Ok st' ->
  dropped tgt (l_errors st') (l_errors st) /\
  filter (fun e => negb (tgt e)) (l_errors st') = filter (fun e => negb (tgt e)) (l_errors st).
Proof.
  intros. assert (dropped tgt (l_errors st') (l_errors st)) by (eapply report_frame_lemma; eauto).
  split; [assumption|apply dropped_filter; assumption].
Qed.
Print Assumptions report_frame_partial.

(* the hypothesis is necessary: an error of this file recorded under a checkpoint and copied elsewhere
   disappears together with its original although the copy is not in tgt *)
Theorem report_frame_refuted :
  (forall e, wt e = true -> e_same_file e = true) /\ narrows wt wf wf' /\ no_setfilter wops /\
  exists st st', run (mkL [] (Some wf) [] []) wops = Ok st /\ run (mkL [] (Some wf') [] []) wops = Ok st' /\
    l_errors st = [mkErr true (Some 9) 1%N false] /\ l_errors st' = [] /\
    wt (mkErr true (Some 9) 1%N false) = false /\ ~ dropped wt (l_errors st') (l_errors st).
Proof. exact frame_copy_refuted_lemma. Qed.
Print Assumptions report_frame_refuted.

(* one list + remembered positions (what errors.py does) = a stack of segments, on every history *)
Theorem errorlog_positions_are_segments : forall ops st ss st1, repr st ss -> run st ops = Ok st1 ->
  exists ss1, srun ss ops = Ok ss1 /\ repr st1 ss1.
Proof. exact run_srun. Qed.
Print Assumptions errorlog_positions_are_segments.

(* non-vacuity: a history with everything in it, under the Director of [D_after] (lines 3-5 silenced for E0):
   a pre-filter error on a silenced line stays; an error on line 6 is kept, one on line 4 is not; a checkpoint
   records a foreign error and a same-file one on line 4 (filtered on entry), revert, copy to line 6 and 5 *)
Example log_history_example :
  exists st, build_events [other] [(1, 1)] D_after = Ok st /\
  let f := filter_error st [] in
  let e l := same_file_err l E0 false in
  let foreign := mkErr false (Some 1) E0 false in
  let post := [LAdd (e 6); LAdd (e 4); LCheckpoint; LAdd foreign; LAdd (e 4); LCheckpoint; LAdd (e 6); LRevert;
               LRevert; LCopyRec (mkP true 6 false); LCopyRec (mkP true 5 false); LAddAt (e 6) 3; LAddAt (e 3) 0;
               LAddAt (e 3) 6] in
  balanced 0 post = true /\ no_setfilter post /\ copies_foreignb (mkS [e 4] [] (Some f) []) post = true /\
  exists lst, run l_empty (program_history [e 4] f post) = Ok lst /\
              l_errors lst = [e 4; e 6; e 6; e 6] /\ l_rec lst = [foreign].
Proof.
  eexists. split; [vm_compute; reflexivity|]. split; [reflexivity|]. split; [repeat constructor|].
  split; [vm_compute; reflexivity|]. eexists. split; [vm_compute; reflexivity|]. split; reflexivity.
Qed.
