(* C14 -- errors on fully known code are real, and plain type mistakes are caught.
   Property theorems only; each is closed by [exact] and followed by Print Assumptions.

   PY UT / RT UR : the class table made of this run's REGENERATED builtin rows (py_rows: what pytype's loader,
   attribute handler, PyTDFunction.call and matcher answer over builtins.pytd; rt_rows: what CPython answers)
   and an ARBITRARY user part (any number of classes, any inheritance, any subset of dunders, any instance
   attributes).  user_class_ok UR UT u says that class u is the same class definition on both sides: same
   lookup chain (user classes, then object), same defined names and __init__ assignments along it, and each of
   its definitions is at run time at most as permissive as pytype's view of it (an unannotated def accepts
   every argument; at run time it may answer NotImplemented).
   Names are ids: 2i / 2i+1 = forward / reflected dunder of the i-th binary operator of + - * / // % ** << >>
   & | ^, 24 __getitem__, 25 __neg__, 26 __call__, >= 28 attribute names.
   The explicit exclusions excl_fp_* / excl_mc_bin (coq/Ops/Model.v) are the listed findings F1..F5. *)
From Coq Require Import List Bool PeanoNat.
From PV Require Import Ops.Model Generated.C14_Builtins Ops.Proofs Ops.Closed.
Import ListNotations.

(* The closed obligations over the regenerated builtin rows, re-decided by vm_compute on every run:
   no-false-positive side ... *)
Theorem builtin_tables_faithful :
  shape_ok py_rows rt_rows = true /\ pair_faithful py_rows rt_rows = true /\
  ucol_faithful py_rows rt_rows = true /\ obj_faithful py_rows rt_rows = true /\
  unary_faithful py_rows rt_rows = true.
Proof.
  exact (conj shape_ok_holds (conj pair_faithful_holds (conj ucol_faithful_holds
        (conj obj_faithful_holds unary_faithful_holds)))).
Qed.
Print Assumptions builtin_tables_faithful.

(* ... and mistake-caught side (refl_closed: pytype also tries the reflected dunder on operands of one class) *)
Theorem builtin_tables_complete :
  pair_caught py_rows rt_rows = true /\ presence_caught py_rows rt_rows = true /\
  obj_complete py_rows rt_rows = true /\ refl_closed py_rows = true.
Proof.
  exact (conj pair_caught_holds (conj presence_caught_holds (conj obj_complete_holds refl_closed_holds))).
Qed.
Print Assumptions builtin_tables_complete.

(* General form: for ANY pair of builtin tables that pass the closed checks and any user part, an error of
   pytype's binary-operator / subscript dispatch is an error of CPython's. *)
Theorem reported_is_real_general : forall (rowsT rowsR : list brow) (UT UR : table) x n y,
  shape_ok rowsT rowsR = true -> pair_faithful rowsT rowsR = true ->
  ucol_faithful rowsT rowsR = true -> obj_faithful rowsT rowsR = true ->
  user_ok (length rowsT) UR UT x -> user_ok (length rowsT) UR UT y ->
  In n binop_names -> excl_fp_bin x n y = false ->
  binop_py (mk_table rowsT UT) x n y = Err -> binop_c (mk_table rowsR UR) x n y = Err.
Proof. exact reported_is_real_lemma. Qed.
Print Assumptions reported_is_real_general.

(* No false positive, binary operators and subscript, on this run's tables. *)
Theorem reported_is_real : forall (UT UR : table) x n y,
  user_class_ok UR UT x -> user_class_ok UR UT y ->
  In n binop_names -> excl_fp_bin x n y = false ->
  binop_py (PY UT) x n y = Err -> binop_c (RT UR) x n y = Err.
Proof. exact reported_is_real_inst. Qed.
Print Assumptions reported_is_real.

(* No false positive, attribute access x.n and method call x.n() (builtin heads: public names, minus F2/F3). *)
Theorem attr_reported_is_real : forall (UT UR : table) x n,
  user_class_ok UR UT x -> in_scope_fp rt_rows x n = true ->
  (attr (PY UT) x n = Err -> attr (RT UR) x n = Err) /\
  (mcall (PY UT) x n = Err -> mcall (RT UR) x n = Err).
Proof. exact attr_reported_is_real_inst. Qed.
Print Assumptions attr_reported_is_real.

(* No false positive, call x() and unary minus -x. *)
Theorem call_reported_is_real : forall (UT UR : table) x,
  user_class_ok UR UT x ->
  (call (PY UT) x = Err -> call (RT UR) x = Err) /\ (neg (PY UT) x = Err -> neg (RT UR) x = Err).
Proof. exact call_reported_is_real_inst. Qed.
Print Assumptions call_reported_is_real.

(* The advertised mistakes: + - * / and subscript between builtin values (minus F4/F5) ... *)
Theorem mistake_caught : forall (UT UR : table) x n y,
  x < c14_nb -> y < c14_nb -> In n advertised_names -> excl_mc_bin x n y = false ->
  binop_c (RT UR) x n y = Err -> binop_py (PY UT) x n y = Err.
Proof. exact mistake_caught_inst. Qed.
Print Assumptions mistake_caught.

(* ... unary minus on a builtin value ... *)
Theorem neg_mistake_caught : forall (UT UR : table) x,
  x < c14_nb -> neg (RT UR) x = Err -> neg (PY UT) x = Err.
Proof. exact neg_mistake_caught_inst. Qed.
Print Assumptions neg_mistake_caught.

(* ... a missing attribute or method on a builtin (public names) or user-class (any name) instance ... *)
Theorem missing_attr_caught : forall (UT UR : table) x n,
  user_class_ok UR UT x -> (c14_nb <=? x) || (N_NEG <=? n) = true ->
  attr (RT UR) x n = Err -> attr (PY UT) x n = Err /\ mcall (PY UT) x n = Err.
Proof. exact missing_attr_caught_inst. Qed.
Print Assumptions missing_attr_caught.

(* ... and calling a non-callable. *)
Theorem noncallable_caught : forall (UT UR : table) x,
  user_class_ok UR UT x -> lookup (RT UR) x N_CALL = None -> call (PY UT) x = Err.
Proof. exact noncallable_caught_inst. Qed.
Print Assumptions noncallable_caught.

(* ------------------------------------------------------------------------------------------ *)
(* Non-vacuity: three user classes
     class A:            def __add__(self, o) ...; def __getitem__(self, k) ...; a200 = 0; def m201(self) ...
                         def __init__(self): self.i202 = 0
     class B(A):         def __radd__(self, o) ...
     class F:            def __add__(self, o): return NotImplemented
   satisfy the hypothesis, and the models give the expected verdicts on them and on builtin values. *)
Definition ex_py : table := user_table c14_nb [
  user_cls 14 [14; 0] [(0, (false, acc_all)); (24, (false, acc_all)); (200, (false, acc_all)); (201, (true, acc_all))]
           (Some [202]);
  user_cls 15 [15; 14; 0] [(1, (false, acc_all))] None;
  user_cls 16 [16; 0] [(0, (false, acc_all))] None].
Definition ex_rt : table := user_table c14_nb [
  user_cls 14 [14; 0] [(0, (false, acc_all)); (24, (false, acc_all)); (200, (false, acc_all)); (201, (true, acc_all))]
           (Some [202]);
  user_cls 15 [15; 14; 0] [(1, (false, acc_all))] None;
  user_cls 16 [16; 0] [(0, (false, acc_only []))] None].

Ltac own_sim_tac :=
  let n := fresh "n" in
  intros n; unfold opt_sim, entry_le; cbn -[Nat.eqb];
  repeat match goal with |- context [?a =? n] => destruct (a =? n); cbn -[Nat.eqb] end;
  auto; split; auto; intros; discriminate.

Ltac inst_sim_tac :=
  unfold inst_sim; cbn -[Nat.eqb]; try exact I;
  let n := fresh "n" in
  intros n; unfold opt_sim, entry_le; cbn -[Nat.eqb];
  repeat match goal with |- context [?a =? n] => destruct (a =? n); cbn -[Nat.eqb] end; auto.

Example ex_hyp : user_class_ok ex_rt ex_py 14 /\ user_class_ok ex_rt ex_py 15 /\ user_class_ok ex_rt ex_py 16.
Proof.
  unfold user_class_ok, user_ok, c14_nb. split; [|split].
  - intros _. split; [reflexivity|]. split.
    + exists [14]. split; [reflexivity|repeat constructor].
    + intros k Hin Hk. simpl in Hin. destruct Hin as [<-|[<-|[]]]; [|exfalso; apply (Nat.nle_succ_0 _ Hk)]. split; [own_sim_tac|inst_sim_tac].
  - intros _. split; [reflexivity|]. split.
    + exists [15; 14]. split; [reflexivity|repeat constructor].
    + intros k Hin Hk. simpl in Hin. destruct Hin as [<-|[<-|[<-|[]]]]; [| |exfalso; apply (Nat.nle_succ_0 _ Hk)];
        (split; [own_sim_tac|inst_sim_tac]).
  - intros _. split; [reflexivity|]. split.
    + exists [16]. split; [reflexivity|repeat constructor].
    + intros k Hin Hk. simpl in Hin. destruct Hin as [<-|[<-|[]]]; [|exfalso; apply (Nat.nle_succ_0 _ Hk)]. split; [own_sim_tac|inst_sim_tac].
Qed.

Example ex_verdicts :
  (* 1 + "a" : error on both sides;  1 + 1.5 : fine on both *)
  binop_py (PY ex_py) C_INT N_ADD C_STR = Err /\ binop_c (RT ex_rt) C_INT N_ADD C_STR = Err /\
  is_err (binop_py (PY ex_py) C_INT N_ADD C_FLOAT) = false /\ is_err (binop_c (RT ex_rt) C_INT N_ADD C_FLOAT) = false /\
  (* A() + B() : B.__radd__ first on both sides (B overrides __radd__ below A) *)
  binop_py (PY ex_py) 14 N_ADD 15 = Ok 15 1 /\ binop_c (RT ex_rt) 14 N_ADD 15 = Ok 15 1 /\
  (* 1 + B() : int.__add__ rejects, B.__radd__ answers;  B() + 1 : A.__add__ inherited *)
  binop_py (PY ex_py) C_INT N_ADD 15 = Ok 15 1 /\ binop_c (RT ex_rt) 15 N_ADD C_INT = Ok 14 0 /\
  (* F() + 1 : TypeError at run time, not reported (user classes are not in the advertised part) *)
  binop_c (RT ex_rt) 16 N_ADD C_INT = Err /\ binop_py (PY ex_py) 16 N_ADD C_INT = Ok 16 0 /\
  (* -"a", "a"(), B().i202, B().m201(), B().a200(), B()[1], None | None *)
  neg (PY ex_py) C_STR = Err /\ call (PY ex_py) C_STR = Err /\
  attr (PY ex_py) 15 202 = Ok 14 202 /\ mcall (PY ex_py) 15 201 = Ok 14 201 /\ mcall (RT ex_rt) 15 200 = Err /\
  binop_py (PY ex_py) 15 N_GETITEM C_INT = Ok 14 24 /\
  binop_py (PY ex_py) C_NONE N_OR C_NONE = OkUnion /\ binop_c (RT ex_rt) C_NONE N_OR C_NONE = Err.
Proof. vm_compute. repeat split; reflexivity. Qed.
