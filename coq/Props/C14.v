(* C14 -- errors on fully known code are real, and plain type mistakes are caught.
   Property theorems only; each is closed by [exact] and followed by Print Assumptions.

   PY UT / RT UR : the class table made of this run's REGENERATED builtin rows (py_rows: what pytype's loader,
   attribute handler, PyTDFunction.call and matcher answer over builtins.pytd; rt_rows: what CPython answers)
   and an ARBITRARY user part (any number of classes, any inheritance, any subset of dunders, any instance
   attributes).  user_class_ok UR UT u says that class u is the same class definition on both sides: same
   lookup chain (user classes, then object), same defined names and __init__ assignments along it, and each of
   its definitions is at run time at most as permissive as pytype's view of it (an unannotated def accepts
   every argument; at run time it may answer NotImplemented).
   Names are ids: 2i / 2i+1 = forward / reflected dunder of the i-th binary operator of + - * / // % ** << >>
   & | ^, 24 __getitem__, 25 __neg__, 26 __call__, >= 28 attribute names.
   The explicit exclusions excl_fp_* / excl_mc_bin (coq/Ops/Model.v) are the listed findings F1..F5.
   Extension (coq/Ops/Ext.v; second half of this file): 30..35 __lt__ __le__ __gt__ __ge__ __eq__ __ne__,
   36 __contains__, 37+i the in-place dunder of operator i, 49 __pos__, 50 __invert__, 51 __bool__, 52 __len__,
   53 __iter__, 54 __setitem__, 55 __delitem__; NATIVE = what compare.cmp_rel answers before any dunder is looked up (observed on the real VM and
   regenerated), HARD = the builtin in-place dunders whose rejection ends the operation (observed under CPython). *)
From Coq Require Import List Bool PeanoNat.
From PV Require Import Ops.Model Generated.C14_Builtins Ops.Proofs Ops.Closed.
From PV Require Import Ops.Ext Ops.ExtProofs Ops.ExtClosed.
Import ListNotations.

(* The closed obligations over the regenerated builtin rows, re-decided by vm_compute on every run:
   no-false-positive side ... *)
Theorem builtin_tables_faithful :
  shape_ok py_rows rt_rows = true /\ pair_faithful py_rows rt_rows = true /\
  ucol_faithful py_rows rt_rows = true /\ obj_faithful py_rows rt_rows = true /\
  unary_faithful py_rows rt_rows = true.
Proof.
  exact (conj shape_ok_holds (conj pair_faithful_holds (conj ucol_faithful_holds
        (conj obj_faithful_holds unary_faithful_holds)))).
Qed.
Print Assumptions builtin_tables_faithful.

(* ... and mistake-caught side (refl_closed: pytype also tries the reflected dunder on operands of one class) *)
Theorem builtin_tables_complete :
  pair_caught py_rows rt_rows = true /\ presence_caught py_rows rt_rows = true /\
  obj_complete py_rows rt_rows = true /\ refl_closed py_rows = true.
Proof.
  exact (conj pair_caught_holds (conj presence_caught_holds (conj obj_complete_holds refl_closed_holds))).
Qed.
Print Assumptions builtin_tables_complete.

(* General form: for ANY pair of builtin tables that pass the closed checks and any user part, an error of
   pytype's binary-operator / subscript dispatch is an error of CPython's. *)
Theorem reported_is_real_general : forall (rowsT rowsR : list brow) (UT UR : table) x n y,
  shape_ok rowsT rowsR = true -> pair_faithful rowsT rowsR = true ->
  ucol_faithful rowsT rowsR = true -> obj_faithful rowsT rowsR = true ->
  user_ok (length rowsT) UR UT x -> user_ok (length rowsT) UR UT y ->
  In n binop_names -> excl_fp_bin x n y = false ->
  binop_py (mk_table rowsT UT) x n y = Err -> binop_c (mk_table rowsR UR) x n y = Err.
Proof. exact reported_is_real_lemma. Qed.
Print Assumptions reported_is_real_general.

(* No false positive, binary operators and subscript, on this run's tables. *)
Theorem reported_is_real : forall (UT UR : table) x n y,
  user_class_ok UR UT x -> user_class_ok UR UT y ->
  In n binop_names -> excl_fp_bin x n y = false ->
  binop_py (PY UT) x n y = Err -> binop_c (RT UR) x n y = Err.
Proof. exact reported_is_real_inst. Qed.
Print Assumptions reported_is_real.

(* No false positive, attribute access x.n and method call x.n() (builtin heads: public names, minus F2/F3). *)
Theorem attr_reported_is_real : forall (UT UR : table) x n,
  user_class_ok UR UT x -> in_scope_fp rt_rows x n = true ->
  (attr (PY UT) x n = Err -> attr (RT UR) x n = Err) /\
  (mcall (PY UT) x n = Err -> mcall (RT UR) x n = Err).
Proof. exact attr_reported_is_real_inst. Qed.
Print Assumptions attr_reported_is_real.

(* No false positive, call x() and unary minus -x. *)
Theorem call_reported_is_real : forall (UT UR : table) x,
  user_class_ok UR UT x ->
  (call (PY UT) x = Err -> call (RT UR) x = Err) /\ (neg (PY UT) x = Err -> neg (RT UR) x = Err).
Proof. exact call_reported_is_real_inst. Qed.
Print Assumptions call_reported_is_real.

(* The advertised mistakes: + - * / and subscript between builtin values (minus F4/F5) ... *)
Theorem mistake_caught : forall (UT UR : table) x n y,
  x < c14_nb -> y < c14_nb -> In n advertised_names -> excl_mc_bin x n y = false ->
  binop_c (RT UR) x n y = Err -> binop_py (PY UT) x n y = Err.
Proof. exact mistake_caught_inst. Qed.
Print Assumptions mistake_caught.

(* ... unary minus on a builtin value ... *)
Theorem neg_mistake_caught : forall (UT UR : table) x,
  x < c14_nb -> neg (RT UR) x = Err -> neg (PY UT) x = Err.
Proof. exact neg_mistake_caught_inst. Qed.
Print Assumptions neg_mistake_caught.

(* ... a missing attribute or method on a builtin (public names) or user-class (any name) instance ... *)
Theorem missing_attr_caught : forall (UT UR : table) x n,
  user_class_ok UR UT x -> (c14_nb <=? x) || ((N_NEG <=? n) && negb (is_new n)) = true ->
  attr (RT UR) x n = Err -> attr (PY UT) x n = Err /\ mcall (PY UT) x n = Err.
Proof. exact missing_attr_caught_inst. Qed.
Print Assumptions missing_attr_caught.

(* ... and calling a non-callable. *)
Theorem noncallable_caught : forall (UT UR : table) x,
  user_class_ok UR UT x -> lookup (RT UR) x N_CALL = None -> call (PY UT) x = Err.
Proof. exact noncallable_caught_inst. Qed.
Print Assumptions noncallable_caught.

(* ------------------------------------------------------------------------------------------ *)
(* Non-vacuity: three user classes
     class A:            def __add__(self, o) ...; def __getitem__(self, k) ...; a200 = 0; def m201(self) ...
                         def __init__(self): self.i202 = 0
     class B(A):         def __radd__(self, o) ...
     class F:            def __add__(self, o): return NotImplemented
   satisfy the hypothesis, and the models give the expected verdicts on them and on builtin values. *)
Definition ex_py : table := user_table c14_nb [
  user_cls 14 [14; 0] [(0, (false, acc_all)); (24, (false, acc_all)); (200, (false, acc_all)); (201, (true, acc_all))]
           (Some [202]);
  user_cls 15 [15; 14; 0] [(1, (false, acc_all))] None;
  user_cls 16 [16; 0] [(0, (false, acc_all))] None].
Definition ex_rt : table := user_table c14_nb [
  user_cls 14 [14; 0] [(0, (false, acc_all)); (24, (false, acc_all)); (200, (false, acc_all)); (201, (true, acc_all))]
           (Some [202]);
  user_cls 15 [15; 14; 0] [(1, (false, acc_all))] None;
  user_cls 16 [16; 0] [(0, (false, acc_only []))] None].

Ltac own_sim_tac :=
  let n := fresh "n" in
  intros n; unfold opt_sim, entry_le; cbn -[Nat.eqb];
  repeat match goal with |- context [?a =? n] => destruct (a =? n); cbn -[Nat.eqb] end;
  auto; split; auto; intros; discriminate.

Ltac inst_sim_tac :=
  unfold inst_sim; cbn -[Nat.eqb]; try exact I;
  let n := fresh "n" in
  intros n; unfold opt_sim, entry_le; cbn -[Nat.eqb];
  repeat match goal with |- context [?a =? n] => destruct (a =? n); cbn -[Nat.eqb] end; auto.

Example ex_hyp : user_class_ok ex_rt ex_py 14 /\ user_class_ok ex_rt ex_py 15 /\ user_class_ok ex_rt ex_py 16.
Proof.
  unfold user_class_ok, user_ok, c14_nb. split; [|split].
  - intros _. split; [reflexivity|]. split.
    + exists [14]. split; [reflexivity|repeat constructor].
    + intros k Hin Hk. simpl in Hin. destruct Hin as [<-|[<-|[]]]; [|exfalso; apply (Nat.nle_succ_0 _ Hk)]. split; [own_sim_tac|inst_sim_tac].
  - intros _. split; [reflexivity|]. split.
    + exists [15; 14]. split; [reflexivity|repeat constructor].
    + intros k Hin Hk. simpl in Hin. destruct Hin as [<-|[<-|[<-|[]]]]; [| |exfalso; apply (Nat.nle_succ_0 _ Hk)];
        (split; [own_sim_tac|inst_sim_tac]).
  - intros _. split; [reflexivity|]. split.
    + exists [16]. split; [reflexivity|repeat constructor].
    + intros k Hin Hk. simpl in Hin. destruct Hin as [<-|[<-|[]]]; [|exfalso; apply (Nat.nle_succ_0 _ Hk)]. split; [own_sim_tac|inst_sim_tac].
Qed.

Example ex_verdicts :
  (* 1 + "a" : error on both sides;  1 + 1.5 : fine on both *)
  binop_py (PY ex_py) C_INT N_ADD C_STR = Err /\ binop_c (RT ex_rt) C_INT N_ADD C_STR = Err /\
  is_err (binop_py (PY ex_py) C_INT N_ADD C_FLOAT) = false /\ is_err (binop_c (RT ex_rt) C_INT N_ADD C_FLOAT) = false /\
  (* A() + B() : B.__radd__ first on both sides (B overrides __radd__ below A) *)
  binop_py (PY ex_py) 14 N_ADD 15 = Ok 15 1 /\ binop_c (RT ex_rt) 14 N_ADD 15 = Ok 15 1 /\
  (* 1 + B() : int.__add__ rejects, B.__radd__ answers;  B() + 1 : A.__add__ inherited *)
  binop_py (PY ex_py) C_INT N_ADD 15 = Ok 15 1 /\ binop_c (RT ex_rt) 15 N_ADD C_INT = Ok 14 0 /\
  (* F() + 1 : TypeError at run time, not reported (user classes are not in the advertised part) *)
  binop_c (RT ex_rt) 16 N_ADD C_INT = Err /\ binop_py (PY ex_py) 16 N_ADD C_INT = Ok 16 0 /\
  (* -"a", "a"(), B().i202, B().m201(), B().a200(), B()[1], None | None *)
  neg (PY ex_py) C_STR = Err /\ call (PY ex_py) C_STR = Err /\
  attr (PY ex_py) 15 202 = Ok 14 202 /\ mcall (PY ex_py) 15 201 = Ok 14 201 /\ mcall (RT ex_rt) 15 200 = Err /\
  binop_py (PY ex_py) 15 N_GETITEM C_INT = Ok 14 24 /\
  binop_py (PY ex_py) C_NONE N_OR C_NONE = OkUnion /\ binop_c (RT ex_rt) C_NONE N_OR C_NONE = Err.
Proof. vm_compute. repeat split; reflexivity. Qed.

(* ========================================================================================== *)
(* Extension: comparison operators, membership tests, in-place operators, +x ~x not x.
   None of them is among the mistakes pytype advertises (property text, 2nd sentence), so there is no
   mistake_caught theorem for them; the *_missed examples below record that such mistakes are indeed not all
   reported. *)

(* The closed obligations over the regenerated rows / native-comparison table / hard in-place table. *)
Theorem ext_tables_faithful :
  cmp_pair_faithful py_rows rt_rows native_tbl = true /\ iop_pair_faithful py_rows rt_rows rt_hard = true /\
  in_pair_faithful py_rows rt_rows = true /\ store_pair_faithful py_rows rt_rows = true /\
  un_faithful py_rows rt_rows = true /\
  ucol2_faithful py_rows rt_rows = true /\ rt_cmp_rejects_users rt_rows = true /\
  native_user_ok native_tbl (length py_rows) = true /\ py_cmp_accepts_users py_rows = true /\
  contains_presence py_rows rt_rows = true.
Proof.
  exact (conj cmp_pair_faithful_holds (conj iop_pair_faithful_holds (conj in_pair_faithful_holds
        (conj store_pair_faithful_holds (conj un_faithful_holds (conj ucol2_faithful_holds (conj rt_cmp_rejects_users_holds
        (conj native_user_ok_holds (conj py_cmp_accepts_users_holds contains_presence_holds))))))))).
Qed.
Print Assumptions ext_tables_faithful.

(* General form of the comparison theorem: any tables that pass the closed checks, any user part. *)
Theorem cmp_reported_is_real_general : forall rowsT rowsR ntbl UT UR x n y,
  shape_ok rowsT rowsR = true -> cmp_pair_faithful rowsT rowsR ntbl = true ->
  ucol2_faithful rowsT rowsR = true -> obj_faithful rowsT rowsR = true ->
  rt_cmp_rejects_users rowsR = true -> native_user_ok ntbl (length rowsT) = true ->
  py_cmp_accepts_users rowsT = true ->
  user_ok (length rowsT) UR UT x -> user_ok (length rowsT) UR UT y ->
  In n cmp_names ->
  (length rowsT <= x -> length rowsT <= y -> succ (mk_table rowsR UR) y x (swapped n) = false) ->
  cmp_py (mk_table rowsT UT) (native_of ntbl (length rowsT)) x n y = Err ->
  cmp_c (mk_table rowsR UR) x n y = Err.
Proof. exact cmp_reported_is_real_lemma. Qed.
Print Assumptions cmp_reported_is_real_general.

(* No false positive on x < y, x <= y, x > y, x >= y, x == y, x != y.  PARTIAL: when BOTH operands are instances
   of user classes, the reflected comparison of the right operand must not answer -- pytype has no reflected
   comparison (slots.REVERSE_NAME_MAPPING has no entry for __lt__ ...), see cmp_reported_is_real_refuted. *)
Theorem cmp_reported_is_real_partial : forall (UT UR : table) x n y,
  user_class_ok UR UT x -> user_class_ok UR UT y -> In n cmp_names ->
  (c14_nb <= x -> c14_nb <= y -> succ (RT UR) y x (swapped n) = false) ->
  cmp_py (PY UT) NATIVE x n y = Err -> cmp_c (RT UR) x n y = Err.
Proof. exact cmp_reported_is_real_inst. Qed.
Print Assumptions cmp_reported_is_real_partial.

(* == and != are never reported, whatever the operands (and cmp_c never fails on them: identity fall-back). *)
Theorem eqne_never_reported : forall (UT UR : table) x n y,
  In n cmp_names -> is_eqne n = true ->
  is_err (cmp_py (PY UT) NATIVE x n y) = false /\ is_err (cmp_c (RT UR) x n y) = false.
Proof. exact (fun UT UR x n y Hn He => conj (cmp_eqne_inst UT x n y Hn He) (cmp_c_eqne (RT UR) x n y He)). Qed.
Print Assumptions eqne_never_reported.

(* Without the side condition the statement is false:
     class A:  def __lt__(self, o: int): ...   (returns NotImplemented for anything else)
     class B:  def __gt__(self, o): ...
   A() < B() is answered by B.__gt__ at run time; pytype sees A.__lt__ reject a B and reports. *)
Definition rf_py : table := user_table c14_nb [
  user_cls 14 [14; 0] [(30, (false, acc_only [1])); (37, (false, acc_only [1]))] None;
  user_cls 15 [15; 0] [(32, (false, acc_all)); (1, (false, acc_all))] None].
Definition rf_rt : table := rf_py.

Lemma rf_hyp : user_class_ok rf_rt rf_py 14 /\ user_class_ok rf_rt rf_py 15.
Proof.
  unfold user_class_ok, user_ok, c14_nb. split.
  - intros _. split; [reflexivity|]. split.
    + exists [14]. split; [reflexivity|repeat constructor].
    + intros k Hin Hk. simpl in Hin. destruct Hin as [<-|[<-|[]]]; [|exfalso; apply (Nat.nle_succ_0 _ Hk)].
      split; [own_sim_tac|inst_sim_tac].
  - intros _. split; [reflexivity|]. split.
    + exists [15]. split; [reflexivity|repeat constructor].
    + intros k Hin Hk. simpl in Hin. destruct Hin as [<-|[<-|[]]]; [|exfalso; apply (Nat.nle_succ_0 _ Hk)].
      split; [own_sim_tac|inst_sim_tac].
Qed.

Theorem cmp_reported_is_real_refuted : exists (UT UR : table) x n y,
  user_class_ok UR UT x /\ user_class_ok UR UT y /\ In n cmp_names /\
  cmp_py (PY UT) NATIVE x n y = Err /\ cmp_c (RT UR) x n y <> Err.
Proof.
  exists rf_py, rf_rt, 14, N_LT, 15. destruct rf_hyp as [H1 H2].
  split; [exact H1|]. split; [exact H2|]. split; [vm_compute; tauto|].
  split; [vm_compute; reflexivity|vm_compute; discriminate].
Qed.
Print Assumptions cmp_reported_is_real_refuted.

(* No false positive on `item in seq` / `item not in seq`: no exclusion, all class tables. *)
Theorem in_reported_is_real : forall (UT UR : table) i q,
  user_class_ok UR UT i -> user_class_ok UR UT q ->
  in_py (PY UT) i q = Err -> in_c (RT UR) i q = Err.
Proof. exact in_reported_is_real_inst. Qed.
Print Assumptions in_reported_is_real.

(* In-place operators.  On two builtin values: no false positive (minus F7).  PARTIAL when a user class is
   involved: if pytype finds an in-place dunder on the left operand, the plain binary operator must fail too --
   vm_utils.call_inplace_operator reports a failed __iop__ call without trying __op__ / __rop__ (finding F6). *)
Theorem inplace_reported_is_real_partial : forall (UT UR : table) x n y,
  user_class_ok UR UT x -> user_class_ok UR UT y -> In n arith_names -> excl_fp_iop x n y = false ->
  ((x <? c14_nb) && (y <? c14_nb) = false -> lookup (PY UT) x (iname n) <> None -> binop_c (RT UR) x n y = Err) ->
  inplace_py (PY UT) x n y = Err -> inplace_c (RT UR) HARD x n y = Err.
Proof. exact inplace_reported_is_real_inst. Qed.
Print Assumptions inplace_reported_is_real_partial.

(* ... and the side condition is needed:  v = [1]; v += B()  with B.__radd__ runs; pytype reports. *)
Theorem inplace_reported_is_real_refuted : exists (UT UR : table) x n y,
  user_class_ok UR UT x /\ user_class_ok UR UT y /\ In n arith_names /\ excl_fp_iop x n y = false /\
  inplace_py (PY UT) x n y = Err /\ inplace_c (RT UR) HARD x n y <> Err.
Proof.
  exists rf_py, rf_rt, C_LIST, N_ADD, 15. destruct rf_hyp as [H1 H2].
  split; [intros C; exfalso; vm_compute in C; repeat (apply le_S_n in C); exact (Nat.nle_succ_0 _ C)|].
  split; [exact H2|]. split; [vm_compute; tauto|]. split; [reflexivity|].
  split; [vm_compute; reflexivity|vm_compute; discriminate].
Qed.
Print Assumptions inplace_reported_is_real_refuted.

(* No false positive on item assignment x[k] = v (v an int literal) and deletion del x[k]: all class tables,
   minus F12 (del d[k] on a dict: KeyError at run time, reported by pytype). *)
Theorem store_reported_is_real : forall (UT UR : table) x n k,
  user_class_ok UR UT x -> user_class_ok UR UT k -> In n store_names -> excl_fp_store x n = false ->
  store_py (PY UT) x n k = Err -> store_c (RT UR) x n k = Err.
Proof. exact store_reported_is_real_inst. Qed.
Print Assumptions store_reported_is_real.

(* No false positive on +x and ~x; `not x` is never reported. *)
Theorem un_reported_is_real : forall (UT UR : table) x n,
  user_class_ok UR UT x -> In n un_names -> call0 (PY UT) x n = Err -> call0 (RT UR) x n = Err.
Proof. exact un_reported_is_real_inst. Qed.
Print Assumptions un_reported_is_real.

Theorem not_never_reported : forall (UT : table) x, not_py (PY UT) x <> Err.
Proof. intros UT x. discriminate. Qed.
Print Assumptions not_never_reported.

(* Non-vacuity and verdicts of the extension (classes of the first half: 14 A, 15 B(A), 16 F; here rf_*:
   14 A with annotated __lt__ / __iadd__, 15 B with __gt__ and __radd__). *)
Example ext_verdicts :
  (* 1 < "a": compared natively by pytype, reported; TypeError.   1 < [1]: TypeError, not reported (object.__lt__
     of the stub accepts anything).  1 in "a": TypeError, not reported.  These are mistakes the property does not claim
     (so is `~1.5`, unreported because builtins.pytd gives float an __invert__: fixes/C14-float-has-no-invert.patch;
     not asserted here so that the file builds on the fixed tree too). *)
  cmp_py (PY rf_py) NATIVE C_INT N_LT C_STR = Err /\ cmp_c (RT rf_rt) C_INT N_LT C_STR = Err /\
  cmp_c (RT rf_rt) C_INT N_LT C_LIST = Err /\ is_err (cmp_py (PY rf_py) NATIVE C_INT N_LT C_LIST) = false /\
  in_c (RT rf_rt) C_INT C_STR = Err /\ is_err (in_py (PY rf_py) C_INT C_STR) = false /\
  (* 1 in A(): no __contains__/__iter__/__getitem__: reported and real;  +"a", ~"a": reported and real *)
  in_py (PY rf_py) C_INT 14 = Err /\ in_c (RT rf_rt) C_INT 14 = Err /\
  call0 (PY rf_py) C_STR N_POS = Err /\ call0 (RT rf_rt) C_STR N_POS = Err /\
  (* B() > A(): B.__gt__;  A() < 1: A.__lt__;  A() == B(): identity fall-back;  v = A(); v += 1: A.__iadd__ *)
  cmp_c (RT rf_rt) 15 N_GT 14 = Ok 15 32 /\ cmp_py (PY rf_py) NATIVE 14 N_LT C_INT = Ok 14 30 /\
  cmp_c (RT rf_rt) 14 N_EQ 15 = OkPlain /\ inplace_c (RT rf_rt) HARD 14 N_ADD C_INT = Ok 14 37 /\
  (* d = {1: 2}; d |= B(): dict.__ior__ raises, B.__ror__ is never tried (HARD);  s = {1}; s |= 1.5: TypeError both *)
  inplace_c (RT rf_rt) HARD C_DICT N_OR 15 = Err /\ inplace_py (PY rf_py) C_DICT N_OR 15 = Err /\
  inplace_c (RT rf_rt) HARD C_SET N_OR C_FLOAT = Err /\ inplace_py (PY rf_py) C_SET N_OR C_FLOAT = Err /\
  (* (1,)[0] = 1, del "a"[0], B()[1] = 1: reported and real;  [1][0] = 1: fine on both sides *)
  store_py (PY rf_py) C_TUPLE N_SETITEM C_INT = Err /\ store_c (RT rf_rt) C_TUPLE N_SETITEM C_INT = Err /\
  store_py (PY rf_py) C_STR N_DELITEM C_INT = Err /\ store_c (RT rf_rt) C_STR N_DELITEM C_INT = Err /\
  store_py (PY rf_py) 15 N_SETITEM C_INT = Err /\ store_c (RT rf_rt) 15 N_SETITEM C_INT = Err /\
  is_err (store_py (PY rf_py) C_LIST N_SETITEM C_INT) = false /\ is_err (store_c (RT rf_rt) C_LIST N_SETITEM C_INT) = false.
Proof. vm_compute. repeat split; reflexivity. Qed.

(* ========================================================================================== *)
(* Extension C14d (coq/Ops/Derived.v): operands that are instances of user classes DERIVING FROM A BUILTIN head
   (class M(int), class L(list), class D(dict) ..., any number of user classes between the class and the head, any
   subset of dunders overridden).  PYD / RTD: this run's regenerated rows with the acceptance rule "an instance of
   a class derived from B is accepted wherever a B is" (mk_table_d), any user part.  dbase: the builtin head an
   operand is or derives from. *)
From PV Require Import Ops.Derived Ops.DerivedProofs Ops.DerivedClosed.

(* Closed obligation, re-decided by vm_compute on every run: on two builtin heads, when neither option of pytype's
   dispatch succeeds, neither succeeds at run time -- WITHOUT the same-type shortcut of binary_op1 (the reflected
   dunder of B is tried on a B and an instance of a subclass of B). *)
Theorem derived_tables_faithful : dpair_faithful py_rows rt_rows = true.
Proof. exact dpair_faithful_holds. Qed.
Print Assumptions derived_tables_faithful.

(* General form: any builtin rows passing the closed checks, any user part. *)
Theorem derived_reported_is_real_general : forall (rowsT rowsR : list brow) (UT UR : table) x n y,
  shape_ok rowsT rowsR = true -> dpair_faithful rowsT rowsR = true -> ucol_faithful rowsT rowsR = true ->
  py_total UT ->
  derived_ok (length rowsT) UR UT x -> derived_ok (length rowsT) UR UT y ->
  In n binop_names ->
  excl_fp_bin (dbase (length rowsT) UT x) n (dbase (length rowsT) UT y) = false ->
  binop_py (mk_table_d rowsT UT) x n y = Err -> binop_c (mk_table_d rowsR UR) x n y = Err.
Proof. exact derived_reported_is_real_lemma. Qed.
Print Assumptions derived_reported_is_real_general.

(* No false positive on the 12 binary operators and the subscript when each operand is a builtin value or an instance
   of a class derived from a builtin head (minus F1 on dict and its subclasses).  PARTIAL: py_total -- the dunders
   written in the user classes are unannotated defs (pytype accepts any argument; at run time they may still answer
   NotImplemented).  With an annotated dunder the pointwise disagreements of builtins.pytd (no float.__radd__ ...)
   become visible:  class D(int): def __add__(self, o: str) ...;  D() + 1.5  -- outside the generated grammar. *)
Theorem derived_reported_is_real_partial : forall (UT UR : table) x n y,
  py_total UT -> derived_class_ok UR UT x -> derived_class_ok UR UT y ->
  In n binop_names -> excl_fp_bin (dbase c14_nb UT x) n (dbase c14_nb UT y) = false ->
  binop_py (PYD UT) x n y = Err -> binop_c (RTD UR) x n y = Err.
Proof. exact derived_reported_is_real_inst. Qed.
Print Assumptions derived_reported_is_real_partial.

(* Non-vacuity:  class DI(int): pass      class DIR(int): def __radd__(self, o) ...     class DL(list): pass *)
Definition ex_d : table := user_table c14_nb [
  user_cls_d 14 [14; 1; 0] [14; 1] [];
  user_cls_d 15 [15; 1; 0] [15; 1] [(1, (false, acc_all))];
  user_cls_d 16 [16; 8; 0] [16; 8] []].

Example ex_d_hyp : py_total ex_d /\ derived_class_ok ex_d ex_d 14 /\ derived_class_ok ex_d ex_d 15 /\
                   derived_class_ok ex_d ex_d 16.
Proof.
  split.
  - intros k n e a H. unfold ex_d, user_table in H.
    destruct (k - c14_nb) as [|[|[|[|j]]]]; cbn -[Nat.eqb] in H;
      repeat match type of H with context [?q =? n] => destruct (q =? n); cbn -[Nat.eqb] in H end;
      try discriminate; inversion H; reflexivity.
  - unfold derived_class_ok, derived_ok, dshape, c14_nb. split; [|split].
    + intros _. exists [14], 1. repeat split; try reflexivity; try (repeat constructor); intros; apply own_sim_refl.
    + intros _. exists [15], 1. repeat split; try reflexivity; try (repeat constructor); intros; apply own_sim_refl.
    + intros _. exists [16], 8. repeat split; try reflexivity; try (repeat constructor); intros; apply own_sim_refl.
Qed.

Example ex_d_verdicts :
  (* DI(1) + "a": error on both sides;  DI(1) + 1.5: fine on both (int.__add__ in the stub, float.__radd__ at run time) *)
  binop_py (PYD ex_d) 14 N_ADD C_STR = Err /\ binop_c (RTD ex_d) 14 N_ADD C_STR = Err /\
  is_err (binop_py (PYD ex_d) 14 N_ADD C_FLOAT) = false /\ is_err (binop_c (RTD ex_d) 14 N_ADD C_FLOAT) = false /\
  (* 1 + DIR(1): DIR.__radd__ first on both sides (subclass priority / _overrides);  1 + DI(1): int.__add__ *)
  binop_py (PYD ex_d) C_INT N_ADD 15 = Ok 15 1 /\ binop_c (RTD ex_d) C_INT N_ADD 15 = Ok 15 1 /\
  binop_py (PYD ex_d) C_INT N_ADD 14 = Ok C_INT N_ADD /\ binop_c (RTD ex_d) C_INT N_ADD 14 = Ok C_INT N_ADD /\
  (* [1] + DL([1]), DL([1])[1]: fine;  DL([1]) + 1, DL([1])["a"], DI(1)[1]: error on both sides *)
  is_err (binop_py (PYD ex_d) C_LIST N_ADD 16) = false /\ is_err (binop_c (RTD ex_d) C_LIST N_ADD 16) = false /\
  is_err (binop_py (PYD ex_d) 16 N_GETITEM C_INT) = false /\
  binop_py (PYD ex_d) 16 N_ADD C_INT = Err /\ binop_c (RTD ex_d) 16 N_ADD C_INT = Err /\
  binop_py (PYD ex_d) 16 N_GETITEM C_STR = Err /\ binop_py (PYD ex_d) 14 N_GETITEM C_INT = Err.
Proof. vm_compute. repeat split; reflexivity. Qed.
