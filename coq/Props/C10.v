(* C10 — class linearisation agrees with CPython's MRO.
   Property theorems only; each is closed by [exact] and followed by Print Assumptions.

   Model: Mro/Model.v.  [merge_py]/[class_mro_py]/[mros_py]/[get_bases_in_mro] mirror pytype
   (pytd/mro.py, abstract/class_mixin.py compute_mro); [merge_c]/[pmerge]/[class_mro_c]/[mros_c] mirror
   CPython 3.12 Objects/typeobject.c (pmerge, check_duplicates, mro_implementation).  A class table [H] lists,
   per class statement in program order, the tuple of bases as written (class = its index).
   [dupcheck] = whether compute_mro rejects a class listed twice among the bases:
   false = the unchanged tree, true = the tree with fixes/C10-duplicate-base.patch; the check establishes on
   every run which of the two describes the tree under test. *)
From Coq Require Import List Arith Bool.
From PV Require Import Mro.Model Mro.Proofs.
Import ListNotations.

(* ---- the two merge algorithms ---- *)

(* For ALL lists of duplicate-free sequences (any number, any length) pytype's MROMerge and CPython's pmerge
   return the same list, or both fail. *)
Theorem merge_agree : forall seqs : list (list nat),
  Forall (@NoDup nat) seqs -> merge_py seqs = merge_c seqs.
Proof. exact merge_agree_lemma. Qed.
Print Assumptions merge_agree.

(* Without the hypothesis: pytype is exactly CPython run on the de-duplicated sequences. *)
Theorem merge_agree_dedup : forall seqs : list (list nat), merge_py seqs = merge_c (map dedup seqs).
Proof. exact merge_agree_dedup_lemma. Qed.
Print Assumptions merge_agree_dedup.

(* The SINGLETON branch of MergeSequences (abstract.Unsolvable among the bases) is dead when no class in
   the sequences carries the SINGLETON attribute. *)
Theorem merge_singleton_branch_dead : forall (sing : nat -> bool) (seqs : list (list nat)),
  (forall s x, In s seqs -> In x s -> sing x = false) -> merge_py_gen sing seqs = merge_py seqs.
Proof. exact merge_py_gen_nosing_lemma. Qed.
Print Assumptions merge_singleton_branch_dead.

(* Fuel sufficiency: neither merge ever ends in the fuel-exhausted (or crashed) outcome, for any input,
   with or without singleton classes. *)
Theorem fuel_enough : forall (sing : nat -> bool) (seqs : list (list nat)) (acc0 : list nat) (tm : list (list nat)),
  merge_py_gen sing seqs <> OutOfFuel /\ merge_py_gen sing seqs <> Crash /\
  pmerge acc0 tm <> OutOfFuel /\ pmerge acc0 tm <> Crash.
Proof. exact fuel_enough_lemma. Qed.
Print Assumptions fuel_enough.

Theorem tables_never_bad : forall (dupcheck : bool) (H : list (list nat)) m i,
  mros_py dupcheck H <> TableBad m i /\ mros_c H <> TableBad m i.
Proof. exact tables_not_bad_lemma. Qed.
Print Assumptions tables_never_bad.

(* ---- class tables ---- *)

(* Any program of class statements (any number of classes, any number of bases, every base created by an
   earlier statement) in which no statement lists the same base twice: pytype and CPython create the same
   classes with the same MROs and stop at the same statement (if any). *)
Theorem mro_agree_partial : forall (dupcheck : bool) (H : list (list nat)),
  wf_table H = true -> no_dup_bases H = true -> mros_py dupcheck H = mros_c H.
Proof. exact mro_agree_lemma. Qed.
Print Assumptions mro_agree_partial.

(* pytype reports an mro-error on statement i  <=>  CPython raises TypeError on statement i. *)
Theorem mro_error_iff_partial : forall (dupcheck : bool) (H : list (list nat)) (i : nat),
  wf_table H = true -> no_dup_bases H = true ->
  (table_error (mros_py dupcheck H) = Some i <-> table_error (mros_c H) = Some i).
Proof. exact mro_error_iff_partial_lemma. Qed.
Print Assumptions mro_error_iff_partial.

(* The full-strength statements (no hypothesis on repeated bases) are REFUTED for the unchanged code:
   `class A: pass; class B(A, A): pass` -- MROMerge de-duplicates, pytype accepts B with MRO [B, A, object];
   CPython raises TypeError: duplicate base class A. *)
Theorem mro_error_iff_refuted :
  exists H, wf_table H = true /\
            table_error (mros_py false H) = None /\ table_error (mros_c H) = Some 2.
Proof. exact mro_error_iff_refuted_lemma. Qed.
Print Assumptions mro_error_iff_refuted.

Theorem mro_agree_refuted : exists H, wf_table H = true /\ mros_py false H <> mros_c H.
Proof. exact mro_agree_refuted_lemma. Qed.
Print Assumptions mro_agree_refuted.

(* ... and hold at full strength for the code with the duplicate-base check. *)
Theorem mro_agree_with_dupcheck : forall H : list (list nat),
  wf_table H = true -> mros_py true H = mros_c H.
Proof. exact mro_agree_fixed_lemma. Qed.
Print Assumptions mro_agree_with_dupcheck.

Theorem mro_error_iff_with_dupcheck : forall (H : list (list nat)) (i : nat),
  wf_table H = true ->
  (table_error (mros_py true H) = Some i <-> table_error (mros_c H) = Some i).
Proof. exact mro_error_iff_dupcheck_lemma. Qed.
Print Assumptions mro_error_iff_with_dupcheck.

(* every MRO produced starts with the class itself, has no repetition and only mentions earlier classes *)
Theorem mro_wellformed : forall (H : list (list nat)) (i : nat),
  wf_table H = true -> no_dup_bases H = true -> i < length (table_mros (mros_c H)) ->
  exists m', nth i (table_mros (mros_c H)) [] = i :: m' /\ NoDup (i :: m') /\ forall x, In x m' -> x < i.
Proof. exact mros_good_lemma. Qed.
Print Assumptions mro_wellformed.

(* ---- attribute lookup ---- *)

(* An attribute read through class c (or an instance) resolves to the same defining class. *)
Theorem lookup_agree_partial : forall (dupcheck : bool) (H attrs : list (list nat)) (c name : nat),
  wf_table H = true -> no_dup_bases H = true ->
  lookup_py dupcheck H attrs c name = lookup_c H attrs c name.
Proof. exact lookup_agree_partial_lemma. Qed.
Print Assumptions lookup_agree_partial.

Theorem lookup_agree_with_dupcheck : forall (H attrs : list (list nat)) (c name : nat),
  wf_table H = true -> lookup_py true H attrs c name = lookup_c H attrs c name.
Proof. exact lookup_agree_dupcheck_lemma. Qed.
Print Assumptions lookup_agree_with_dupcheck.

(* lookup returns the FIRST class of the MRO that defines the name *)
Theorem lookup_first : forall (attrs : list (list nat)) (mro : list nat) (name c : nat),
  lookup attrs mro name = Some c ->
  exists pre post, mro = pre ++ c :: post /\ defines attrs name c = true /\
                   forall x, In x pre -> defines attrs name x = false.
Proof. exact lookup_first_lemma. Qed.
Print Assumptions lookup_first.

(* ---- stub classes outside the VM (mro.GetBasesInMRO / _ComputeMRO with its memo dict) ---- *)

(* For a stub module whose classes H are all creatable in CPython (MROs [done]) and a further class with
   duplicate-free bases: GetBasesInMRO returns CPython's MRO minus the class itself, or both fail. *)
Theorem pytd_agree : forall (H done : list (list nat)),
  wf_table H = true -> no_dup_bases H = true -> mros_c H = TableOk done ->
  forall bases : list nat,
  wf_bases (length H) bases = true -> check_duplicates bases = true ->
  class_mro_c done (length H) bases =
  match get_bases_in_mro H bases with Ok l => Ok (length H :: l) | r => r end.
Proof. exact pytd_agree_lemma. Qed.
Print Assumptions pytd_agree.

(* Without the hypothesis on the new class's bases the statement is refuted: GetBasesInMRO has no duplicate
   check (it de-duplicates like MROMerge).  It is used by VerifyContainers only, which reports no error. *)
Theorem pytd_agree_refuted :
  exists H done bases,
    wf_table H = true /\ no_dup_bases H = true /\ mros_c H = TableOk done /\
    wf_bases (length H) bases = true /\
    class_mro_c done (length H) bases = Reject /\ get_bases_in_mro H bases = Ok [1; 0].
Proof. exact pytd_agree_refuted_lemma. Qed.
Print Assumptions pytd_agree_refuted.

(* ---- non-vacuity ---- *)

(* object; A; B; C(A,B); D(B,A) [both legal]; E(C,D) [inconsistent]: hypotheses hold, classes 0..4 are
   created with the expected MROs, statement 5 fails in both. *)
Definition diamond : list (list nat) := [[]; [0]; [0]; [1; 2]; [2; 1]; [3; 4]].
Example diamond_hyps : wf_table diamond = true /\ no_dup_bases diamond = true.
Proof. vm_compute. split; reflexivity. Qed.
Example diamond_result :
  mros_c diamond = TableErr [[0]; [1; 0]; [2; 0]; [3; 1; 2; 0]; [4; 2; 1; 0]] 5 /\
  mros_py false diamond = mros_c diamond /\ mros_py true diamond = mros_c diamond.
Proof. vm_compute. repeat split; reflexivity. Qed.

(* a legal 7-class hierarchy with a three-base class; lookup finds the C3-first definition *)
Definition legal7 : list (list nat) := [[]; [0]; [1]; [1]; [2; 3]; [1; 0]; [4; 5; 0]].
Example legal7_hyps : wf_table legal7 = true /\ no_dup_bases legal7 = true.
Proof. vm_compute. split; reflexivity. Qed.
Example legal7_result :
  mros_c legal7 = TableOk [[0]; [1; 0]; [2; 1; 0]; [3; 1; 0]; [4; 2; 3; 1; 0]; [5; 1; 0]; [6; 4; 2; 3; 5; 1; 0]].
Proof. vm_compute. reflexivity. Qed.
(* attribute 7 is defined by classes 1, 3 and 5: read through class 6 it comes from class 3 *)
Example legal7_lookup :
  lookup_c legal7 [[]; [7]; []; [7]; []; [7]; []] 6 7 = Some 3 /\
  lookup_py false legal7 [[]; [7]; []; [7]; []; [7]; []] 6 7 = Some 3.
Proof. vm_compute. split; reflexivity. Qed.

(* merge with duplicate-free sequences that fails in both, and one that de-duplication changes *)
Example merge_fail_both : merge_py [[1; 2]; [2; 1]] = Reject /\ merge_c [[1; 2]; [2; 1]] = Reject.
Proof. vm_compute. split; reflexivity. Qed.
Example merge_dedup_differs : merge_py [[1; 1]] = Ok [1] /\ merge_c [[1; 1]] = Reject.
Proof. vm_compute. split; reflexivity. Qed.

(* the pytd hypotheses are satisfiable; GetBasesInMRO for a new class F(C, D) over the first five classes *)
Example pytd_hyps :
  mros_c (firstn 5 diamond) = TableOk [[0]; [1; 0]; [2; 0]; [3; 1; 2; 0]; [4; 2; 1; 0]] /\
  get_bases_in_mro (firstn 5 diamond) [3; 0] = Ok [3; 1; 2; 0] /\
  get_bases_in_mro (firstn 5 diamond) [3; 4] = Reject.
Proof. vm_compute. repeat split; reflexivity. Qed.
