(* C10 — class linearisation agrees with CPython's MRO.
   Property theorems only; each is closed by [exact] and followed by Print Assumptions.

   Model: Mro/Model.v.  [merge_py]/[class_mro_py]/[mros_py]/[get_bases_in_mro] mirror pytype
   (pytd/mro.py, abstract/class_mixin.py compute_mro); [merge_c]/[pmerge]/[class_mro_c]/[mros_c] mirror
   CPython 3.12 Objects/typeobject.c (pmerge, check_duplicates, mro_implementation).  A class table [H] lists,
   per class statement in program order, the tuple of bases as written (class = its index).
   [dupcheck] = whether compute_mro rejects a class listed twice among the bases:
   false = the unchanged tree, true = the tree with fixes/C10-duplicate-base.patch; the check establishes on
   every run which of the two describes the tree under test. *)
From Coq Require Import List Arith Bool.
From PV Require Import Mro.Model Mro.Proofs Mro.Attr Mro.AttrProofs.
Import ListNotations.

(* ---- the two merge algorithms ---- *)

(* For ALL lists of duplicate-free sequences (any number, any length) pytype's MROMerge and CPython's pmerge
   return the same list, or both fail. *)
Theorem merge_agree : forall seqs : list (list nat),
  Forall (@NoDup nat) seqs -> merge_py seqs = merge_c seqs.
Proof. exact merge_agree_lemma. Qed.
Print Assumptions merge_agree.

(* Without the hypothesis: pytype is exactly CPython run on the de-duplicated sequences. *)
Theorem merge_agree_dedup : forall seqs : list (list nat), merge_py seqs = merge_c (map dedup seqs).
Proof. exact merge_agree_dedup_lemma. Qed.
Print Assumptions merge_agree_dedup.

(* The SINGLETON branch of MergeSequences (abstract.Unsolvable among the bases) is dead when no class in
   the sequences carries the SINGLETON attribute. *)
Theorem merge_singleton_branch_dead : forall (sing : nat -> bool) (seqs : list (list nat)),
  (forall s x, In s seqs -> In x s -> sing x = false) -> merge_py_gen sing seqs = merge_py seqs.
Proof. exact merge_py_gen_nosing_lemma. Qed.
Print Assumptions merge_singleton_branch_dead.

(* Fuel sufficiency: neither merge ever ends in the fuel-exhausted (or crashed) outcome, for any input,
   with or without singleton classes. *)
Theorem fuel_enough : forall (sing : nat -> bool) (seqs : list (list nat)) (acc0 : list nat) (tm : list (list nat)),
  merge_py_gen sing seqs <> OutOfFuel /\ merge_py_gen sing seqs <> Crash /\
  pmerge acc0 tm <> OutOfFuel /\ pmerge acc0 tm <> Crash.
Proof. exact fuel_enough_lemma. Qed.
Print Assumptions fuel_enough.

Theorem tables_never_bad : forall (dupcheck : bool) (H : list (list nat)) m i,
  mros_py dupcheck H <> TableBad m i /\ mros_c H <> TableBad m i.
Proof. exact tables_not_bad_lemma. Qed.
Print Assumptions tables_never_bad.

(* ---- class tables ---- *)

(* Any program of class statements (any number of classes, any number of bases, every base created by an
   earlier statement) in which no statement lists the same base twice: pytype and CPython create the same
   classes with the same MROs and stop at the same statement (if any). *)
Theorem mro_agree_partial : forall (dupcheck : bool) (H : list (list nat)),
  wf_table H = true -> no_dup_bases H = true -> mros_py dupcheck H = mros_c H.
Proof. exact mro_agree_lemma. Qed.
Print Assumptions mro_agree_partial.

(* pytype reports an mro-error on statement i  <=>  CPython raises TypeError on statement i. *)
Theorem mro_error_iff_partial : forall (dupcheck : bool) (H : list (list nat)) (i : nat),
  wf_table H = true -> no_dup_bases H = true ->
  (table_error (mros_py dupcheck H) = Some i <-> table_error (mros_c H) = Some i).
Proof. exact mro_error_iff_partial_lemma. Qed.
Print Assumptions mro_error_iff_partial.

(* The full-strength statements (no hypothesis on repeated bases) are REFUTED for the unchanged code:
   `class A: pass; class B(A, A): pass` -- MROMerge de-duplicates, pytype accepts B with MRO [B, A, object];
   CPython raises TypeError: duplicate base class A. *)
Theorem mro_error_iff_refuted :
  exists H, wf_table H = true /\
            table_error (mros_py false H) = None /\ table_error (mros_c H) = Some 2.
Proof. exact mro_error_iff_refuted_lemma. Qed.
Print Assumptions mro_error_iff_refuted.

Theorem mro_agree_refuted : exists H, wf_table H = true /\ mros_py false H <> mros_c H.
Proof. exact mro_agree_refuted_lemma. Qed.
Print Assumptions mro_agree_refuted.

(* ... and hold at full strength for the code with the duplicate-base check. *)
Theorem mro_agree_with_dupcheck : forall H : list (list nat),
  wf_table H = true -> mros_py true H = mros_c H.
Proof. exact mro_agree_fixed_lemma. Qed.
Print Assumptions mro_agree_with_dupcheck.

Theorem mro_error_iff_with_dupcheck : forall (H : list (list nat)) (i : nat),
  wf_table H = true ->
  (table_error (mros_py true H) = Some i <-> table_error (mros_c H) = Some i).
Proof. exact mro_error_iff_dupcheck_lemma. Qed.
Print Assumptions mro_error_iff_with_dupcheck.

(* every MRO produced starts with the class itself, has no repetition and only mentions earlier classes *)
Theorem mro_wellformed : forall (H : list (list nat)) (i : nat),
  wf_table H = true -> no_dup_bases H = true -> i < length (table_mros (mros_c H)) ->
  exists m', nth i (table_mros (mros_c H)) [] = i :: m' /\ NoDup (i :: m') /\ forall x, In x m' -> x < i.
Proof. exact mros_good_lemma. Qed.
Print Assumptions mro_wellformed.

(* ---- attribute lookup ---- *)

(* An attribute read through class c (or an instance) resolves to the same defining class. *)
Theorem lookup_agree_partial : forall (dupcheck : bool) (H attrs : list (list nat)) (c name : nat),
  wf_table H = true -> no_dup_bases H = true ->
  lookup_py dupcheck H attrs c name = lookup_c H attrs c name.
Proof. exact lookup_agree_partial_lemma. Qed.
Print Assumptions lookup_agree_partial.

Theorem lookup_agree_with_dupcheck : forall (H attrs : list (list nat)) (c name : nat),
  wf_table H = true -> lookup_py true H attrs c name = lookup_c H attrs c name.
Proof. exact lookup_agree_dupcheck_lemma. Qed.
Print Assumptions lookup_agree_with_dupcheck.

(* lookup returns the FIRST class of the MRO that defines the name *)
Theorem lookup_first : forall (attrs : list (list nat)) (mro : list nat) (name c : nat),
  lookup attrs mro name = Some c ->
  exists pre post, mro = pre ++ c :: post /\ defines attrs name c = true /\
                   forall x, In x pre -> defines attrs name x = false.
Proof. exact lookup_first_lemma. Qed.
Print Assumptions lookup_first.

(* ---- stub classes outside the VM (mro.GetBasesInMRO / _ComputeMRO with its memo dict) ---- *)

(* For a stub module whose classes H are all creatable in CPython (MROs [done]) and a further class with
   duplicate-free bases: GetBasesInMRO returns CPython's MRO minus the class itself, or both fail. *)
Theorem pytd_agree : forall (H done : list (list nat)),
  wf_table H = true -> no_dup_bases H = true -> mros_c H = TableOk done ->
  forall bases : list nat,
  wf_bases (length H) bases = true -> check_duplicates bases = true ->
  class_mro_c done (length H) bases =
  match get_bases_in_mro H bases with Ok l => Ok (length H :: l) | r => r end.
Proof. exact pytd_agree_lemma. Qed.
Print Assumptions pytd_agree.

(* Without the hypothesis on the new class's bases the statement is refuted: GetBasesInMRO has no duplicate
   check (it de-duplicates like MROMerge).  It is used by VerifyContainers only, which reports no error. *)
Theorem pytd_agree_refuted :
  exists H done bases,
    wf_table H = true /\ no_dup_bases H = true /\ mros_c H = TableOk done /\
    wf_bases (length H) bases = true /\
    class_mro_c done (length H) bases = Reject /\ get_bases_in_mro H bases = Ok [1; 0].
Proof. exact pytd_agree_refuted_lemma. Qed.
Print Assumptions pytd_agree_refuted.

(* ---- non-vacuity ---- *)

(* object; A; B; C(A,B); D(B,A) [both legal]; E(C,D) [inconsistent]: hypotheses hold, classes 0..4 are
   created with the expected MROs, statement 5 fails in both. *)
Definition diamond : list (list nat) := [[]; [0]; [0]; [1; 2]; [2; 1]; [3; 4]].
Example diamond_hyps : wf_table diamond = true /\ no_dup_bases diamond = true.
Proof. vm_compute. split; reflexivity. Qed.
Example diamond_result :
  mros_c diamond = TableErr [[0]; [1; 0]; [2; 0]; [3; 1; 2; 0]; [4; 2; 1; 0]] 5 /\
  mros_py false diamond = mros_c diamond /\ mros_py true diamond = mros_c diamond.
Proof. vm_compute. repeat split; reflexivity. Qed.

(* a legal 7-class hierarchy with a three-base class; lookup finds the C3-first definition *)
Definition legal7 : list (list nat) := [[]; [0]; [1]; [1]; [2; 3]; [1; 0]; [4; 5; 0]].
Example legal7_hyps : wf_table legal7 = true /\ no_dup_bases legal7 = true.
Proof. vm_compute. split; reflexivity. Qed.
Example legal7_result :
  mros_c legal7 = TableOk [[0]; [1; 0]; [2; 1; 0]; [3; 1; 0]; [4; 2; 3; 1; 0]; [5; 1; 0]; [6; 4; 2; 3; 5; 1; 0]].
Proof. vm_compute. reflexivity. Qed.
(* attribute 7 is defined by classes 1, 3 and 5: read through class 6 it comes from class 3 *)
Example legal7_lookup :
  lookup_c legal7 [[]; [7]; []; [7]; []; [7]; []] 6 7 = Some 3 /\
  lookup_py false legal7 [[]; [7]; []; [7]; []; [7]; []] 6 7 = Some 3.
Proof. vm_compute. split; reflexivity. Qed.

(* merge with duplicate-free sequences that fails in both, and one that de-duplication changes *)
Example merge_fail_both : merge_py [[1; 2]; [2; 1]] = Reject /\ merge_c [[1; 2]; [2; 1]] = Reject.
Proof. vm_compute. split; reflexivity. Qed.
Example merge_dedup_differs : merge_py [[1; 1]] = Ok [1] /\ merge_c [[1; 1]] = Reject.
Proof. vm_compute. split; reflexivity. Qed.

(* the pytd hypotheses are satisfiable; GetBasesInMRO for a new class F(C, D) over the first five classes *)
Example pytd_hyps :
  mros_c (firstn 5 diamond) = TableOk [[0]; [1; 0]; [2; 0]; [3; 1; 2; 0]; [4; 2; 1; 0]] /\
  get_bases_in_mro (firstn 5 diamond) [3; 0] = Ok [3; 1; 2; 0] /\
  get_bases_in_mro (firstn 5 diamond) [3; 4] = Reject.
Proof. vm_compute. repeat split; reflexivity. Qed.

(* ================================================================================================ *)
(* Extension (Mro/Attr.v): super() lookups, instance dictionaries filled by __init__ chains, Generic bases *)

(* ---- super() ---- *)

(* pytype's skip SET (attribute.py _get_attribute_from_super_instance + _lookup_from_mro with skip) and CPython's index
   walk (_super_lookup_descr) find the same definition, for every duplicate-free MRO, calling class and name ... *)
Theorem super_lookup_agree : forall (attrs : list (list nat)) (mro : list nat) (cur name : nat),
  NoDup mro -> super_lookup_py attrs mro cur name = super_lookup_c attrs mro cur name.
Proof. exact super_lookup_agree_lemma. Qed.
Print Assumptions super_lookup_agree.

(* ... namely the first definition STRICTLY AFTER the calling class in the instance's MRO (none if the calling class is
   not in that MRO: pytype then reports attribute-error, CPython raises TypeError at the super() call). *)
Theorem super_lookup_after_calling_class : forall (attrs : list (list nat)) (mro : list nat) (cur name : nat),
  super_lookup_c attrs mro cur name = find (defines attrs name) (after cur mro) /\
  (NoDup mro -> super_lookup_py attrs mro cur name = find (defines attrs name) (after cur mro)).
Proof. intros. split. apply super_lookup_c_after. apply super_lookup_py_after. Qed.
Print Assumptions super_lookup_after_calling_class.

(* the hypothesis is needed (a set forgets positions) and is met by every MRO a class table produces (mro_nodup) *)
Theorem super_lookup_needs_nodup :
  exists attrs mro cur name, super_lookup_py attrs mro cur name <> super_lookup_c attrs mro cur name.
Proof. exact super_lookup_needs_nodup_lemma. Qed.
Print Assumptions super_lookup_needs_nodup.

Theorem mro_nodup : forall (H : list (list nat)) (c : nat),
  wf_table H = true -> NoDup (mro_of (table_mros (mros_c H)) c).
Proof. exact mros_c_nodup. Qed.
Print Assumptions mro_nodup.

(* Cooperative chains: if every definition of a method calls super().<name>(), the definitions that run for an instance
   are exactly the classes of the instance's MRO that define the name, in MRO order, each once -- in both. *)
Theorem super_chain_visits_every_definition : forall (attrs : list (list nat)) (mro : list nat) (name : nat),
  NoDup mro ->
  super_chain_py attrs mro name = filter (defines attrs name) mro /\
  super_chain_c attrs mro name = filter (defines attrs name) mro.
Proof. intros. split. apply super_chain_py_lemma; auto. apply super_chain_c_lemma; auto. Qed.
Print Assumptions super_chain_visits_every_definition.

(* On class tables, super(cur, <instance of c>).name (zero- or two-argument form, any cur, c, name, hierarchy). *)
Theorem super_agree_with_dupcheck : forall (H attrs : list (list nat)) (c cur name : nat),
  wf_table H = true -> super_py true H attrs (SInst c) cur name = super_c H attrs (SInst c) cur name.
Proof. exact super_agree_inst_dupcheck_lemma. Qed.
Print Assumptions super_agree_with_dupcheck.

Theorem super_agree_partial : forall (dupcheck : bool) (H attrs : list (list nat)) (c cur name : nat),
  wf_table H = true -> no_dup_bases H = true ->
  super_py dupcheck H attrs (SInst c) cur name = super_c H attrs (SInst c) cur name.
Proof. exact super_agree_inst_partial_lemma. Qed.
Print Assumptions super_agree_partial.

(* super() inside a CLASSMETHOD: REFUTED.  pytype takes the MRO of the calling class (starting_cls = super_cls whenever
   super_obj is a class), CPython the MRO of the class the method was called on.  Diamond A; B(A); C(A); D(B, C), f defined
   by A, B, C; inside B.f called as D.f(): CPython continues with C.f, pytype with A.f. *)
Theorem super_classmethod_refuted :
  exists H attrs c cur name,
    wf_table H = true /\ no_dup_bases H = true /\ In cur (mro_of (table_mros (mros_c H)) c) /\
    super_py true H attrs (SCls c) cur name = Some 1 /\ super_c H attrs (SCls c) cur name = Some 3.
Proof. exists cm_table, cm_attrs, 4, 2, 7. exact super_classmethod_refuted_lemma. Qed.
Print Assumptions super_classmethod_refuted.

(* ... it holds when the classmethod is called on the calling class itself *)
Theorem super_classmethod_same_class_partial : forall (H attrs : list (list nat)) (cur name : nat),
  wf_table H = true -> super_py true H attrs (SCls cur) cur name = super_c H attrs (SCls cur) cur name.
Proof. exact super_agree_cls_same_lemma. Qed.
Print Assumptions super_classmethod_same_class_partial.

(* ---- instance attributes ---- *)

(* The instance dictionary left by the chain of __init__ methods (own stores before / after / without a super().__init__()
   call, per class) is the same list of stores in the same order. *)
Theorem instance_dict_agree : forall (inits : list (nat * list nat)) (mro : list nat) (n : nat),
  NoDup mro -> inst_dict_py inits mro n = inst_dict_c inits mro n.
Proof. exact inst_dict_agree_lemma. Qed.
Print Assumptions instance_dict_agree.

(* `C<c>().name`: __getattribute__ hook, instance dictionary, class MRO, __getattr__ hook -- same answer, same source. *)
Theorem read_instance_agree_with_dupcheck :
  forall (H attrs hooks : list (list nat)) (inits : list (nat * list nat)) (c name : nat),
  wf_table H = true -> read_inst_py true H attrs hooks inits c name = read_inst_c H attrs hooks inits c name.
Proof. exact read_inst_agree_dupcheck_lemma. Qed.
Print Assumptions read_instance_agree_with_dupcheck.

Theorem read_instance_agree_partial :
  forall (dupcheck : bool) (H attrs hooks : list (list nat)) (inits : list (nat * list nat)) (c name : nat),
  wf_table H = true -> no_dup_bases H = true ->
  read_inst_py dupcheck H attrs hooks inits c name = read_inst_c H attrs hooks inits c name.
Proof. exact read_inst_agree_partial_lemma. Qed.
Print Assumptions read_instance_agree_partial.

(* When every __init__ calls super().__init__() first and stores afterwards, the value read back from the instance is the
   one stored by the FIRST class in MRO order whose __init__ stores the name (in both). *)
Theorem instance_attr_first_in_mro : forall (inits : list (nat * list nat)) (mro : list nat) (n name : nat),
  NoDup mro -> (forall c, In c mro -> c < n) -> all_post inits mro ->
  inst_get (inst_dict_py inits mro n) name = find (stores_name inits name) mro /\
  inst_get (inst_dict_c inits mro n) name = find (stores_name inits name) mro.
Proof. exact inst_attr_first_in_mro_lemma. Qed.
Print Assumptions instance_attr_first_in_mro.

(* ---- Generic[...] / parameterised bases in compute_mro ---- *)

(* What is compared: the classes (base_cls) of the entries of the MRO pytype computes -- get_mro_bases, identity-based
   duplicate check, renaming parameterised class -> base_cls, MROMerge, base2cls -- against the __mro__ CPython computes
   from the bases that remain after typing's __mro_entries__ (A[...] -> A; Generic[...] -> Generic, or nothing if a later
   base is an alias).  First: the renaming is transparent -- pytype's result is exactly CPython's linearisation of the
   class statement AS get_mro_bases READS IT, for every table in which no statement names the same class twice. *)
Theorem generic_renaming_preserves_linearisation : forall G : list (list gref),
  gwf_table G = true -> no_dup_bases (map py_resolve G) = true ->
  gproject (gmros_py G) = gmros_c_py_reading G.
Proof. exact generic_rename_lemma. Qed.
Print Assumptions generic_renaming_preserves_linearisation.

(* hence agreement with CPython whenever the two readings of the statements lead CPython to the same classes
   (monitored on every generated table), in particular when they are literally the same lists of distinct classes *)
Theorem generic_agree_partial : forall G : list (list gref),
  gwf_table G = true -> no_dup_bases (map py_resolve G) = true -> readings_agree G ->
  gproject (gmros_py G) = gmros_c G.
Proof. exact generic_agree_partial_lemma. Qed.
Print Assumptions generic_agree_partial.

Theorem generic_agree_same_reading : forall G : list (list gref),
  gwf_table G = true -> same_reading_table G = true -> gproject (gmros_py G) = gmros_c G.
Proof. exact same_reading_agree_lemma. Qed.
Print Assumptions generic_agree_same_reading.

(* The full statement is REFUTED twice.  (1) `class Y(X[T], Bp, Generic[T])` with X(A[T], Bp): typing keeps Generic as a
   base, which contradicts X's MRO -> TypeError; get_mro_bases drops every Generic once a user generic is present. *)
Theorem generic_dropped_refuted :
  exists G, gwf_table G = true /\ no_dup_bases (map py_resolve G) = true /\
            table_error (gproject (gmros_py G)) = None /\ table_error (gmros_c G) = Some 5.
Proof. exists gen_witness. exact generic_dropped_refuted_lemma. Qed.
Print Assumptions generic_dropped_refuted.

(* (2) `class E(A[int], A[int])`: two parameterised class objects pass the identity-based duplicate check and are merged
   into one by the renaming; CPython: TypeError duplicate base class A. *)
Theorem generic_alias_duplicate_refuted :
  exists G, gwf_table G = true /\
            table_error (gproject (gmros_py G)) = None /\ table_error (gmros_c G) = Some 3.
Proof. exists alias_dup_witness. exact alias_duplicate_refuted_lemma. Qed.
Print Assumptions generic_alias_duplicate_refuted.

(* ---- non-vacuity of the extension ---- *)

(* diamond object; P; Q(P); R(P); S(Q, R), name 7 defined by P, Q, R: super() inside Q on an S instance finds R (the
   sibling), on a Q instance finds P; the cooperative chain on S runs Q, R, P. *)
Definition dia : list (list nat) := [[]; [0]; [1]; [1]; [2; 3]].
Definition dia_attrs : list (list nat) := [[]; [7]; [7]; [7]; []].
Example dia_super :
  wf_table dia = true /\ NoDup (mro_of (table_mros (mros_c dia)) 4) /\
  super_c dia dia_attrs (SInst 4) 2 7 = Some 3 /\ super_py true dia dia_attrs (SInst 4) 2 7 = Some 3 /\
  super_c dia dia_attrs (SInst 2) 2 7 = Some 1 /\
  super_chain_py dia_attrs (mro_of (table_mros (mros_c dia)) 4) 7 = [2; 3; 1].
Proof. vm_compute. repeat split; try reflexivity. repeat constructor; simpl; intuition discriminate. Qed.

(* __init__: P stores x (kind 2), Q stores x (kind 2), R stores x,y (kind 1: stores first): S().x comes from Q, S().y
   from R; with a __getattr__ in P a missing name is computed by P's hook *)
Definition dia_inits : list (nat * list nat) := [(3, []); (2, [5]); (2, [5]); (1, [5; 6]); (0, [])].
Example dia_instance :
  read_inst_c dia dia_attrs [[]; [1]; []; []; []] dia_inits 4 5 = AInst 2 /\
  read_inst_py true dia dia_attrs [[]; [1]; []; []; []] dia_inits 4 6 = AInst 3 /\
  read_inst_c dia dia_attrs [[]; [1]; []; []; []] dia_inits 4 7 = ACls 2 /\
  read_inst_c dia dia_attrs [[]; [1]; []; []; []] dia_inits 4 9 = AHook 1 1.
Proof. vm_compute. repeat split; reflexivity. Qed.
Definition dia_inits_post : list (nat * list nat) := [(0, []); (2, [5]); (2, [5]); (2, [5; 6]); (0, [])].
Example dia_all_post : all_post dia_inits_post [4; 2; 3; 1; 0] /\
  find (stores_name dia_inits_post 6) [4; 2; 3; 1; 0] = Some 3.
Proof. split; [|reflexivity]. intros c Hc. simpl in Hc. intuition (subst; vm_compute; auto). Qed.

(* Generic: object; Generic; A(Generic[T]); B(Generic[T], A[T]); C(A[int]); D(C, B[int]): same reading, created alike *)
Definition gen_ok : list (list gref) := [[]; [(0, 0)]; [(1, 1)]; [(1, 1); (2, 1)]; [(2, 2)]; [(4, 0); (3, 2)]].
Example gen_ok_result :
  gwf_table gen_ok = true /\ same_reading_table gen_ok = true /\
  gmros_c gen_ok = TableOk [[0]; [1; 0]; [2; 1; 0]; [3; 2; 1; 0]; [4; 2; 1; 0]; [5; 4; 3; 2; 1; 0]] /\
  gmros_py gen_ok = GOk [[(0, 0)]; [(1, 0); (0, 0)]; [(2, 0); (1, 1); (0, 0)]; [(3, 0); (2, 1); (1, 1); (0, 0)];
                         [(4, 0); (2, 2); (1, 1); (0, 0)]; [(5, 0); (4, 0); (3, 2); (2, 1); (1, 1); (0, 0)]].
Proof. vm_compute. repeat split; reflexivity. Qed.
(* the usual spelling `class C(A[T], Generic[T])`: different readings ([A] vs [A; Generic]), same classes created *)
Definition gen_trailing : list (list gref) := [[]; [(0, 0)]; [(1, 1)]; [(2, 1); (1, 1)]].
Example gen_trailing_readings :
  same_reading_table gen_trailing = false /\ gmros_c_py_reading gen_trailing = gmros_c gen_trailing.
Proof. vm_compute. split; reflexivity. Qed.
