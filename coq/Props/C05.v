(* C05 — every stub pytype emits is a valid stub that pytype reads back unchanged.
   Property theorems only; each is closed by [exact] and followed by Print Assumptions.
   Model: coq/Print/Model.v (token level; print_ty/print_sig mirror pytype/pytd/printer.py, parse_ty/parse_sig
   mirror pytype/pyi/{parser,definitions,function}.py + pytd/pep484.py + pytd/codegen/pytdgen.py for exactly the
   expression/def-line subset the printer emits; norm/norm_sig = the form the round trip lands on).
   [wf env t] is the emitted dialect; [stable]/[eq_stable]/[stable_sig] are the extra conditions under which the
   unchanged code really is a fixed point / structurally equal; every condition that is not implied by [wf] has
   a _refuted theorem with a witness that is replayed on the real printer and parser (harness/props/c05.py). *)
From Coq Require Import List NArith ZArith Bool.
From PV Require Import Print.Model Print.Proofs.
Import ListNotations.

(* ---------------------------------------------------------------- types ---------------------------- *)

(* Reading back the printed form of any dialect type (any depth/width, any printer context) succeeds and
   yields exactly norm t. *)
Theorem parse_print : forall env c t, wf env t = true ->
  parse_ty env (print_ty c t) = Some (norm c t).
Proof. exact parse_print_lemma. Qed.
Print Assumptions parse_print.

(* Full statement  forall t, wf t -> print (norm t) = print t  is REFUTED on the unchanged code: *)
(* (a) Literal[True, 1]: the reader's Literal(True) and Literal(1) are the same dict key (True == 1), one is dropped *)
Definition w_bool_int : ty := Union [Lit (LBool true true); Lit (LInt 1)].
(* (b) Callable[[nothing], int]: pytd_callable turns the argument list [nothing] into no arguments *)
Definition w_callable_nothing : ty := CallableT (NT id_Callable) [NothingT; Named (NB id_int)].

Theorem print_norm_refuted : exists env c t,
  wf env t = true /\ print_ty c (norm c t) <> print_ty c t.
Proof. exists [], (mkCtx false None), w_bool_int. split; [reflexivity | vm_compute; discriminate]. Qed.
Print Assumptions print_norm_refuted.

Theorem print_norm_refuted_callable : exists env c t,
  wf env t = true /\ print_ty c (norm c t) <> print_ty c t.
Proof. exists [], (mkCtx false None), w_callable_nothing. split; [reflexivity | vm_compute; discriminate]. Qed.
Print Assumptions print_norm_refuted_callable.

Theorem print_norm_partial : forall env c t, wf env t = true -> stable c t = true ->
  print_ty c (norm c t) = print_ty c t.
Proof. exact print_norm_lemma. Qed.
Print Assumptions print_norm_partial.

(* parse-then-print reproduces the text exactly *)
Theorem print_fixed_point_partial : forall env c t, wf env t = true -> stable c t = true ->
  exists t', parse_ty env (print_ty c t) = Some t' /\ print_ty c t' = print_ty c t.
Proof. exact print_fixed_point_lemma. Qed.
Print Assumptions print_fixed_point_partial.

Theorem print_fixed_point_refuted : exists env c t t',
  wf env t = true /\ parse_ty env (print_ty c t) = Some t' /\ print_ty c t' <> print_ty c t.
Proof.
  exists [], (mkCtx false None), w_bool_int, (Lit (LBool false true)).
  split; [reflexivity | split; [reflexivity | vm_compute; discriminate]].
Qed.
Print Assumptions print_fixed_point_refuted.

(* The re-read type equals the printed one under pytd's structural equality (set equality on unions), where
   "builtins.X" and "X" are the same name (unqual).  Full statement REFUTED: *)
(* (c) a parameter typed Union[int, float] is printed as float (pep484 compat rule, in_parameter only) *)
Definition w_compat : ty := Union [Named (NP id_int); Named (NP id_float)].
(* (d) a one-member union is printed as its member *)
Definition w_singleton : ty := Union [Named (NP id_int)].

Theorem reparse_equal_refuted : exists env c t,
  wf env t = true /\ stable c t = true /\ ty_eq (norm c t) (unqual t) = false.
Proof. exists [], (mkCtx true None), w_compat. repeat split; reflexivity. Qed.
Print Assumptions reparse_equal_refuted.

Theorem reparse_equal_refuted_singleton : exists env c t,
  wf env t = true /\ stable c t = true /\ ty_eq (norm c t) (unqual t) = false.
Proof. exists [], (mkCtx false None), w_singleton. repeat split; reflexivity. Qed.
Print Assumptions reparse_equal_refuted_singleton.

Theorem reparse_equal_partial : forall env c t,
  wf env t = true -> stable c t = true -> eq_stable c t = true ->
  ty_eq (norm c t) (unqual t) = true.
Proof. exact reparse_equal_lemma. Qed.
Print Assumptions reparse_equal_partial.

(* for a type already in the reader's naming convention (what parse_string itself produces) *)
Corollary reparse_equal_parsed_partial : forall env c t,
  wf env t = true -> stable c t = true -> eq_stable c t = true -> unqual t = t ->
  ty_eq (norm c t) t = true.
Proof. exact reparse_equal_parsed_lemma. Qed.
Print Assumptions reparse_equal_parsed_partial.

(* VerifyVisitor (the clauses about types: GenericType / CallableType have parameters) accepts what is read back *)
Theorem verify_ok : forall env c t, wf env t = true -> verify_ty (norm c t) = true.
Proof. exact verify_ok_lemma. Qed.
Print Assumptions verify_ok.

(* ---- non-vacuity: a type using every construct meets wf, stable and eq_stable, and the round trip is visible ---- *)
Definition ex_env : penv := [70%N].
Definition ex_ty : ty :=
  Generic (NB 64) [                                             (* builtins.list[...] *)
    Union [Named (NB id_NoneType);                              (* None first: printed as Optional[...] *)
           Lit (LInt 1); Named (NP id_int); Lit (LStr 90); Lit (LBool true false);
           Generic (NP id_tuple) [TParam 70];                   (* tuple[T, ...] *)
           TupleT (NB id_tuple) [];                             (* tuple[()] *)
           CallableT (NT id_Callable) [Named (NB id_str); Named (NP id_NoneType)];
           Generic (NT id_Callable) [AnyT; Annot (Named (NP 65)) [91%N]]]].
Example ex_wf : wf ex_env ex_ty = true /\ stable (mkCtx false None) ex_ty = true /\
                eq_stable (mkCtx false None) ex_ty = true.
Proof. vm_compute. repeat split; reflexivity. Qed.
Example ex_roundtrip :
  parse_ty ex_env (print_ty (mkCtx false None) ex_ty) = Some (norm (mkCtx false None) ex_ty) /\
  norm (mkCtx false None) ex_ty <> ex_ty /\
  print_ty (mkCtx false None) ex_ty =
    [TName 64; TLBr; TName id_Optional; TLBr; TName id_Union; TLBr;
       TName id_int; TComma;
       TName id_tuple; TLBr; TName 70; TComma; TEllipsis; TRBr; TComma;
       TName id_tuple; TLBr; TLPar; TRPar; TRBr; TComma;
       TName id_Callable; TLBr; TLBr; TName id_str; TRBr; TComma; TNone; TRBr; TComma;
       TName id_Callable; TLBr; TEllipsis; TComma; TName id_Annotated; TLBr; TName 65; TComma; TStr 91; TRBr; TRBr; TComma;
       TName id_Literal; TLBr; TInt 1; TComma; TStr 90; TComma; TBool false; TRBr;
     TRBr; TRBr; TRBr].
Proof. vm_compute. repeat split; try reflexivity. discriminate. Qed.
(* the parameter-only compat rule is exercised and stable: Union[int, float, None] in a parameter prints Optional[float] *)
Example ex_param :
  print_ty (mkCtx true None) (Union [Named (NB id_int); Named (NB id_float); Named (NB id_NoneType)]) =
    [TName id_Optional; TLBr; TName id_float; TRBr] /\
  stable (mkCtx true None) (Union [Named (NB id_int); Named (NB id_float); Named (NB id_NoneType)]) = true.
Proof. vm_compute. split; reflexivity. Qed.

(* ---------------------------------------------------------------- signatures ---------------------- *)
(* [simple_sig]: no type-mutation body lines (explicit `x = T`, or the implicit one the reader adds for a generic
   `self`).  Signatures with mutations are part of the model and of the correspondence check, but the theorems
   below are proved for simple signatures only (hence _partial). *)

Theorem parse_sig_print_partial : forall env scope c s,
  wf_sig env scope c s = true -> simple_sig c s = true ->
  parse_sig env scope (print_sig c s) = Some (norm_sig c s).
Proof. exact parse_sig_print_lemma. Qed.
Print Assumptions parse_sig_print_partial.

Theorem print_sig_norm_partial : forall env scope c s,
  wf_sig env scope c s = true -> simple_sig c s = true -> stable_sig c s = true ->
  print_sig c (norm_sig c s) = print_sig c s.
Proof. exact print_sig_norm_lemma. Qed.
Print Assumptions print_sig_norm_partial.

Theorem sig_fixed_point_partial : forall env scope c s,
  wf_sig env scope c s = true -> simple_sig c s = true -> stable_sig c s = true ->
  exists s', parse_sig env scope (print_sig c s) = Some s' /\ print_sig c s' = print_sig c s.
Proof. exact sig_fixed_point_lemma. Qed.
Print Assumptions sig_fixed_point_partial.

(* (e) def f(self: list[int]) -> None: ...  — NameAndSig.from_function adds the mutation `self = list[int]`
   because the first parameter is called self and its annotation is a GenericType; the re-printed stub has a
   body line that the emitted one did not have. *)
Definition w_self_generic : sig :=
  mkSig [mkParam id_self (Generic (NB 64) [Named (NB id_int)]) Regular false None] None None (Named (NB id_NoneType)).

Theorem sig_fixed_point_refuted : exists env scope c s s',
  wf_sig env scope c s = true /\ parse_sig env scope (print_sig c s) = Some s' /\
  print_sig c s' <> print_sig c s.
Proof.
  exists [], [], (mkCtx false None), w_self_generic,
    (mkSig [mkParam id_self (Generic (NP 64) [Named (NP id_int)]) Regular false (Some (Generic (NP 64) [Named (NP id_int)]))]
           None None (Named (NP id_NoneType))).
  split; [reflexivity | split; [reflexivity | vm_compute; discriminate]].
Qed.
Print Assumptions sig_fixed_point_refuted.

Theorem sig_reparse_equal_partial : forall env scope c s,
  wf_sig env scope c s = true -> simple_sig c s = true -> stable_sig c s = true -> eq_stable_sig c s = true ->
  sig_eq (norm_sig c s) (unqual_sig s) = true.
Proof. exact sig_reparse_equal_lemma. Qed.
Print Assumptions sig_reparse_equal_partial.

(* (f) inside class K, `def m(self: K) -> nothing` is printed `def m(self) -> Never: ...` and re-read with
   self: Any and the return type typing.Never (both re-derived only later, by the loader) *)
Definition w_method : sig :=
  mkSig [mkParam id_self (Named (NP 70)) Regular false None] None None NothingT.
Theorem sig_reparse_equal_refuted : exists env scope c s,
  wf_sig env scope c s = true /\ simple_sig c s = true /\ stable_sig c s = true /\
  sig_eq (norm_sig c s) (unqual_sig s) = false.
Proof. exists [], [], (mkCtx false (Some 70%N)), w_method. repeat split; reflexivity. Qed.
Print Assumptions sig_reparse_equal_refuted.

Theorem sig_verify_ok : forall env scope c s,
  wf_sig env scope c s = true -> simple_sig c s = true -> verify_sig (norm_sig c s) = true.
Proof. exact sig_verify_ok_lemma. Qed.
Print Assumptions sig_verify_ok.

(* ---- non-vacuity: def f(self, a: int, b: Optional[str] = ..., /, c=..., *args: T, k: list[int], **kw) -> tuple[T, ...] in class K ---- *)
Definition ex_sig : sig :=
  mkSig [mkParam id_self AnyT PosOnly false None;
         mkParam 80 (Named (NB id_int)) PosOnly false None;
         mkParam 81 (Union [Named (NB id_str); Named (NB id_NoneType)]) PosOnly true None;
         mkParam 82 AnyT Regular true None;
         mkParam 83 (Generic (NB 64) [Named (NB id_int)]) KwOnly false None]
        (Some (84%N, Generic (NB id_tuple) [TParam 70]))
        (Some (85%N, Named (NB id_dict)))
        (Generic (NB id_tuple) [TParam 70]).
Example ex_sig_ok :
  wf_sig ex_env [] (mkCtx false (Some 71%N)) ex_sig = true /\ simple_sig (mkCtx false (Some 71%N)) ex_sig = true /\
  stable_sig (mkCtx false (Some 71%N)) ex_sig = true /\ eq_stable_sig (mkCtx false (Some 71%N)) ex_sig = true.
Proof. vm_compute. repeat split; reflexivity. Qed.
Example ex_sig_print :
  print_sig (mkCtx false (Some 71%N)) ex_sig =
    [TLPar; TName id_self; TComma; TName 80; TColon; TName id_int; TComma;
     TName 81; TColon; TName id_Optional; TLBr; TName id_str; TRBr; TEq; TEllipsis; TComma; TSlash; TComma;
     TName 82; TEq; TEllipsis; TComma; TStar; TName 84; TColon; TName 70; TComma;
     TName 83; TColon; TName 64; TLBr; TName id_int; TRBr; TComma; TDStar; TName 85; TRPar; TArrow;
     TName id_tuple; TLBr; TName 70; TComma; TEllipsis; TRBr; TColon; TEllipsis] /\
  parse_sig ex_env [] (print_sig (mkCtx false (Some 71%N)) ex_sig) = Some (norm_sig (mkCtx false (Some 71%N)) ex_sig).
Proof. vm_compute. split; reflexivity. Qed.
(* a mutated parameter (outside simple_sig) still round-trips in the model: def f(x: list[int]) -> None: x = list[Union[int, str]] *)
Example ex_mutation :
  let s := mkSig [mkParam 80 (Generic (NP 64) [Named (NP id_int)]) Regular false
                          (Some (Generic (NP 64) [Union [Named (NP id_int); Named (NP id_str)]]))] None None (Named (NP id_NoneType)) in
  parse_sig [] [] (print_sig (mkCtx false None) s) = Some s.
Proof. vm_compute. reflexivity. Qed.

(* ---------------------------------------------------------------- declarations and units ---------- *)
(* Model: coq/Print/Decl.v (statement trees of token lines; print_const/print_alias/print_tparam/print_fsig/print_func/
   print_cls/print_unit mirror PrintVisitor's declaration methods; parse_simple/parse_fsig/merge_funcs/parse_class/
   parse_unit mirror pyi/parser.py's definition handling, function.py, codegen/function.py, classdef.py and
   definitions.py's build_class/build_type_decl_unit/finalize_ast for what the printer emits).  Proofs:
   coq/Print/DeclProofs.v. *)
From PV Require Import Print.Decl Print.DeclProofs.

(* one-line declarations *)
Theorem parse_const_print : forall env c in_class k, wf_const env k = true ->
  parse_simple env in_class (print_const c k) = Some (DConst (norm_const c k)).
Proof. exact parse_simple_const. Qed.
Print Assumptions parse_const_print.

Theorem parse_alias_print_partial : forall env a, wf_alias env a = true ->
  parse_simple env false (print_alias plain0 a) = Some (DAlias (norm_alias plain0 a)).
Proof. exact parse_simple_alias. Qed.
Print Assumptions parse_alias_print_partial.

Theorem parse_tparam_print : forall env t, wf_tparam env t = true ->
  parse_simple env false (print_tparam plain0 t) = Some (DTvar (norm_tparam plain0 t)).
Proof. exact parse_simple_tparam. Qed.
Print Assumptions parse_tparam_print.

(* signatures WITH mutated-parameter lines, raise lines and the implicit mutation of a generic self (this removes
   the simple_sig restriction of parse_sig_print_partial): any wf signature, any number of body lines *)
Theorem parse_fsig_print : forall env scope c nm f, wf_fsig env scope c f = true ->
  parse_fsig env nm (print_fsig c f) = Some (norm_fsig c nm f).
Proof. exact parse_fsig_print_lemma. Qed.
Print Assumptions parse_fsig_print.

(* decorator lines + overloads: the def groups printed for any list of functions with distinct names merge back
   into exactly the canonical functions *)
Theorem merge_funcs_print : forall fixed c fs,
  (forall f, In f fs -> decos_ok fixed c f = true /\ fn_sigs f <> []) -> NoDup (map fn_name fs) ->
  merge_funcs (func_defs fixed c fs) = Some (map (norm_func fixed c) fs).
Proof. exact DeclProofs.merge_funcs_print. Qed.
Print Assumptions merge_funcs_print.

(* a class of any size and nesting depth, read inside any suite *)
Theorem parse_class_print : forall fixed cl env scope nested ic X l, wf_cls fixed env scope nested cl = true ->
  suite_loop (parse_line env scope ic) (parse_class env scope) [] X = Some l ->
  suite_loop (parse_line env scope ic) (parse_class env scope) [] (print_cls fixed cl ++ X) = Some (DCls (norm_cls fixed cl) :: l).
Proof. exact class_reads_all. Qed.
Print Assumptions parse_class_print.

(* whole units: sections, blank lines, TypeVars in sorted order, aliases, constants, classes, functions *)
Theorem parse_unit_print : forall fixed u, wf_unit fixed u = true -> parse_unit (print_unit fixed u) = Some (norm_unit fixed u).
Proof. exact parse_unit_print_lemma. Qed.
Print Assumptions parse_unit_print.

(* The fixed-point statement  forall u, wf_unit u -> print_unit (norm_unit u) = print_unit u  is REFUTED: *)
(* (g) a property whose getter returns a TypeVar stays a method; the reader keeps the `property` decorator AND sets
   kind = PROPERTY, so the re-printed stub has two @property lines, which the reader itself rejects *)
Definition w_prop_sig (ret : ty) : fsig := mkF (mkSig [mkParam id_self AnyT Regular false None] None None ret) [].
Definition w_unit_prop2 : unit_ :=
  mkU [mkTP 100 101 [] None] [] []
      [mkCls 110 [] [] [] None [] [] [mkFn 120 [w_prop_sig (TParam 100)] KProp false false false []]] [].
Theorem unit_second_generation_before_fix_refuted : exists u u',
  wf_unit false u = true /\ parse_unit (print_unit false u) = Some u' /\ parse_unit (print_unit false u') = None.
Proof. exists w_unit_prop2, (norm_unit false w_unit_prop2). vm_compute. repeat split; reflexivity. Qed.
Print Assumptions unit_second_generation_before_fix_refuted.
(* with fixes/C05-property-decorator-printed-twice.patch the same unit is a fixed point from the first re-read on *)
Example w_unit_prop2_fixed :
  wf_unit true w_unit_prop2 = true /\ stable_unit true w_unit_prop2 = true /\
  print_unit true (norm_unit true w_unit_prop2) = print_unit true w_unit_prop2 /\
  parse_unit (print_unit true (norm_unit true w_unit_prop2)) = Some (norm_unit true w_unit_prop2).
Proof. vm_compute. repeat split; reflexivity. Qed.

(* (h) a property whose getter is not parametrised is re-read as a constant  x: Annotated[int, 'property'] *)
Definition w_unit_propconst : unit_ :=
  mkU [] [] [] [mkCls 110 [] [] [] None [] [] [mkFn 120 [w_prop_sig (Named (NP id_int))] KProp false false false []]] [].
Theorem unit_fixed_point_refuted : forall fixed, exists u u',
  wf_unit fixed u = true /\ parse_unit (print_unit fixed u) = Some u' /\ print_unit fixed u' <> print_unit fixed u.
Proof. intros fixed. exists w_unit_propconst, (norm_unit fixed w_unit_propconst). destruct fixed; vm_compute; repeat split; try reflexivity; discriminate. Qed.
Print Assumptions unit_fixed_point_refuted.

(* (j) why wf_alias excludes a target printed as `None`: the alias  x = None  is re-read as the constant  x: None *)
Definition w_unit_alias_none : unit_ := mkU [] [(130%N, Named (NB id_NoneType))] [] [] [].
Theorem alias_none_refuted : forall fixed, exists u u',
  parse_unit (print_unit fixed u) = Some u' /\ u_aliases u <> [] /\ u_aliases u' = [] /\ print_unit fixed u' <> print_unit fixed u.
Proof. intros fixed. exists w_unit_alias_none, (norm_unit fixed w_unit_alias_none). destruct fixed; vm_compute; repeat split; try reflexivity; discriminate. Qed.
Print Assumptions alias_none_refuted.

(* one-line declarations are fixed points when their type is *)
Theorem print_const_norm_partial : forall env c k, wf_const env k = true -> stable (ctx_plain c) (k_ty k) = true ->
  print_const c (norm_const c k) = print_const c k.
Proof.
  intros env c k H Hs. unfold wf_const in H. apply andb_true_iff in H. destruct H as [_ Hw].
  unfold print_const, norm_const. cbn [k_name k_ty k_val].
  rewrite (print_norm_lemma env (ctx_plain c) (k_ty k) Hw Hs). reflexivity.
Qed.
Print Assumptions print_const_norm_partial.

(* ---- non-vacuity: a unit with every kind of declaration meets wf_unit, and its printed form is visible ---- *)
Definition ex_fsig : fsig :=
  mkF (mkSig [mkParam id_self AnyT Regular false None;
              mkParam 140 (Generic (NP 64) [TParam 100]) Regular false (Some (Generic (NP 64) [Named (NP id_int)]))]
             None None (Named (NP id_NoneType)))
      [Named (NP 150)].
Definition ex_unit : unit_ :=
  mkU [mkTP 102 103 [] (Some (Named (NP id_int))); mkTP 100 101 [Named (NP id_int); Named (NP id_str)] None]
      [(131%N, Generic (NP 64) [Named (NP id_int)])]
      [mkK 132 (Union [Named (NP id_int); Named (NP id_NoneType)]) true]
      [mkCls 110 [Generic (NT 49) [TParam 100]] [(id_metaclass, Named (NP 111))] [id_final; id_final] (Some [160%N])
             [mkCls 112 [Named (NP id_object)] [] [] None [] [] []]
             [mkK 133 (Named (NP id_int)) false]
             [mkFn 121 [ex_fsig; ex_fsig] KMethod true false false [];
              mkFn id_new [mkF (mkSig [mkParam id_cls AnyT Regular false None] None None AnyT) []] KStatic false false false []]]
      [mkFn 122 [mkF (mkSig [] None None (Named (NP id_int))) []] KMethod false false true [170%N]].
Example ex_unit_wf : forall fixed, wf_unit fixed ex_unit = true.
Proof. intros []; vm_compute; reflexivity. Qed.
Example ex_unit_roundtrip : forall fixed, parse_unit (print_unit fixed ex_unit) = Some (norm_unit fixed ex_unit) /\ norm_unit fixed ex_unit <> ex_unit.
Proof. intros []; vm_compute; (split; [reflexivity|discriminate]). Qed.
Example ex_unit_print : print_unit false ex_unit =
  [SLine [TName 100; TEq; TName id_TypeVar; TLPar; TStr 101; TComma; TName id_int; TComma; TName id_str; TRPar];
   SLine [TName 102; TEq; TName id_TypeVar; TLPar; TStr 103; TComma; TName id_bound; TEq; TName id_int; TRPar];
   SBlank;
   SLine [TName 131; TEq; TName 64; TLBr; TName id_int; TRBr];
   SBlank;
   SLine [TName 132; TColon; TName id_Optional; TLBr; TName id_int; TRBr; TEq; TEllipsis];
   SBlank;
   SLine [TName id_at; TName id_final];
   SClass [TName id_class; TName 110; TLPar; TName 49; TLBr; TName 100; TRBr; TComma; TName id_metaclass; TEq; TName 111; TRPar; TColon]
     [SLine [TName id_slots; TEq; TLBr; TStr 160; TRBr];
      SLine [TName id_class; TName 112; TColon; TEllipsis];
      SLine [TName 133; TColon; TName id_int];
      SLine [TName id_at; TName id_abstractmethod]; SLine [TName id_at; TName id_overload];
      SLine [TName id_def; TName 121; TLPar; TName id_self; TComma; TName 140; TColon; TName 64; TLBr; TName 100; TRBr; TRPar; TArrow; TNone; TColon;
             TNewline; TName 140; TEq; TName 64; TLBr; TName id_int; TRBr; TNewline; TName id_raise; TName 150; TLPar; TRPar];
      SLine [TName id_at; TName id_abstractmethod]; SLine [TName id_at; TName id_overload];
      SLine [TName id_def; TName 121; TLPar; TName id_self; TComma; TName 140; TColon; TName 64; TLBr; TName 100; TRBr; TRPar; TArrow; TNone; TColon;
             TNewline; TName 140; TEq; TName 64; TLBr; TName id_int; TRBr; TNewline; TName id_raise; TName 150; TLPar; TRPar];
      SLine [TName id_def; TName id_new; TLPar; TName id_cls; TRPar; TArrow; TName id_Any; TColon; TEllipsis]];
   SBlank;
   SLine [TName id_at; TName 170]; SLine [TName id_at; TName id_final];
   SLine [TName id_def; TName 122; TLPar; TRPar; TArrow; TName id_int; TColon; TEllipsis]].
Proof. vm_compute. reflexivity. Qed.

(* ---------------------------------------------------------------- fixed point and structural equality of units ---- *)
From PV Require Import Print.DeclFix.

(* signatures with body lines are re-printed as they were (removes simple_sig from print_sig_norm_partial) *)
Theorem print_fsig_norm_partial : forall env scope c nm f,
  wf_fsig env scope c f = true -> stable_fsig c nm f = true ->
  print_fsig c (norm_fsig c nm f) = print_fsig c f.
Proof. exact print_fsig_norm_lemma. Qed.
Print Assumptions print_fsig_norm_partial.

(* [stable_unit]: every type stable (as in print_norm_partial), signatures stable_sig, explicit decorators free of the
   names the reader interprets and without repetitions, kinds consistent with __new__/__init_subclass__, no base
   `nothing`, no property method that the reader turns into a constant, and a property that stays a method only on
   the fixed tree (and not @final).  The alias `x = None` is excluded by wf_unit already. *)
Theorem print_unit_fixed_point_partial : forall fixed u, wf_unit fixed u = true -> stable_unit fixed u = true ->
  print_unit fixed (norm_unit fixed u) = print_unit fixed u.
Proof. exact print_unit_fixed_point_lemma. Qed.
Print Assumptions print_unit_fixed_point_partial.

(* the second generation is read back as the first; with fixed = true this covers properties that stay methods
   (w_unit_prop2_fixed), which unit_second_generation_before_fix_refuted shows to fail as written *)
Theorem unit_second_generation : forall fixed u, wf_unit fixed u = true -> stable_unit fixed u = true ->
  parse_unit (print_unit fixed (norm_unit fixed u)) = Some (norm_unit fixed u).
Proof. exact unit_second_generation_lemma. Qed.
Print Assumptions unit_second_generation.

(* [eq_stable_unit]: additionally every type eq_stable, signatures eq_stable_sig, no property methods, class
   decorators without repetitions, every class lists a base and is not called object, TypeVars in the printer's order *)
Theorem unit_reparse_equal_partial : forall fixed u,
  wf_unit fixed u = true -> stable_unit fixed u = true -> eq_stable_unit u = true ->
  unit_eq (norm_unit fixed u) (unqual_unit u) = true.
Proof. exact unit_reparse_equal_lemma. Qed.
Print Assumptions unit_reparse_equal_partial.

(* the structural-equality statement without eq_stable_unit is REFUTED: a class without bases is re-read with the base
   object, TypeVars come back in the printer's order *)
Definition w_unit_nobase : unit_ := mkU [] [] [] [mkCls 110 [] [] [] None [] [] []] [].
Theorem unit_reparse_equal_refuted : forall fixed, exists u,
  wf_unit fixed u = true /\ stable_unit fixed u = true /\ unit_eq (norm_unit fixed u) (unqual_unit u) = false.
Proof. intros fixed. exists w_unit_nobase. destruct fixed; vm_compute; repeat split; reflexivity. Qed.
Print Assumptions unit_reparse_equal_refuted.

(* ---- non-vacuity: TypeVars with constraints and bound, alias, constant, a generic class with metaclass, decorator,
   slots, nested class, class constant, an overloaded abstract method with a mutated parameter and a raise line,
   __new__, and a final decorated module function meet all three hypotheses, in both variants ---- *)
Definition ex_unit_stable : unit_ :=
  mkU [mkTP 100 101 [Named (NP id_int); Named (NP id_str)] None; mkTP 102 103 [] (Some (Named (NP id_int)))]
      [(131%N, Generic (NP 64) [Named (NP id_int)])]
      [mkK 132 (Union [Named (NP id_int); Named (NP id_NoneType)]) true]
      [mkCls 110 [Generic (NT 49) [TParam 100]] [(id_metaclass, Named (NP 111))] [id_final] (Some [160%N])
             [mkCls 112 [Named (NP 64)] [] [] None [] [] []]
             [mkK 133 (Named (NP id_int)) false]
             [mkFn 121 [ex_fsig; ex_fsig] KMethod true false false [];
              mkFn id_new [mkF (mkSig [mkParam id_cls AnyT Regular false None] None None AnyT) []] KStatic false false false []]]
      [mkFn 122 [mkF (mkSig [] None None (Named (NP id_int))) []] KMethod false false true [170%N]].
Example ex_unit_stable_ok : forall fixed,
  wf_unit fixed ex_unit_stable = true /\ stable_unit fixed ex_unit_stable = true /\ eq_stable_unit ex_unit_stable = true /\
  print_unit fixed (norm_unit fixed ex_unit_stable) = print_unit fixed ex_unit_stable /\
  unit_eq (norm_unit fixed ex_unit_stable) (unqual_unit ex_unit_stable) = true.
Proof. intros []; vm_compute; repeat split; reflexivity. Qed.

(* ------------------------------------------------------------------------------------------------ *)
(* the import block (coq/Print/Imports.v): printer.py's _Imports bookkeeping over the declaration model *)
From PV Require Import Print.Imports Print.ImportsProofs.

(* every member of typing that occurs in a printed type is counted (> 0) by the events the visitor records for that
   type, and no count is driven below zero; for every type of the dialect, at any depth, whatever the use sites of
   type variables record (members other than Tuple / Dict, which _FormatContainerContents decrements unconditionally) *)
Theorem imports_complete_ty : forall bev env, (forall i k, (0 <= net k (bev i))%Z) ->
  forall t c, wf env t = true -> forall k, tk k ->
  (0 <= net k (tev_ty bev c t))%Z /\ (In (TName k) (print_ty c t) -> (0 < net k (tev_ty bev c t))%Z).
Proof. exact cov_ty. Qed.
Print Assumptions imports_complete_ty.

(* the `from typing import` line lists exactly the recorded members whose count is not zero *)
Theorem typing_line_characterised : forall evs k, In k (typing_targets evs) <-> In (EAdd k) evs /\ net k evs <> 0%Z.
Proof. exact typing_target_iff. Qed.
Print Assumptions typing_line_characterised.

(* every module-qualified name handed to VisitNamedType has an imported prefix, and that prefix has its `import m` line *)
Theorem imports_complete_modules : forall T iu n, In n (np_unit T (iu_unit iu)) ->
  nt_chain T n = [] \/ exists q, In q (nt_chain T n) /\ In q (import_mods T iu) /\ get q (direct_imports T iu) = Some q.
Proof.
  intros T iu n H. destruct (modules_complete T iu n H) as [E|[q [Hq Hm]]]; [left; exact E|].
  right. exists q. repeat split; [exact Hq | exact Hm | apply module_line_emitted, Hm].
Qed.
Print Assumptions imports_complete_modules.

Theorem imports_sorted_unique : forall T rich iu,
  Sorted.Sorted (fun a b => line_leb T a b = true) (import_lines T rich iu) /\
  (forall evs, let tg := sort_targets T (map (fun k => (k, k)) (typing_targets evs)) in
               Sorted.Sorted (fun a b => target_leb T a b = true) tg /\ NoDup tg).
Proof. intros T rich iu. split; [apply lines_sorted | intros evs; apply typing_line_sorted_unique]. Qed.
Print Assumptions imports_sorted_unique.

(* the round trip of the whole text: the declarations are read back as norm_unit and the import lines as alias
   declarations, PROVIDED every member of typing used by the printed declarations is on the typing line (the hypothesis
   is evaluated on every generated unit by the harness; it is what imports_complete_ty gives site by site) *)
Theorem parse_print_text_partial : forall T fixed rich iu,
  wf_unit fixed (iu_unit iu) = true ->
  (forall k, In (TName k) (stmts_tokens (print_unit fixed (iu_unit iu))) -> is_typing k = true ->
             In k (typing_targets (typing_events rich iu))) ->
  parse_text (print_text T fixed rich iu) = Some (norm_iunit T fixed rich iu).
Proof. exact parse_print_text_lemma. Qed.
Print Assumptions parse_print_text_partial.

(* witnesses: ids 80.. are ordinary names (C, f, x, args, k, list) *)
Definition T0 : ntab := mkNT (fun _ => []) (fun _ => false) (fun i => i).
Definition seq_int : ty := Generic (NT 32) [Named (NP id_int)].
(* class C: def f(self: C[Sequence[Sequence[int]]]) -> int *)
Definition w_over : iunit :=
  mkIU [] (mkU [] [] [] [mkCls 80 [] [] [] None [] []
     [mkFn 81 [mkF (mkSig [mkParam id_self (Generic (NP 80) [Generic (NT 32) [seq_int]]) Regular false None] None None
                          (Named (NP id_int))) []] KMethod false false false []]] []).
(* def f(x: list[int]) -> int:  x = Union[int, float] *)
Definition w_mut : iunit :=
  mkIU [] (mkU [] [] [] [] [mkFn 81 [mkF (mkSig [mkParam 82 (Generic (NP 85) [Named (NP id_int)]) Regular false
                                                          (Some (Union [Named (NP id_int); Named (NP id_float)]))]
                                                 None None (Named (NP id_int))) []] KMethod false false false []]).
(* k: Tuple[int]    def f( *args: int) -> int *)
Definition w_tuple : iunit :=
  mkIU [] (mkU [] [] [mkK 84 (Generic (NT id_Tuple) [Named (NP id_int)]) false] []
              [mkFn 81 [mkF (mkSig [] (Some (83%N, Generic (NP id_tuple) [Named (NP id_int)])) None (Named (NP id_int))) []]
                    KMethod false false false []]).

Definition printed_typing (fixed : bool) (iu : iunit) : list N :=
  filter is_typing (tok_names (stmts_tokens (print_unit fixed (iu_unit iu)))).

(* minimality fails: an elided self annotation that mentions Sequence twice leaves `from typing import Sequence`
   although nothing printed uses it (finding unused-typing-import-after-elided-annotation) *)
Theorem imports_minimal_refuted : exists iu, wf_unit false (iu_unit iu) = true /\
  In 32%N (typing_targets (typing_events false iu)) /\ ~ In 32%N (printed_typing false iu).
Proof. exists w_over. split; [vm_compute; reflexivity|]. split; [vm_compute; auto|]. vm_compute. intros []. Qed.
Print Assumptions imports_minimal_refuted.

(* completeness fails for a mutated type that prints differently under in_parameter: the uses are recorded while
   in_parameter is set (Union[int, float] collapses to float: no Union), the text comes from a copy afterwards *)
Theorem imports_complete_mutated_refuted : exists iu,
  In id_Union (printed_typing false iu) /\ ~ In id_Union (typing_targets (typing_events false iu)) /\ wf_imports iu = false.
Proof. exists w_mut. split; [vm_compute; auto|]. split; [vm_compute; intros []|vm_compute; reflexivity]. Qed.
Print Assumptions imports_complete_mutated_refuted.

(* and for typing.Tuple next to a typed star-args parameter: _FormatContainerContents decrements "Tuple" *)
Theorem imports_complete_tuple_refuted : exists iu,
  In id_Tuple (printed_typing false iu) /\ ~ In id_Tuple (typing_targets (typing_events false iu)).
Proof. exists w_tuple. split; [vm_compute; auto|]. vm_compute. intros []. Qed.
Print Assumptions imports_complete_tuple_refuted.

Example ex_imports_nonvacuous :
  wf_imports w_over = true /\ import_lines T0 false w_over = [LFrom id_typing [(32%N, 32%N)]] /\
  parse_text (print_text T0 false false w_over) = Some (norm_iunit T0 false false w_over).
Proof. vm_compute. repeat split. Qed.
