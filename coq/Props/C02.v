(* C02 -- annotations are enforced exactly: error iff the value is outside the annotated type.   (PARTIAL)
   Property theorems only; each is closed by [exact] (or by computation on a closed witness) and followed by
   Print Assumptions.  Model: Match/Model.v (ground, type-variable-free fragment of matcher.py + the three
   enforcement sites); builtin class table: Generated/C02_Builtins.v, regenerated from pytype's loaded stubs on
   every run.

   Reading guide.  [matches tb (abs v) t] is what _check_return / check_annotation_type_mismatch compute for the
   value expression v and the annotation t (every view must match); [matches_any] is what an argument site
   computes (match_all_views=False).  [inhabits tb v t] is PEP 484 membership of the run-time value, as the
   property names it.  [inhabitsF pytype_devs] is membership with six named local deviations switched on
   (Model.v, record [devs]); [slices v] are the monomorphic slices of v (one element kept per container), the
   concrete counterpart of pytype's views. *)
From Coq Require Import List Arith Bool.
From PV Require Import Match.Model Match.Proofs Match.SliceExact Match.Witnesses Generated.C02_Builtins.
Import ListNotations.

(* ---- the full statement is refuted on the faithful model ------------------------------------------------ *)

(* the table of this run: regenerated builtins + the harness' default 6-class / 3-protocol hierarchy
   K0; K1(K0); K2(K1) defines m0; K3 defines m0, m1; K4(K3, K0); K5(K0) defines m1; P0 = {m0}; P1 = {m1};
   P2 = {m0, m1} *)
(* the regenerated table satisfies everything the proofs assume about it (fails closed when the stubs drift) *)
Theorem generated_table_ok : table_ok tb0 = true.
Proof. exact generated_table_ok_w. Qed.
Print Assumptions generated_table_ok.

(* "a" is a Sequence[str] under PEP 484, pytype reports an error at all three sites *)
Theorem enforcement_exact_refuted :
  exists v t, table_ok tb0 = true /\ wf_ty tb0 t = true /\ wf_val tb0 v = true /\
              matches tb0 (abs v) t <> inhabits tb0 v t /\
              err_arg tb0 v t = true /\ err_ret tb0 v t = true /\ err_assign tb0 v t = true /\
              inhabits tb0 v t = true.
Proof. exact refuted_w. Qed.
Print Assumptions enforcement_exact_refuted.

(* ---- what the matcher computes, exactly ----------------------------------------------------------------- *)

(* return and annotated-assignment sites: every monomorphic slice of the value must be a member, membership
   being PEP 484 membership with the six named deviations; any class table accepted by table_ok, unbounded
   nesting depth of annotation and value *)
Theorem matcher_characterisation : forall tb v t,
  table_ok tb = true -> wf_ty tb t = true -> wf_val tb v = true ->
  matches tb (abs v) t = forallb (inhabitsF pytype_devs tb t) (slices v).
Proof. exact matches_all_char. Qed.
Print Assumptions matcher_characterisation.

(* argument site: one member slice suffices *)
Theorem arg_site_characterisation : forall tb v t,
  table_ok tb = true -> wf_ty tb t = true -> wf_val tb v = true ->
  matches_any tb (abs v) t = existsb (inhabitsF pytype_devs tb t) (slices v).
Proof. exact matches_any_char. Qed.
Print Assumptions arg_site_characterisation.

(* the views pytype enumerates for the literal are exactly the abstractions of the slices *)
Theorem views_are_slices : forall v, views (abs v) = map abs1 (slices v).
Proof. exact views_abs. Qed.
Print Assumptions views_are_slices.

(* ---- exactness away from the deviations -------------------------------------------------------------------- *)

(* If no named deviation changes the verdict on a slice, and membership of v in t is decided slice-wise
   (sufficient: see union_simple / tupleof_free in Model.v), then the return / assignment verdict is exactly
   PEP 484 membership.  The first hypothesis fails exactly on the deviation cases; the witness above
   ("a", Sequence[str]) is one of them. *)
Theorem enforcement_exact_partial : forall tb v t,
  table_ok tb = true -> wf_ty tb t = true -> wf_val tb v = true ->
  (forall s, In s (slices v) -> inhabitsF pytype_devs tb t s = inhabits tb s t) ->
  forallb (fun s => inhabits tb s t) (slices v) = inhabits tb v t ->
  matches tb (abs v) t = inhabits tb v t.
Proof. exact exact_partial. Qed.
Print Assumptions enforcement_exact_partial.

(* A syntactic sufficient condition for the second hypothesis: unions with at most one option that looks
   inside the value (Optional[List[int]], Union[int, str, None], ... but not Union[List[int], List[str]]) and
   values without tuple(...) calls. *)
Theorem slice_exact_sufficient : forall tb v t,
  union_simple t = true -> tupleof_free v = true ->
  forallb (fun s => inhabits tb s t) (slices v) = inhabits tb v t.
Proof. exact slice_exact. Qed.
Print Assumptions slice_exact_sufficient.

(* ... hence: on that syntactic class the only way to get a wrong verdict at a return / assignment site is
   one of the six local deviations changing the verdict of a slice *)
Theorem enforcement_exact_syntactic : forall tb v t,
  table_ok tb = true -> wf_ty tb t = true -> wf_val tb v = true ->
  union_simple t = true -> tupleof_free v = true ->
  (forall s, In s (slices v) -> inhabitsF pytype_devs tb t s = inhabits tb s t) ->
  matches tb (abs v) t = inhabits tb v t.
Proof. exact exact_syntactic. Qed.
Print Assumptions enforcement_exact_syntactic.

(* site glue: an error is logged iff ... *)
Theorem sites_exact_partial : forall tb v t,
  table_ok tb = true -> wf_ty tb t = true -> wf_val tb v = true ->
  (forall s, In s (slices v) -> inhabitsF pytype_devs tb t s = inhabits tb s t) ->
  forallb (fun s => inhabits tb s t) (slices v) = inhabits tb v t ->
  err_ret tb v t = negb (inhabits tb v t) /\
  (is_none v = false -> err_assign tb v t = negb (inhabits tb v t)) /\
  (slices v = [v] -> err_arg tb v t = negb (inhabits tb v t)).
Proof. exact sites_partial. Qed.
Print Assumptions sites_exact_partial.

(* ---- every named deviation is real on the faithful model (each one is reproduced on pytype by the check) -- *)
(* statement: Match/Witnesses.v, deviations_stmt (one conjunct per named deviation: the model's verdict and the
   oracle's verdict on a concrete (value, annotation)) *)
Theorem deviations_real : deviations_stmt.
Proof. exact deviations_w. Qed.
Print Assumptions deviations_real.

(* ---- non-vacuity ------------------------------------------------------------------------------------------- *)
(* the hypotheses of enforcement_exact_partial hold on non-trivial instances, with both verdicts occurring *)
Definition ex_t1 : ty := Cb B_dict [Cb B_str []; TUnion [Cb B_list [TTuple [Cb B_float []; K 0]]; NoneT]].
Definition ex_v1 : value :=                       (* {"a": [(1, K1()), (2.5, K4())], "b": None} *)
  VDict [Str; Str] [VColl KList [VTuple [Int; VInst 1]; VTuple [VScalar SFloat; VInst 4]]; NoneV].
Definition ex_v2 : value :=                       (* {"a": [(1, K3())]}: K3 is not a K0 *)
  VDict [Str] [VColl KList [VTuple [Int; VInst 3]]].
Definition hyps (v : value) (t : ty) : bool :=
  table_ok tb0 && wf_ty tb0 t && wf_val tb0 v && union_simple t && tupleof_free v &&
  forallb (fun s => Bool.eqb (inhabitsF pytype_devs tb0 t s) (inhabits tb0 s t)) (slices v) &&
  Bool.eqb (forallb (fun s => inhabits tb0 s t) (slices v)) (inhabits tb0 v t).
Example hyps_hold_member : hyps ex_v1 ex_t1 = true /\ inhabits tb0 ex_v1 ex_t1 = true /\
                           matches tb0 (abs ex_v1) ex_t1 = true /\ length (slices ex_v1) = 6.
Proof. vm_compute. repeat split; reflexivity. Qed.
Example hyps_hold_nonmember : hyps ex_v2 ex_t1 = true /\ inhabits tb0 ex_v2 ex_t1 = false /\
                              err_ret tb0 ex_v2 ex_t1 = true /\ err_arg tb0 ex_v2 ex_t1 = true.
Proof. vm_compute. repeat split; reflexivity. Qed.
(* promotion, nominal subclassing through the table, structural protocol, Type[C], callable arity *)
Example members :
  inhabits tb0 (VColl KList [Int; VScalar SBool]) (Cb B_t_Sequence [Cb B_complex []]) = true /\
  inhabits tb0 (VInst 2) (K 0) = true /\ inhabits tb0 (VInst 0) (K 2) = false /\
  inhabits tb0 (VInst 4) (K 8) = true /\ inhabits tb0 (VInst 2) (K 8) = false /\
  inhabits tb0 (VClass (CU 2)) (Cb B_type [K 1]) = true /\ inhabits tb0 (VClass (CB B_int)) (Cb B_type [Cb B_float []]) = true /\
  inhabits tb0 (VFunc 1 1 false) (TCallable [TAny; TAny] TAny) = true /\
  inhabits tb0 (VFunc 1 1 false) (TCallable [TAny; TAny; TAny] TAny) = false.
Proof. vm_compute. repeat split; reflexivity. Qed.
