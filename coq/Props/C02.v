From Coq Require Import List Arith Bool.
From PV Require Import Match.Model Match.Proofs Generated.C02_Builtins.
Import ListNotations.
Definition tb0 : table := {| t_b := gen_builtins; t_u := [] |}.
Theorem enforcement_exact_refuted :
  exists v t, table_ok tb0 = true /\ wf_ty tb0 t = true /\ wf_val tb0 v = true /\
              matches tb0 (abs v) t <> inhabits tb0 v t.
Proof. exists (VScalar SStr), (TCls (CB B_t_Sequence) [TCls (CB B_str) []]). vm_compute. repeat split; discriminate. Qed.
Print Assumptions enforcement_exact_refuted.
