(* C02 -- annotations are enforced exactly: error iff the value is outside the annotated type.   (PARTIAL)
   Property theorems only; each is closed by [exact] (or by computation on a closed witness) and followed by
   Print Assumptions.  Model: Match/Model.v (ground, type-variable-free fragment of matcher.py + the three
   enforcement sites); builtin class table: Generated/C02_Builtins.v, regenerated from pytype's loaded stubs on
   every run.

   Reading guide.  [matches tb (abs v) t] is what _check_return / check_annotation_type_mismatch compute for the
   value expression v and the annotation t (every view must match); [matches_any] is what an argument site
   computes (match_all_views=False).  [inhabits tb v t] is PEP 484 membership of the run-time value, as the
   property names it.  [inhabitsF pytype_devs] is membership with six named local deviations switched on
   (Model.v, record [devs]); [slices v] are the monomorphic slices of v (one element kept per container), the
   concrete counterpart of pytype's views. *)
From Coq Require Import List Arith Bool ZArith.
From PV Require Import Match.Model Match.Proofs Match.SliceExact Match.Witnesses Generated.C02_Builtins.
From PV Require Match.ArgSite Match.ArgSiteProofs Match.Store Match.StoreProofs Match.Proto Match.ProtoProofs.
From PV Require Import Match.Lit Match.LitProofs Match.LitWitnesses.
Import ListNotations.

(* ---- the full statement is refuted on the faithful model ------------------------------------------------ *)

(* the table of this run: regenerated builtins + the harness' default 6-class / 3-protocol hierarchy
   K0; K1(K0); K2(K1) defines m0; K3 defines m0, m1; K4(K3, K0); K5(K0) defines m1; P0 = {m0}; P1 = {m1};
   P2 = {m0, m1} *)
(* the regenerated table satisfies everything the proofs assume about it (fails closed when the stubs drift) *)
Theorem generated_table_ok : table_ok tb0 = true.
Proof. exact generated_table_ok_w. Qed.
Print Assumptions generated_table_ok.

(* "a" is a Sequence[str] under PEP 484, pytype reports an error at all three sites *)
Theorem enforcement_exact_refuted :
  exists v t, table_ok tb0 = true /\ wf_ty tb0 t = true /\ wf_val tb0 v = true /\
              matches tb0 (abs v) t <> inhabits tb0 v t /\
              err_arg tb0 v t = true /\ err_ret tb0 v t = true /\ err_assign tb0 v t = true /\
              inhabits tb0 v t = true.
Proof. exact refuted_w. Qed.
Print Assumptions enforcement_exact_refuted.

(* ---- what the matcher computes, exactly ----------------------------------------------------------------- *)

(* return and annotated-assignment sites: every monomorphic slice of the value must be a member, membership
   being PEP 484 membership with the six named deviations; any class table accepted by table_ok, unbounded
   nesting depth of annotation and value *)
Theorem matcher_characterisation : forall tb v t,
  table_ok tb = true -> wf_ty tb t = true -> wf_val tb v = true ->
  matches tb (abs v) t = forallb (inhabitsF pytype_devs tb t) (slices v).
Proof. exact matches_all_char. Qed.
Print Assumptions matcher_characterisation.

(* argument site: one member slice suffices *)
Theorem arg_site_characterisation : forall tb v t,
  table_ok tb = true -> wf_ty tb t = true -> wf_val tb v = true ->
  matches_any tb (abs v) t = existsb (inhabitsF pytype_devs tb t) (slices v).
Proof. exact matches_any_char. Qed.
Print Assumptions arg_site_characterisation.

(* the views pytype enumerates for the literal are exactly the abstractions of the slices *)
Theorem views_are_slices : forall v, views (abs v) = map abs1 (slices v).
Proof. exact views_abs. Qed.
Print Assumptions views_are_slices.

(* ---- exactness away from the deviations -------------------------------------------------------------------- *)

(* If no named deviation changes the verdict on a slice, and membership of v in t is decided slice-wise
   (sufficient: see union_simple / tupleof_free in Model.v), then the return / assignment verdict is exactly
   PEP 484 membership.  The first hypothesis fails exactly on the deviation cases; the witness above
   ("a", Sequence[str]) is one of them. *)
Theorem enforcement_exact_partial : forall tb v t,
  table_ok tb = true -> wf_ty tb t = true -> wf_val tb v = true ->
  (forall s, In s (slices v) -> inhabitsF pytype_devs tb t s = inhabits tb s t) ->
  forallb (fun s => inhabits tb s t) (slices v) = inhabits tb v t ->
  matches tb (abs v) t = inhabits tb v t.
Proof. exact exact_partial. Qed.
Print Assumptions enforcement_exact_partial.

(* A syntactic sufficient condition for the second hypothesis: unions with at most one option that looks
   inside the value (Optional[List[int]], Union[int, str, None], ... but not Union[List[int], List[str]]) and
   values without tuple(...) calls. *)
Theorem slice_exact_sufficient : forall tb v t,
  union_simple t = true -> tupleof_free v = true ->
  forallb (fun s => inhabits tb s t) (slices v) = inhabits tb v t.
Proof. exact slice_exact. Qed.
Print Assumptions slice_exact_sufficient.

(* ... hence: on that syntactic class the only way to get a wrong verdict at a return / assignment site is
   one of the six local deviations changing the verdict of a slice *)
Theorem enforcement_exact_syntactic : forall tb v t,
  table_ok tb = true -> wf_ty tb t = true -> wf_val tb v = true ->
  union_simple t = true -> tupleof_free v = true ->
  (forall s, In s (slices v) -> inhabitsF pytype_devs tb t s = inhabits tb s t) ->
  matches tb (abs v) t = inhabits tb v t.
Proof. exact exact_syntactic. Qed.
Print Assumptions enforcement_exact_syntactic.

(* site glue: an error is logged iff ... *)
Theorem sites_exact_partial : forall tb v t,
  table_ok tb = true -> wf_ty tb t = true -> wf_val tb v = true ->
  (forall s, In s (slices v) -> inhabitsF pytype_devs tb t s = inhabits tb s t) ->
  forallb (fun s => inhabits tb s t) (slices v) = inhabits tb v t ->
  err_ret tb v t = negb (inhabits tb v t) /\
  (is_none v = false -> err_assign tb v t = negb (inhabits tb v t)) /\
  (slices v = [v] -> err_arg tb v t = negb (inhabits tb v t)).
Proof. exact sites_partial. Qed.
Print Assumptions sites_exact_partial.

(* ---- every named deviation is real on the faithful model (each one is reproduced on pytype by the check) -- *)
(* statement: Match/Witnesses.v, deviations_stmt (one conjunct per named deviation: the model's verdict and the
   oracle's verdict on a concrete (value, annotation)) *)
Theorem deviations_real : deviations_stmt.
Proof. exact deviations_w. Qed.
Print Assumptions deviations_real.

(* ---- non-vacuity ------------------------------------------------------------------------------------------- *)
(* the hypotheses of enforcement_exact_partial hold on non-trivial instances, with both verdicts occurring *)
Definition ex_t1 : ty := Cb B_dict [Cb B_str []; TUnion [Cb B_list [TTuple [Cb B_float []; K 0]]; NoneT]].
Definition ex_v1 : value :=                       (* {"a": [(1, K1()), (2.5, K4())], "b": None} *)
  VDict [Str; Str] [VColl KList [VTuple [Int; VInst 1]; VTuple [VScalar SFloat; VInst 4]]; NoneV].
Definition ex_v2 : value :=                       (* {"a": [(1, K3())]}: K3 is not a K0 *)
  VDict [Str] [VColl KList [VTuple [Int; VInst 3]]].
Definition hyps (v : value) (t : ty) : bool :=
  table_ok tb0 && wf_ty tb0 t && wf_val tb0 v && union_simple t && tupleof_free v &&
  forallb (fun s => Bool.eqb (inhabitsF pytype_devs tb0 t s) (inhabits tb0 s t)) (slices v) &&
  Bool.eqb (forallb (fun s => inhabits tb0 s t) (slices v)) (inhabits tb0 v t).
Example hyps_hold_member : hyps ex_v1 ex_t1 = true /\ inhabits tb0 ex_v1 ex_t1 = true /\
                           matches tb0 (abs ex_v1) ex_t1 = true /\ length (slices ex_v1) = 6.
Proof. vm_compute. repeat split; reflexivity. Qed.
Example hyps_hold_nonmember : hyps ex_v2 ex_t1 = true /\ inhabits tb0 ex_v2 ex_t1 = false /\
                              err_ret tb0 ex_v2 ex_t1 = true /\ err_arg tb0 ex_v2 ex_t1 = true.
Proof. vm_compute. repeat split; reflexivity. Qed.
(* promotion, nominal subclassing through the table, structural protocol, Type[C], callable arity *)
Example members :
  inhabits tb0 (VColl KList [Int; VScalar SBool]) (Cb B_t_Sequence [Cb B_complex []]) = true /\
  inhabits tb0 (VInst 2) (K 0) = true /\ inhabits tb0 (VInst 0) (K 2) = false /\
  inhabits tb0 (VInst 4) (K 8) = true /\ inhabits tb0 (VInst 2) (K 8) = false /\
  inhabits tb0 (VClass (CU 2)) (Cb B_type [K 1]) = true /\ inhabits tb0 (VClass (CB B_int)) (Cb B_type [Cb B_float []]) = true /\
  inhabits tb0 (VFunc 1 1 false) (TCallable [TAny; TAny] TAny) = true /\
  inhabits tb0 (VFunc 1 1 false) (TCallable [TAny; TAny; TAny] TAny) = false.
Proof. vm_compute. repeat split; reflexivity. Qed.

(* ============================================================================================================ *)
(* (c) ARGUMENT SITE GLUE: which annotation each passed argument is matched against (Match/ArgSite.v).
   [ArgSite.iter_args] is Signature.iter_args + the widening rule of _match_args_sequentially; [ArgSite.bind] is
   CPython's binding, written independently (validated against inspect.Signature.bind on every generated call).
   Names, annotations (A) and argument values (V) are arbitrary. *)

(* The model has TWO VARIANTS of Signature.iter_args / _match_args_sequentially, selected by a boolean: [true] is the
   code with fixes/C02-iter-args-keyword-binding.patch, [false] the code before it.  The check probes which variant
   the tree under test implements and runs the correspondence against that variant. *)

(* FIXED code: on EVERY call CPython accepts, every passed argument is matched against exactly the annotation the
   binding associates with it (same arguments, same order, same formal; keyword-only / *args / **kwargs parameters,
   keywords spelled like a positional-only or a star parameter included).  No deviation hypothesis. *)
Theorem argsite_binding : forall (A V : Type) (s : ArgSite.sig A) (c : ArgSite.call V) l,
  ArgSite.bind s c = Some l -> ArgSite.iter_args true s c = l.
Proof. exact ArgSiteProofs.iter_args_fixed_is_binding. Qed.
Print Assumptions argsite_binding.

(* ... hence: a wrong-arg-types error iff some passed argument fails the annotation CPython's binding gives it
   (matchf is the matcher on one argument, e.g. err_arg above) *)
Theorem argsite_error_exact : forall (A V : Type) (matchf : V -> ArgSite.formal A -> bool)
    (s : ArgSite.sig A) (c : ArgSite.call V) l,
  ArgSite.bind s c = Some l ->
  ArgSite.err_call true matchf s c =
  existsb (fun vf => match snd vf with Some f => negb (matchf (fst vf) f) | None => false end) l.
Proof. exact ArgSiteProofs.err_call_fixed_is_binding. Qed.
Print Assumptions argsite_error_exact.

(* code BEFORE the fix: the same, away from two named deviations *)
Theorem argsite_binding_before_fix_partial : forall (A V : Type) (s : ArgSite.sig A) (c : ArgSite.call V) l,
  ArgSite.wf_sig s = true -> ArgSiteProofs.ann_keys_ok A s = true -> ArgSite.bind s c = Some l ->
  ArgSite.kw_named_like_star s c = false -> ArgSite.kw_unannotated_with_kwargs s c = false ->
  ArgSite.iter_args false s c = l.
Proof. exact ArgSiteProofs.iter_args_is_binding. Qed.
Print Assumptions argsite_binding_before_fix_partial.

Theorem argsite_error_exact_before_fix_partial : forall (A V : Type) (matchf : V -> ArgSite.formal A -> bool)
    (s : ArgSite.sig A) (c : ArgSite.call V) l,
  ArgSite.wf_sig s = true -> ArgSiteProofs.ann_keys_ok A s = true -> ArgSite.bind s c = Some l ->
  ArgSite.kw_named_like_star s c = false -> ArgSite.kw_unannotated_with_kwargs s c = false ->
  ArgSite.err_call false matchf s c =
  existsb (fun vf => match snd vf with Some f => negb (matchf (fst vf) f) | None => false end) l.
Proof. exact ArgSiteProofs.err_call_is_binding. Qed.
Print Assumptions argsite_error_exact_before_fix_partial.

(* before the fix both hypotheses are necessary: D1  def f(a: int, **kw: int); f(1, kw=5)  is matched against
   Mapping[str, int]; D2  def f(a, *, k, **kw: int); f(1, k=5)  matches the un-annotated k against **kw's int *)
Theorem argsite_binding_before_fix_refuted :
  (ArgSite.wf_sig ArgSiteProofs.d1_sig = true /\ ArgSiteProofs.ann_keys_ok nat ArgSiteProofs.d1_sig = true /\
   ArgSite.bind ArgSiteProofs.d1_sig ArgSiteProofs.d1_call =
     Some [(1, Some (ArgSite.FElem 7)); (5, Some (ArgSite.FElem 7))] /\
   ArgSite.iter_args false ArgSiteProofs.d1_sig ArgSiteProofs.d1_call =
     [(1, Some (ArgSite.FElem 7)); (5, Some (ArgSite.FKw 7))] /\
   ArgSite.kw_unannotated_with_kwargs ArgSiteProofs.d1_sig ArgSiteProofs.d1_call = false) /\
  (ArgSite.wf_sig ArgSiteProofs.d2_sig = true /\ ArgSiteProofs.ann_keys_ok nat ArgSiteProofs.d2_sig = true /\
   ArgSite.bind ArgSiteProofs.d2_sig ArgSiteProofs.d2_call = Some [(1, None); (5, None)] /\
   ArgSite.iter_args false ArgSiteProofs.d2_sig ArgSiteProofs.d2_call = [(1, None); (5, Some (ArgSite.FElem 7))] /\
   ArgSite.kw_named_like_star ArgSiteProofs.d2_sig ArgSiteProofs.d2_call = false).
Proof. exact ArgSiteProofs.binding_refuted_w. Qed.
Print Assumptions argsite_binding_before_fix_refuted.

(* D1, crashing variant, before the fix:  def f(a: int, *rest, **kw: int); f(1, rest=5)  -- widen_type on a plain
   class: pytype raised AssertionError; the fixed code matches it against **kw's int like the binding *)
Theorem argsite_crash_before_fix_real :
  ArgSite.wf_sig ArgSiteProofs.d3_sig = true /\ ArgSiteProofs.ann_keys_ok nat ArgSiteProofs.d3_sig = true /\
  ArgSite.bind ArgSiteProofs.d3_sig ArgSiteProofs.d3_call =
    Some [(1, Some (ArgSite.FElem 7)); (5, Some (ArgSite.FElem 7))] /\
  ArgSite.iter_args false ArgSiteProofs.d3_sig ArgSiteProofs.d3_call =
    [(1, Some (ArgSite.FElem 7)); (5, Some (ArgSite.FCrash 7))] /\
  ArgSite.iter_args true ArgSiteProofs.d3_sig ArgSiteProofs.d3_call =
    [(1, Some (ArgSite.FElem 7)); (5, Some (ArgSite.FElem 7))].
Proof. exact ArgSiteProofs.crash_w. Qed.
Print Assumptions argsite_crash_before_fix_real.

(* non-vacuity: def f(p, /, a: T3, *rest: T5, k: T7, **kw: T9);  f(10, 11, 12, k=13, z=14, p=15): the hypotheses
   hold; the keyword-only k gets T7, the extra positional T5, the unknown keyword z and the positional-only NAME p
   get **kw's T9 *)
Definition ex_sig : ArgSite.sig nat :=
  {| ArgSite.s_posonly := 1; ArgSite.s_params := [0; 1]; ArgSite.s_varargs := Some 2; ArgSite.s_kwonly := [3];
     ArgSite.s_kwargs := Some 4; ArgSite.s_defaults := []; ArgSite.s_ann := [(1, 3); (2, 5); (3, 7); (4, 9)] |}.
Definition ex_call : ArgSite.call nat :=
  {| ArgSite.c_pos := [10; 11; 12]; ArgSite.c_named := [(3, 13); (8, 14); (0, 15)]; ArgSite.c_star := None;
     ArgSite.c_starstar := None |}.
Example argsite_hyps_hold :
  ArgSite.wf_sig ex_sig = true /\ ArgSiteProofs.ann_keys_ok nat ex_sig = true /\
  ArgSite.kw_named_like_star ex_sig ex_call = false /\ ArgSite.kw_unannotated_with_kwargs ex_sig ex_call = false /\
  ArgSite.bind ex_sig ex_call =
    Some [(10, None); (11, Some (ArgSite.FElem 3)); (12, Some (ArgSite.FElem 5)); (13, Some (ArgSite.FElem 7));
          (14, Some (ArgSite.FElem 9)); (15, Some (ArgSite.FElem 9))] /\
  (* the fixed variant also computes the binding on the two witnesses that refute the old one *)
  Some (ArgSite.iter_args true ArgSiteProofs.d1_sig ArgSiteProofs.d1_call) =
    ArgSite.bind ArgSiteProofs.d1_sig ArgSiteProofs.d1_call /\
  Some (ArgSite.iter_args true ArgSiteProofs.d2_sig ArgSiteProofs.d2_call) =
    ArgSite.bind ArgSiteProofs.d2_sig ArgSiteProofs.d2_call.
Proof. vm_compute. repeat split; reflexivity. Qed.

(* ============================================================================================================ *)
(* (d) ASSIGNMENT SITE GLUE: which stores are checked against which recorded annotation (Match/Store.v).
   [Store.checks kn evs] is what _apply_annotation consults per event of one frame; [Store.spec] is PEP 526
   (the most recent annotation of the name in the owning scope); kn is CPython's symbol-table decision per name. *)

(* every store of the frame itself to a name that is not an explicit global -- a fast local, a module / class
   name, or a CELL captured by a nested def / lambda (STORE_DEREF) -- is checked against exactly the declared
   annotation, also after re-annotation, del, and stores in between *)
Theorem assign_own_stores_checked : forall (T : Type) kn (evs : list (Store.ev T)) i e,
  nth_error evs i = Some e -> Store.own_nonglobal kn e = true ->
  nth_error (Store.checks kn evs) i = nth_error (Store.spec evs) i.
Proof. exact StoreProofs.own_stores_checked. Qed.
Print Assumptions assign_own_stores_checked.

Theorem assign_frame_exact_partial : forall (T : Type) kn (evs : list (Store.ev T)),
  forallb (Store.own_nonglobal kn) evs = true -> Store.checks kn evs = Store.spec evs.
Proof. exact StoreProofs.frame_exact. Qed.
Print Assumptions assign_frame_exact_partial.

(* the hypothesis is necessary: a store through `nonlocal x` from a nested function, and a STORE_GLOBAL (the name is
   declared `global` somewhere), are checked against nothing although an annotation is declared *)
Theorem assign_frame_exact_refuted :
  (Store.checks (fun _ => Store.KCell) [Store.EAnn 0 7 true; Store.ENonlocal 0] = [Some 7; None] /\
   Store.spec [Store.EAnn 0 7 true; Store.ENonlocal 0] = [Some 7; Some 7]) /\
  (Store.checks (fun _ => Store.KGlobal) [Store.EAnn 0 7 true; Store.EStore 0] = [Some 7; None] /\
   Store.spec [Store.EAnn 0 7 true; Store.EStore 0] = [Some 7; Some 7]).
Proof. exact StoreProofs.stores_refuted_w. Qed.
Print Assumptions assign_frame_exact_refuted.

(* non-vacuity: x: T7 = v; (captured) x = w; x: T9 = u; del x; x = z   on a cell name *)
Example assign_hyps_hold :
  let evs := [Store.EAnn 0 7 true; Store.EStore 0; Store.EAnn 0 9 true; Store.EDel 0; Store.EStore 0] in
  forallb (Store.own_nonglobal (fun _ => Store.KCell)) evs = true /\
  Store.checks (fun _ => Store.KCell) evs = [Some 7; Some 7; Some 9; None; Some 9].
Proof. vm_compute. split; reflexivity. Qed.

(* ============================================================================================================ *)
(* (a) STRUCTURAL PROTOCOL MATCHING of unparameterised protocols (Match/Proto.v): user Protocol classes (with
   protocol inheritance: Proto.pattrs models Class._init_protocol_attributes) and the bare builtin ones (Sized,
   Hashable, Iterable, Container, Collection, Reversible, SupportsInt/Float/Index/Abs: member sets regenerated from
   the loaded stubs).  [Proto.proto_match] is _match_against_protocol (name-set difference over the MRO, then
   _match_protocol_attribute per member); [Proto.pep544] is the specification: every protocol member is found by
   attribute lookup through the value class's MRO (inherited members, first definer wins) with a compatible kind. *)

Theorem protocol_match_exact_partial : forall w nc c p,
  Proto.pattrs_defined w p = true -> Proto.seq_map_hit w c p = false -> Proto.implicit_iter_hit w c p = false ->
  Proto.proto_match w nc c p = Proto.pep544 w nc c p.
Proof. exact ProtoProofs.proto_match_is_pep544. Qed.
Print Assumptions protocol_match_exact_partial.

(* the iff the property names: matches <-> the value's class (with inherited members) has every protocol member *)
Theorem protocol_match_iff_members : forall w nc c p,
  Proto.pattrs_defined w p = true -> Proto.seq_map_hit w c p = false -> Proto.implicit_iter_hit w c p = false ->
  (Proto.proto_match w nc c p = true <->
   forall a, In a (Proto.pattrs w p) ->
     exists kl kp, Proto.lookup w c a = Some kl /\ Proto.lookup w p a = Some kp /\ Proto.kind_ok w nc kl kp = true).
Proof. exact ProtoProofs.proto_match_iff. Qed.
Print Assumptions protocol_match_iff_members.

(* the whole instance-vs-class step: nominal through the MRO (+ compat builtins) first, structural second *)
Theorem protocol_instance_exact_partial : forall w nc c p,
  Proto.pattrs_defined w p = true -> Proto.seq_map_hit w c p = false -> Proto.implicit_iter_hit w c p = false ->
  Proto.inst_match w nc c p =
  Proto.nominal w c p || (if Proto.is_protocol w p then Proto.pep544 w nc c p else Proto.pc_pbase (Proto.cls_of w p)).
Proof. exact ProtoProofs.inst_match_exact_partial. Qed.
Print Assumptions protocol_instance_exact_partial.

(* inherited members with override: the first class of the MRO defining the name decides (a `m = None` in a
   subclass hides the base's method, a method in a subclass hides the base's None) *)
Theorem protocol_lookup_first_definer : forall w pre k0 post a kd,
  (forall j, In j pre -> Proto.own_kind (Proto.cls_of w j) a = None) ->
  Proto.own_kind (Proto.cls_of w k0) a = Some kd ->
  Proto.lookup_in w (pre ++ k0 :: post) a = Some kd.
Proof. exact ProtoProofs.lookup_first_definer. Qed.
Print Assumptions protocol_lookup_first_definer.

(* both hypotheses are necessary: a class with __getitem__ only is accepted for Iterable (implicit __iter__), a
   Mapping subclass with every member of Sequence is rejected for Sequence *)
Theorem protocol_match_exact_refuted :
  (Proto.pattrs_defined ProtoProofs.w0 1 = true /\ Proto.seq_map_hit ProtoProofs.w0 4 1 = false /\
   Proto.proto_match ProtoProofs.w0 0 4 1 = true /\ Proto.pep544 ProtoProofs.w0 0 4 1 = false /\
   Proto.implicit_iter_hit ProtoProofs.w0 4 1 = true) /\
  (Proto.pattrs_defined ProtoProofs.w0 2 = true /\ Proto.implicit_iter_hit ProtoProofs.w0 5 2 = false /\
   Proto.proto_match ProtoProofs.w0 0 5 2 = false /\ Proto.pep544 ProtoProofs.w0 0 5 2 = true /\
   Proto.seq_map_hit ProtoProofs.w0 5 2 = true).
Proof. exact ProtoProofs.proto_refuted_w. Qed.
Print Assumptions protocol_match_exact_refuted.

(* non-vacuity + _init_protocol_attributes on an inheriting protocol: P0 {m3}; P1(P0) {m4}; PE(P1) {} requires
   {m3, m4}; Q(P0) is not a protocol; K: m3 = None, m4 -- rejected; L(K): def m3 -- accepted *)
Example protocol_hyps_hold :
  Proto.pattrs_tbl ProtoProofs.w1 = [[]; [3]; [3; 4]; [3; 4]; []; []; []] /\
  Proto.pattrs_defined ProtoProofs.w1 3 = true /\ Proto.seq_map_hit ProtoProofs.w1 5 3 = false /\
  Proto.implicit_iter_hit ProtoProofs.w1 5 3 = false /\
  Proto.proto_match ProtoProofs.w1 0 5 3 = false /\ Proto.proto_match ProtoProofs.w1 0 6 3 = true /\
  Proto.proto_match ProtoProofs.w1 0 6 1 = true /\
  Proto.inst_match ProtoProofs.w1 0 4 1 = true /\ Proto.inst_match ProtoProofs.w1 0 5 4 = false.
Proof. exact ProtoProofs.pattrs_example_w. Qed.

(* ============================================================================================================ *)
(* (e) LITERAL TYPES, nested Optional/Union around them, a constant against its base class in both directions, and
   the RETURN SITE with several return statements and multi-binding return variables (Match/Lit.v).
   [matchL] is the matcher on the fragment (LiteralClass branch of _match_instance_against_type, the
   match_as_literal branch of _match_instance_parameters, _match_heterogeneous_tuple_instance);
   [inhabitsL] is PEP 484 + PEP 586 membership; [inhabL pytype_ldevs pytype_devs] is membership with the named
   deviations on (two new ones: Python equality True == 1 for Literal; ONE matching element of a list display
   suffices for h[...Literal...]). *)

(* what the matcher computes, exactly: any table accepted by table_ok, unbounded nesting *)
Theorem literal_matcher_characterisation : forall tb v t,
  table_ok tb = true -> wf_lty tb t = true -> wf_lval v = true ->
  errL_arg tb v t = negb (inhabL pytype_ldevs pytype_devs tb t v) /\
  errL_ret tb v t = negb (inhabL pytype_ldevs pytype_devs tb t v) /\
  errL_assign tb v t = (negb (l_is_none v) && negb (inhabL pytype_ldevs pytype_devs tb t v))%bool.
Proof. exact lit_sites_char. Qed.
Print Assumptions literal_matcher_characterisation.

(* exactness at the three sites under syntactic conditions that fail exactly on the deviations: no bool literal in
   the annotation and no bool constant in the value, list displays of at most one element, no bare bool / bytes
   formal (the None-for-bool and bytearray-for-bytes compat pairs) *)
Theorem literal_exact_partial : forall tb v t,
  table_ok tb = true -> wf_lty tb t = true -> wf_lval v = true ->
  bool_free_ty t = true -> bool_free_val v = true -> short_lists v = true -> base_dev_free t = true ->
  matchL tb t v = inhabitsL tb v t /\
  errL_arg tb v t = negb (inhabitsL tb v t) /\
  errL_ret tb v t = negb (inhabitsL tb v t) /\
  (l_is_none v = false -> errL_assign tb v t = negb (inhabitsL tb v t)).
Proof. exact lit_exact_partial_w. Qed.
Print Assumptions literal_exact_partial.

(* without "no bool": x: Literal[1] = True is accepted at all three sites *)
Theorem literal_exact_refuted_bool :
  exists v t, table_ok tb0 = true /\ wf_lty tb0 t = true /\ wf_lval v = true /\
              short_lists v = true /\ base_dev_free t = true /\
              errL_arg tb0 v t = false /\ errL_ret tb0 v t = false /\ errL_assign tb0 v t = false /\
              inhabitsL tb0 v t = false.
Proof. exact lit_refuted_bool_w. Qed.
Print Assumptions literal_exact_refuted_bool.

(* without "short lists": x: List[Literal[1]] = [1, 3] is accepted at all three sites *)
Theorem literal_exact_refuted_list :
  exists v t, table_ok tb0 = true /\ wf_lty tb0 t = true /\ wf_lval v = true /\
              bool_free_ty t = true /\ bool_free_val v = true /\ base_dev_free t = true /\
              errL_arg tb0 v t = false /\ errL_ret tb0 v t = false /\ errL_assign tb0 v t = false /\
              inhabitsL tb0 v t = false.
Proof. exact lit_refuted_list_w. Qed.
Print Assumptions literal_exact_refuted_list.

Example literal_hyps_hold :
  hypsL (LC (LStr 0)) ex_lt1 = true /\ inhabitsL tb0 (LC (LStr 0)) ex_lt1 = true /\ matchL tb0 ex_lt1 (LC (LStr 0)) = true /\
  hypsL (LC (LStr 1)) ex_lt1 = true /\ inhabitsL tb0 (LC (LStr 1)) ex_lt1 = false /\ errL_ret tb0 (LC (LStr 1)) ex_lt1 = true /\
  hypsL LNoneV ex_lt1 = true /\ inhabitsL tb0 LNoneV ex_lt1 = true /\
  hypsL (LT [Ci 1%Z; LC (LStr 5)]) ex_lt2 = true /\ inhabitsL tb0 (LT [Ci 1%Z; LC (LStr 5)]) ex_lt2 = true /\
  hypsL (LT [Ci 2%Z; LC (LStr 5)]) ex_lt2 = true /\ errL_arg tb0 (LT [Ci 2%Z; LC (LStr 5)]) ex_lt2 = true /\
  hypsL (LL [LC (LStr 1)]) ex_lt3 = true /\ inhabitsL tb0 (LL [LC (LStr 1)]) ex_lt3 = true /\
  hypsL (LT [LC (LStr 1); LC (LStr 2)]) ex_lt3 = true /\ errL_assign tb0 (LT [LC (LStr 1); LC (LStr 2)]) ex_lt3 = true /\
  hypsL (Ci 1%Z) (LBase (Cb B_float [])) = true /\ inhabitsL tb0 (Ci 1%Z) (LBase (Cb B_float [])) = true /\
  hypsL (LO B_int) (Li 1%Z) = true /\ errL_ret tb0 (LO B_int) (Li 1%Z) = true /\
  hypsL (LC (LStr 0)) ex_lt3 = true /\ errL_arg tb0 (LC (LStr 0)) ex_lt3 = true.
Proof. exact lit_hyps_w. Qed.

(* ---- return site ------------------------------------------------------------------------------------------- *)
(* a returned variable with several bindings is in error iff ONE binding is (the views of the variable are the
   views of its bindings; match_all_views) *)
Theorem return_multi_binding : forall tb bs t,
  err_ret_var tb bs t = existsb (fun v => err_ret tb v t) bs.
Proof. exact ret_var_error_iff_w. Qed.
Print Assumptions return_multi_binding.

(* every return statement is judged on its own: the error lines of a body are those of its parts *)
Theorem return_per_statement : forall tb ann b1 b2,
  ret_errors tb ann (b1 ++ b2) = ret_errors tb ann b1 ++ ret_errors tb ann b2.
Proof. exact ret_errors_app_w. Qed.
Print Assumptions return_per_statement.

(* return-site exactness, ground fragment: bad-return-type is logged at line l iff a return statement at l can
   return a value outside the annotation (same two hypotheses per binding as sites_exact_partial) *)
Theorem return_site_exact_partial : forall tb t body,
  table_ok tb = true -> wf_ty tb t = true ->
  (forall s v, In s body -> In v (rs_vals s) ->
     wf_val tb v = true /\
     (forall sl, In sl (slices v) -> inhabitsF pytype_devs tb t sl = inhabits tb sl t) /\
     forallb (fun sl => inhabits tb sl t) (slices v) = inhabits tb v t) ->
  forall l, In l (ret_errors tb (Some t) body) <->
            exists s, In s body /\ rs_line s = l /\ exists v, In v (rs_vals s) /\ inhabits tb v t = false.
Proof. exact ret_site_exact_w. Qed.
Print Assumptions return_site_exact_partial.

(* return-site exactness, Literal fragment *)
Theorem return_site_literal_exact_partial : forall tb t body,
  table_ok tb = true -> wf_lty tb t = true -> bool_free_ty t = true -> base_dev_free t = true ->
  (forall s v, In s body -> In v (lrs_vals s) ->
     wf_lval v = true /\ bool_free_val v = true /\ short_lists v = true) ->
  forall l, In l (lret_errors tb (Some t) body) <->
            exists s, In s body /\ lrs_line s = l /\ exists v, In v (lrs_vals s) /\ inhabitsL tb v t = false.
Proof. exact lret_site_exact_w. Qed.
Print Assumptions return_site_literal_exact_partial.

(* ... and with the deviations named, no side condition is left *)
Theorem return_site_literal_characterisation : forall tb t body,
  table_ok tb = true -> wf_lty tb t = true ->
  (forall s v, In s body -> In v (lrs_vals s) -> wf_lval v = true) ->
  forall l, In l (lret_errors tb (Some t) body) <->
            exists s, In s body /\ lrs_line s = l /\
                      exists v, In v (lrs_vals s) /\ inhabL pytype_ldevs pytype_devs tb t v = false.
Proof. exact lret_site_char_w. Qed.
Print Assumptions return_site_literal_characterisation.

Example return_examples :
  (lret_errors tb0 (Some (LUnion [Li 1%Z; Li 2%Z])) ex_body = [5; 7] /\ lret_errors tb0 None ex_body = []) /\
  (ret_errors tb0 (Some (Cb B_list [Cb B_int []])) ex_rbody = [5] /\
   length (ret_views [VColl KList [Int]; VColl KList [Int; Str]]) = 3).
Proof. exact (conj lret_example_w ret_example_w). Qed.
