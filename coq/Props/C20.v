(* C20 — merging a stub into source changes annotations only.
   Property theorems only; each is closed by [exact] and followed by Print Assumptions.
   Model: Merge/Model.v (pytype's RemoveAnyNeverTransformer / RemoveTrivialTypesTransformer as written,
   libcst's TypeCollector + ApplyTypeAnnotationsVisitor + AddImportsVisitor under pytype's flags).
   [merge v p s] is merge_sources(py=p, pyi=s); v = AsWritten is the tree as it stands, v = Fixed the
   tree with fixes/C20-annassign-any.patch; the harness decides by correspondence which one applies.
   A position is an index into [mslots], the document-order list of annotation slots (returns,
   parameters, assigned / declared variables), each tagged with the true qualified name of its
   definition; the merge keeps that list aligned (slots_aligned), so index i denotes the same
   definition before and after. *)
From Coq Require Import List NArith Bool.
From PV Require Import Merge.Model Merge.Proofs.
Import ListNotations.
Open Scope N_scope.

(* ---- positions are stable: the merge neither creates, removes nor moves an annotation slot ---- *)
Theorem slots_aligned : forall (v : variant) (p s : list item) (i : nat),
  match ann_at p i, ann_at (m_out (merge v p s)) i with
  | Some sl, Some sl' => s_qn sl' = s_qn sl /\ s_shape sl' = s_shape sl /\ s_which sl' = s_which sl
  | None, None => True
  | _, _ => False
  end.
Proof. exact slots_aligned_lemma. Qed.
Print Assumptions slots_aligned.

(* ---- existing annotations are kept (all programs, all stubs, both variants) ---- *)
Theorem existing_kept : forall (v : variant) (p s : list item) (i : nat) (sl : slot) (a : expr),
  ann_at p i = Some sl -> s_ann sl = Some a ->
  exists sl', ann_at (m_out (merge v p s)) i = Some sl' /\
              s_qn sl' = s_qn sl /\ s_shape sl' = s_shape sl /\ s_which sl' = s_which sl /\
              s_ann sl' = Some a.
Proof. exact existing_kept_lemma. Qed.
Print Assumptions existing_kept.

(* ---- erase (merge p s) = erase p ----
   REFUTED at full strength on the faithful model: a stub annotation written as a dotted name
   (pytype prints a nested class as Outer.Inner) makes libcst add `from Outer import Inner`, which is
   not a typing import, so it survives [erase]. *)

Theorem merge_erases_to_original_refuted :
  exists p s, forall v, erase (m_out (merge v p s)) <> erase p.
Proof. exact merge_erases_refuted_lemma. Qed.
Print Assumptions merge_erases_to_original_refuted.

(* PARTIAL: holds whenever every import the stub asks for is a typing import, no class of the stub is
   injected into the source (the stub is "for its definitions") and no Generic[...] base is appended. *)
Theorem merge_erases_to_original_partial : forall (v : variant) (p s : list item),
  m_generic (merge v p s) = false -> m_fresh (merge v p s) = [] ->
  needs_typing_only (merge v p s) = true ->
  erase (m_out (merge v p s)) = erase p.
Proof. exact merge_erases_lemma. Qed.
Print Assumptions merge_erases_to_original_partial.

(* ---- every inserted annotation is the one the stub gives for that definition ----
   REFUTED at full strength: (1) libcst's _annotate_single_target forgets qualifier.pop() when a name
   is assigned a second time, so later definitions are looked up under a wrong qualified name: the
   module-level function m below receives the annotation of the method C.m. *)

Theorem inserted_from_stub_refuted :
  exists p s i sl sl' a, forall v,
    dotted_free (filter_stub v s) = true /\ m_clsdecl (merge v p s) = false /\ m_err (merge v p s) = false /\
    ann_at p i = Some sl /\ s_ann sl = None /\
    ann_at (m_out (merge v p s)) i = Some sl' /\ s_ann sl' = Some a /\
    ~ exists a0, stub_gives (stub_all (filter_stub v s)) sl a0 /\ same_ann a a0.
Proof. exact inserted_from_stub_refuted_lemma. Qed.
Print Assumptions inserted_from_stub_refuted.

(* (2) a chained assignment `a = b = v` inside a class makes libcst insert MODULE-level declarations
   `a: T`, `b: T` carrying the annotations of the class attributes C.a, C.b. *)
Theorem inserted_declaration_refuted :
  exists p s nm a, forall v,
    dotted_free (filter_stub v s) = true /\ m_leak (merge v p s) = false /\ m_err (merge v p s) = false /\
    In (nm, a) (added_decls (m_out (merge v p s))) /\ ~ In (nm, a) (added_decls p) /\
    ~ exists a0, In (SVar nm a0) (stub_all (filter_stub v s)) /\ same_ann a a0.
Proof. exact inserted_declaration_refuted_lemma. Qed.
Print Assumptions inserted_declaration_refuted.

(* PARTIAL: holds when neither monitor fires (no qualifier leak, no declaration hoisted out of a
   class), the merge does not raise, and the filtered stub has no dotted name in an annotation (libcst
   rewrites a.b to b).  [same_ann]: equal up to the forward-reference quoting of a bare name.
   The second conjunct covers the module-level declarations `x: T` the merge inserts. *)
Theorem inserted_from_stub_partial : forall (v : variant) (p s : list item),
  dotted_free (filter_stub v s) = true ->
  m_leak (merge v p s) = false -> m_clsdecl (merge v p s) = false -> m_err (merge v p s) = false ->
  (forall i sl sl' a,
     ann_at p i = Some sl -> s_ann sl = None ->
     ann_at (m_out (merge v p s)) i = Some sl' -> s_ann sl' = Some a ->
     exists a0, stub_gives (stub_all (filter_stub v s)) sl a0 /\ same_ann a a0) /\
  (forall nm a,
     In (nm, a) (added_decls (m_out (merge v p s))) ->
     In (nm, a) (added_decls p) \/
     exists a0, In (SVar nm a0) (stub_all (filter_stub v s)) /\ same_ann a a0).
Proof. exact inserted_from_stub_lemma. Qed.
Print Assumptions inserted_from_stub_partial.

(* ---- a bare Any / Never is never inserted as a return or variable annotation ----
   REFUTED for variables on the tree as written: leave_AnnAssign hands the Annotation wrapper to
   _is_any_or_never, so `x: Any` is never filtered and `x: Any = f()` is inserted. *)

Theorem no_bare_any_never_refuted :
  exists p s i sl sl' a,
    dotted_any_free s = true /\
    ann_at p i = Some sl /\ s_ann sl = None /\
    ann_at (m_out (merge AsWritten p s)) i = Some sl' /\ s_ann sl' = Some a /\
    s_which sl = WVar /\ bare_any_never a = true.
Proof. exact no_bare_refuted_lemma. Qed.
Print Assumptions no_bare_any_never_refuted.

(* PARTIAL (both variants): returns.  Hypothesis: the stub does not spell Any/Never as a dotted name
   (`typing.Any`), which _is_any_or_never does not recognise and libcst turns into a bare name. *)
Theorem no_bare_any_never_partial : forall (v : variant) (p s : list item) (i : nat) (sl sl' : slot) (a : expr),
  forallb (rets_ok not_dotted_any) s = true ->
  ann_at p i = Some sl -> s_ann sl = None ->
  ann_at (m_out (merge v p s)) i = Some sl' -> s_ann sl' = Some a ->
  s_which sl = WRet -> bare_any_never a = false.
Proof. exact no_bare_returns_lemma. Qed.
Print Assumptions no_bare_any_never_partial.

(* With the fix: variables too, including the module-level declarations the merge inserts. *)
Theorem no_bare_any_never_fixed_vars : forall (p s : list item) (i : nat) (sl sl' : slot) (a : expr),
  forallb (vars_ok not_dotted_any) s = true ->
  ann_at p i = Some sl -> s_ann sl = None ->
  ann_at (m_out (merge Fixed p s)) i = Some sl' -> s_ann sl' = Some a ->
  s_which sl = WVar -> bare_any_never a = false.
Proof. exact no_bare_vars_fixed_lemma. Qed.
Print Assumptions no_bare_any_never_fixed_vars.

Theorem no_bare_any_never_fixed_decls : forall (p s : list item) (nm : path) (a : expr),
  forallb (vars_ok not_dotted_any) s = true ->
  In (nm, a) (added_decls (m_out (merge Fixed p s))) ->
  In (nm, a) (added_decls p) \/ bare_any_never a = false.
Proof. exact no_bare_decls_fixed_lemma. Qed.
Print Assumptions no_bare_any_never_fixed_decls.

(* ---- non-vacuity: a program with a class (method, class variable, chained assignment at module
   level), a partially annotated function with keyword-only parameters and a module variable; a stub
   for the same definitions.  All hypotheses of the partial theorems hold and annotations ARE
   inserted (return, positional and keyword-only parameters, class and module variables, a
   module-level declaration), the typing import is added, the existing annotation is kept. ---- *)
Definition demo_p : list item :=
  [Doc 100;
   Import true [id_typing] [60] [] 0;
   Cls 20 101 [] [Assign [TName 40] (mkVal 102 false);
                  Fun 30 103 (mkParams [] [mkParam 50 None None; mkParam 51 (Some (EName id_int)) None]
                                       BareStar [mkParam 52 None (Some 104)] None) None [Other 105]];
   Assign [TName 41; TName 42] (mkVal 106 false);
   Assign [TName 43] (mkVal 107 false);
   Fun 31 108 (mkParams [] [mkParam 53 None None] NoStar [] None) None
       [Fun 32 109 (mkParams [] [] NoStar [] None) None [Other 110]]].
Definition demo_s : list item :=
  [Import true [id_typing] [id_Any; 60; 61] [] 0;
   Cls 20 101 [] [AnnAssign (TName 40) (ESub (EName 60) [EName id_int]) None;
                  Fun 30 103 (mkParams [] [mkParam 50 None None; mkParam 51 (Some (EName id_int)) None]
                                       BareStar [mkParam 52 (Some (EName id_str)) (Some 111)] None)
                      (Some (ESub (EName 61) [EName id_str; EName id_int])) [Other 112]];
   AnnAssign (TName 41) (EName id_int) None;
   AnnAssign (TName 42) (ESub (EName 60) [EName id_str]) None;
   AnnAssign (TName 43) (EName 20) None;
   Fun 31 108 (mkParams [] [mkParam 53 (Some (EName 20)) None] NoStar [] None) (Some (EName id_Any)) [Other 112]].

Example demo_hypotheses :
  dotted_free (filter_stub AsWritten demo_s) = true /\ dotted_any_free demo_s = true /\
  m_leak (merge AsWritten demo_p demo_s) = false /\ m_clsdecl (merge AsWritten demo_p demo_s) = false /\
  m_err (merge AsWritten demo_p demo_s) = false /\ m_generic (merge AsWritten demo_p demo_s) = false /\
  m_fresh (merge AsWritten demo_p demo_s) = [] /\ needs_typing_only (merge AsWritten demo_p demo_s) = true.
Proof. vm_compute. repeat split; reflexivity. Qed.

Example demo_output :
  m_out (merge AsWritten demo_p demo_s) =
  [Doc 100;
   Import true [id_typing] [60] [61] 0;
   Added (AnnAssign (TName 42) (ESub (EName 60) [EName id_str]) None);
   Cls 20 101 [] [AnnAssign (TName 40) (ESub (EName 60) [EName id_int]) (Some (mkVal 102 false));
                  Fun 30 103 (mkParams [] [mkParam 50 None None; mkParam 51 (Some (EName id_int)) None]
                                       BareStar [mkParam 52 (Some (EName id_str)) (Some 104)] None)
                      (Some (ESub (EName 61) [EName id_str; EName id_int])) [Other 105]];
   Assign [TName 41; TName 42] (mkVal 106 false);
   AnnAssign (TName 43) (EName 20) (Some (mkVal 107 false));
   Fun 31 108 (mkParams [] [mkParam 53 (Some (EName 20)) None] NoStar [] None) None
       [Fun 32 109 (mkParams [] [] NoStar [] None) None [Other 110]]].
Proof. vm_compute. reflexivity. Qed.

(* the same stub on the fixed tree; the leak / hoisting witnesses do set their monitors *)
Example demo_fixed_same : m_out (merge Fixed demo_p demo_s) = m_out (merge AsWritten demo_p demo_s).
Proof. vm_compute. reflexivity. Qed.
Example monitors_fire :
  m_leak (merge AsWritten leak_p leak_s) = true /\
  needs_typing_only (merge AsWritten nested_p nested_s) = false.
Proof. vm_compute. split; reflexivity. Qed.


(* ================================================================================================================ *)
(* FILE LEVEL: merge_files / merge_files_src / merge_tree (Merge/Files.v).  Path strings are (leading slashes, components);
   posixpath.join / normpath / abspath / relpath and os.walk are modelled as merge_tree uses them; [fixed] selects the loop
   after (true) / before (false) commit b7143da; the file system is a directory tree plus the files written so far; the
   per-file merge (merge_sources) and the text codec are parameters - every theorem below holds for ALL of them. *)
From PV Require Import Merge.Files Merge.FilesProofs Merge.FilesLift.
Close Scope N_scope.

(* (b) AFTER b7143da: for every working directory, file system, py_path/pyi_path spelling (relative or absolute,
   '.', '..', doubled and trailing separators) and every source tree (any depth, any entry names): the loop pairs the .py
   file at relative path ds/f with exactly the stub location <stub root>/ds/f+'i', in os.walk order *)
Theorem merge_tree_uses_own_stub :
  forall (B : Type) (cwd : list name) (tree : node B) (top P : pth) (es : list (name * node B)),
       nsl cwd ->
       p_empty top = false ->
       lookup B tree (lexloc cwd top) = Some (Dir es) ->
       names_ok (walk_dirs B (Dir es) nil) ->
       map (fun j : pth * pth => (lexloc cwd (fst j), lexloc cwd (snd j))) (jobs B true cwd tree top P) =
       flat_map
         (fun e : list name * list name =>
          map
            (fun f : name =>
             (lexloc cwd top ++ fst e ++ f :: nil, lexloc cwd P ++ fst e ++ stub_name f :: nil))
            (filter ends_py (snd e))) (walk_dirs B (Dir es) nil).
Proof. exact jobs_fixed_locs. Qed.
Print Assumptions merge_tree_uses_own_stub.

(* the files written, the changed list and the error list are the PER-FILE results, each computed from the ORIGINAL
   file system (jo [] j = merge_files on the untouched tree); hypotheses: no iteration reads what an earlier one wrote
   (indep: refuted without it below) and no non-MergeError exception (no_raise: refuted without it below) *)
Theorem merge_tree_is_map :
  forall (B T : Type) (read : B -> option T) (write : T -> B) (teqb : T -> T -> bool)
         (msrc : T -> T -> option T) (cwd : loc) (tree : node B) (backup : option name) 
         (fixed : bool) (top P : pth),
       let js := jobs B fixed cwd tree top P in
       indep B T read write teqb msrc cwd tree backup nil js ->
       no_raise B T read teqb msrc cwd tree backup nil js ->
       let r := merge_tree B T read write teqb msrc fixed cwd tree top P backup in
       t_ov B r = flat_map (jwrites B T read write teqb msrc cwd tree backup nil) (rev js) /\
       t_changed B r =
       map fst
         (filter (fun j : pth * pth => is_changed B T (jo B T read teqb msrc cwd tree backup nil j)) js) /\
       t_errors B r =
       map fst (filter (fun j : pth * pth => is_err B T (jo B T read teqb msrc cwd tree backup nil j)) js) /\
       t_raised B r = false.
Proof. exact merge_tree_spec. Qed.
Print Assumptions merge_tree_is_map.

(* files without stub, non-.py files, the stub tree, everything that is not a rewritten source or its backup: unchanged *)
Theorem merge_tree_unchanged_elsewhere :
  forall (B T : Type) (read : B -> option T) (write : T -> B) (teqb : T -> T -> bool)
         (msrc : T -> T -> option T) (cwd : loc) (tree : node B) (backup : option name) 
         (fixed : bool) (top P : pth) (l : loc),
       let js := jobs B fixed cwd tree top P in
       indep B T read write teqb msrc cwd tree backup nil js ->
       no_raise B T read teqb msrc cwd tree backup nil js ->
       (forall j : pth * pth,
        In j js -> ~ In l (map fst (jwrites B T read write teqb msrc cwd tree backup nil j))) ->
       st_read B tree (t_ov B (merge_tree B T read write teqb msrc fixed cwd tree top P backup)) l =
       st_read B tree nil l.
Proof. exact merge_tree_untouched. Qed.
Print Assumptions merge_tree_unchanged_elsewhere.

(* each rewritten source holds write(merge_sources(own text, own stub text)), each backup the original bytes *)
Theorem merge_tree_result_files :
  forall (B T : Type) (read : B -> option T) (write : T -> B) (teqb : T -> T -> bool)
         (msrc : T -> T -> option T) (cwd : loc) (tree : node B) (backup : option name) 
         (fixed : bool) (top P : pth) (l : loc) (c : B),
       let js := jobs B fixed cwd tree top P in
       indep B T read write teqb msrc cwd tree backup nil js ->
       no_raise B T read teqb msrc cwd tree backup nil js ->
       NoDup (map fst (flat_map (jwrites B T read write teqb msrc cwd tree backup nil) (rev js))) ->
       (exists j : pth * pth, In j js /\ In (l, c) (jwrites B T read write teqb msrc cwd tree backup nil j)) ->
       st_read B tree (t_ov B (merge_tree B T read write teqb msrc fixed cwd tree top P backup)) l = RFile c.
Proof. exact merge_tree_written. Qed.
Print Assumptions merge_tree_result_files.

(* conversely: whatever a location holds afterwards is its original content or one of the per-file writes *)
Theorem merge_tree_file_provenance :
  forall (B T : Type) (read : B -> option T) (write : T -> B) (teqb : T -> T -> bool)
         (msrc : T -> T -> option T) (cwd : loc) (tree : node B) (backup : option name) 
         (fixed : bool) (top P : pth) (l : loc) (c : B),
       let js := jobs B fixed cwd tree top P in
       indep B T read write teqb msrc cwd tree backup nil js ->
       no_raise B T read teqb msrc cwd tree backup nil js ->
       st_read B tree (t_ov B (merge_tree B T read write teqb msrc fixed cwd tree top P backup)) l = RFile c ->
       st_read B tree nil l = RFile c \/
       (exists j : pth * pth, In j js /\ In (l, c) (jwrites B T read write teqb msrc cwd tree backup nil j)).
Proof. exact merge_tree_final_read. Qed.
Print Assumptions merge_tree_file_provenance.

(* a file whose stub location does not exist is skipped (no write at all) *)
Theorem merge_tree_no_stub_skipped :
  forall (B T : Type) (read : B -> option T) (teqb : T -> T -> bool) (msrc : T -> T -> option T)
         (cwd : loc) (tree : node B) (backup : option name) (ov0 : overlay B) (j : pth * pth),
       jo B T read teqb msrc cwd tree backup ov0 j = JSkip B T <->
       st_read B tree ov0 (lexloc cwd (snd j)) = RNone.
Proof. exact jo_skip_iff. Qed.
Print Assumptions merge_tree_no_stub_skipped.

(* what 'changed' means for one file: both files readable, merge_sources succeeded, its text differs from the source text *)
Theorem merge_tree_changed_means :
  forall (B T : Type) (read : B -> option T) (teqb : T -> T -> bool) (msrc : T -> T -> option T)
         (cwd : loc) (tree : node B) (backup : option name) (ov0 : overlay B) (j : pth * pth) 
         (pb : B) (a : T),
       jo B T read teqb msrc cwd tree backup ov0 j = JChanged B T pb a ->
       exists (sb : B) (s p : T),
         st_read B tree ov0 (lexloc cwd (snd j)) = RFile sb /\
         read sb = Some s /\
         st_read B tree ov0 (lexloc cwd (fst j)) = RFile pb /\
         read pb = Some p /\ msrc p s = Some a /\ teqb a p = false.
Proof. exact jo_changed_inv. Qed.
Print Assumptions merge_tree_changed_means.

(* (c) PRINT and DIFF never write *)
Theorem merge_files_print_diff_never_write :
  forall (B T : Type) (read : B -> option T) (write : T -> B) (teqb : T -> T -> bool)
         (msrc : T -> T -> option T) (cwd : loc) (tree : node B) (backup : option name) 
         (ov : overlay B) (py pyi : pth) (m : mode),
       m <> OVERWRITE -> f_ov B T (merge_files B T read write teqb msrc cwd tree ov py pyi m backup) = ov.
Proof. exact mfiles_print_diff. Qed.
Print Assumptions merge_files_print_diff_never_write.

(* (c) any mode: unless the result is `changed`, nothing is written (also on MergeError / other exceptions) *)
Theorem merge_files_writes_only_if_changed :
  forall (B T : Type) (read : B -> option T) (write : T -> B) (teqb : T -> T -> bool)
         (msrc : T -> T -> option T) (cwd : loc) (tree : node B) (backup : option name) 
         (ov : overlay B) (py pyi : pth) (m : mode),
       f_res B T (merge_files B T read write teqb msrc cwd tree ov py pyi m backup) <> FOk true ->
       f_ov B T (merge_files B T read write teqb msrc cwd tree ov py pyi m backup) = ov.
Proof. exact mfiles_no_write. Qed.
Print Assumptions merge_files_writes_only_if_changed.

(* (c) OVERWRITE and changed: the source holds write(merged text); the backup (iff a non-empty extension is given) holds the
   ORIGINAL BYTES (binary copy, not the decoded text); nothing else is written *)
Theorem merge_files_overwrite_writes_and_backs_up :
  forall (B T : Type) (read : B -> option T) (write : T -> B) (teqb : T -> T -> bool)
         (msrc : T -> T -> option T) (cwd : loc) (tree : node B) (backup : option name) 
         (ov : overlay B) (py pyi : pth),
       f_res B T (merge_files B T read write teqb msrc cwd tree ov py pyi OVERWRITE backup) = FOk true ->
       exists (sb : B) (s : T) (pb : B) (p a : T),
         st_read B tree ov (lexloc cwd pyi) = RFile sb /\
         read sb = Some s /\
         st_read B tree ov (lexloc cwd py) = RFile pb /\
         read pb = Some p /\
         msrc p s = Some a /\
         teqb a p = false /\
         f_ov B T (merge_files B T read write teqb msrc cwd tree ov py pyi OVERWRITE backup) =
         (lexloc cwd py, write a)
         :: match truthy backup with
            | Some bk => (lexloc cwd (backup_path py bk), pb) :: nil
            | None => nil
            end ++ ov.
Proof. exact mfiles_overwrite_changed. Qed.
Print Assumptions merge_files_overwrite_writes_and_backs_up.

(* (c) the returned flag is exactly 'merged text <> source text as read in text mode' (every mode) *)
Theorem merge_files_changed_flag_exact :
  forall (B T : Type) (read : B -> option T) (write : T -> B) (teqb : T -> T -> bool)
         (msrc : T -> T -> option T) (cwd : loc) (tree : node B) (backup : option name) 
         (ov : overlay B) (py pyi : pth) (m : mode) (ch : bool) (sb : B) (s : T) 
         (pb : B) (p a : T),
       (forall x y : T, teqb x y = true <-> x = y) ->
       st_read B tree ov (lexloc cwd pyi) = RFile sb ->
       read sb = Some s ->
       st_read B tree ov (lexloc cwd py) = RFile pb ->
       read pb = Some p ->
       msrc p s = Some a ->
       f_res B T (merge_files B T read write teqb msrc cwd tree ov py pyi m backup) = FOk ch ->
       ch = true <-> a <> p.
Proof. exact mfiles_changed_flag. Qed.
Print Assumptions merge_files_changed_flag_exact.

(* lifting to whole trees (contents = the mini syntax trees of Merge/Model.v, merge_sources = the model [merge v]; any equality test):
   every file afterwards is its original, or merge of its original with the stub the loop paired it with, or a backup copy *)
Theorem tree_files_are_own_merges :
  forall (v : variant) (teqb : list item -> list item -> bool) (cwd : loc) (tree : node (list item))
         (backup : option name) (fixed : bool) (top P : pth) (l : loc) (c' : list item),
       indep (list item) (list item) Some (fun t : list item => t) teqb (msrc_model v) cwd tree backup nil
         (jobs (list item) fixed cwd tree top P) ->
       no_raise (list item) (list item) Some teqb (msrc_model v) cwd tree backup nil
         (jobs (list item) fixed cwd tree top P) ->
       st_read (list item) tree
         (t_ov (list item)
            (merge_tree (list item) (list item) Some (fun t : list item => t) teqb 
               (msrc_model v) fixed cwd tree top P backup)) l = RFile c' ->
       st_read (list item) tree nil l = RFile c' \/
       (exists (j : pth * pth) (c s : list item),
          In j (jobs (list item) fixed cwd tree top P) /\
          l = lexloc cwd (fst j) /\
          st_read (list item) tree nil l = RFile c /\
          st_read (list item) tree nil (lexloc cwd (snd j)) = RFile s /\
          m_err (merge v c s) = false /\ c' = m_out (merge v c s)) \/
       (exists (j : pth * pth) (bk : name),
          In j (jobs (list item) fixed cwd tree top P) /\
          truthy backup = Some bk /\
          l = lexloc cwd (backup_path (fst j) bk) /\
          st_read (list item) tree nil (lexloc cwd (fst j)) = RFile c').
Proof. exact tree_file_cases. Qed.
Print Assumptions tree_files_are_own_merges.

(* existing_kept for whole trees *)
Theorem tree_existing_kept :
  forall (v : variant) (teqb : list item -> list item -> bool) (cwd : loc) (tree : node (list item))
         (backup : option name) (fixed : bool) (top P : pth) (l : loc) (c c' : list item),
       indep (list item) (list item) Some (fun t : list item => t) teqb (msrc_model v) cwd tree backup nil
         (jobs (list item) fixed cwd tree top P) ->
       no_raise (list item) (list item) Some teqb (msrc_model v) cwd tree backup nil
         (jobs (list item) fixed cwd tree top P) ->
       st_read (list item) tree nil l = RFile c ->
       st_read (list item) tree
         (t_ov (list item)
            (merge_tree (list item) (list item) Some (fun t : list item => t) teqb 
               (msrc_model v) fixed cwd tree top P backup)) l = RFile c' ->
       (forall (j : pth * pth) (bk : name),
        In j (jobs (list item) fixed cwd tree top P) ->
        truthy backup = Some bk -> l <> lexloc cwd (backup_path (fst j) bk)) ->
       forall (i : nat) (sl : slot) (a : expr),
       ann_at c i = Some sl ->
       s_ann sl = Some a ->
       exists sl' : slot,
         ann_at c' i = Some sl' /\
         s_qn sl' = s_qn sl /\ s_shape sl' = s_shape sl /\ s_which sl' = s_which sl /\ s_ann sl' = Some a.
Proof. exact tree_existing_kept_lemma. Qed.
Print Assumptions tree_existing_kept.

(* no_bare_any_never_partial (returns) for whole trees *)
Theorem tree_no_bare_any_never_partial :
  forall (v : variant) (teqb : list item -> list item -> bool) (cwd : loc) (tree : node (list item))
         (backup : option name) (fixed : bool) (top P : pth) (l : loc) (c c' : list item),
       indep (list item) (list item) Some (fun t : list item => t) teqb (msrc_model v) cwd tree backup nil
         (jobs (list item) fixed cwd tree top P) ->
       no_raise (list item) (list item) Some teqb (msrc_model v) cwd tree backup nil
         (jobs (list item) fixed cwd tree top P) ->
       st_read (list item) tree nil l = RFile c ->
       st_read (list item) tree
         (t_ov (list item)
            (merge_tree (list item) (list item) Some (fun t : list item => t) teqb 
               (msrc_model v) fixed cwd tree top P backup)) l = RFile c' ->
       (forall (j : pth * pth) (bk : name),
        In j (jobs (list item) fixed cwd tree top P) ->
        truthy backup = Some bk -> l <> lexloc cwd (backup_path (fst j) bk)) ->
       (forall (j : pth * pth) (s : list item),
        In j (jobs (list item) fixed cwd tree top P) ->
        st_read (list item) tree nil (lexloc cwd (snd j)) = RFile s ->
        forallb (rets_ok not_dotted_any) s = true) ->
       forall (i : nat) (sl sl' : slot) (a : expr),
       ann_at c i = Some sl ->
       s_ann sl = None ->
       ann_at c' i = Some sl' -> s_ann sl' = Some a -> s_which sl = WRet -> bare_any_never a = false.
Proof. exact tree_no_bare_returns_lemma. Qed.
Print Assumptions tree_no_bare_any_never_partial.

(* inserted_from_stub_partial for whole trees: the inserted annotation is the one the file's OWN stub gives *)
Theorem tree_inserted_from_stub_partial :
  forall (v : variant) (teqb : list item -> list item -> bool) (cwd : loc) (tree : node (list item))
         (backup : option name) (fixed : bool) (top P : pth) (l : loc) (c c' : list item),
       indep (list item) (list item) Some (fun t : list item => t) teqb (msrc_model v) cwd tree backup nil
         (jobs (list item) fixed cwd tree top P) ->
       no_raise (list item) (list item) Some teqb (msrc_model v) cwd tree backup nil
         (jobs (list item) fixed cwd tree top P) ->
       st_read (list item) tree nil l = RFile c ->
       st_read (list item) tree
         (t_ov (list item)
            (merge_tree (list item) (list item) Some (fun t : list item => t) teqb 
               (msrc_model v) fixed cwd tree top P backup)) l = RFile c' ->
       (forall (j : pth * pth) (bk : name),
        In j (jobs (list item) fixed cwd tree top P) ->
        truthy backup = Some bk -> l <> lexloc cwd (backup_path (fst j) bk)) ->
       (forall (j : pth * pth) (s : list item),
        In j (jobs (list item) fixed cwd tree top P) ->
        l = lexloc cwd (fst j) ->
        st_read (list item) tree nil (lexloc cwd (snd j)) = RFile s ->
        dotted_free (filter_stub v s) = true /\
        m_leak (merge v c s) = false /\ m_clsdecl (merge v c s) = false) ->
       forall (i : nat) (sl sl' : slot) (a : expr),
       ann_at c i = Some sl ->
       s_ann sl = None ->
       ann_at c' i = Some sl' ->
       s_ann sl' = Some a ->
       exists (j : pth * pth) (s : list item) (a0 : expr),
         In j (jobs (list item) fixed cwd tree top P) /\
         l = lexloc cwd (fst j) /\
         st_read (list item) tree nil (lexloc cwd (snd j)) = RFile s /\
         stub_gives (stub_all (filter_stub v s)) sl a0 /\ same_ann a a0.
Proof. exact tree_inserted_from_stub_lemma. Qed.
Print Assumptions tree_inserted_from_stub_partial.

(* posixpath.relpath(root, top) for a root that lies ds below top *)
Theorem relpath_of_descendant :
  forall (cwd : list name) (root top : pth) (ds : list name),
       nsl cwd ->
       p_empty root = false ->
       lexloc cwd root = lexloc cwd top ++ ds ->
       relpath cwd root top =
       Some
         (if is_nil ds then {| p_abs := 0; p_comps := n_dot :: nil |} else {| p_abs := 0; p_comps := ds |}).
Proof. exact relpath_below. Qed.
Print Assumptions relpath_of_descendant.

(* posixpath.normpath never changes where a path leads (lexical resolution) *)
Theorem normpath_same_place :
  forall (cwd : loc) (p : pth), lexloc cwd (normpath p) = lexloc cwd p.
Proof. exact lexloc_normpath. Qed.
Print Assumptions normpath_same_place.

(* posixpath.join with a relative second argument continues the walk *)
Theorem join_continues_walk :
  forall (cwd : loc) (a b : pth),
       isabs b = false -> lexloc cwd (join a b) = lexwalk (lexloc cwd a) (p_comps b).
Proof. exact lexloc_join. Qed.
Print Assumptions join_continues_walk.

(* the component list relpath computes from abspath is the lexical location *)
Theorem abspath_components :
  forall (cwd : list name) (p : pth), nsl cwd -> abs_list cwd p = lexloc cwd p.
Proof. exact abs_list_loc. Qed.
Print Assumptions abspath_components.

(* ---- refutations (witnesses by computation; toy merge_sources = stub text in front of the source text) ---- *)
(* BEFORE b7143da (fixed = false): under the hypotheses of merge_tree_uses_own_stub, src/sub/a.py is NOT paired with
   s/sub/a.pyi but with a.pyi one directory ABOVE the stub root s; the tree merge then inserts the decoy's text (3) where the
   fixed loop inserts the own stub's (2). *)
Theorem merge_tree_before_fix_refuted :
  nsl nil /\ p_empty w_top = false /\
  (exists es, lookup _ w_tree (lexloc nil w_top) = Some (Dir es) /\ names_ok (walk_dirs _ (Dir es) nil)) /\
  In (lexloc nil w_top ++ nm_sub :: nm_a_py :: nil, removelast (lexloc nil w_P) ++ stub_name nm_a_py :: nil)
     (map (locs nil) (jobs _ false nil w_tree w_top w_P)) /\
  ~ In (lexloc nil w_top ++ nm_sub :: nm_a_py :: nil, lexloc nil w_P ++ nm_sub :: stub_name nm_a_py :: nil)
       (map (locs nil) (jobs _ false nil w_tree w_top w_P)) /\
  st_read _ w_tree (t_ov _ (merge_tree _ _ read_text write_text text_eqb toy_msrc false nil w_tree w_top w_P None))
          (nm_src :: nm_sub :: nm_a_py :: nil) = RFile (51 :: 121 :: 10 :: nil)%N /\
  st_read _ w_tree (t_ov _ (merge_tree _ _ read_text write_text text_eqb toy_msrc true nil w_tree w_top w_P None))
          (nm_src :: nm_sub :: nm_a_py :: nil) = RFile (50 :: 121 :: 10 :: nil)%N.
Proof. exact before_fix_witness. Qed.
Print Assumptions merge_tree_before_fix_refuted.

(* merge_tree_unchanged_elsewhere WITHOUT indep (both variants): stubs next to the sources, backup extension "pyi": the backup
   of a.py is a.py.pyi, which the loop then takes for the stub of a.py.py - a file that has no stub is rewritten. *)
Theorem merge_tree_backup_collision_refuted :
  let js := jobs _ false nil c_tree c_top c_top in
  let jsf := jobs _ true nil c_tree c_top c_top in
  js = jsf /\
  no_raise _ _ read_text text_eqb toy_msrc nil c_tree c_bk nil jsf /\
  (forall j, In j jsf ->
     ~ In (nm_d :: nm_a_py_py :: nil)
          (map fst (jwrites _ _ read_text write_text text_eqb toy_msrc nil c_tree c_bk nil j))) /\
  st_read _ c_tree nil (nm_d :: nm_a_py_py :: nil) = RFile (121 :: 10 :: nil)%N /\
  st_read _ c_tree (t_ov _ (merge_tree _ _ read_text write_text text_eqb toy_msrc true nil c_tree c_top c_top c_bk))
          (nm_d :: nm_a_py_py :: nil) = RFile (120 :: 10 :: 121 :: 10 :: nil)%N.
Proof. exact backup_collision_witness. Qed.
Print Assumptions merge_tree_backup_collision_refuted.

(* "errors are collected per file" WITHOUT no_raise: a source that is not valid utf-8 raises UnicodeDecodeError, which is
   not a MergeError: merge_tree stops, nothing is recorded in the error list, and b.py (which has a stub that changes
   it) is never merged. *)
Theorem merge_tree_errors_per_file_refuted :
  let r := merge_tree _ _ read_text write_text text_eqb toy_msrc true nil u_tree c_top c_top None in
  t_raised _ r = true /\ t_ov _ r = nil /\ t_errors _ r = nil /\
  exists j, In j (jobs _ true nil u_tree c_top c_top) /\
            is_changed _ _ (jo _ _ read_text text_eqb toy_msrc nil u_tree None nil j) = true.
Proof. exact undecodable_witness. Qed.
Print Assumptions merge_tree_errors_per_file_refuted.

(* (c) text mode: what open(p).read() returns never contains a carriage return (universal newlines), so a rewritten file
   (write_text leaves \n alone on Linux) has LF line ends whatever the original had; the backup keeps the original bytes. *)
Theorem text_mode_read_has_no_cr : forall (b t : list N), read_text b = Some t -> ~ In 13%N t.
Proof. exact read_text_no_cr. Qed.
Print Assumptions text_mode_read_has_no_cr.

(* ---- non-vacuity: on the witness tree with the FIXED loop and backup extension "bak" all hypotheses of the tree theorems
   hold, both sources are rewritten from their own stubs, both backups hold the originals, the changed list is complete ---- *)
Definition demo_bk : option name := Some (98 :: 97 :: 107 :: nil)%N.
Example tree_hypotheses_hold :
  let js := jobs _ true nil w_tree w_top w_P in
  let r := merge_tree _ _ read_text write_text text_eqb toy_msrc true nil w_tree w_top w_P demo_bk in
  indep _ _ read_text write_text text_eqb toy_msrc nil w_tree demo_bk nil js /\
  no_raise _ _ read_text text_eqb toy_msrc nil w_tree demo_bk nil js /\
  NoDup (map fst (flat_map (jwrites _ _ read_text write_text text_eqb toy_msrc nil w_tree demo_bk nil) (rev js))) /\
  length (t_ov _ r) = 4 /\ t_changed _ r = map fst js /\ t_errors _ r = nil /\
  st_read _ w_tree (t_ov _ r) (nm_src :: nm_a_py :: nil) = RFile (49 :: 120 :: 10 :: nil)%N /\
  st_read _ w_tree (t_ov _ r) (nm_src :: nm_sub :: nm_a_py :: nil) = RFile (50 :: 121 :: 10 :: nil)%N.
Proof.
  cbv zeta. remember (jobs _ true nil w_tree w_top w_P) as js eqn:E. vm_compute in E. subst js.
  split.
  { cbn [indep]. split; [|split; [|exact I]].
    - intros j l Hj Hl. destruct Hj as [<-|[]]. vm_compute in Hl. destruct Hl as [<-|[<-|[]]]; split; discriminate.
    - intros j l []. }
  split.
  { intros j Hj. destruct Hj as [<-|[<-|[]]]; vm_compute; reflexivity. }
  split.
  { vm_compute. repeat constructor; cbn; intuition discriminate. }
  repeat split; vm_compute; reflexivity.
Qed.
Example crlf_is_rewritten_as_lf :
  read_text (120 :: 13 :: 10 :: 121 :: 13 :: 122 :: 10 :: nil)%N = Some (120 :: 10 :: 121 :: 10 :: 122 :: 10 :: nil)%N /\
  write_text (120 :: 10 :: 233 :: nil)%N = (120 :: 10 :: 195 :: 169 :: nil)%N /\
  read_text (255 :: nil)%N = None.
Proof. vm_compute. repeat split; reflexivity. Qed.


(* ================================================================================================================ *)
(* PROCESS LEVEL (Merge/Ctx.v): the state that could outlive one merge inside one Python process - the libcst CodemodContext
   (its pending-imports queue scratch["AddImportsVisitor"], modelled concretely on the mini syntax trees by [merge_in]) and
   a memo of stub texts per path string - threaded through merge_files / merge_tree / main and through HISTORIES of calls
   interleaved with outside writes.  [share] / [memo] = false is the code as written (a `CodemodContext()` per merge_sources
   call, the stub file opened on every merge_files call); true are the two ways of keeping state across files that the check
   probes for on every run (correspondence "context variant" / "history"). *)
From PV Require Import Merge.Ctx Merge.CtxProofs.

(* a sequence of merges with a context of its own each = the single-file merges: no cross-file state (mini-tree model) *)
Theorem merge_seq_is_pointwise :
  forall (v : variant) (l : list (list item * list item)) (cx : ctx),
       merge_seq v false cx l = map (fun ps : list item * list item => merge v (fst ps) (snd ps)) l.
Proof. exact merge_seq_fresh. Qed.
Print Assumptions merge_seq_is_pointwise.

(* what a context carries from one merge to the next: everything it held, then the import requests of this stub; the other
   outputs of a merge (error, monitors, fresh classes) do not depend on the context *)
Theorem context_accumulates_import_requests :
  forall (v : variant) (cx : ctx) (p s : list item),
       snd (merge_in v cx p s) = cx ++ m_needs (merge v p s) /\
       m_err (fst (merge_in v cx p s)) = m_err (merge v p s) /\
       m_leak (fst (merge_in v cx p s)) = m_leak (merge v p s) /\
       m_clsdecl (fst (merge_in v cx p s)) = m_clsdecl (merge v p s) /\
       m_fresh (fst (merge_in v cx p s)) = m_fresh (merge v p s) /\
       m_generic (fst (merge_in v cx p s)) = m_generic (merge v p s) /\
       m_needs (fst (merge_in v cx p s)) = cx ++ m_needs (merge v p s).
Proof. intros v cx p s. split; [exact (merge_in_ctx v cx p s)|exact (merge_in_same_flags v cx p s)]. Qed.
Print Assumptions context_accumulates_import_requests.

(* merge_tree_is_pointwise, part 1: for ANY context type and ANY context-passing merge_sources, merge_tree as written (no
   context handed down) is Merge/Files.v's merge_tree over the pure function "merge_sources in a fresh context" *)
Theorem merge_tree_has_no_cross_file_state :
  forall (B T C : Type) (read : B -> option T) (write : T -> B) (teqb : T -> T -> bool)
         (fresh : C) (msrcC : C -> T -> T -> option T * C) (cwd : loc) (tree : node B) (fixed : bool)
         (mm : list (pth * T)) (top P : pth) (bk : option name),
       tc_st B T C (merge_tree_c B T C read write teqb fresh msrcC false false fixed cwd tree nil mm top P bk) =
       merge_tree B T read write teqb (msrc_fresh T C fresh msrcC) fixed cwd tree top P bk.
Proof. exact merge_tree_c_is_merge_tree. Qed.
Print Assumptions merge_tree_has_no_cross_file_state.

(* merge_tree_is_pointwise, part 2: the files written, the changed list and the error list are those of merge_files run alone
   on the ORIGINAL file system with a context of its own (jo nil j); files without stub are untouched (jo = JSkip writes
   nothing: merge_tree_no_stub_skipped); hypotheses as for merge_tree_is_map, both necessary *)
Theorem merge_tree_is_pointwise :
  forall (B T C : Type) (read : B -> option T) (write : T -> B) (teqb : T -> T -> bool)
         (fresh : C) (msrcC : C -> T -> T -> option T * C) (cwd : loc) (tree : node B) (fixed : bool)
         (mm : list (pth * T)) (top P : pth) (bk : option name),
       let js := jobs B fixed cwd tree top P in
       let r :=
         tc_st B T C (merge_tree_c B T C read write teqb fresh msrcC false false fixed cwd tree nil mm top P bk) in
       indep B T read write teqb (msrc_fresh T C fresh msrcC) cwd tree bk nil js ->
       no_raise B T read teqb (msrc_fresh T C fresh msrcC) cwd tree bk nil js ->
       t_ov B r = flat_map (jwrites B T read write teqb (msrc_fresh T C fresh msrcC) cwd tree bk nil) (rev js) /\
       t_changed B r =
       map fst
         (filter
            (fun j : pth * pth => is_changed B T (jo B T read teqb (msrc_fresh T C fresh msrcC) cwd tree bk nil j))
            js) /\
       t_errors B r =
       map fst
         (filter (fun j : pth * pth => is_err B T (jo B T read teqb (msrc_fresh T C fresh msrcC) cwd tree bk nil j))
            js) /\
       t_raised B r = false /\
       tc_memo B T C (merge_tree_c B T C read write teqb fresh msrcC false false fixed cwd tree nil mm top P bk) = mm.
Proof. exact merge_tree_pointwise. Qed.
Print Assumptions merge_tree_is_pointwise.

(* the lifting: with the mini-tree model of the context plugged in, merge_tree as written is merge_tree over [msrc_model v] - the
   premise of tree_files_are_own_merges / tree_existing_kept / tree_inserted_from_stub_partial / tree_no_bare_any_never_partial,
   which therefore hold for it pointwise, file by file *)
Theorem merge_tree_with_context_model_lifts :
  forall (v : variant) (teqb : list item -> list item -> bool) (cwd : loc) (tree : node (list item)) (fixed : bool)
         (mm : list (pth * list item)) (top P : pth) (bk : option name),
       tc_st (list item) (list item) ctx
         (merge_tree_c (list item) (list item) ctx Some (fun t : list item => t) teqb ctx0 (msrcC_model v)
            false false fixed cwd tree nil mm top P bk) =
       merge_tree (list item) (list item) Some (fun t : list item => t) teqb (msrc_model v) fixed cwd tree top P bk.
Proof. exact merge_tree_ctx_model. Qed.
Print Assumptions merge_tree_with_context_model_lifts.

(* REFUTED with one context for the whole tree (share = true; the seeded change C20-shared-codemod-context-leaks-imports):
   a.py's stub imports Fraction, b.py's stub imports nothing; b.py still receives `from fractions import Fraction`, which its
   own stub never requested, and no longer erases to the original *)
Theorem merge_seq_shared_context_refuted :
  map m_out (merge_seq Fixed false ctx0 w_seq) = m_out (merge Fixed wa_p wa_s) :: wb_out_fresh :: nil /\
  map m_out (merge_seq Fixed true ctx0 w_seq) = m_out (merge Fixed wa_p wa_s) :: wb_out_shared :: nil /\
  m_needs (merge Fixed wb_p wb_s) = nil /\
  imports_own (m_needs (merge Fixed wb_p wb_s)) wb_out_fresh = true /\
  imports_own (m_needs (merge Fixed wb_p wb_s)) wb_out_shared = false /\
  erase wb_out_fresh = erase wb_p /\ erase wb_out_shared <> erase wb_p.
Proof. exact shared_context_witness. Qed.
Print Assumptions merge_seq_shared_context_refuted.

Theorem merge_tree_shared_context_refuted :
  st_read (list item) s_tree (t_ov (list item) (tc_st (list item) (list item) ctx (s_run false)))
    (nm_src :: nm_b_py :: nil) = RFile wb_out_fresh /\
  st_read (list item) s_tree (t_ov (list item) (tc_st (list item) (list item) ctx (s_run true)))
    (nm_src :: nm_b_py :: nil) = RFile wb_out_shared /\
  msrc_model Fixed wb_p wb_s = Some wb_out_fresh /\
  st_read (list item) s_tree (t_ov (list item) (tc_st (list item) (list item) ctx (s_run true)))
    (nm_src :: nm_a_py :: nil) =
  st_read (list item) s_tree (t_ov (list item) (tc_st (list item) (list item) ctx (s_run false)))
    (nm_src :: nm_a_py :: nil).
Proof. exact shared_context_tree_witness. Qed.
Print Assumptions merge_tree_shared_context_refuted.

(* histories: merge_files / merge_tree / main calls and outside writes in ONE process give, step by step, the outcomes and the
   file system that a NEW process per operation gives (fresh_history): nothing is remembered between calls *)
Theorem history_is_stateless :
  forall (B T C : Type) (read : B -> option T) (write : T -> B) (teqb : T -> T -> bool)
         (fresh : C) (msrcC : C -> T -> T -> option T * C) (cwd : loc) (tree : node B) (fixed : bool)
         (ops : list (op B)) (h : hstate B T),
       let '(h', xs) := run_history B T C read write teqb fresh msrcC false false fixed cwd tree h ops in
       (h_ov B T h', xs) = fresh_history B T C read write teqb fresh msrcC fixed cwd tree (h_ov B T h) ops.
Proof. exact run_history_plain. Qed.
Print Assumptions history_is_stateless.

(* REFUTED with the stub text remembered per path string (memo = true; the seeded change C20-stub-read-memoised-per-path):
   merge, put the source back, rewrite the stub (49 -> 50), merge again: the OLD stub's text is inserted *)
Theorem history_memoised_stub_refuted :
  (st_read (list N) m_tree (h_ov (list N) (list N) (fst (m_run false))) (nm_d :: nm_a_py :: nil) =
   RFile (50 :: 120 :: 10 :: nil) /\
   st_read (list N) m_tree (h_ov (list N) (list N) (fst (m_run true))) (nm_d :: nm_a_py :: nil) =
   RFile (49 :: 120 :: 10 :: nil) /\
   st_read (list N) m_tree (h_ov (list N) (list N) (fst (m_run true))) (nm_d :: stub_name nm_a_py :: nil) =
   RFile (50 :: nil) /\
   fst (fresh_history (list N) (list N) unit read_text write_text text_eqb tt toy_msrcC true nil m_tree nil m_ops) =
   h_ov (list N) (list N) (fst (m_run false)))%N.
Proof. exact memo_witness. Qed.
Print Assumptions history_memoised_stub_refuted.

(* main(): without -i/--in-place no file is ever written (PRINT and DIFF), whatever state the process carries *)
Theorem main_without_in_place_never_writes :
  forall (B T C : Type) (read : B -> option T) (write : T -> B) (teqb : T -> T -> bool)
         (fresh : C) (msrcC : C -> T -> T -> option T * C) (cwd : loc) (tree : node B) (share memo fixed : bool)
         (h : hstate B T) (df : bool) (bk : option name) (py pyi : pth),
       h_ov B T
         (fst (h_step B T C read write teqb fresh msrcC share memo fixed cwd tree h (OpMain false df bk py pyi))) =
       h_ov B T h.
Proof. exact main_no_inplace_never_writes. Qed.
Print Assumptions main_without_in_place_never_writes.

(* main(): a non-empty -b without -i is a usage error: nothing is read, nothing is written, nothing is remembered *)
Theorem main_backup_requires_in_place :
  forall (B T C : Type) (read : B -> option T) (write : T -> B) (teqb : T -> T -> bool)
         (fresh : C) (msrcC : C -> T -> T -> option T * C) (cwd : loc) (tree : node B) (share memo fixed : bool)
         (h : hstate B T) (df : bool) (bk : option name) (n : name) (py pyi : pth),
       truthy bk = Some n ->
       h_step B T C read write teqb fresh msrcC share memo fixed cwd tree h (OpMain false df bk py pyi) = (h, OUsage).
Proof. exact main_backup_needs_inplace. Qed.
Print Assumptions main_backup_requires_in_place.

(* non-vacuity: on the two-file witness tree the hypotheses of merge_tree_is_pointwise hold and both files change *)
Example pointwise_hypotheses_hold :
  let js := jobs (list item) true nil s_tree w_top w_P in
  indep _ _ Some (fun t : list item => t) it_eqb (msrc_fresh _ _ ctx0 (msrcC_model Fixed)) nil s_tree None nil js /\
  no_raise _ _ Some it_eqb (msrc_fresh _ _ ctx0 (msrcC_model Fixed)) nil s_tree None nil js /\
  length js = 2%nat /\
  length (t_changed _ (tc_st _ _ _ (s_run false))) = 2%nat.
Proof.
  cbv zeta. remember (jobs (list item) true nil s_tree w_top w_P) as js eqn:E. vm_compute in E. subst js.
  split.
  { cbn [indep]. split; [|split; [|exact I]].
    - intros j l Hj Hl. destruct Hj as [<-|[]]. vm_compute in Hl. destruct Hl as [<-|[]]; split; discriminate.
    - intros j l []. }
  split.
  { intros j Hj. destruct Hj as [<-|[<-|[]]]; vm_compute; reflexivity. }
  split; vm_compute; reflexivity.
Qed.
