(* C20 — merging a stub into source changes annotations only.
   Property theorems only; each is closed by [exact] and followed by Print Assumptions.
   Model: Merge/Model.v (pytype's RemoveAnyNeverTransformer / RemoveTrivialTypesTransformer as written,
   libcst's TypeCollector + ApplyTypeAnnotationsVisitor + AddImportsVisitor under pytype's flags).
   [merge v p s] is merge_sources(py=p, pyi=s); v = AsWritten is the tree as it stands, v = Fixed the
   tree with fixes/C20-annassign-any.patch; the harness decides by correspondence which one applies.
   A position is an index into [mslots], the document-order list of annotation slots (returns,
   parameters, assigned / declared variables), each tagged with the true qualified name of its
   definition; the merge keeps that list aligned (slots_aligned), so index i denotes the same
   definition before and after. *)
From Coq Require Import List NArith Bool.
From PV Require Import Merge.Model Merge.Proofs.
Import ListNotations.
Open Scope N_scope.

(* ---- positions are stable: the merge neither creates, removes nor moves an annotation slot ---- *)
Theorem slots_aligned : forall (v : variant) (p s : list item) (i : nat),
  match ann_at p i, ann_at (m_out (merge v p s)) i with
  | Some sl, Some sl' => s_qn sl' = s_qn sl /\ s_shape sl' = s_shape sl /\ s_which sl' = s_which sl
  | None, None => True
  | _, _ => False
  end.
Proof. exact slots_aligned_lemma. Qed.
Print Assumptions slots_aligned.

(* ---- existing annotations are kept (all programs, all stubs, both variants) ---- *)
Theorem existing_kept : forall (v : variant) (p s : list item) (i : nat) (sl : slot) (a : expr),
  ann_at p i = Some sl -> s_ann sl = Some a ->
  exists sl', ann_at (m_out (merge v p s)) i = Some sl' /\
              s_qn sl' = s_qn sl /\ s_shape sl' = s_shape sl /\ s_which sl' = s_which sl /\
              s_ann sl' = Some a.
Proof. exact existing_kept_lemma. Qed.
Print Assumptions existing_kept.

(* ---- erase (merge p s) = erase p ----
   REFUTED at full strength on the faithful model: a stub annotation written as a dotted name
   (pytype prints a nested class as Outer.Inner) makes libcst add `from Outer import Inner`, which is
   not a typing import, so it survives [erase]. *)

Theorem merge_erases_to_original_refuted :
  exists p s, forall v, erase (m_out (merge v p s)) <> erase p.
Proof. exact merge_erases_refuted_lemma. Qed.
Print Assumptions merge_erases_to_original_refuted.

(* PARTIAL: holds whenever every import the stub asks for is a typing import, no class of the stub is
   injected into the source (the stub is "for its definitions") and no Generic[...] base is appended. *)
Theorem merge_erases_to_original_partial : forall (v : variant) (p s : list item),
  m_generic (merge v p s) = false -> m_fresh (merge v p s) = [] ->
  needs_typing_only (merge v p s) = true ->
  erase (m_out (merge v p s)) = erase p.
Proof. exact merge_erases_lemma. Qed.
Print Assumptions merge_erases_to_original_partial.

(* ---- every inserted annotation is the one the stub gives for that definition ----
   REFUTED at full strength: (1) libcst's _annotate_single_target forgets qualifier.pop() when a name
   is assigned a second time, so later definitions are looked up under a wrong qualified name: the
   module-level function m below receives the annotation of the method C.m. *)

Theorem inserted_from_stub_refuted :
  exists p s i sl sl' a, forall v,
    dotted_free (filter_stub v s) = true /\ m_clsdecl (merge v p s) = false /\ m_err (merge v p s) = false /\
    ann_at p i = Some sl /\ s_ann sl = None /\
    ann_at (m_out (merge v p s)) i = Some sl' /\ s_ann sl' = Some a /\
    ~ exists a0, stub_gives (stub_all (filter_stub v s)) sl a0 /\ same_ann a a0.
Proof. exact inserted_from_stub_refuted_lemma. Qed.
Print Assumptions inserted_from_stub_refuted.

(* (2) a chained assignment `a = b = v` inside a class makes libcst insert MODULE-level declarations
   `a: T`, `b: T` carrying the annotations of the class attributes C.a, C.b. *)
Theorem inserted_declaration_refuted :
  exists p s nm a, forall v,
    dotted_free (filter_stub v s) = true /\ m_leak (merge v p s) = false /\ m_err (merge v p s) = false /\
    In (nm, a) (added_decls (m_out (merge v p s))) /\ ~ In (nm, a) (added_decls p) /\
    ~ exists a0, In (SVar nm a0) (stub_all (filter_stub v s)) /\ same_ann a a0.
Proof. exact inserted_declaration_refuted_lemma. Qed.
Print Assumptions inserted_declaration_refuted.

(* PARTIAL: holds when neither monitor fires (no qualifier leak, no declaration hoisted out of a
   class), the merge does not raise, and the filtered stub has no dotted name in an annotation (libcst
   rewrites a.b to b).  [same_ann]: equal up to the forward-reference quoting of a bare name.
   The second conjunct covers the module-level declarations `x: T` the merge inserts. *)
Theorem inserted_from_stub_partial : forall (v : variant) (p s : list item),
  dotted_free (filter_stub v s) = true ->
  m_leak (merge v p s) = false -> m_clsdecl (merge v p s) = false -> m_err (merge v p s) = false ->
  (forall i sl sl' a,
     ann_at p i = Some sl -> s_ann sl = None ->
     ann_at (m_out (merge v p s)) i = Some sl' -> s_ann sl' = Some a ->
     exists a0, stub_gives (stub_all (filter_stub v s)) sl a0 /\ same_ann a a0) /\
  (forall nm a,
     In (nm, a) (added_decls (m_out (merge v p s))) ->
     In (nm, a) (added_decls p) \/
     exists a0, In (SVar nm a0) (stub_all (filter_stub v s)) /\ same_ann a a0).
Proof. exact inserted_from_stub_lemma. Qed.
Print Assumptions inserted_from_stub_partial.

(* ---- a bare Any / Never is never inserted as a return or variable annotation ----
   REFUTED for variables on the tree as written: leave_AnnAssign hands the Annotation wrapper to
   _is_any_or_never, so `x: Any` is never filtered and `x: Any = f()` is inserted. *)

Theorem no_bare_any_never_refuted :
  exists p s i sl sl' a,
    dotted_any_free s = true /\
    ann_at p i = Some sl /\ s_ann sl = None /\
    ann_at (m_out (merge AsWritten p s)) i = Some sl' /\ s_ann sl' = Some a /\
    s_which sl = WVar /\ bare_any_never a = true.
Proof. exact no_bare_refuted_lemma. Qed.
Print Assumptions no_bare_any_never_refuted.

(* PARTIAL (both variants): returns.  Hypothesis: the stub does not spell Any/Never as a dotted name
   (`typing.Any`), which _is_any_or_never does not recognise and libcst turns into a bare name. *)
Theorem no_bare_any_never_partial : forall (v : variant) (p s : list item) (i : nat) (sl sl' : slot) (a : expr),
  forallb (rets_ok not_dotted_any) s = true ->
  ann_at p i = Some sl -> s_ann sl = None ->
  ann_at (m_out (merge v p s)) i = Some sl' -> s_ann sl' = Some a ->
  s_which sl = WRet -> bare_any_never a = false.
Proof. exact no_bare_returns_lemma. Qed.
Print Assumptions no_bare_any_never_partial.

(* With the fix: variables too, including the module-level declarations the merge inserts. *)
Theorem no_bare_any_never_fixed_vars : forall (p s : list item) (i : nat) (sl sl' : slot) (a : expr),
  forallb (vars_ok not_dotted_any) s = true ->
  ann_at p i = Some sl -> s_ann sl = None ->
  ann_at (m_out (merge Fixed p s)) i = Some sl' -> s_ann sl' = Some a ->
  s_which sl = WVar -> bare_any_never a = false.
Proof. exact no_bare_vars_fixed_lemma. Qed.
Print Assumptions no_bare_any_never_fixed_vars.

Theorem no_bare_any_never_fixed_decls : forall (p s : list item) (nm : path) (a : expr),
  forallb (vars_ok not_dotted_any) s = true ->
  In (nm, a) (added_decls (m_out (merge Fixed p s))) ->
  In (nm, a) (added_decls p) \/ bare_any_never a = false.
Proof. exact no_bare_decls_fixed_lemma. Qed.
Print Assumptions no_bare_any_never_fixed_decls.

(* ---- non-vacuity: a program with a class (method, class variable, chained assignment at module
   level), a partially annotated function with keyword-only parameters and a module variable; a stub
   for the same definitions.  All hypotheses of the partial theorems hold and annotations ARE
   inserted (return, positional and keyword-only parameters, class and module variables, a
   module-level declaration), the typing import is added, the existing annotation is kept. ---- *)
Definition demo_p : list item :=
  [Doc 100;
   Import true [id_typing] [60] [] 0;
   Cls 20 101 [] [Assign [TName 40] (mkVal 102 false);
                  Fun 30 103 (mkParams [] [mkParam 50 None None; mkParam 51 (Some (EName id_int)) None]
                                       BareStar [mkParam 52 None (Some 104)] None) None [Other 105]];
   Assign [TName 41; TName 42] (mkVal 106 false);
   Assign [TName 43] (mkVal 107 false);
   Fun 31 108 (mkParams [] [mkParam 53 None None] NoStar [] None) None
       [Fun 32 109 (mkParams [] [] NoStar [] None) None [Other 110]]].
Definition demo_s : list item :=
  [Import true [id_typing] [id_Any; 60; 61] [] 0;
   Cls 20 101 [] [AnnAssign (TName 40) (ESub (EName 60) [EName id_int]) None;
                  Fun 30 103 (mkParams [] [mkParam 50 None None; mkParam 51 (Some (EName id_int)) None]
                                       BareStar [mkParam 52 (Some (EName id_str)) (Some 111)] None)
                      (Some (ESub (EName 61) [EName id_str; EName id_int])) [Other 112]];
   AnnAssign (TName 41) (EName id_int) None;
   AnnAssign (TName 42) (ESub (EName 60) [EName id_str]) None;
   AnnAssign (TName 43) (EName 20) None;
   Fun 31 108 (mkParams [] [mkParam 53 (Some (EName 20)) None] NoStar [] None) (Some (EName id_Any)) [Other 112]].

Example demo_hypotheses :
  dotted_free (filter_stub AsWritten demo_s) = true /\ dotted_any_free demo_s = true /\
  m_leak (merge AsWritten demo_p demo_s) = false /\ m_clsdecl (merge AsWritten demo_p demo_s) = false /\
  m_err (merge AsWritten demo_p demo_s) = false /\ m_generic (merge AsWritten demo_p demo_s) = false /\
  m_fresh (merge AsWritten demo_p demo_s) = [] /\ needs_typing_only (merge AsWritten demo_p demo_s) = true.
Proof. vm_compute. repeat split; reflexivity. Qed.

Example demo_output :
  m_out (merge AsWritten demo_p demo_s) =
  [Doc 100;
   Import true [id_typing] [60] [61] 0;
   Added (AnnAssign (TName 42) (ESub (EName 60) [EName id_str]) None);
   Cls 20 101 [] [AnnAssign (TName 40) (ESub (EName 60) [EName id_int]) (Some (mkVal 102 false));
                  Fun 30 103 (mkParams [] [mkParam 50 None None; mkParam 51 (Some (EName id_int)) None]
                                       BareStar [mkParam 52 (Some (EName id_str)) (Some 104)] None)
                      (Some (ESub (EName 61) [EName id_str; EName id_int])) [Other 105]];
   Assign [TName 41; TName 42] (mkVal 106 false);
   AnnAssign (TName 43) (EName 20) (Some (mkVal 107 false));
   Fun 31 108 (mkParams [] [mkParam 53 (Some (EName 20)) None] NoStar [] None) None
       [Fun 32 109 (mkParams [] [] NoStar [] None) None [Other 110]]].
Proof. vm_compute. reflexivity. Qed.

(* the same stub on the fixed tree; the leak / hoisting witnesses do set their monitors *)
Example demo_fixed_same : m_out (merge Fixed demo_p demo_s) = m_out (merge AsWritten demo_p demo_s).
Proof. vm_compute. reflexivity. Qed.
Example monitors_fire :
  m_leak (merge AsWritten leak_p leak_s) = true /\
  needs_typing_only (merge AsWritten nested_p nested_s) = false.
Proof. vm_compute. split; reflexivity. Qed.
