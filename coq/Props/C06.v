(* C06 — a module seen through its emitted stub has the types that were inferred for it.
   PARTIAL: the theorems cover TYPE EXPRESSIONS of the emitted dialect (module-level constants `x: T` and
   aliases `x = T`) and, on the declaration level (Conv/Decl.v, second half of this file): results of calls of
   functions with one signature (any parameter kinds) and of overloaded functions (selection rule), class
   re-exports, ground attributes / properties, and a type parameter read at the top of an attribute; the matcher
   is a parameter (measured and monitored by the harness); attribute types with type parameters below containers,
   module resolution and everything else are covered by the correspondence and the end-to-end differential only.
   Property theorems only; each is closed by [exact] and followed by Print Assumptions. *)
From Coq Require Import List NArith Arith Bool.
From PV Require Import Conv.Model Conv.Proofs Conv.Decl Conv.DeclProofs Conv.Bound Conv.BoundProofs.
Import ListNotations.
Open Scope N_scope.

(* For every class table (template length per class, with builtins.type and builtins.tuple unary) and every
   type expression t of the emitted dialect, of any depth: converting t with convert.py
   (pytd_cls_to_instance_var: a Union becomes several bindings, a generic becomes an instance whose parameters
   hold one binding per union member, tuples, callables, type[...]), storing it under the importing name
   (vm._process_annotations) and writing the resulting variable back
   with output.py (pytd_for_types / value_to_pytd_type / JoinTypes) gives t again, up to "the same type"
   ([nf]: all-Any containers are the bare class, type[Union[..]] distributes, `x = T` reads as `x: type[T]`),
   with the members of every union in the original order. *)
Theorem conv_out_id : forall (arity : cid -> nat) (t : ty),
  arity type_id = 1%nat -> arity tuple_id = 1%nat ->
  wf_top arity t = true ->
  nf (def_ty (downstream arity t)) = nf t.
Proof. intros arity t H1 H2. exact (conv_out_id_lemma arity H1 H2 t). Qed.
Print Assumptions conv_out_id.

(* the same, up to pytd's structural equality with set-equality on unions (after canonical ordering) *)
Theorem conv_out_canon : forall (arity : cid -> nat) (t : ty),
  arity type_id = 1%nat -> arity tuple_id = 1%nat ->
  wf_top arity t = true ->
  canon (def_ty (downstream arity t)) = canon t.
Proof. intros arity t H1 H2. exact (conv_out_canon_lemma arity t H1 H2). Qed.
Print Assumptions conv_out_canon.

(* an upstream alias `x = T` is seen downstream as the class-valued attribute type[T] *)
Theorem alias_out_id : forall (arity : cid -> nat) (t : ty),
  arity type_id = 1%nat -> arity tuple_id = 1%nat ->
  wf arity t = true -> is_any t = false -> nfree t = true ->
  nf (def_ty (out_top arity (store_name (conv_alias t)))) = nf (TGeneric type_id [t]).
Proof. intros arity t H1 H2. exact (alias_out_id_lemma arity H1 H2 t). Qed.
Print Assumptions alias_out_id.

(* The statement over everything pytype really emits ([wf_full]: bare `type` and `type[Any]` included) is
   REFUTED by the faithful model: `x: type` upstream is read as Any downstream
   (convert._pytd_generic_type_to_instance_value: the instance of type[Any] is constant_to_value(Any) =
   Unsolvable).  Replayed on the real code by harness/props/c06.py (known finding). *)
Theorem conv_out_id_full_refuted : exists t,
  wf_full_top builtin_arity t = true /\
  canon (def_ty (downstream builtin_arity t)) <> canon t.
Proof. exact bare_type_refuted_lemma. Qed.
Print Assumptions conv_out_id_full_refuted.

(* Both transports hand B a type from which B's analysis re-derives the type A's analysis emitted.
   Premises: C05 (print then parse stays in the dialect, up to member order), C12 (decode . encode = id),
   C04 (canonical ordering permutes union members), and that name resolution leaves a type expression whose
   classes are already identified unchanged (checked end to end by the three-transport oracle). *)
Theorem stub_handoff_text :
  forall (arity : cid -> nat) (text : Type) (print : ty -> text) (parse : text -> option ty) (resolve : ty -> ty),
  arity type_id = 1%nat -> arity tuple_id = 1%nat ->
  (* C05 *) (forall t, wf_top arity t = true ->
             exists a, parse (print t) = Some a /\ wf_top arity a = true /\ canon a = canon t) ->
  (* resolution *) preserves arity resolve ->
  forall t, wf_top arity t = true ->
  exists a, text_transport text print parse resolve t = Some a /\
            canon (def_ty (downstream arity a)) = canon t.
Proof. intros arity text print parse resolve H1 H2. exact (handoff_text_lemma arity H1 H2 text print parse resolve). Qed.
Print Assumptions stub_handoff_text.

Theorem stub_handoff_pickle :
  forall (arity : cid -> nat) (text bytes : Type) (print : ty -> text) (parse : text -> option ty)
         (encode : ty -> bytes) (decode : bytes -> option ty) (prep reorder post : ty -> ty),
  arity type_id = 1%nat -> arity tuple_id = 1%nat ->
  (* C05 *) (forall t, wf_top arity t = true ->
             exists a, parse (print t) = Some a /\ wf_top arity a = true /\ canon a = canon t) ->
  (* C12 *) (forall a, decode (encode a) = Some a) ->
  (* C04 *) preserves arity reorder ->
  (* resolution *) preserves arity prep -> preserves arity post ->
  forall t, wf_top arity t = true ->
  exists b, pickle_transport text bytes print parse encode decode prep reorder post t = Some b /\
            canon (def_ty (downstream arity b)) = canon t.
Proof.
  intros arity text bytes print parse encode decode prep reorder post H1 H2.
  exact (handoff_pickle_lemma arity H1 H2 text bytes print parse encode decode prep reorder post).
Qed.
Print Assumptions stub_handoff_pickle.

(* "identically whether B is given A's stub as .pyi text or as a pickled AST" *)
Theorem transports_agree :
  forall (arity : cid -> nat) (text bytes : Type) (print : ty -> text) (parse : text -> option ty)
         (encode : ty -> bytes) (decode : bytes -> option ty) (resolve prep reorder post : ty -> ty),
  arity type_id = 1%nat -> arity tuple_id = 1%nat ->
  (* C05 *) (forall t, wf_top arity t = true ->
             exists a, parse (print t) = Some a /\ wf_top arity a = true /\ canon a = canon t) ->
  (* C12 *) (forall a, decode (encode a) = Some a) ->
  (* C04 *) preserves arity reorder ->
  (* resolution *) preserves arity resolve -> preserves arity prep -> preserves arity post ->
  forall t, wf_top arity t = true ->
  exists a b, text_transport text print parse resolve t = Some a /\
              pickle_transport text bytes print parse encode decode prep reorder post t = Some b /\
              canon a = canon b /\
              canon (def_ty (downstream arity a)) = canon (def_ty (downstream arity b)).
Proof.
  intros arity text bytes print parse encode decode resolve prep reorder post H1 H2.
  exact (transports_agree_lemma arity H1 H2 text bytes print parse encode decode resolve prep reorder post).
Qed.
Print Assumptions transports_agree.

(* ---- non-vacuity ---- *)

(* the builtin class table meets the hypotheses on the class table *)
Example builtin_table_ok : builtin_arity type_id = 1%nat /\ builtin_arity tuple_id = 1%nat.
Proof. split; reflexivity. Qed.

(* dict[str, list[Union[int, C, None]]]  |  tuple[type[Union[C, D]], Callable[[list[nothing]], Optional[set]]]
   | Callable[..., tuple[int, ...]]:  in the dialect, converted to 3 bindings, and printed back *)
Definition ex_big : ty :=
  TUnion [ TGeneric 7 [TClass 11; TGeneric 6 [TUnion [TClass 10; TClass 32; TClass 2]]];
           TTuple [TGeneric 1 [TUnion [TClass 32; TClass 33]];
                   TCallable [TGeneric 6 [TNothing]] (TUnion [TClass 8; TClass 2])];
           TGeneric 4 [TAny; TGeneric 3 [TClass 10]] ].
Example ex_big_wf : wf_top builtin_arity ex_big = true /\ length (conv_var builtin_arity ex_big) = 3%nat.
Proof. vm_compute. split; reflexivity. Qed.
Example ex_big_roundtrip :
  def_ty (downstream builtin_arity ex_big) =
  TUnion [ TGeneric 7 [TClass 11; TGeneric 6 [TUnion [TClass 10; TClass 32; TClass 2]]];
           TTuple [TUnion [TGeneric 1 [TClass 32]; TGeneric 1 [TClass 33]];
                   TCallable [TGeneric 6 [TNothing]] (TUnion [TGeneric 8 [TAny]; TClass 2])];
           TGeneric 4 [TAny; TGeneric 3 [TClass 10]] ].
Proof. vm_compute. reflexivity. Qed.

(* the quirks the model mirrors *)
Example ex_bare_type_is_any : downstream builtin_arity (TClass type_id) = DConst TAny.
Proof. reflexivity. Qed.
Example ex_type_in_callable_kept :   (* Callable[[type], int] keeps `type`: printed from the class's formal parameter *)
  downstream builtin_arity (TCallable [TClass type_id] (TClass 10)) =
  DConst (TCallable [TGeneric type_id [TAny]] (TClass 10)).
Proof. reflexivity. Qed.
Example ex_optional_any :            (* a module-level variable with an Unsolvable binding is Any *)
  downstream builtin_arity (TUnion [TAny; TClass none_id]) = DConst TAny.
Proof. reflexivity. Qed.
Example ex_alias :                   (* x: type[list[int]] comes back as the alias x = list[int] *)
  downstream builtin_arity (TGeneric type_id [TGeneric 6 [TClass 10]]) =
  DAlias (TGeneric 6 [TClass 10]).
Proof. reflexivity. Qed.
Example ex_two_annotations_not_constant :   (* two class-valued bindings: [invalid-annotation], the name becomes Any *)
  downstream builtin_arity (TUnion [TGeneric type_id [TGeneric 6 [TClass 10]]; TGeneric type_id [TGeneric 8 [TClass 11]]]) =
  DConst TAny.
Proof. reflexivity. Qed.
Example ex_union_any_type_in_callable :     (* Callable[[], Union[Any, type]]: both instances are the Unsolvable singleton *)
  downstream builtin_arity (TCallable [] (TUnion [TAny; TClass type_id])) =
  DConst (TCallable [] (TUnion [TAny; TGeneric type_id [TAny]])).
Proof. reflexivity. Qed.
Example ex_join_optional_any : join [TAny; TClass none_id; TClass 10] = TUnion [TAny; TClass none_id].
Proof. reflexivity. Qed.

(* the premises of the hand-off theorems are satisfiable: identity printer/parser/codec/resolution *)
Example handoff_premises_sat :
  (forall t, wf_top builtin_arity t = true ->
     exists a, (fun x : ty => Some x) ((fun x : ty => x) t) = Some a /\ wf_top builtin_arity a = true /\ canon a = canon t) /\
  preserves builtin_arity (fun x => x) /\
  pickle_transport ty ty (fun x => x) Some (fun x => x) Some (fun x => x) (fun x => x) (fun x => x) ex_big = Some ex_big.
Proof.
  split; [|split].
  - intros t H. exists t. auto.
  - intros a H. auto.
  - reflexivity.
Qed.



(* ============================================================================================== *)
(* BOUNDED AND CONSTRAINED TYPEVARS (model: Conv/Bound.v) *)

(* The theorems above take the class table to be a template LENGTH per class: a bare reference to a generic class is
   instantiated with Any per type parameter, which is what convert.py does exactly when no TypeVar of the template
   has a bound or constraints.  Here the table gives, per class, the UPPER VALUE of every TypeVar of its template
   (pytd.TypeParameter.upper_value: Union[constraints] | bound | Any), and the conversion of a bare class reference
   is convert.py's  GenericType(cls, tuple(t.type_param.upper_value for t in cls.template)).

   For every class table (type and tuple unary and unbounded; upper values `clean`), every fuel and every `clean`
   type expression t (bare references to classes with bounded / constrained TypeVars occur where convert.py creates
   instances: at the top, as type arguments, tuple elements, union members — not below type[..] / Callable[..]),
   B's stub gives the imported name the type t with every such bare reference replaced by the class parameterised
   by each parameter's upper value, recursively ([expand_top]), provided that type is in the emitted dialect. *)
Theorem bounded_conv_out_id : forall (upper : cid -> list ty) (fuel : nat) (t : ty),
  upper type_id = [TAny] -> upper tuple_id = [TAny] ->
  (forall c, forallb (clean_top upper) (upper c) = true) ->
  clean_top upper t = true ->
  wf_top (arity_of upper) (expand_top upper fuel t) = true ->
  nf (def_ty (downstream_b upper fuel t)) = nf (expand_top upper fuel t).
Proof. intros upper fuel t H1 H2 H3. exact (bounded_conv_out_id_lemma upper H1 H2 H3 fuel t). Qed.
Print Assumptions bounded_conv_out_id.

(* the same for a finite table, whose hypotheses are decidable ([table_ok]; the harness evaluates it per table) *)
Theorem bounded_conv_out_id_table : forall (base : cid -> nat) (l : list (cid * list ty)) (fuel : nat) (t : ty),
  table_ok base l = true ->
  clean_top (table_of base l) t = true ->
  wf_top (arity_of (table_of base l)) (expand_top (table_of base l) fuel t) = true ->
  canon (def_ty (downstream_b (table_of base l) fuel t)) = canon (expand_top (table_of base l) fuel t).
Proof. intros base l fuel t H1 H2 H3. unfold canon. rewrite (bounded_table_lemma base l fuel t H1 H2 H3). reflexivity. Qed.
Print Assumptions bounded_conv_out_id_table.

(* "a bare reference to a generic class reads back as the class parameterised by each parameter's upper value":
   `x: Box` upstream, T bound to Base (or constrained to int, str), is `y: Box[Base]` (`Box[Union[int, str]]`)
   downstream — for upper values that mention no further class with bounded TypeVars *)
Theorem bare_generic_reads_back : forall (upper : cid -> list ty) (fuel : nat) (c : cid),
  upper type_id = [TAny] -> upper tuple_id = [TAny] ->
  (forall c, forallb (clean_top upper) (upper c) = true) ->
  unbounded upper c = false ->
  forallb (unb upper) (upper c) = true ->
  wf_top (arity_of upper) (TGeneric c (upper c)) = true ->
  nf (def_ty (downstream_b upper (S fuel) (TClass c))) = nf (TGeneric c (upper c)).
Proof. intros upper fuel c H1 H2 H3. exact (bare_generic_upper_lemma upper H1 H2 H3 fuel c). Qed.
Print Assumptions bare_generic_reads_back.

(* conservativity: on a table without bounds or constraints the bounded model IS Conv/Model.v's conversion, so
   conv_out_id .. transports_agree above are the special case *)
Theorem unbounded_table_is_model : forall (upper : cid -> list ty) (fuel : nat) (t : ty),
  upper type_id = [TAny] ->
  (forall c, unbounded upper c = true) ->
  downstream_b upper fuel t = downstream (arity_of upper) t.
Proof. intros upper fuel t. exact (unbounded_table_is_model_lemma upper fuel t). Qed.
Print Assumptions unbounded_table_is_model.

(* the short cut taken by Bound.bare_b for a template without bounds: converting GenericType(c, (Any, ..)) gives
   Model.bare_inst, whatever the conversion of bare references below it *)
Theorem generic_any_is_bare_inst : forall (arity : cid -> nat) (bare : cid -> aval) (c : cid),
  arity type_id = 1%nat -> arity c <> 0%nat ->
  inst_g arity bare (TGeneric c (repeat TAny (arity c))) = bare_inst arity c.
Proof. intros arity bare c. exact (generic_any_is_bare_inst_lemma arity bare c). Qed.
Print Assumptions generic_any_is_bare_inst.

(* pytd.TypeParameter: the upper value; constraints and bound survive the pyi text `T = TypeVar("T", c1, c2)` /
   `TypeVar("T", bound=b)` (the type expressions inside are C05's) *)
Theorem typevar_upper_value : forall d : tvdecl,
  (tv_constraints d <> [] /\ upper_value d = TUnion (tv_constraints d)) \/
  (tv_constraints d = [] /\ exists b, tv_bound d = Some b /\ upper_value d = b) \/
  (tv_constraints d = [] /\ tv_bound d = None /\ upper_value d = TAny).
Proof. exact upper_value_cases. Qed.
Print Assumptions typevar_upper_value.

Theorem typevar_print_parse : forall d : tvdecl,
  parse_tv (print_tv d) = d /\ upper_value (parse_tv (print_tv d)) = upper_value d.
Proof. intros d. split; [exact (tv_print_parse_lemma d) | exact (upper_value_print_parse_lemma d)]. Qed.
Print Assumptions typevar_print_parse.

(* ---- non-vacuity: class C0; T = TypeVar(bound=C0); S = TypeVar(int, str); R = TypeVar(bound=C4);
        Q = TypeVar(bound=list[C0]);  C4(Generic[T])  C5(Generic[S, U])  C6(Generic[R])  C7(Generic[Q, T]) ---- *)
Definition ex_bounded_tbl : list (cid * list ty) :=
  [ (36, [TClass 32]); (37, [TUnion [TClass 10; TClass 11]; TAny]); (38, [TClass 36]);
    (39, [TGeneric 6 [TClass 32]; TClass 32]) ].
Definition ex_upper := table_of builtin_arity ex_bounded_tbl.
Example ex_bounded_tbl_ok : table_ok builtin_arity ex_bounded_tbl = true.
Proof. reflexivity. Qed.
(* dict[str, Union[C4, None]] | tuple[C6, C5] | C7 *)
Definition ex_bounded_ty : ty :=
  TUnion [TGeneric 7 [TClass 11; TUnion [TClass 36; TClass 2]]; TTuple [TClass 38; TClass 37]; TClass 39].
Example ex_bounded_hyps :
  clean_top ex_upper ex_bounded_ty = true /\
  wf_top (arity_of ex_upper) (expand_top ex_upper 2 ex_bounded_ty) = true /\
  expand_top ex_upper 2 ex_bounded_ty =
    TUnion [TGeneric 7 [TClass 11; TUnion [TGeneric 36 [TClass 32]; TClass 2]];
            TTuple [TGeneric 38 [TGeneric 36 [TClass 32]]; TGeneric 37 [TUnion [TClass 10; TClass 11]; TAny]];
            TGeneric 39 [TGeneric 6 [TClass 32]; TClass 32]] /\
  def_ty (downstream_b ex_upper 2 ex_bounded_ty) = expand_top ex_upper 2 ex_bounded_ty.
Proof. vm_compute. repeat split; reflexivity. Qed.
Example ex_bare_box :                  (* x: C4  ->  y: C4[C0];   x: C5 -> y: C5[Union[int, str], Any] *)
  downstream_b ex_upper 1 (TClass 36) = DConst (TGeneric 36 [TClass 32]) /\
  downstream_b ex_upper 1 (TClass 37) = DConst (TGeneric 37 [TUnion [TClass 10; TClass 11]; TAny]) /\
  unbounded ex_upper 36 = false /\ forallb (unb ex_upper) (ex_upper 36) = true /\
  wf_top (arity_of ex_upper) (TGeneric 36 (ex_upper 36)) = true.
Proof. vm_compute. repeat split; reflexivity. Qed.
Example ex_bounded_class_level :       (* class-level positions (outside `clean`; correspondence only) *)
  downstream_b ex_upper 1 (TCallable [TClass 36] (TClass 10)) = DConst (TCallable [TGeneric 36 [TClass 32]] (TClass 10)) /\
  downstream_b ex_upper 1 (TGeneric type_id [TClass 36]) = DConst (TGeneric type_id [TGeneric 36 [TAny]]).
Proof. vm_compute. split; reflexivity. Qed.
Example ex_fuel_exhausted_excluded :   (* C6 -> C4 -> C0 needs two hops: with fuel 1 the expansion is not in the dialect *)
  wf_top (arity_of ex_upper) (expand_top ex_upper 1 (TClass 38)) = false /\
  wf_top (arity_of ex_upper) (expand_top ex_upper 2 (TClass 38)) = true.
Proof. vm_compute. split; reflexivity. Qed.

(* With bounds in the table the SYNTACTIC identity of conv_out_id is refuted by the faithful model (B's stub spells
   the upper values out: `x: C4` upstream is `y: C4[C0]` downstream; A's own analysis gives the same type to the
   value, so this is not a defect) — and the seeded defect "an omitted type parameter implies Any"
   ([downstream_anyfill], Conv/Model.v's conversion on the same table) is told apart by the theorem's conclusion. *)
Theorem conv_out_id_bounded_refuted : exists (l : list (cid * list ty)) (t : ty),
  table_ok builtin_arity l = true /\ clean_top (table_of builtin_arity l) t = true /\
  wf_top (arity_of (table_of builtin_arity l)) t = true /\
  canon (def_ty (downstream_b (table_of builtin_arity l) 1 t)) <> canon t /\
  canon (def_ty (downstream_anyfill (table_of builtin_arity l) t)) <>
    canon (def_ty (downstream_b (table_of builtin_arity l) 1 t)).
Proof. exact bounded_refuted_lemma. Qed.
Print Assumptions conv_out_id_bounded_refuted.

(* ============================================================================================== *)
(* DECLARATIONS (model: Conv/Decl.v) *)

(* Functions' results.  [acc a f]: the matcher accepts the variable conv_var a for the formal type f (C02's; the
   harness measures it on the real code for every pair it uses and monitors acc t t = true).
   One signature, ANY parameter kinds (positional-only, defaults, *args, **kwargs, keyword-only) and ANY arguments
   (unions and Any included): when _map_args / _fill_in_missing_params / the matcher accept the call, B's stub gives
   y = A.f(...) the declared return type and no error is reported. *)
Theorem call_single_sig : forall (arity : cid -> nat) (acc : ty -> ty -> bool) (s : sig) (c : call),
  arity type_id = 1%nat -> arity tuple_id = 1%nat ->
  sig_accepts acc s c = true -> wf_top arity (s_ret s) = true ->
  snd (call_emitted arity acc [s] c) = true /\
  nf (def_ty (fst (call_emitted arity acc [s] c))) = nf (s_ret s).
Proof. intros arity acc s c H1 H2. exact (call_single_sig_lemma arity acc H1 H2 s c). Qed.
Print Assumptions call_single_sig.

(* ... and when they do not, an error is reported and y is Any *)
Theorem call_rejected : forall (arity : cid -> nat) (acc : ty -> ty -> bool) (s : sig) (c : call),
  sig_accepts acc s c = false -> call_emitted arity acc [s] c = (DConst TAny, false).
Proof. intros arity acc s c. exact (call_rejected_lemma arity acc s c). Qed.
Print Assumptions call_rejected.

(* Overload selection (PyTDFunction._match_args_sequentially / _MatchedSignatures.add, one view): when no argument
   variable holds Any / an empty value, the FIRST signature in stub order that accepts the call supplies the
   result type; if none accepts, an error is reported and y is Any. *)
Theorem overload_first_match : forall (arity : cid -> nat) (acc : ty -> ty -> bool) (f : list sig) (c : call),
  arity type_id = 1%nat -> arity tuple_id = 1%nat ->
  ambiguous_call arity c = false ->
  match first_accepting acc c f with
  | Some s => wf_top arity (s_ret s) = true ->
              snd (call_emitted arity acc f c) = true /\
              nf (def_ty (fst (call_emitted arity acc f c))) = nf (s_ret s)
  | None => call_emitted arity acc f c = (DConst TAny, false)
  end.
Proof. intros arity acc f c H1 H2. exact (overload_first_match_lemma arity acc H1 H2 f c). Qed.
Print Assumptions overload_first_match.

(* hence: signature k called with its own parameter types, accepted by itself and by no earlier signature, gives
   its own declared return type *)
Theorem overload_own_signature : forall (arity : cid -> nat) (acc : ty -> ty -> bool) (pre post : list sig) (s : sig),
  arity type_id = 1%nat -> arity tuple_id = 1%nat ->
  ambiguous_call arity (own_call s) = false ->
  forallb (fun s0 => negb (sig_accepts acc s0 (own_call s))) pre = true ->
  sig_accepts acc s (own_call s) = true -> wf_top arity (s_ret s) = true ->
  snd (call_emitted arity acc (pre ++ s :: post) (own_call s)) = true /\
  nf (def_ty (fst (call_emitted arity acc (pre ++ s :: post) (own_call s)))) = nf (s_ret s).
Proof.
  intros arity acc pre post s H1 H2 Hamb Hpre Hs Hwf.
  pose proof (overload_first_match_lemma arity acc H1 H2 (pre ++ s :: post) (own_call s) Hamb) as H.
  rewrite (first_accepting_own acc (own_call s) pre s post Hpre Hs) in H. exact (H Hwf).
Qed.
Print Assumptions overload_own_signature.

(* The statement without "not ambiguous" is REFUTED by the faithful model:  f(a: int) -> int / f(a: Any) -> bytes,
   the second signature called with its own parameter type Any: every signature matches an Unsolvable argument
   (_can_match_multiple), the return types are joined and the union is replaced by Any.  Reproduced on the real
   code (known finding overload-called-with-Any-argument-is-Any). *)
Definition ex_sig_int : sig := mkSig [mkParam 10 PosOrKw false (TClass 10)] None None (TClass 10).
Definition ex_sig_any : sig := mkSig [mkParam 10 PosOrKw false TAny] None None (TClass 14).
Theorem overload_own_signature_full_refuted : exists (acc : ty -> ty -> bool) (pre : list sig) (s : sig),
  sig_accepts acc s (own_call s) = true /\ wf_top builtin_arity (s_ret s) = true /\
  snd (call_emitted builtin_arity acc (pre ++ [s]) (own_call s)) = true /\
  canon (def_ty (fst (call_emitted builtin_arity acc (pre ++ [s]) (own_call s)))) <> canon (s_ret s).
Proof.
  (* the matcher's real answers for the two pairs involved: an Unsolvable argument is accepted for `int` and for Any *)
  exists (fun a f => is_any a), [ex_sig_int], ex_sig_any.
  split; [reflexivity|split; [reflexivity|split; [reflexivity|]]]. vm_compute. discriminate.
Qed.
Print Assumptions overload_own_signature_full_refuted.

(* Class re-export (`from A import C`, `C2 = A.C`, `from A import C as D`): B's stub shows the class-valued
   attribute type[C]. *)
Theorem class_reexport : forall (arity : cid -> nat) (c : cid),
  arity type_id = 1%nat -> arity tuple_id = 1%nat -> c <> 0 -> c <> type_id ->
  nf (def_ty (reexport_class arity c)) = TGeneric type_id [TClass c].
Proof. intros arity c H1 H2. exact (reexport_class_lemma arity H1 H2 c). Qed.
Print Assumptions class_reexport.

(* Attributes of A's classes, read on an instance  x: C[ps]  (any chain of base classes, any parameters ps):
   a GROUND attribute or property that the lookup finds (no parametric constant of that name further up the chain,
   see the known finding generic-base-attribute-overridden-in-subclass) is emitted with its declared type. *)
Theorem attr_ground_read : forall (arity : cid -> nat) (fixed : bool) (fuel : nat) (tbl : ctable) (c : cid) (ps : list ty) (name : N)
                                  (k : cdecl) (kenv : list (list aval)) (t : ty),
  arity type_id = 1%nat -> arity tuple_id = 1%nat ->
  find_preload name (chain arity fuel tbl c (inst_env arity ps)) = None ->
  (find_first name (chain arity fuel tbl c (inst_env arity ps)) = Some (k, kenv, MConst (DGround t)) \/
   exists s, find_first name (chain arity fuel tbl c (inst_env arity ps)) = Some (k, kenv, MMethod KProperty [(s, DGround t)])) ->
  wf_top arity t = true ->
  snd (read_emitted arity fixed fuel tbl c ps name) = true /\
  nf (def_ty (fst (read_emitted arity fixed fuel tbl c ps name))) = nf t.
Proof.
  intros arity fixed fuel tbl c ps name k kenv t H1 H2 Hpre Hfirst Hwf.
  unfold read_emitted, attr_read. rewrite Hpre.
  destruct Hfirst as [-> | [s ->]]; exact (emitted_ground arity H1 H2 t Hwf).
Qed.
Print Assumptions attr_ground_read.

(* A type parameter read at the top of an attribute ( x: T  declared in a class of the chain, T the i-th entry of that
   class's template), on a tree WITH fixes/C06-filter-var-full-name (attribute._filter_var resolves the type parameter
   by its full name; model variant fixed = true): for every class table whose base-class arguments are type
   parameters of the subclass or plain classes, every chain, every instance parameters ps: the emitted type is the
   declared type under the substitution along the chain.  No hypothesis on TypeVar names is left. *)
Theorem attr_typevar_read : forall (arity : cid -> nat) (fuel : nat) (tbl : ctable) (c : cid) (ps : list ty) (name : N)
                                   (kps : list ty) (i : nat),
  arity type_id = 1%nat -> arity tuple_id = 1%nat ->
  simple_tbl tbl = true ->
  tfind_preload name (tchain fuel tbl c ps) = Some (kps, DParam i) ->
  wf_top arity (subst_ty kps (DParam i)) = true ->
  snd (read_emitted arity true fuel tbl c ps name) = true /\
  nf (def_ty (fst (read_emitted arity true fuel tbl c ps name))) = nf (subst_ty kps (DParam i)).
Proof.
  intros arity fuel tbl c ps name kps i H1 H2.
  exact (attr_typevar_read_fixed_lemma arity H1 H2 fuel tbl c ps name kps i).
Qed.
Print Assumptions attr_typevar_read.

(* The same read on a tree WITHOUT the fix (variant fixed = false: the SHORT name of T is looked up in the template of
   the instance's own class first): holds only when the short name resolves to the right parameter. *)
Theorem attr_typevar_read_before_fix : forall (arity : cid -> nat) (fuel : nat) (tbl : ctable) (c : cid) (ps : list ty) (name : N)
                                   (k : cdecl) (kenv : list (list aval)) (i : nat) (p : ty),
  arity type_id = 1%nat -> arity tuple_id = 1%nat ->
  find_preload name (chain arity fuel tbl c (inst_env arity ps)) = Some (k, kenv, DParam i) ->
  nth i (short_env (match find_class tbl c with Some k0 => k_template k0 | None => [] end) (inst_env arity ps) k kenv) []
    = conv_var arity p ->
  (i < length (short_env (match find_class tbl c with Some k0 => k_template k0 | None => [] end) (inst_env arity ps) k kenv))%nat ->
  conv_var arity p <> [] -> existsb is_tpi (conv_var arity p) = false ->
  wf_top arity p = true ->
  snd (read_emitted arity false fuel tbl c ps name) = true /\
  nf (def_ty (fst (read_emitted arity false fuel tbl c ps name))) = nf p.
Proof.
  intros arity fuel tbl c ps name k kenv i p H1 H2 Hpre Hnth Hlt Hne Htpi Hwf.
  unfold read_emitted, attr_read. rewrite Hpre. unfold top_env, dvar_attr, dvar_gen, tpi.
  rewrite (nth_indep _ [] ((fun vals => [VTParamInst vals]) [])) by (rewrite map_length; exact Hlt).
  rewrite (map_nth (fun vals => [VTParamInst vals])). rewrite Hnth.
  rewrite (filter_var_tpi_single _ Htpi Hne).
  exact (emitted_ground arity H1 H2 p Hwf).
Qed.
Print Assumptions attr_typevar_read_before_fix.

(* Before the fix the statement without the short-name hypothesis is REFUTED by the faithful model:
     class C4(Generic[T, S]): m0: T        class C5(C4[int, T], Generic[T]): ...        g: C5[bytes]
   g.m0 is declared int (C4's T := int) and read as bytes: attribute._filter_var resolves the type parameter by its
   short name in the template of the INSTANCE's class, where T is C5's own parameter.  Reproduced on the real code
   of an unfixed tree (known finding typevar-name-collision-base-attribute); the harness probes which variant the
   tree implements. *)
Definition ex_arity (c : cid) : nat := match c with 36%N => 2%nat | 37%N => 1%nat | _ => builtin_arity c end.
Definition ex_tbl : ctable :=
  [ mkC 36 [1; 2] None [(100, MConst (DParam 0))];
    mkC 37 [1] (Some (36, [DGround (TClass 10); DParam 0])) [] ].
Theorem attr_typevar_read_before_fix_refuted :
  simple_tbl ex_tbl = true /\
  tfind_preload 100 (tchain 8 ex_tbl 37 [TClass 14]) = Some ([TClass 10; TClass 14], DParam 0) /\
  declared_attr 8 ex_tbl 37 [TClass 14] 100 = Some (TClass 10) /\
  snd (read_emitted ex_arity false 8 ex_tbl 37 [TClass 14] 100) = true /\
  canon (def_ty (fst (read_emitted ex_arity false 8 ex_tbl 37 [TClass 14] 100))) = TClass 14.
Proof. vm_compute. auto 6. Qed.
Print Assumptions attr_typevar_read_before_fix_refuted.

(* ... and after the fix the same witness yields the declared int *)
Example ex_collision_fixed :
  read_emitted ex_arity true 8 ex_tbl 37 [TClass 14] 100 = (DConst (TClass 10), true).
Proof. reflexivity. Qed.

(* Method calls.  A method (any kind but a property) declared in a class of the chain -- the instance's own class or
   a generic base, the base's arguments substituted along the chain -- with ONE signature that accepts the call, called
   on an instance whose values for the declaring class's parameters are single bindings (one view; with several
   bindings the return type is converted once per view and only Optimize re-merges the results): B's stub gives
   y = x.m(args) the declared return type under the instance's substitution.  The return type may mention the type
   parameters anywhere, also directly below a Union ([dwf]: what the pyi parser produces).  Both variants. *)
Theorem method_call_result : forall (arity : cid -> nat) (acc : ty -> ty -> bool) (fuel : nat) (tbl : ctable) (c : cid)
                                    (ps : list ty) (name : N) (kps : list ty) (mk : mkind) (s : sig) (dret : dty) (cl : call),
  arity type_id = 1%nat -> arity tuple_id = 1%nat ->
  simple_tbl tbl = true ->
  tfind_preload name (tchain fuel tbl c ps) = None ->
  tfind_first name (tchain fuel tbl c ps) = Some (kps, MMethod mk [(s, dret)]) ->
  mk <> KProperty ->
  forallb single_ty kps = true -> dwf arity dret = true ->
  sig_accepts acc s cl = true ->
  wf_top arity (subst_ty kps dret) = true ->
  snd (mcall_emitted arity acc fuel tbl c ps name cl) = true /\
  nf (def_ty (fst (mcall_emitted arity acc fuel tbl c ps name cl))) = nf (subst_ty kps dret).
Proof.
  intros arity acc fuel tbl c ps name kps mk s dret cl H1 H2.
  exact (method_call_result_lemma arity H1 H2 acc fuel tbl c ps name kps mk s dret cl).
Qed.
Print Assumptions method_call_result.

(* the same for a property whose return type mentions the type parameters *)
Theorem property_typevar_read : forall (arity : cid -> nat) (fixed : bool) (fuel : nat) (tbl : ctable) (c : cid)
                                       (ps : list ty) (name : N) (kps : list ty) (s : sig) (dret : dty),
  arity type_id = 1%nat -> arity tuple_id = 1%nat ->
  simple_tbl tbl = true ->
  tfind_preload name (tchain fuel tbl c ps) = None ->
  tfind_first name (tchain fuel tbl c ps) = Some (kps, MMethod KProperty [(s, dret)]) ->
  forallb single_ty kps = true -> dwf arity dret = true ->
  wf_top arity (subst_ty kps dret) = true ->
  snd (read_emitted arity fixed fuel tbl c ps name) = true /\
  nf (def_ty (fst (read_emitted arity fixed fuel tbl c ps name))) = nf (subst_ty kps dret).
Proof.
  intros arity fixed fuel tbl c ps name kps s dret H1 H2.
  exact (property_read_lemma arity H1 H2 fixed fuel tbl c ps name kps s dret).
Qed.
Print Assumptions property_typevar_read.

(* Attribute types with type parameters BELOW a container or tuple (list[T], dict[str, list[T]], tuple[T, S],
   list[Union[set[T], None]], ...; no parameter directly below a Union on this path), any parameter values (unions
   included, only not empty), declared anywhere in the chain: the TypeVar instances the conversion leaves below the
   container are resolved by output.py (full name; JoinTypes is idempotent), so under BOTH variants of _filter_var the
   emitted type is the declared type under the instance's substitution. *)
Theorem attr_nested_typevar_read : forall (arity : cid -> nat) (fixed : bool) (fuel : nat) (tbl : ctable) (c : cid)
                                          (ps : list ty) (name : N) (kps : list ty) (d : dty),
  arity type_id = 1%nat -> arity tuple_id = 1%nat ->
  simple_tbl tbl = true ->
  tfind_preload name (tchain fuel tbl c ps) = Some (kps, d) ->
  container_like d = true -> dwf arity d = true -> no_param_union d = true ->
  forallb (nonempty_ty arity) kps = true ->
  wf_top arity (subst_ty kps d) = true ->
  snd (read_emitted arity fixed fuel tbl c ps name) = true /\
  nf (def_ty (fst (read_emitted arity fixed fuel tbl c ps name))) = nf (subst_ty kps d).
Proof.
  intros arity fixed fuel tbl c ps name kps d H1 H2.
  exact (attr_nested_typevar_read_lemma arity H1 H2 fixed fuel tbl c ps name kps d).
Qed.
Print Assumptions attr_nested_typevar_read.

(* the conversion with a substitution IS the conversion of the substituted type (the simulation the two theorems
   above rest on), for every declared type the pyi parser produces *)
Theorem dvar_is_conv_of_subst : forall (arity : cid -> nat) (ps : list ty) (d : dty),
  dwf arity d = true ->
  dvar arity (inst_env arity ps) d = conv_var arity (subst_ty ps d).
Proof. intros arity ps d H. exact (proj1 (dvar_subst arity ps d H)). Qed.
Print Assumptions dvar_is_conv_of_subst.

(* ---- non-vacuity of the declaration theorems ---- *)

(* def f(a0: int, /, a1: str = ..., *args: int, a2: float, a3: bytes = ..., **kw: str) -> list[int]
   called as f(p_int, a2=p_float) and as f(p_int, p_str, p_int, p_int, a2=.., a3=.., k1=p_str, k0=p_str) *)
Definition ex_sig : sig :=
  mkSig [mkParam 10 PosOnly false (TClass 10); mkParam 11 PosOrKw true (TClass 11);
         mkParam 12 KwOnly false (TClass 12); mkParam 13 KwOnly true (TClass 14)]
        (Some (TClass 10)) (Some (TClass 11)) (TGeneric 6 [TClass 10]).
Definition ex_acc (a f : ty) : bool := match ty_cmp a f with Eq => true | _ => false end.
Example ex_call_defaults :
  map_args ex_sig (mkCall [TClass 10] [(12, TClass 12)]) =
  inr [(TClass 10, AGiven (TClass 10)); (TClass 11, AFilled); (TClass 12, AGiven (TClass 12)); (TClass 14, AFilled)] /\
  call_emitted builtin_arity ex_acc [ex_sig] (mkCall [TClass 10] [(12, TClass 12)]) = (DConst (TGeneric 6 [TClass 10]), true).
Proof. split; reflexivity. Qed.
Example ex_call_star_kwargs :
  map_args ex_sig (mkCall [TClass 10; TClass 11; TClass 10; TClass 10] [(12, TClass 12); (13, TClass 14); (51, TClass 11); (50, TClass 11)]) =
  inr [(TClass 10, AGiven (TClass 10)); (TClass 11, AGiven (TClass 11)); (TClass 12, AGiven (TClass 12)); (TClass 14, AGiven (TClass 14));
       (TClass 10, AGiven (TClass 10)); (TClass 10, AGiven (TClass 10)); (TClass 11, AGiven (TClass 11)); (TClass 11, AGiven (TClass 11))].
Proof. reflexivity. Qed.
Example ex_call_errors :
  map_args ex_sig (mkCall [] [(12, TClass 12)]) = inl MissingParam /\
  map_args (mkSig [mkParam 10 PosOrKw false TAny] None None TAny) (mkCall [TAny; TAny] []) = inl WrongArgCount /\
  map_args (mkSig [mkParam 10 PosOrKw false TAny] None None TAny) (mkCall [TAny] [(10, TAny)]) = inl DuplicateKeyword /\
  map_args (mkSig [mkParam 10 PosOrKw false TAny] None None TAny) (mkCall [TAny] [(50, TAny)]) = inl WrongKeywordArgs /\
  map_args (mkSig [mkParam 10 PosOnly false TAny] None None TAny) (mkCall [TAny] [(10, TAny)]) = inl WrongKeywordArgs.
Proof. repeat split; reflexivity. Qed.
Example ex_own_call_accepted : sig_accepts ex_acc ex_sig (own_call ex_sig) = true.
Proof. reflexivity. Qed.
(* overloads: f(a: int) -> int / f(a: str) -> str / f(a: bytes) -> bytes called with str picks the second *)
Example ex_overload :
  call_emitted builtin_arity ex_acc
    [mkSig [mkParam 10 PosOrKw false (TClass 10)] None None (TClass 10);
     mkSig [mkParam 10 PosOrKw false (TClass 11)] None None (TClass 11);
     mkSig [mkParam 10 PosOrKw false (TClass 14)] None None (TClass 14)] (mkCall [TClass 11] []) = (DConst (TClass 11), true).
Proof. reflexivity. Qed.
(* the chain of the refutation example, read through the method path (m(self) -> T would be int): ground attribute *)
Example ex_attr_ground :
  read_emitted ex_arity false 8 [mkC 36 [1] None [(100, MConst (DGround (TGeneric 6 [TClass 11])))]; mkC 37 [] (Some (36, [DGround (TClass 10)])) []]
               37 [] 100 = (DConst (TGeneric 6 [TClass 11]), true).
Proof. reflexivity. Qed.
(* x: T on C4[int, str] itself; list[T] nested (resolved by full name at output time); the view split of a method *)
Example ex_attr_typevar :
  read_emitted ex_arity false 8 ex_tbl 36 [TClass 10; TClass 11] 100 = (DConst (TClass 10), true).
Proof. reflexivity. Qed.
Example ex_attr_nested_typevar :
  read_emitted ex_arity false 8 [mkC 36 [1; 2] None [(100, MConst (DGeneric 6 [DParam 1]))]] 36 [TClass 10; TUnion [TClass 11; TClass 2]] 100
  = (DConst (TGeneric 6 [TUnion [TClass 11; TClass 2]]), true).
Proof. reflexivity. Qed.
Example ex_method_views :   (* def m(self) -> list[T] on C4[Optional[bytes], int]: one result per view, before Optimize *)
  mcall_emitted ex_arity ex_acc 8 [mkC 36 [1; 2] None [(100, MMethod KMethod [(mkSig [] None None TAny, DGeneric 6 [DParam 0])])]]
                36 [TUnion [TClass 14; TClass 2]; TClass 10] 100 (mkCall [] [])
  = (DConst (TUnion [TGeneric 6 [TClass 14]; TGeneric 6 [TClass 2]]), true).
Proof. reflexivity. Qed.
Example ex_reexport : reexport_class builtin_arity 33 = DConst (TGeneric type_id [TClass 33]).
Proof. reflexivity. Qed.

(* the hypotheses of method_call_result / attr_nested_typevar_read on a generic base:
     class C4(Generic[T, S]):  m0: dict[str, list[T]];  def m1(self, a0: int) -> Union[tuple[S, T], None]
     class C5(C4[int, T], Generic[T])          x: C5[list[bytes]]  *)
Definition ex_tbl2 : ctable :=
  [ mkC 36 [1; 2] None
      [(100, MConst (DGeneric 7 [DGround (TClass 11); DGeneric 6 [DParam 0]]));
       (101, MMethod KMethod [(mkSig [mkParam 10 PosOrKw false (TClass 10)] None None TAny,
                               DUnion [DTuple [DParam 1; DParam 0]; DGround (TClass none_id)])])];
    mkC 37 [1] (Some (36, [DGround (TClass 10); DParam 0])) [] ].
Example ex_method_hyps :
  simple_tbl ex_tbl2 = true /\
  tfind_preload 101 (tchain 8 ex_tbl2 37 [TGeneric 6 [TClass 14]]) = None /\
  tfind_first 101 (tchain 8 ex_tbl2 37 [TGeneric 6 [TClass 14]]) =
    Some ([TClass 10; TGeneric 6 [TClass 14]],
          MMethod KMethod [(mkSig [mkParam 10 PosOrKw false (TClass 10)] None None TAny,
                            DUnion [DTuple [DParam 1; DParam 0]; DGround (TClass none_id)])]) /\
  forallb single_ty [TClass 10; TGeneric 6 [TClass 14]] = true /\
  dwf ex_arity (DUnion [DTuple [DParam 1; DParam 0]; DGround (TClass none_id)]) = true /\
  wf_top ex_arity (subst_ty [TClass 10; TGeneric 6 [TClass 14]] (DUnion [DTuple [DParam 1; DParam 0]; DGround (TClass none_id)])) = true /\
  mcall_emitted ex_arity ex_acc 8 ex_tbl2 37 [TGeneric 6 [TClass 14]] 101 (mkCall [TClass 10] []) =
    (DConst (TUnion [TTuple [TGeneric 6 [TClass 14]; TClass 10]; TClass none_id]), true).
Proof. vm_compute. repeat split; reflexivity. Qed.
Example ex_nested_attr_hyps :
  tfind_preload 100 (tchain 8 ex_tbl2 37 [TUnion [TClass 14; TClass 11]]) =
    Some ([TClass 10; TUnion [TClass 14; TClass 11]], DGeneric 7 [DGround (TClass 11); DGeneric 6 [DParam 0]]) /\
  no_param_union (DGeneric 7 [DGround (TClass 11); DGeneric 6 [DParam 0]]) = true /\
  forallb (nonempty_ty ex_arity) [TClass 10; TUnion [TClass 14; TClass 11]] = true /\
  read_emitted ex_arity false 8 ex_tbl2 37 [TUnion [TClass 14; TClass 11]] 100 =
    (DConst (TGeneric 7 [TClass 11; TGeneric 6 [TClass 10]]), true) /\
  read_emitted ex_arity true 8 ex_tbl2 37 [TUnion [TClass 14; TClass 11]] 100 =
    (DConst (TGeneric 7 [TClass 11; TGeneric 6 [TClass 10]]), true).
Proof. vm_compute. repeat split; reflexivity. Qed.
