(* C06 — a module seen through its emitted stub has the types that were inferred for it.
   PARTIAL: the theorems cover TYPE EXPRESSIONS of the emitted dialect (module-level constants `x: T` and
   aliases `x = T`); signatures, classes, type parameters and module resolution are covered by the
   end-to-end differential in harness/props/c06.py only.
   Property theorems only; each is closed by [exact] and followed by Print Assumptions. *)
From Coq Require Import List NArith Arith Bool.
From PV Require Import Conv.Model Conv.Proofs.
Import ListNotations.
Open Scope N_scope.

(* For every class table (template length per class, with builtins.type and builtins.tuple unary) and every
   type expression t of the emitted dialect, of any depth: converting t with convert.py
   (pytd_cls_to_instance_var: a Union becomes several bindings, a generic becomes an instance whose parameters
   hold one binding per union member, tuples, callables, type[...]), storing it under the importing name
   (vm._process_annotations) and writing the resulting variable back
   with output.py (pytd_for_types / value_to_pytd_type / JoinTypes) gives t again, up to "the same type"
   ([nf]: all-Any containers are the bare class, type[Union[..]] distributes, `x = T` reads as `x: type[T]`),
   with the members of every union in the original order. *)
Theorem conv_out_id : forall (arity : cid -> nat) (t : ty),
  arity type_id = 1%nat -> arity tuple_id = 1%nat ->
  wf_top arity t = true ->
  nf (def_ty (downstream arity t)) = nf t.
Proof. intros arity t H1 H2. exact (conv_out_id_lemma arity H1 H2 t). Qed.
Print Assumptions conv_out_id.

(* the same, up to pytd's structural equality with set-equality on unions (after canonical ordering) *)
Theorem conv_out_canon : forall (arity : cid -> nat) (t : ty),
  arity type_id = 1%nat -> arity tuple_id = 1%nat ->
  wf_top arity t = true ->
  canon (def_ty (downstream arity t)) = canon t.
Proof. intros arity t H1 H2. exact (conv_out_canon_lemma arity t H1 H2). Qed.
Print Assumptions conv_out_canon.

(* an upstream alias `x = T` is seen downstream as the class-valued attribute type[T] *)
Theorem alias_out_id : forall (arity : cid -> nat) (t : ty),
  arity type_id = 1%nat -> arity tuple_id = 1%nat ->
  wf arity t = true -> is_any t = false -> nfree t = true ->
  nf (def_ty (out_top arity (store_name (conv_alias t)))) = nf (TGeneric type_id [t]).
Proof. intros arity t H1 H2. exact (alias_out_id_lemma arity H1 H2 t). Qed.
Print Assumptions alias_out_id.

(* The statement over everything pytype really emits ([wf_full]: bare `type` and `type[Any]` included) is
   REFUTED by the faithful model: `x: type` upstream is read as Any downstream
   (convert._pytd_generic_type_to_instance_value: the instance of type[Any] is constant_to_value(Any) =
   Unsolvable).  Replayed on the real code by harness/props/c06.py (known finding). *)
Theorem conv_out_id_full_refuted : exists t,
  wf_full_top builtin_arity t = true /\
  canon (def_ty (downstream builtin_arity t)) <> canon t.
Proof. exact bare_type_refuted_lemma. Qed.
Print Assumptions conv_out_id_full_refuted.

(* Both transports hand B a type from which B's analysis re-derives the type A's analysis emitted.
   Premises: C05 (print then parse stays in the dialect, up to member order), C12 (decode . encode = id),
   C04 (canonical ordering permutes union members), and that name resolution leaves a type expression whose
   classes are already identified unchanged (checked end to end by the three-transport oracle). *)
Theorem stub_handoff_text :
  forall (arity : cid -> nat) (text : Type) (print : ty -> text) (parse : text -> option ty) (resolve : ty -> ty),
  arity type_id = 1%nat -> arity tuple_id = 1%nat ->
  (* C05 *) (forall t, wf_top arity t = true ->
             exists a, parse (print t) = Some a /\ wf_top arity a = true /\ canon a = canon t) ->
  (* resolution *) preserves arity resolve ->
  forall t, wf_top arity t = true ->
  exists a, text_transport text print parse resolve t = Some a /\
            canon (def_ty (downstream arity a)) = canon t.
Proof. intros arity text print parse resolve H1 H2. exact (handoff_text_lemma arity H1 H2 text print parse resolve). Qed.
Print Assumptions stub_handoff_text.

Theorem stub_handoff_pickle :
  forall (arity : cid -> nat) (text bytes : Type) (print : ty -> text) (parse : text -> option ty)
         (encode : ty -> bytes) (decode : bytes -> option ty) (prep reorder post : ty -> ty),
  arity type_id = 1%nat -> arity tuple_id = 1%nat ->
  (* C05 *) (forall t, wf_top arity t = true ->
             exists a, parse (print t) = Some a /\ wf_top arity a = true /\ canon a = canon t) ->
  (* C12 *) (forall a, decode (encode a) = Some a) ->
  (* C04 *) preserves arity reorder ->
  (* resolution *) preserves arity prep -> preserves arity post ->
  forall t, wf_top arity t = true ->
  exists b, pickle_transport text bytes print parse encode decode prep reorder post t = Some b /\
            canon (def_ty (downstream arity b)) = canon t.
Proof.
  intros arity text bytes print parse encode decode prep reorder post H1 H2.
  exact (handoff_pickle_lemma arity H1 H2 text bytes print parse encode decode prep reorder post).
Qed.
Print Assumptions stub_handoff_pickle.

(* "identically whether B is given A's stub as .pyi text or as a pickled AST" *)
Theorem transports_agree :
  forall (arity : cid -> nat) (text bytes : Type) (print : ty -> text) (parse : text -> option ty)
         (encode : ty -> bytes) (decode : bytes -> option ty) (resolve prep reorder post : ty -> ty),
  arity type_id = 1%nat -> arity tuple_id = 1%nat ->
  (* C05 *) (forall t, wf_top arity t = true ->
             exists a, parse (print t) = Some a /\ wf_top arity a = true /\ canon a = canon t) ->
  (* C12 *) (forall a, decode (encode a) = Some a) ->
  (* C04 *) preserves arity reorder ->
  (* resolution *) preserves arity resolve -> preserves arity prep -> preserves arity post ->
  forall t, wf_top arity t = true ->
  exists a b, text_transport text print parse resolve t = Some a /\
              pickle_transport text bytes print parse encode decode prep reorder post t = Some b /\
              canon a = canon b /\
              canon (def_ty (downstream arity a)) = canon (def_ty (downstream arity b)).
Proof.
  intros arity text bytes print parse encode decode resolve prep reorder post H1 H2.
  exact (transports_agree_lemma arity H1 H2 text bytes print parse encode decode resolve prep reorder post).
Qed.
Print Assumptions transports_agree.

(* ---- non-vacuity ---- *)

(* the builtin class table meets the hypotheses on the class table *)
Example builtin_table_ok : builtin_arity type_id = 1%nat /\ builtin_arity tuple_id = 1%nat.
Proof. split; reflexivity. Qed.

(* dict[str, list[Union[int, C, None]]]  |  tuple[type[Union[C, D]], Callable[[list[nothing]], Optional[set]]]
   | Callable[..., tuple[int, ...]]:  in the dialect, converted to 3 bindings, and printed back *)
Definition ex_big : ty :=
  TUnion [ TGeneric 7 [TClass 11; TGeneric 6 [TUnion [TClass 10; TClass 32; TClass 2]]];
           TTuple [TGeneric 1 [TUnion [TClass 32; TClass 33]];
                   TCallable [TGeneric 6 [TNothing]] (TUnion [TClass 8; TClass 2])];
           TGeneric 4 [TAny; TGeneric 3 [TClass 10]] ].
Example ex_big_wf : wf_top builtin_arity ex_big = true /\ length (conv_var builtin_arity ex_big) = 3%nat.
Proof. vm_compute. split; reflexivity. Qed.
Example ex_big_roundtrip :
  def_ty (downstream builtin_arity ex_big) =
  TUnion [ TGeneric 7 [TClass 11; TGeneric 6 [TUnion [TClass 10; TClass 32; TClass 2]]];
           TTuple [TUnion [TGeneric 1 [TClass 32]; TGeneric 1 [TClass 33]];
                   TCallable [TGeneric 6 [TNothing]] (TUnion [TGeneric 8 [TAny]; TClass 2])];
           TGeneric 4 [TAny; TGeneric 3 [TClass 10]] ].
Proof. vm_compute. reflexivity. Qed.

(* the quirks the model mirrors *)
Example ex_bare_type_is_any : downstream builtin_arity (TClass type_id) = DConst TAny.
Proof. reflexivity. Qed.
Example ex_type_in_callable_kept :   (* Callable[[type], int] keeps `type`: printed from the class's formal parameter *)
  downstream builtin_arity (TCallable [TClass type_id] (TClass 10)) =
  DConst (TCallable [TGeneric type_id [TAny]] (TClass 10)).
Proof. reflexivity. Qed.
Example ex_optional_any :            (* a module-level variable with an Unsolvable binding is Any *)
  downstream builtin_arity (TUnion [TAny; TClass none_id]) = DConst TAny.
Proof. reflexivity. Qed.
Example ex_alias :                   (* x: type[list[int]] comes back as the alias x = list[int] *)
  downstream builtin_arity (TGeneric type_id [TGeneric 6 [TClass 10]]) =
  DAlias (TGeneric 6 [TClass 10]).
Proof. reflexivity. Qed.
Example ex_two_annotations_not_constant :   (* two class-valued bindings: [invalid-annotation], the name becomes Any *)
  downstream builtin_arity (TUnion [TGeneric type_id [TGeneric 6 [TClass 10]]; TGeneric type_id [TGeneric 8 [TClass 11]]]) =
  DConst TAny.
Proof. reflexivity. Qed.
Example ex_union_any_type_in_callable :     (* Callable[[], Union[Any, type]]: both instances are the Unsolvable singleton *)
  downstream builtin_arity (TCallable [] (TUnion [TAny; TClass type_id])) =
  DConst (TCallable [] (TUnion [TAny; TGeneric type_id [TAny]])).
Proof. reflexivity. Qed.
Example ex_join_optional_any : join [TAny; TClass none_id; TClass 10] = TUnion [TAny; TClass none_id].
Proof. reflexivity. Qed.

(* the premises of the hand-off theorems are satisfiable: identity printer/parser/codec/resolution *)
Example handoff_premises_sat :
  (forall t, wf_top builtin_arity t = true ->
     exists a, (fun x : ty => Some x) ((fun x : ty => x) t) = Some a /\ wf_top builtin_arity a = true /\ canon a = canon t) /\
  preserves builtin_arity (fun x => x) /\
  pickle_transport ty ty (fun x => x) Some (fun x => x) Some (fun x => x) (fun x => x) (fun x => x) ex_big = Some ex_big.
Proof.
  split; [|split].
  - intros t H. exists t. auto.
  - intros a H. auto.
  - reflexivity.
Qed.
