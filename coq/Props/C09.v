(* C09 — CFG reachability answers equal true graph reachability at all times.
   Property theorems only; each is closed by [exact] and followed by Print Assumptions. *)
From Coq Require Import List NArith Arith Bool Relations.
From PV Require Import Typegraph.Reach Typegraph.ReachProofs.
Import ListNotations.

(* For every well-formed insertion history h (any length, any number of 64-bit buckets, self edges,
   duplicate edges, any order) and all existing nodes a b: the program reports b reachable from a
   exactly when a directed path a ->* b exists among the edges inserted so far. *)
Theorem reach_correct : forall (h : list op) (a b : nat),
  wf_hist h = true -> a < nodes (run h) -> b < nodes (run h) ->
  (is_reachable (run h) a b = true <->
   clos_refl_trans nat (fun x y => In (x, y) (edges h)) a b).
Proof. exact reach_correct_lemma. Qed.
Print Assumptions reach_correct.

(* every node reaches itself *)
Theorem reach_refl : forall (h : list op) (a : nat),
  wf_hist h = true -> a < nodes (run h) -> is_reachable (run h) a a = true.
Proof. exact reach_refl_lemma. Qed.
Print Assumptions reach_refl.

(* the matrix stays rectangular and every index the C++ reads is in range *)
Theorem rows_wf : forall (h : list op),
  wf_hist h = true ->
  let r := reach (run h) in
  length (rows r) = num r /\ size r = (num r + 63) / 64 /\
  (forall i, i < num r -> length (nth i (rows r) []) = size r) /\
  (forall j, j < num r -> j / 64 < size r).
Proof. exact rows_wf_lemma. Qed.
Print Assumptions rows_wf.

(* The model's words are unbounded N; every word of every row stays below 2^64 for every history (well-formed
   or not), so the unbounded reading never leaves the int64 machine word of reachable.cc. *)
Theorem words_bounded : forall (h : list op),
  Forall (Forall (fun w => (w < 2 ^ 64)%N)) (rows (reach (run h))).
Proof. exact words_bounded_lemma. Qed.
Print Assumptions words_bounded.

(* Non-vacuity: a 130-node chain (three buckets) closed into a cycle by a late back edge, with a
   self edge and a duplicate edge; the hypotheses hold and the answers are the expected ones. *)
Definition chain130 : list op :=
  repeat NewNode 130 ++ map (fun i => Connect i (S i)) (seq 0 129)
  ++ [Connect 5 5; Connect 3 4].
Example chain_wf : wf_hist chain130 = true /\ nodes (run chain130) = 130.
Proof. vm_compute. split; reflexivity. Qed.
Example chain_before_cycle :
  is_reachable (run chain130) 0 129 = true /\ is_reachable (run chain130) 129 0 = false /\
  is_reachable (run chain130) 64 63 = false /\ is_reachable (run chain130) 63 64 = true.
Proof. vm_compute. repeat split; reflexivity. Qed.
Example chain_closed :
  is_reachable (run (chain130 ++ [Connect 129 0])) 129 0 = true /\
  is_reachable (run (chain130 ++ [Connect 129 0])) 128 64 = true.
Proof. vm_compute. split; reflexivity. Qed.
