(* C09 — CFG reachability answers equal true graph reachability at all times.
   Property theorems only; each is closed by [exact] and followed by Print Assumptions. *)
From Coq Require Import List NArith Arith Bool Relations.
From PV Require Import Typegraph.Reach Typegraph.ReachProofs Typegraph.Prune Typegraph.PruneProofs.
From PV Require Import Typegraph.Entry Typegraph.EntryProofs.
Import ListNotations.

(* For every well-formed insertion history h (any length, any number of 64-bit buckets, self edges,
   duplicate edges, any order) and all existing nodes a b: the program reports b reachable from a
   exactly when a directed path a ->* b exists among the edges inserted so far. *)
Theorem reach_correct : forall (h : list op) (a b : nat),
  wf_hist h = true -> a < nodes (run h) -> b < nodes (run h) ->
  (is_reachable (run h) a b = true <->
   clos_refl_trans nat (fun x y => In (x, y) (edges h)) a b).
Proof. exact reach_correct_lemma. Qed.
Print Assumptions reach_correct.

(* every node reaches itself *)
Theorem reach_refl : forall (h : list op) (a : nat),
  wf_hist h = true -> a < nodes (run h) -> is_reachable (run h) a a = true.
Proof. exact reach_refl_lemma. Qed.
Print Assumptions reach_refl.

(* the matrix stays rectangular and every index the C++ reads is in range *)
Theorem rows_wf : forall (h : list op),
  wf_hist h = true ->
  let r := reach (run h) in
  length (rows r) = num r /\ size r = (num r + 63) / 64 /\
  (forall i, i < num r -> length (nth i (rows r) []) = size r) /\
  (forall j, j < num r -> j / 64 < size r).
Proof. exact rows_wf_lemma. Qed.
Print Assumptions rows_wf.

(* The model's words are unbounded N; every word of every row stays below 2^64 for every history (well-formed
   or not), so the unbounded reading never leaves the int64 machine word of reachable.cc. *)
Theorem words_bounded : forall (h : list op),
  Forall (Forall (fun w => (w < 2 ^ 64)%N)) (rows (reach (run h))).
Proof. exact words_bounded_lemma. Qed.
Print Assumptions words_bounded.

(* Non-vacuity: a 130-node chain (three buckets) closed into a cycle by a late back edge, with a
   self edge and a duplicate edge; the hypotheses hold and the answers are the expected ones. *)
Definition chain130 : list op :=
  repeat NewNode 130 ++ map (fun i => Connect i (S i)) (seq 0 129)
  ++ [Connect 5 5; Connect 3 4].
Example chain_wf : wf_hist chain130 = true /\ nodes (run chain130) = 130.
Proof. vm_compute. split; reflexivity. Qed.
Example chain_before_cycle :
  is_reachable (run chain130) 0 129 = true /\ is_reachable (run chain130) 129 0 = false /\
  is_reachable (run chain130) 64 63 = false /\ is_reachable (run chain130) 63 64 = true.
Proof. vm_compute. repeat split; reflexivity. Qed.
Example chain_closed :
  is_reachable (run (chain130 ++ [Connect 129 0])) 129 0 = true /\
  is_reachable (run (chain130 ++ [Connect 129 0])) 128 64 = true.
Proof. vm_compute. split; reflexivity. Qed.

(* ======================= the Python-visible reachability surface (cfg.cc) =======================
   Histories are lists of Python-level calls (Prune.pyop): program.NewCFGNode, node.ConnectNew, node.ConnectTo,
   program.NewVariable, var.AddBinding, binding.AddOrigin, var.PasteBinding, var.PasteVariable,
   var.AssignToNewVariable.  py_wf: every call names existing nodes / variables / bindings (all the API can
   express) and Paste* never pastes a variable into itself. *)

(* (a) program.is_reachable(src, dst) <-> a directed path src ->* dst among the edges inserted by ConnectTo and
   ConnectNew (ConnectNew a = NewCFGNode; a.ConnectTo(new)), argument order as exposed by cfg.cc. *)
Theorem py_reach_correct : forall (d : nat) (h : list pyop) (a b : nat),
  py_wf d h = true -> a < nodes (ps_prog (py_run d h)) -> b < nodes (ps_prog (py_run d h)) ->
  (py_is_reachable (py_run d h) a b = true <->
   clos_refl_trans nat (fun x y => In (x, y) (py_edges h)) a b).
Proof. exact py_reach_correct_lemma. Qed.
Print Assumptions py_reach_correct.

(* (b) Variable::Prune(viewpoint = n) (Python: var.Bindings(n)) terminates within the model's fuel, returns no
   binding twice, and returns exactly the reaching definitions: the bindings b of v that have an origin node m
   with a path m -> ... -> n on which no node after m (n included when m <> n) carries an origin of any binding
   of v.  This covers both branches of Prune (single-binding shortcut through the bit matrix, general walk). *)
Theorem prune_reaching_definitions : forall (d : nat) (h : list pyop) (v n : nat),
  py_wf d h = true -> n < nodes (ps_prog (py_run d h)) ->
  exists r, prune (py_run d h) v (Some n) = Some r /\ NoDup r /\
            forall b, In b r <-> reaching_def (py_edges h) (py_run d h) v b n.
Proof. exact prune_reaching_definitions_lemma. Qed.
Print Assumptions prune_reaching_definitions.

(* the general backward walk alone (the code after the shortcut), for variables of any size *)
Theorem prune_walk_reaching_definitions : forall (d : nat) (h : list pyop) (v n : nat),
  py_wf d h = true -> n < nodes (ps_prog (py_run d h)) ->
  exists r, prune_general (py_run d h) v n = Some r /\ NoDup r /\
            forall b, In b r <-> reaching_def (py_edges h) (py_run d h) v b n.
Proof. exact prune_general_reaching_definitions_lemma. Qed.
Print Assumptions prune_walk_reaching_definitions.

(* the bindings_.size() == 1 shortcut (bit matrix, uses reach_correct's invariant) returns the very list the
   general walk over incoming_ would have returned: the two can never disagree *)
Theorem prune_shortcut_agrees : forall (d : nat) (h : list pyop) (v n : nat),
  py_wf d h = true -> n < nodes (ps_prog (py_run d h)) ->
  length (pv_bindings (get_var (py_run d h) v)) = 1 ->
  prune (py_run d h) v (Some n) = prune_general (py_run d h) v n.
Proof. exact prune_shortcut_agrees_lemma. Qed.
Print Assumptions prune_shortcut_agrees.

(* var.Bindings(None): every binding, creation order *)
Theorem prune_none_all : forall (s : pstate) (v : nat), prune s v None = Some (all_bindings (get_var s v)).
Proof. exact prune_none_all_lemma. Qed.
Print Assumptions prune_none_all.

(* (c) Variable::Filter does not call Prune: it is the solver (Binding::IsVisible = Solver::Solve({b}, n), C07's
   subject, the argument `vis` here) applied to every binding, except that a non-strict call on a single-binding
   variable returns that binding without consulting the CFG or the solver at all. *)
Theorem filter_strict_is_solver : forall vis s v n,
  filter_model vis s v n true = filter (fun b => vis b n) (all_bindings (get_var s v)).
Proof. exact filter_strict_lemma. Qed.
Print Assumptions filter_strict_is_solver.

Theorem filter_nonstrict_multi_is_solver : forall vis s v n, length (pv_bindings (get_var s v)) <> 1 ->
  filter_model vis s v n false = filter (fun b => vis b n) (all_bindings (get_var s v)).
Proof. exact filter_nonstrict_multi_lemma. Qed.
Print Assumptions filter_nonstrict_multi_is_solver.

Theorem filter_nonstrict_single_unconditional : forall vis s v n, length (pv_bindings (get_var s v)) = 1 ->
  filter_model vis s v n false = all_bindings (get_var s v).
Proof. exact filter_nonstrict_single_lemma. Qed.
Print Assumptions filter_nonstrict_single_unconditional.

(* "non-strict Filter returns only CFG-visible bindings (a subset of Prune)" is refuted: a binding whose only
   origin cannot reach the viewpoint is pruned by Bindings(n) but returned by Filter(n, strict=False). *)
Definition h_unreachable : list pyop := [PNewCFGNode; PNewCFGNode; PNewVariable; PAddBinding 0 1 (Some 1)].
Theorem filter_nonstrict_subset_of_prune_refuted :
  exists h v n, py_wf 0 h = true /\ n < nodes (ps_prog (py_run 0 h)) /\
    prune (py_run 0 h) v (Some n) = Some [] /\
    forall vis, filter_model vis (py_run 0 h) v n false = [0].
Proof. exists h_unreachable, 0, 0. vm_compute. repeat split; auto. Qed.
Print Assumptions filter_nonstrict_subset_of_prune_refuted.

(* Non-vacuity: entry 0 -> {1, 2} -> 3 (join) -> 4 -> 3 (loop) and 3 -> 5; x assigned at 0 (d1), at 1 (d2), in the
   loop body 4 (d3).  At 2 only the entry definition arrives, at the join all three, at 1 only its own. *)
Definition h_loop : list pyop :=
  [PNewCFGNode; PConnectNew 0; PConnectNew 0; PConnectNew 1; PConnectTo 2 3; PConnectNew 3; PConnectTo 4 3;
   PConnectNew 3; PNewVariable;
   PAddBinding 0 1 (Some 0); PAddBinding 0 2 (Some 1); PAddBinding 0 3 (Some 4)].
Example loop_wf : py_wf 0 h_loop = true /\ nodes (ps_prog (py_run 0 h_loop)) = 6.
Proof. vm_compute. split; reflexivity. Qed.
Example loop_prune :
  prune (py_run 0 h_loop) 0 (Some 2) = Some [0] /\ prune (py_run 0 h_loop) 0 (Some 1) = Some [1] /\
  prune (py_run 0 h_loop) 0 (Some 3) = Some [2; 0; 1] /\ prune (py_run 0 h_loop) 0 (Some 5) = Some [2; 0; 1] /\
  prune (py_run 0 h_loop) 0 (Some 4) = Some [2].
Proof. vm_compute. repeat split; reflexivity. Qed.
(* a single-binding variable across three buckets: the shortcut's hypotheses hold and it answers both ways *)
Definition h_single : list pyop :=
  PNewCFGNode :: map PConnectNew (seq 0 129) ++ [PNewVariable; PAddBinding 0 1 (Some 64)].
Example single_wf : py_wf 0 h_single = true /\ length (pv_bindings (get_var (py_run 0 h_single) 0)) = 1.
Proof. vm_compute. split; reflexivity. Qed.
Example single_prune :
  prune (py_run 0 h_single) 0 (Some 129) = Some [0] /\ prune (py_run 0 h_single) 0 (Some 63) = Some [] /\
  prune_general (py_run 0 h_single) 0 129 = Some [0].
Proof. vm_compute. repeat split; reflexivity. Qed.

(* ======================= Program state outside the graph: the entrypoint attribute =======================
   Extended histories (Entry.pyop_e) interleave the calls above with `program.entrypoint = node | None`
   (cfg.cc ProgramSetAttro -> Program::set_entrypoint).  The attribute is part of the program's state but
   Program::is_reachable reads only the bit matrix, so: *)

(* (e1) the graph-level state after an extended history is the state after its graph-building calls alone *)
Theorem pe_run_core : forall (d : nat) (h : list pyop_e), pe_core (pe_run d h) = py_run d (core_ops h).
Proof. exact pe_run_core_lemma. Qed.
Print Assumptions pe_run_core.

(* (e2) is_reachable equals graph reachability over the inserted edges whatever was written to the attribute *)
Theorem pe_reach_correct : forall (d : nat) (h : list pyop_e) (a b : nat),
  pe_wf d h = true ->
  a < nodes (ps_prog (pe_core (pe_run d h))) -> b < nodes (ps_prog (pe_core (pe_run d h))) ->
  (pe_is_reachable (pe_run d h) a b = true <->
   clos_refl_trans nat (fun x y => In (x, y) (py_edges (core_ops h))) a b).
Proof. exact pe_reach_correct_lemma. Qed.
Print Assumptions pe_reach_correct.

(* (e3) histories that differ only in entrypoint writes answer every reachability query identically *)
Theorem entrypoint_irrelevant : forall (d : nat) (h1 h2 : list pyop_e) (a b : nat),
  core_ops h1 = core_ops h2 -> (pe_is_reachable (pe_run d h1) a b) = (pe_is_reachable (pe_run d h2) a b).
Proof. exact entrypoint_irrelevant_lemma. Qed.
Print Assumptions entrypoint_irrelevant.

(* (e4) reading the attribute back gives the last value written (None before any write) *)
Theorem entrypoint_last_write : forall (d : nat) (h : list pyop_e), pe_entry (pe_run d h) = last_entry None h.
Proof. exact pe_entry_last_write_lemma. Qed.
Print Assumptions entrypoint_last_write.

(* Non-vacuity: a 3-cycle through the entrypoint; the node is reachable from the others although it is the entrypoint. *)
Definition entry_cycle : list pyop_e :=
  [ECore PNewCFGNode; ESetEntry (Some 0); ECore (PConnectNew 0); ECore (PConnectNew 1); ECore (PConnectTo 2 0);
   ESetEntry None; ESetEntry (Some 0)].
Example entry_cycle_ok :
  pe_wf 0 entry_cycle = true /\ pe_entry (pe_run 0 entry_cycle) = Some 0 /\
  pe_is_reachable (pe_run 0 entry_cycle) 2 0 = true /\ pe_is_reachable (pe_run 0 entry_cycle) 1 0 = true.
Proof. vm_compute. repeat split; reflexivity. Qed.
