(* C13 — calls bind arguments exactly as CPython does.
   Property theorems only; each is closed by [exact] and followed by Print Assumptions.

   Model (coq/Bind/Model.v): bind_py = SignedFunction._map_args as it stands, bind_py_fixed = the same
   with fixes/C13-posonly-kwargs.patch, bind_c = CPython's initialize_locals.  [agree s r1 r2]: both are
   errors, or both succeed and every parameter of s (incl. *args and **kwargs) is bound and holds the
   same thing (Pos i / Kw k / Default / VarArgs [..] / KwArgs [..]).  wf_sig = a def Python accepts
   (distinct parameter names, defaults form a suffix of the positional parameters); wf_shape = a call
   Python accepts (no repeated keyword).  All statements are for signatures and calls of any size. *)
From Coq Require Import List Arith Bool.
From PV Require Import Bind.Model Bind.Proofs Bind.PytdModel Bind.PytdProofs.
Import ListNotations.

(* The repaired mapper binds exactly as CPython does. *)
Theorem bind_agree_fixed :
  forall s c, wf_sig s -> wf_shape c -> agree s (bind_py_fixed s c) (bind_c s c).
Proof. exact bind_agree_fixed_lemma. Qed.
Print Assumptions bind_agree_fixed.

(* The mapper as it stands does not: def f(x, /, **kw); f(x=1) is accepted, CPython raises TypeError ... *)
Theorem bind_agree_refuted :
  exists s c, wf_sig s /\ wf_shape c /\ is_err (bind_py s c) = false /\ is_err (bind_c s c) = true
              /\ ~ agree s (bind_py s c) (bind_c s c).
Proof. exact bind_agree_refuted_lemma. Qed.
Print Assumptions bind_agree_refuted.

(* ... and f(a0, x=1) binds x to the keyword and leaves kw empty; CPython binds x = a0, kw = {x: ..}. *)
Theorem bind_agree_refuted_binding :
  exists s c, wf_sig s /\ wf_shape c /\ is_err (bind_py s c) = false /\ is_err (bind_c s c) = false
              /\ lookup_all s (bind_py s c) = Some [Some (Kw 0); Some (KwArgs [])]
              /\ lookup_all s (bind_c s c) = Some [Some (Pos 0); Some (KwArgs [0])]
              /\ ~ agree s (bind_py s c) (bind_c s c).
Proof. exact bind_agree_refuted_binding_lemma. Qed.
Print Assumptions bind_agree_refuted_binding.

(* It does agree whenever the function has no **kwargs or no keyword names a positional-only parameter. *)
Theorem bind_agree_partial :
  forall s c, wf_sig s -> wf_shape c ->
  (kwargs s = None \/ forall k, In k (kws c) -> ~ In k (posonly s)) ->
  agree s (bind_py s c) (bind_c s c).
Proof. exact bind_agree_partial_lemma. Qed.
Print Assumptions bind_agree_partial.

(* That boundary is exact: outside it, every call the mapper accepts is bound differently from CPython ... *)
Theorem bind_disagree_exact :
  forall s c d, wf_sig s -> wf_shape c ->
  kwargs s <> None -> (exists k, In k (kws c) /\ In k (posonly s)) ->
  bind_py s c = Ok d -> ~ agree s (bind_py s c) (bind_c s c).
Proof. exact bind_disagree_exact_lemma. Qed.
Print Assumptions bind_disagree_exact.

(* ... so agreement holds iff: no **kwargs, or no keyword names a positional-only parameter, or the mapper
   raises (then CPython raises too). *)
Theorem bind_agree_boundary :
  forall s c, wf_sig s -> wf_shape c ->
  (agree s (bind_py s c) (bind_c s c) <->
   (kwargs s = None \/ (forall k, In k (kws c) -> ~ In k (posonly s)) \/ is_err (bind_py s c) = true)).
Proof. exact bind_agree_boundary_lemma. Qed.
Print Assumptions bind_agree_boundary.

(* One direction holds for the mapper as it stands without any restriction: a reported arity/keyword
   error is always a CPython TypeError. *)
Theorem bind_err_sound :
  forall s c, wf_sig s -> wf_shape c -> is_err (bind_py s c) = true -> is_err (bind_c s c) = true.
Proof. exact bind_err_sound_lemma. Qed.
Print Assumptions bind_err_sound.

(* Non-vacuity.  def g(a, b=.., /, d=.., *va, g, h=.., **kw)  -- names a=0 b=1 d=3 va=9 g=6 h=7 kw=10 *)
Definition sig_rich : sig := mkSig [0; 1] [3] [6; 7] [1; 3; 7] (Some 9) (Some 10).
Example sig_rich_wf : wf_sig sig_rich.
Proof. apply wf_sigb_sound. reflexivity. Qed.

(* g(p0, p1, p2, p3, g=.., zz=..): binds, with overflow into *va and the foreign keyword into **kw;
   the hypothesis of bind_agree_partial holds although **kw is present *)
Example rich_call_ok :
  let c := mkShape 4 [6; 11] in
  wf_shape c /\ (forall k, In k (kws c) -> ~ In k (posonly sig_rich)) /\
  lookup_all sig_rich (bind_py sig_rich c)
    = Some [Some (Pos 0); Some (Pos 1); Some (Pos 2); Some (Kw 6); Some Default; Some (VarArgs [3]); Some (KwArgs [11])] /\
  lookup_all sig_rich (bind_c sig_rich c) = lookup_all sig_rich (bind_py sig_rich c).
Proof.
  cbv zeta. split; [apply wf_shapeb_sound; reflexivity|]. split.
  - simpl. intros k [H|[H|[]]] [H1|[H1|[]]]; subst; discriminate.
  - vm_compute. split; reflexivity.
Qed.

(* g(p0, d=.., h=..): keyword-only g is missing -> both raise; g(p0, p1, p2, d=..): d given twice -> both raise *)
Example rich_call_errors :
  bind_py sig_rich (mkShape 1 [3; 7]) = Err (EMissingParameter 6) /\
  bind_c sig_rich (mkShape 1 [3; 7]) = Err (CMissingKwonly [6]) /\
  bind_py sig_rich (mkShape 3 [3; 6]) = Err (EDuplicateKeyword [3]) /\
  bind_c sig_rich (mkShape 3 [3; 6]) = Err (CMultipleValues 3).
Proof. vm_compute. repeat split; reflexivity. Qed.

(* outside the boundary: g(p0, b=.., g=..) -- the mapper accepts and binds b to the keyword; CPython
   gives b its default and puts b into **kw *)
Example rich_call_outside_boundary :
  let c := mkShape 1 [1; 6] in
  lookup_all sig_rich (bind_py sig_rich c)
    = Some [Some (Pos 0); Some (Kw 1); Some Default; Some (Kw 6); Some Default; Some (VarArgs []); Some (KwArgs [])] /\
  lookup_all sig_rich (bind_c sig_rich c)
    = Some [Some (Pos 0); Some Default; Some Default; Some (Kw 6); Some Default; Some (VarArgs []); Some (KwArgs [1])] /\
  lookup_all sig_rich (bind_py_fixed sig_rich c) = lookup_all sig_rich (bind_c sig_rich c).
Proof. vm_compute. repeat split; reflexivity. Qed.

(* ================================================================================== *)
(* Calls of functions whose signature comes from a stub (PyTDFunction, single signature).
   bind_pytd (coq/Bind/PytdModel.v) = PyTDSignature._map_args + _fill_in_missing_parameters.
   [va_annotated] = the stub annotates *args; [argname] = function.argname, the placeholder names
   ("_<i>") under which the mapper then files the overflowing positional arguments;
   argname_fresh: no keyword of the call and no parameter is spelled like such a placeholder. *)

(* Error iff error, for every stub signature and call: pytype reports an arity/keyword error exactly when
   CPython raises TypeError. *)
Theorem bind_pytd_err_agree :
  forall va_annotated argname s c, wf_sig s -> wf_shape c -> argname_fresh argname s c ->
  is_err (bind_pytd va_annotated argname s c) = is_err (bind_c s c).
Proof. exact bind_pytd_err_agree_lemma. Qed.
Print Assumptions bind_pytd_err_agree.

(* ... and on success every parameter other than **kwargs (incl. *args) holds what CPython gives it. *)
Theorem bind_pytd_agree_except_kwargs :
  forall va_annotated argname s c, wf_sig s -> wf_shape c -> argname_fresh argname s c ->
  agree_except_kwargs s (bind_pytd va_annotated argname s c) (bind_c s c).
Proof. exact bind_pytd_agree_except_kwargs_lemma. Qed.
Print Assumptions bind_pytd_agree_except_kwargs.

(* Full agreement is refuted by the mapper as it stands: stub def f(x, /, **kw); f(a0, x=..) -- the keyword is
   dropped (checked against nothing) instead of landing in **kw. *)
Theorem bind_pytd_agree_refuted_binding :
  exists s c, wf_sig s /\ wf_shape c /\ argname_fresh argname14 s c
              /\ lookup_all s (bind_pytd false argname14 s c) = Some [Some (Pos 0); Some (KwArgs [])]
              /\ lookup_all s (bind_c s c) = Some [Some (Pos 0); Some (KwArgs [0])]
              /\ ~ agree s (bind_pytd false argname14 s c) (bind_c s c).
Proof. exact bind_pytd_agree_refuted_binding_lemma. Qed.
Print Assumptions bind_pytd_agree_refuted_binding.

(* It holds whenever the stub has no **kwargs or no keyword names a positional-only parameter ... *)
Theorem bind_pytd_agree_partial :
  forall va_annotated argname s c, wf_sig s -> wf_shape c -> argname_fresh argname s c ->
  (kwargs s = None \/ forall k, In k (kws c) -> ~ In k (posonly s)) ->
  agree s (bind_pytd va_annotated argname s c) (bind_c s c).
Proof. exact bind_pytd_agree_partial_lemma. Qed.
Print Assumptions bind_pytd_agree_partial.

(* ... and that boundary is exact. *)
Theorem bind_pytd_disagree_exact :
  forall va_annotated argname s c d, wf_sig s -> wf_shape c -> argname_fresh argname s c ->
  kwargs s <> None -> (exists k, In k (kws c) /\ In k (posonly s)) ->
  bind_pytd va_annotated argname s c = Ok d -> ~ agree s (bind_pytd va_annotated argname s c) (bind_c s c).
Proof. exact bind_pytd_disagree_exact_lemma. Qed.
Print Assumptions bind_pytd_disagree_exact.

Theorem bind_pytd_agree_boundary :
  forall va_annotated argname s c, wf_sig s -> wf_shape c -> argname_fresh argname s c ->
  (agree s (bind_pytd va_annotated argname s c) (bind_c s c) <->
   (kwargs s = None \/ (forall k, In k (kws c) -> ~ In k (posonly s))
    \/ is_err (bind_pytd va_annotated argname s c) = true)).
Proof. exact bind_pytd_agree_boundary_lemma. Qed.
Print Assumptions bind_pytd_agree_boundary.

(* The freshness hypothesis is needed: stub def h( *va: int, **kw); h(a0, _0=..) -- the keyword collides with
   the placeholder of the overflowing positional argument: duplicate-keyword-argument, CPython accepts.
   (Without the annotation on *va the same call is accepted.) *)
Theorem bind_pytd_argname_refuted :
  exists s c, wf_sig s /\ wf_shape c /\ In (argname14 0) (kws c)
              /\ is_err (bind_pytd true argname14 s c) = true /\ is_err (bind_c s c) = false
              /\ is_err (bind_pytd false argname14 s c) = false.
Proof. exact bind_pytd_argname_refuted_lemma. Qed.
Print Assumptions bind_pytd_argname_refuted.

(* Non-vacuity: the rich signature as a stub with annotated *va; g(p0..p4, g=.., zz=..) overflows two
   positional arguments (filed under _3, _4 = names 17, 18) and one foreign keyword: same as CPython. *)
Example pytd_rich_call :
  let c := mkShape 5 [6; 11] in
  wf_shape c /\ argname_fresh argname14 sig_rich c /\
  lookup_all sig_rich (bind_pytd true argname14 sig_rich c)
    = Some [Some (Pos 0); Some (Pos 1); Some (Pos 2); Some (Kw 6); Some Default; Some (VarArgs [3; 4]); Some (KwArgs [11])] /\
  lookup_all sig_rich (bind_c sig_rich c) = lookup_all sig_rich (bind_pytd true argname14 sig_rich c) /\
  bind_pytd true argname14 sig_rich (mkShape 3 [3; 6]) = Err (EDuplicateKeyword [3]) /\
  bind_pytd true argname14 sig_rich (mkShape 6 [6]) = Ok [(0, Pos 0); (1, Pos 1); (3, Pos 2); (6, Kw 6); (7, Default);
                                                          (9, VarArgs [3; 4; 5]); (10, KwArgs [])].
Proof.
  cbv zeta. split; [apply wf_shapeb_sound; reflexivity|]. split.
  - intros i. unfold argname14. simpl. split; intros H; repeat (destruct H as [H|H]; [discriminate H|]); exact H.
  - vm_compute. repeat split; reflexivity.
Qed.
