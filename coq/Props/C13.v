(* C13 — calls bind arguments exactly as CPython does.
   Property theorems only; each is closed by [exact] and followed by Print Assumptions.

   Model (coq/Bind/Model.v): bind_py = SignedFunction._map_args as it stands, bind_py_fixed = the same
   with fixes/C13-posonly-kwargs.patch, bind_c = CPython's initialize_locals.  [agree s r1 r2]: both are
   errors, or both succeed and every parameter of s (incl. *args and **kwargs) is bound and holds the
   same thing (Pos i / Kw k / Default / VarArgs [..] / KwArgs [..]).  wf_sig = a def Python accepts
   (distinct parameter names, defaults form a suffix of the positional parameters); wf_shape = a call
   Python accepts (no repeated keyword).  All statements are for signatures and calls of any size. *)
From Coq Require Import List Arith Bool.
From PV Require Import Bind.Model Bind.Proofs Bind.PytdModel Bind.PytdProofs Bind.SplatModel Bind.SplatProofs Bind.SplatFacts Bind.FormsModel Bind.FormsProofs.
Import ListNotations.

(* The repaired mapper binds exactly as CPython does. *)
Theorem bind_agree_fixed :
  forall s c, wf_sig s -> wf_shape c -> agree s (bind_py_fixed s c) (bind_c s c).
Proof. exact bind_agree_fixed_lemma. Qed.
Print Assumptions bind_agree_fixed.

(* The mapper as it stands does not: def f(x, /, **kw); f(x=1) is accepted, CPython raises TypeError ... *)
Theorem bind_agree_refuted :
  exists s c, wf_sig s /\ wf_shape c /\ is_err (bind_py s c) = false /\ is_err (bind_c s c) = true
              /\ ~ agree s (bind_py s c) (bind_c s c).
Proof. exact bind_agree_refuted_lemma. Qed.
Print Assumptions bind_agree_refuted.

(* ... and f(a0, x=1) binds x to the keyword and leaves kw empty; CPython binds x = a0, kw = {x: ..}. *)
Theorem bind_agree_refuted_binding :
  exists s c, wf_sig s /\ wf_shape c /\ is_err (bind_py s c) = false /\ is_err (bind_c s c) = false
              /\ lookup_all s (bind_py s c) = Some [Some (Kw 0); Some (KwArgs [])]
              /\ lookup_all s (bind_c s c) = Some [Some (Pos 0); Some (KwArgs [0])]
              /\ ~ agree s (bind_py s c) (bind_c s c).
Proof. exact bind_agree_refuted_binding_lemma. Qed.
Print Assumptions bind_agree_refuted_binding.

(* It does agree whenever the function has no **kwargs or no keyword names a positional-only parameter. *)
Theorem bind_agree_partial :
  forall s c, wf_sig s -> wf_shape c ->
  (kwargs s = None \/ forall k, In k (kws c) -> ~ In k (posonly s)) ->
  agree s (bind_py s c) (bind_c s c).
Proof. exact bind_agree_partial_lemma. Qed.
Print Assumptions bind_agree_partial.

(* That boundary is exact: outside it, every call the mapper accepts is bound differently from CPython ... *)
Theorem bind_disagree_exact :
  forall s c d, wf_sig s -> wf_shape c ->
  kwargs s <> None -> (exists k, In k (kws c) /\ In k (posonly s)) ->
  bind_py s c = Ok d -> ~ agree s (bind_py s c) (bind_c s c).
Proof. exact bind_disagree_exact_lemma. Qed.
Print Assumptions bind_disagree_exact.

(* ... so agreement holds iff: no **kwargs, or no keyword names a positional-only parameter, or the mapper
   raises (then CPython raises too). *)
Theorem bind_agree_boundary :
  forall s c, wf_sig s -> wf_shape c ->
  (agree s (bind_py s c) (bind_c s c) <->
   (kwargs s = None \/ (forall k, In k (kws c) -> ~ In k (posonly s)) \/ is_err (bind_py s c) = true)).
Proof. exact bind_agree_boundary_lemma. Qed.
Print Assumptions bind_agree_boundary.

(* One direction holds for the mapper as it stands without any restriction: a reported arity/keyword
   error is always a CPython TypeError. *)
Theorem bind_err_sound :
  forall s c, wf_sig s -> wf_shape c -> is_err (bind_py s c) = true -> is_err (bind_c s c) = true.
Proof. exact bind_err_sound_lemma. Qed.
Print Assumptions bind_err_sound.

(* Non-vacuity.  def g(a, b=.., /, d=.., *va, g, h=.., **kw)  -- names a=0 b=1 d=3 va=9 g=6 h=7 kw=10 *)
Definition sig_rich : sig := mkSig [0; 1] [3] [6; 7] [1; 3; 7] (Some 9) (Some 10).
Example sig_rich_wf : wf_sig sig_rich.
Proof. apply wf_sigb_sound. reflexivity. Qed.

(* g(p0, p1, p2, p3, g=.., zz=..): binds, with overflow into *va and the foreign keyword into **kw;
   the hypothesis of bind_agree_partial holds although **kw is present *)
Example rich_call_ok :
  let c := mkShape 4 [6; 11] in
  wf_shape c /\ (forall k, In k (kws c) -> ~ In k (posonly sig_rich)) /\
  lookup_all sig_rich (bind_py sig_rich c)
    = Some [Some (Pos 0); Some (Pos 1); Some (Pos 2); Some (Kw 6); Some Default; Some (VarArgs [3]); Some (KwArgs [11])] /\
  lookup_all sig_rich (bind_c sig_rich c) = lookup_all sig_rich (bind_py sig_rich c).
Proof.
  cbv zeta. split; [apply wf_shapeb_sound; reflexivity|]. split.
  - simpl. intros k [H|[H|[]]] [H1|[H1|[]]]; subst; discriminate.
  - vm_compute. split; reflexivity.
Qed.

(* g(p0, d=.., h=..): keyword-only g is missing -> both raise; g(p0, p1, p2, d=..): d given twice -> both raise *)
Example rich_call_errors :
  bind_py sig_rich (mkShape 1 [3; 7]) = Err (EMissingParameter 6) /\
  bind_c sig_rich (mkShape 1 [3; 7]) = Err (CMissingKwonly [6]) /\
  bind_py sig_rich (mkShape 3 [3; 6]) = Err (EDuplicateKeyword [3]) /\
  bind_c sig_rich (mkShape 3 [3; 6]) = Err (CMultipleValues 3).
Proof. vm_compute. repeat split; reflexivity. Qed.

(* outside the boundary: g(p0, b=.., g=..) -- the mapper accepts and binds b to the keyword; CPython
   gives b its default and puts b into **kw *)
Example rich_call_outside_boundary :
  let c := mkShape 1 [1; 6] in
  lookup_all sig_rich (bind_py sig_rich c)
    = Some [Some (Pos 0); Some (Kw 1); Some Default; Some (Kw 6); Some Default; Some (VarArgs []); Some (KwArgs [])] /\
  lookup_all sig_rich (bind_c sig_rich c)
    = Some [Some (Pos 0); Some Default; Some Default; Some (Kw 6); Some Default; Some (VarArgs []); Some (KwArgs [1])] /\
  lookup_all sig_rich (bind_py_fixed sig_rich c) = lookup_all sig_rich (bind_c sig_rich c).
Proof. vm_compute. repeat split; reflexivity. Qed.

(* ================================================================================== *)
(* Calls of functions whose signature comes from a stub (PyTDFunction, single signature).
   bind_pytd (coq/Bind/PytdModel.v) = PyTDSignature._map_args + _fill_in_missing_parameters.
   [va_annotated] = the stub annotates *args; [argname] = function.argname, the placeholder names
   ("_<i>") under which the mapper then files the overflowing positional arguments;
   argname_fresh: no keyword of the call and no parameter is spelled like such a placeholder. *)

(* Error iff error, for every stub signature and call: pytype reports an arity/keyword error exactly when
   CPython raises TypeError. *)
Theorem bind_pytd_err_agree :
  forall va_annotated argname s c, wf_sig s -> wf_shape c -> argname_fresh argname s c ->
  is_err (bind_pytd va_annotated argname s c) = is_err (bind_c s c).
Proof. exact bind_pytd_err_agree_lemma. Qed.
Print Assumptions bind_pytd_err_agree.

(* ... and on success every parameter other than **kwargs (incl. *args) holds what CPython gives it. *)
Theorem bind_pytd_agree_except_kwargs :
  forall va_annotated argname s c, wf_sig s -> wf_shape c -> argname_fresh argname s c ->
  agree_except_kwargs s (bind_pytd va_annotated argname s c) (bind_c s c).
Proof. exact bind_pytd_agree_except_kwargs_lemma. Qed.
Print Assumptions bind_pytd_agree_except_kwargs.

(* Full agreement is refuted by the mapper as it stands: stub def f(x, /, **kw); f(a0, x=..) -- the keyword is
   dropped (checked against nothing) instead of landing in **kw. *)
Theorem bind_pytd_agree_refuted_binding :
  exists s c, wf_sig s /\ wf_shape c /\ argname_fresh argname14 s c
              /\ lookup_all s (bind_pytd false argname14 s c) = Some [Some (Pos 0); Some (KwArgs [])]
              /\ lookup_all s (bind_c s c) = Some [Some (Pos 0); Some (KwArgs [0])]
              /\ ~ agree s (bind_pytd false argname14 s c) (bind_c s c).
Proof. exact bind_pytd_agree_refuted_binding_lemma. Qed.
Print Assumptions bind_pytd_agree_refuted_binding.

(* It holds whenever the stub has no **kwargs or no keyword names a positional-only parameter ... *)
Theorem bind_pytd_agree_partial :
  forall va_annotated argname s c, wf_sig s -> wf_shape c -> argname_fresh argname s c ->
  (kwargs s = None \/ forall k, In k (kws c) -> ~ In k (posonly s)) ->
  agree s (bind_pytd va_annotated argname s c) (bind_c s c).
Proof. exact bind_pytd_agree_partial_lemma. Qed.
Print Assumptions bind_pytd_agree_partial.

(* ... and that boundary is exact. *)
Theorem bind_pytd_disagree_exact :
  forall va_annotated argname s c d, wf_sig s -> wf_shape c -> argname_fresh argname s c ->
  kwargs s <> None -> (exists k, In k (kws c) /\ In k (posonly s)) ->
  bind_pytd va_annotated argname s c = Ok d -> ~ agree s (bind_pytd va_annotated argname s c) (bind_c s c).
Proof. exact bind_pytd_disagree_exact_lemma. Qed.
Print Assumptions bind_pytd_disagree_exact.

Theorem bind_pytd_agree_boundary :
  forall va_annotated argname s c, wf_sig s -> wf_shape c -> argname_fresh argname s c ->
  (agree s (bind_pytd va_annotated argname s c) (bind_c s c) <->
   (kwargs s = None \/ (forall k, In k (kws c) -> ~ In k (posonly s))
    \/ is_err (bind_pytd va_annotated argname s c) = true)).
Proof. exact bind_pytd_agree_boundary_lemma. Qed.
Print Assumptions bind_pytd_agree_boundary.

(* The freshness hypothesis is needed: stub def h( *va: int, **kw); h(a0, _0=..) -- the keyword collides with
   the placeholder of the overflowing positional argument: duplicate-keyword-argument, CPython accepts.
   (Without the annotation on *va the same call is accepted.) *)
Theorem bind_pytd_argname_refuted :
  exists s c, wf_sig s /\ wf_shape c /\ In (argname14 0) (kws c)
              /\ is_err (bind_pytd true argname14 s c) = true /\ is_err (bind_c s c) = false
              /\ is_err (bind_pytd false argname14 s c) = false.
Proof. exact bind_pytd_argname_refuted_lemma. Qed.
Print Assumptions bind_pytd_argname_refuted.

(* Non-vacuity: the rich signature as a stub with annotated *va; g(p0..p4, g=.., zz=..) overflows two
   positional arguments (filed under _3, _4 = names 17, 18) and one foreign keyword: same as CPython. *)
Example pytd_rich_call :
  let c := mkShape 5 [6; 11] in
  wf_shape c /\ argname_fresh argname14 sig_rich c /\
  lookup_all sig_rich (bind_pytd true argname14 sig_rich c)
    = Some [Some (Pos 0); Some (Pos 1); Some (Pos 2); Some (Kw 6); Some Default; Some (VarArgs [3; 4]); Some (KwArgs [11])] /\
  lookup_all sig_rich (bind_c sig_rich c) = lookup_all sig_rich (bind_pytd true argname14 sig_rich c) /\
  bind_pytd true argname14 sig_rich (mkShape 3 [3; 6]) = Err (EDuplicateKeyword [3]) /\
  bind_pytd true argname14 sig_rich (mkShape 6 [6]) = Ok [(0, Pos 0); (1, Pos 1); (3, Pos 2); (6, Kw 6); (7, Default);
                                                          (9, VarArgs [3; 4; 5]); (10, KwArgs [])].
Proof.
  cbv zeta. split; [apply wf_shapeb_sound; reflexivity|]. split.
  - intros i. unfold argname14. simpl. split; intros H; repeat (destruct H as [H|H]; [discriminate H|]); exact H.
  - vm_compute. repeat split; reflexivity.
Qed.

(* ================================================================================== *)
(* Call sites with * / ** splats (coq/Bind/SplatModel.v).  An [xcall] is the call as pytype's VM hands it to
   the callee: x_npos bound arguments (self), the entries x_items of Args.starargs (IArg = one argument, IStar =
   an indefinite-length splat), the keyword names x_kws (plain keywords and the constant keys of ** dict
   literals), x_opaque = a non-concrete ** dict.  bind_px = Args.simplify (_unpack_and_match_args) followed by
   SignedFunction._map_args with its starargs / starstarargs branches, as the code stands after 98ee907.
   expand c lens extra = the call CPython performs when the indefinite splats have the lengths [lens] and the
   opaque dict the keys [extra]. *)

(* Without splats and ** the extended mapper is the one of the first part of this file. *)
Theorem bind_py_star_plain_eq :
  forall fixed s c, bind_py_star fixed None false s c = bind_py_gen fixed s c.
Proof. exact bind_py_star_plain. Qed.
Print Assumptions bind_py_star_plain_eq.

(* Concrete splats (tuple / list literals of known length, ** dict literals with constant keys, no argument
   written after a splat -- site_items keeps those argument by argument): pytype binds exactly the expanded
   call, ... *)
Theorem splat_concrete_expands :
  forall s c, wf_sig s -> NoDup (x_kws c) -> concrete c -> bind_px s c = bind_py_fixed s (expand c [] []).
Proof. exact bind_px_concrete. Qed.
Print Assumptions splat_concrete_expands.

(* ... hence (composed with bind_agree_fixed) exactly as CPython binds the expanded call. *)
Theorem splat_concrete_agree :
  forall s c, wf_sig s -> NoDup (x_kws c) -> concrete c -> agree s (bind_px s c) (bind_c s (expand c [] [])).
Proof. exact splat_concrete_agree_lemma. Qed.
Print Assumptions splat_concrete_agree.

(* What is given up on: a plain argument written after a splat makes the VM hand over ONE indefinite splat. *)
Theorem site_items_collapse :
  forall l, plain_after_splat false l = true -> site_items l = [IStar].
Proof. exact site_items_collapse_lemma. Qed.
Print Assumptions site_items_collapse.

Theorem site_items_plain : forall n, site_items (repeat PA n) = repeat IArg n.
Proof. exact site_items_plain_lemma. Qed.
Print Assumptions site_items_plain.

(* Indefinite splats, "no false positives": pytype reports an arity / keyword error only if EVERY length of the
   splats (and every key set of the opaque dict) makes CPython raise.  Refuted twice by the code as it stands:
   def f(d); f( *xs, *(a,)) -- the splat is counted as one argument: wrong-arg-count, CPython binds for len(xs) = 0 *)
Theorem splat_no_false_positive_refuted_args_after_star :
  exists s c lens, wf_sig s /\ NoDup (x_kws c) /\ (forall k, In k (x_kws c) -> ~ In k (posonly s))
    /\ bind_px s c = Err EWrongArgCount /\ is_err (bind_c s (expand c lens [])) = false.
Proof. exact splat_fp_refuted_after_lemma. Qed.
Print Assumptions splat_no_false_positive_refuted_args_after_star.

(* def f(a, /, d, **kw); f( *xs, a=k) -- the expansion of the splat stops at the keyword's name although it can only
   go to **kw: missing-parameter a, CPython binds a = xs[0], d = xs[1], kw = {a: k} for len(xs) = 2 *)
Theorem splat_no_false_positive_refuted_posonly_keyword :
  exists s c lens, wf_sig s /\ NoDup (x_kws c) /\ star_last c
    /\ bind_px s c = Err (EMissingParameter 0) /\ is_err (bind_c s (expand c lens [])) = false
    /\ lookup_all s (bind_c s (expand c lens [])) = Some [Some (Pos 0); Some (Pos 1); Some (KwArgs [0])].
Proof. exact splat_fp_refuted_posonly_lemma. Qed.
Print Assumptions splat_no_false_positive_refuted_posonly_keyword.

(* Outside these two situations it holds, for every signature, every call, all lengths and all key sets:
   no argument after the last indefinite splat, no keyword naming a positional-only parameter. *)
Theorem splat_no_false_positive_partial :
  forall s c lens extra, wf_sig s -> NoDup (x_kws c ++ (if x_opaque c then extra else [])) ->
  star_last c -> (forall k, In k (x_kws c) -> ~ In k (posonly s)) ->
  is_err (bind_px s c) = true -> is_err (bind_c s (expand c lens extra)) = true.
Proof. exact splat_no_false_positive_partial_lemma. Qed.
Print Assumptions splat_no_false_positive_partial.

(* Call depth (InterpreterFunction.call: simplify + match the signature FIRST, then give up at maximum depth):
   a binding error is raised at every depth ... *)
Theorem depth_raise_iff :
  forall max_depth frames is_init s c e,
  call_at_depth max_depth frames is_init s c = ORaise e <-> bind_px s c = Err e.
Proof. exact depth_raise_iff_lemma. Qed.
Print Assumptions depth_raise_iff.

(* ... and the body of a function handed through n helper frames from module level (limit 4) is given up on
   exactly from n = 4 on, only when the arguments bind. *)
Theorem depth_helpers :
  forall helpers s c, is_err (bind_px s c) = false ->
  (call_at_depth 4 (frames_at_call helpers) false s c = OUnsolvable <-> 4 <= helpers).
Proof. exact depth_helpers_lemma. Qed.
Print Assumptions depth_helpers.

(* Non-vacuity.  g( *(p0, p1), *[p2, p3], **{g: .., zz: ..}) on sig_rich: concrete, binds like g(p0..p3, g=.., zz=..) *)
Example splat_concrete_call :
  let c := mkX 0 (site_items [PT 2; PT 2]) [6; 11] false in
  concrete c /\ NoDup (x_kws c) /\
  lookup_all sig_rich (bind_px sig_rich c)
    = Some [Some (Pos 0); Some (Pos 1); Some (Pos 2); Some (Kw 6); Some Default; Some (VarArgs [3]); Some (KwArgs [11])] /\
  lookup_all sig_rich (bind_c sig_rich (expand c [] [])) = lookup_all sig_rich (bind_px sig_rich c).
Proof.
  cbv zeta. split; [split; [|reflexivity]|split].
  - simpl. intros x H. repeat (destruct H as [H|H]; [symmetry; exact H|]). destruct H.
  - apply (wf_shapeb_sound (mkShape 0 [6; 11])). reflexivity.
  - vm_compute. split; reflexivity.
Qed.

(* def h(a, b, c, *, k): h(p0, *xs, c=..) -- star last, no positional-only name as keyword: the hypotheses of the
   partial theorem hold, the mapper reports missing-parameter k, and indeed CPython raises for lengths 0, 1, 2, 3 *)
Example splat_star_call :
  let s := mkSig [] [0; 1; 2] [6] [] None None in
  let c := mkX 0 (site_items [PA; PX]) [2] false in
  wf_sig s /\ star_last c /\ (forall k, In k (x_kws c) -> ~ In k (posonly s)) /\
  bind_px s c = Err (EMissingParameter 6) /\
  forallb (fun n => is_err (bind_c s (expand c [n] []))) [0; 1; 2; 3] = true /\
  (* with the keyword-only argument supplied the call is accepted: b holds the splat's element type *)
  lookup_all s (bind_px s (mkX 0 (site_items [PA; PX]) [2; 6] false))
    = Some [Some (Pos 0); Some (Elem 1); Some (Kw 2); Some (Kw 6)].
Proof.
  cbv zeta. split; [apply wf_sigb_sound; reflexivity|]. split; [reflexivity|]. split; [intros k _ []|].
  vm_compute. repeat split; reflexivity.
Qed.

(* ================================================================================== *)
(* Call forms (coq/Bind/FormsModel.v): how the callee is reached.  [receiver f]: the attribute is a bound method
   object (obj.m, C.cm, obj.cm, obj(..) via __call__); otherwise (f, C.m(obj, ..), static methods) the arguments
   reach the mapper as written.  call_form_py = BoundFunction.call in front of the mapper B, call_form_c = CPython's
   method object in front of initialize_locals.  insert c = the call with the receiver as argument 0. *)

(* Receiver insertion, pytype side: a bound callee that has a positional parameter is mapped on (receiver, args..) ... *)
Theorem form_insert_py :
  forall E (argcount : sig -> nat) (B : sig -> shape -> result E) f s c,
  receiver f = true -> 1 <= argcount s -> call_form_py argcount B f s c = B s (insert c).
Proof. exact form_insert_py_lemma. Qed.
Print Assumptions form_insert_py.

(* ... and an unbound one on the arguments as written. *)
Theorem form_plain_py :
  forall E (argcount : sig -> nat) (B : sig -> shape -> result E) f s c,
  receiver f = false -> call_form_py argcount B f s c = B s c.
Proof. exact form_plain_py_lemma. Qed.
Print Assumptions form_plain_py.

(* Hence, by bind_agree_fixed: for every call form, every signature and every call, pytype reports an arity / keyword
   error iff CPython raises while binding, and otherwise binds every parameter alike -- provided a callee reached
   through a receiver has a positional parameter to take it. *)
Theorem form_agree_fixed :
  forall f s c, wf_sig s -> wf_shape c -> (receiver f = true -> param_names s <> []) ->
  agree s (call_form_py argcount_src bind_py_fixed f s c) (call_form_c f s c).
Proof. exact form_agree_fixed_lemma. Qed.
Print Assumptions form_agree_fixed.

(* The same for the mapper before fix 98ee907, inside its boundary. *)
Theorem form_agree_partial :
  forall f s c, wf_sig s -> wf_shape c -> (receiver f = true -> param_names s <> []) ->
  (kwargs s = None \/ forall k, In k (kws c) -> ~ In k (posonly s)) ->
  agree s (call_form_py argcount_src bind_py f s c) (call_form_c f s c).
Proof. exact form_agree_partial_lemma. Qed.
Print Assumptions form_agree_partial.

(* The proviso is needed: class C: def m(): ...   C().m() -- BoundFunction.call does not put self in front of a
   callee without positional parameters ("only if the function actually takes any arguments"): no error, CPython
   raises "takes 0 positional arguments but 1 was given" ... *)
Theorem form_agree_refuted :
  exists f s c, receiver f = true /\ wf_sig s /\ wf_shape c /\ param_names s = []
    /\ is_err (call_form_py argcount_src bind_py_fixed f s c) = false
    /\ is_err (call_form_c f s c) = true
    /\ ~ agree s (call_form_py argcount_src bind_py_fixed f s c) (call_form_c f s c).
Proof. exact form_agree_refuted_lemma. Qed.
Print Assumptions form_agree_refuted.

(* ... and class C: def n( *va): ...   C().n(x) binds va = (x,); CPython binds va = (self, x). *)
Theorem form_agree_refuted_binding :
  exists f s c, receiver f = true /\ wf_sig s /\ wf_shape c
    /\ lookup_all s (call_form_py argcount_src bind_py_fixed f s c) = Some [Some (VarArgs [1])]
    /\ lookup_all s (call_form_c f s c) = Some [Some (VarArgs [0; 1])]
    /\ ~ agree s (call_form_py argcount_src bind_py_fixed f s c) (call_form_c f s c).
Proof. exact form_agree_refuted_binding_lemma. Qed.
Print Assumptions form_agree_refuted_binding.

(* Stub callees, every call form: error iff error. *)
Theorem form_pytd_err_agree :
  forall va_annotated argname f s c, wf_sig s -> wf_shape c ->
  argname_fresh argname s c -> (receiver f = true -> 1 <= argcount_pytd s) ->
  is_err (call_form_py argcount_pytd (bind_pytd va_annotated argname) f s c) = is_err (call_form_c f s c).
Proof. exact form_pytd_err_agree_lemma. Qed.
Print Assumptions form_pytd_err_agree.

(* Constructors C(..).  m = what the user classes on C's MRO define (most derived first); ctor_py = Class.call /
   _call_new_and_init / call_init with object.__init__ as special_builtins.Object hands it out; ctor_c = type_call
   with object_new / object_init's excess-argument rule.  For every hierarchy and every call: both raise, or both
   run the same user constructors (the first __new__ and the first __init__ on the MRO) with every parameter bound
   alike; with no user constructor at all both raise iff an argument is written.  One exclusion: ... *)
Theorem ctor_agree_fixed :
  forall argname m c, wf_mro m -> wf_shape c ->
  (lookup c_new m <> None -> lookup c_init m = None -> ~ In SELF (kws c)) ->
  ctor_agree m (ctor_py bind_py_fixed argname m c) (ctor_c m c).
Proof. exact ctor_agree_fixed_lemma. Qed.
Print Assumptions ctor_agree_fixed.

Theorem ctor_err_iff_fixed :
  forall argname m c, wf_mro m -> wf_shape c ->
  (lookup c_new m <> None -> lookup c_init m = None -> ~ In SELF (kws c)) ->
  ctor_is_err (ctor_py bind_py_fixed argname m c) = ctor_is_err (ctor_c m c).
Proof. exact ctor_err_iff_fixed_lemma. Qed.
Print Assumptions ctor_err_iff_fixed.

(* ... a class with its own __new__ and object's __init__, called with the keyword self: pytype maps the call onto the
   stub  def __init__extra_args(self, *args, **kwargs)  and reports self as duplicate keyword; CPython accepts. *)
Theorem ctor_agree_refuted_self_keyword :
  exists m c, wf_mro m /\ wf_shape c /\ In SELF (kws c)
    /\ ctor_py bind_py_fixed argname14 m c = CtorErr (EDuplicateKeyword [SELF])
    /\ ctor_is_err (ctor_c m c) = false.
Proof. exact ctor_agree_refuted_self_keyword_lemma. Qed.
Print Assumptions ctor_agree_refuted_self_keyword.

(* Inherited constructors: classes that define neither __new__ nor __init__ are transparent, on both sides. *)
Theorem ctor_inherited :
  forall B argname m1 m2 c,
  (forall k, In k m1 -> c_new k = None /\ c_init k = None) ->
  ctor_py B argname (m1 ++ m2) c = ctor_py B argname m2 c /\ ctor_c (m1 ++ m2) c = ctor_c m2 c.
Proof. exact ctor_inherited_lemma. Qed.
Print Assumptions ctor_inherited.

(* Several stub signatures (PyTDFunction._match_args_sequentially = call_overloaded): an arity / keyword error is
   reported iff EVERY signature fails to bind under CPython's rules, ... *)
Theorem overload_err_iff :
  forall va_annotated argname sigs c, wf_shape c ->
  (forall s, In s sigs -> wf_sig s /\ argname_fresh argname s c) ->
  ov_is_err (call_overloaded (bind_pytd va_annotated argname) sigs c)
  = forallb (fun s => is_err (bind_c s c)) sigs.
Proof. exact overload_err_iff_lemma. Qed.
Print Assumptions overload_err_iff.

(* ... the error reported is then the one of the FIRST signature, ... *)
Theorem overload_error_first :
  forall E (B : sig -> shape -> result E) s rest c e,
  call_overloaded B (s :: rest) c = OvErr e -> B s c = Err e.
Proof. exact overload_error_first_lemma. Qed.
Print Assumptions overload_error_first.

(* ... and otherwise the signatures handed on to type matching are exactly those CPython could bind, in order. *)
Theorem overload_matched :
  forall va_annotated argname sigs c matched, wf_shape c ->
  (forall s, In s sigs -> wf_sig s /\ argname_fresh argname s c) ->
  call_overloaded (bind_pytd va_annotated argname) sigs c = OvOk matched ->
  map fst matched = filter (fun s => negb (is_err (bind_c s c))) sigs /\ matched <> [].
Proof. exact overload_matched_lemma. Qed.
Print Assumptions overload_matched.

(* Non-vacuity.  class B2: def __new__(cls, d, e=.., *, g=..)   class B1(B2): def __init__(self, d, *va, **kw)
   class C(B1): pass.   C(p1, p2, g=..): both constructors run, both sides bind alike; C(p1, zz=..): __new__ rejects *)
Definition sig_new : sig := mkSig [] [13; 3; 4] [6] [4; 6] None None.
Definition sig_init : sig := mkSig [] [12; 3] [] [] (Some 9) (Some 10).
Definition mro3 : list cls_def := [mkCls None None; mkCls None (Some sig_init); mkCls (Some sig_new) None].
Example ctor_example :
  wf_mro mro3 /\
  ctor_py bind_py_fixed argname14 mro3 (mkShape 2 [6])
    = CtorOk (Some [(4, Pos 2); (6, Kw 6); (13, Pos 0); (3, Pos 1)])
             (Some [(12, Pos 0); (3, Pos 1); (6, Kw 6); (9, VarArgs [2]); (10, KwArgs [6])]) /\
  ctor_is_err (ctor_c mro3 (mkShape 2 [6])) = false /\
  ctor_is_err (ctor_py bind_py_fixed argname14 mro3 (mkShape 1 [11])) = true /\
  ctor_is_err (ctor_c mro3 (mkShape 1 [11])) = true /\
  (* no constructor anywhere: C() is fine, C(x) is not *)
  ctor_is_err (ctor_py bind_py_fixed argname14 [mkCls None None] (mkShape 0 [])) = false /\
  ctor_py bind_py_fixed argname14 [mkCls None None] (mkShape 1 []) = CtorErr EWrongArgCount /\
  ctor_c [mkCls None None] (mkShape 1 []) = CtorErr CNoArguments.
Proof.
  split.
  - split; cbn; intros s H; injection H as <-; [|split; [|discriminate]]; apply wf_sigb_sound; reflexivity.
  - vm_compute. repeat split; reflexivity.
Qed.

(* overloads  def f(a, /) ; def f(a, b, *, g) : f(p0) uses the first, f(p0, p1, g=..) the second,
   f(p0, p1) matches neither and the error is the first signature's *)
Example overload_example :
  let sigs := [mkSig [0] [] [] [] None None; mkSig [] [0; 1] [6] [] None None] in
  map fst (match call_overloaded (bind_pytd false argname14) sigs (mkShape 1 []) with OvOk l => l | _ => [] end)
    = [mkSig [0] [] [] [] None None] /\
  map fst (match call_overloaded (bind_pytd false argname14) sigs (mkShape 2 [6]) with OvOk l => l | _ => [] end)
    = [mkSig [] [0; 1] [6] [] None None] /\
  call_overloaded (bind_pytd false argname14) sigs (mkShape 2 []) = OvErr EWrongArgCount /\
  forallb (fun s => is_err (bind_c s (mkShape 2 []))) sigs = true.
Proof. vm_compute. repeat split; reflexivity. Qed.
