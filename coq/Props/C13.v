(* C13 — calls bind arguments exactly as CPython does.  Property theorems only. *)
From Coq Require Import List Arith Bool.
From PV Require Import Bind.Model Bind.Proofs.
Import ListNotations.

Theorem bind_agree_refuted :
  exists s c, wf_sig s /\ wf_shape c /\ ~ agree s (bind_py s c) (bind_c s c).
Proof. exact bind_agree_refuted_lemma. Qed.
Print Assumptions bind_agree_refuted.
