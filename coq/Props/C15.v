(* C15 — any compilable source is analysed to a result, never an internal failure.
   PARTIAL by nature: "no exception escapes the VM" cannot be a theorem about a total Gallina function; it is
   established by the declared search in harness/props/c15.py.  The three pieces below are logic and are proved.
   Property theorems only; each is closed by [exact] and followed by Print Assumptions. *)
From Coq Require Import String.
From Coq Require Import List Arith ZArith Bool Lia.
From PV Require Import Directors.Model Io.ErrLine Io.ErrLineProofs.
From PV Require Import Io.Compile Io.CompileProofs Io.CompileIoProofs.
From PV Require Import Io.Model Generated.C15_Handlers Io.Proofs Io.LineProofs.
Import ListNotations.
Close Scope Z_scope.   (* Directors.Model opens it *)

(* (1) Opcode dispatch is total.  Bound: the finite table regenerated on every run = every opcode name in
   pycnite's tables for Python 3.8, 3.9, 3.10, 3.11, 3.12 (every listed version contributes rows).  Every row
   that the disassembler hands on (everything except EXTENDED_ARG, which pycnite folds into the next
   instruction) has an Opcode class in pyc/opcodes.py and a callable byte_<NAME>(self, state, op) on the
   analysing VM class, so neither `g[op.name]` (KeyError) nor "Unknown opcode" (VirtualMachineError) can occur;
   likewise every 3.12 CALL_INTRINSIC_1/2 name has its byte_<NAME>(self, state). *)
Theorem dispatch_total :
  supported_minor_versions = [8; 9; 10; 11; 12] /\
  (forall v, In v supported_minor_versions -> exists r, In r op_table /\ In v (op_versions r)) /\
  (forall r, In r op_table -> reaches_vm r = true -> op_class r = true /\ op_handler r = true) /\
  (forall i, In i intrinsic_table -> in_handler i = true).
Proof. exact dispatch_total_lemma. Qed.
Print Assumptions dispatch_total.

(* (2) What io.check_or_generate_pyi does with whatever check_py / generate_pyi did, for every reported line
   (None included), both values of options.nofail and options.check:
   - CompileError, ConstantError, IndentationError, TabError, libcst.ParserSyntaxError, SyntaxError:
     the default stub and exactly one python-compiler-error, at `line or 0`;
   - SkipFileError: the default stub plus the skip-file comment, no error;
   - UsageError: re-raised unchanged;
   - any other Exception: with nofail the default stub (plus the "Caught error" comment unless checking) and
     an EMPTY error log; without nofail the exception escapes, annotated with the file name;
   - a BaseException that is not an Exception (KeyboardInterrupt, SystemExit, ...) always escapes;
   - no exception: the analysis result. *)
Theorem outcome_classification : forall (line : option nat) (nofail check : bool),
  (forall c, In c compile_classes ->
     outcome (Raised c line) nofail check = ODefault [line_or_0 line] InfoNone) /\
  outcome (Raised cls_SkipFileError line) nofail check = ODefault [] InfoSkip /\
  (forall c, In c usage_classes -> outcome (Raised c line) nofail check = OEscape false) /\
  (forall c, In c other_exception_classes ->
     outcome (Raised c line) nofail check =
       if nofail then ODefault [] (if check then InfoNone else InfoCaught) else OEscape true) /\
  (forall c, In c non_exception_classes -> outcome (Raised c line) nofail check = OEscape false) /\
  outcome Returned nofail check = OResult.
Proof. exact outcome_classification_lemma. Qed.
Print Assumptions outcome_classification.

(* an exception escapes iff it is a UsageError, or not an Exception at all, or (Other and not nofail) *)
Theorem escape_iff : forall c line nofail check,
  In c class_universe ->
  (escapes (outcome (Raised c line) nofail check) = true <->
   In c usage_classes \/ In c non_exception_classes \/ (In c other_exception_classes /\ nofail = false)).
Proof. exact escape_iff_lemma. Qed.
Print Assumptions escape_iff.

(* (3) For any text and any 0-based line range inside it, _find_all_line_split returns the start offsets of
   lines b..e followed by the end offset (newline excluded) of line e.  No bound on the text. *)
Theorem line_split_exact : forall s b e,
  b <= e -> e < nlines s ->
  find_all_line_split s b e =
    map (line_start s) (seq b (S (e - b))) ++ [line_start s e + length (line_text s e)].
Proof. exact line_split_exact_lemma. Qed.
Print Assumptions line_split_exact.

(* _find_line_boundaries(k) delimits exactly the k-th element of src.split("\n") *)
Theorem line_boundaries_exact : forall s k,
  k < nlines s ->
  find_line_boundaries s k = [line_start s k; line_start s k + length (line_text s k)] /\
  slice s (line_start s k) (line_start s k + length (line_text s k)) = line_text s k.
Proof. exact line_boundaries_exact_lemma. Qed.
Print Assumptions line_boundaries_exact.

(* consecutive boundaries of a multi-line excerpt delimit one line together with its newline *)
Theorem line_with_newline : forall s k,
  S k < nlines s ->
  line_start s (S k) = line_start s k + S (length (line_text s k)) /\
  slice s (line_start s k) (line_start s (S k)) = line_text s k ++ [NL].
Proof. exact line_with_newline_lemma. Qed.
Print Assumptions line_with_newline.

(* the excerpt printed for a one-line error (endline = 0) at a 1-based line inside a non-empty text starts
   with exactly that source line *)
Theorem visualize_single_exact : forall src line col endcol,
  1 <= line -> line <= nlines src -> src <> [] ->
  exists rest, visualize src true line 0 col endcol = SText (line_text src (line - 1)) :: SText [NL] :: rest.
Proof. exact visualize_single_exact_lemma. Qed.
Print Assumptions visualize_single_exact.

(* ---- non-vacuity and the load-bearing hypothesis ---- *)

(* "ab\ncd\n\nxyz" : four lines, the third empty, no trailing newline *)
Definition txt : list nat := [97; 98; 10; 99; 100; 10; 10; 120; 121; 122].
Example txt_lines : lines txt = [[97; 98]; [99; 100]; []; [120; 121; 122]] /\ nlines txt = 4.
Proof. vm_compute. split; reflexivity. Qed.
Example txt_split_all : find_all_line_split txt 0 3 = [0; 3; 6; 7; 10].
Proof. vm_compute. reflexivity. Qed.
Example txt_line2 : find_line_boundaries txt 1 = [3; 5] /\ slice txt 3 5 = [99; 100].
Proof. vm_compute. split; reflexivity. Qed.
Example txt_render_line4 :
  visualize txt true 4 0 0 0 = [SText [120; 121; 122]; SText [NL]; SText []; STilde 3].
Proof. vm_compute. reflexivity. Qed.

(* A line PAST the file: str.find returns -1, `+ 1` wraps the index to 0, and the loop starts over from the top
   of the file.  An error "at line 6" of the four-line text is rendered with the text of line 2, and one "at
   line 5" with line 1 — silently the wrong source line.  This is why `every reported error carries a line inside
   the file` is load-bearing for the rendering (monitored by the search oracle on every reported error). *)
Example past_the_file_wraps :
  find_line_boundaries txt 4 = [0; 2] /\ slice txt 0 2 = [97; 98] /\
  find_line_boundaries txt 5 = [3; 5] /\
  visualize txt true 6 0 0 0 = [SText [99; 100]; SText [NL]; SText []; STilde 2].
Proof. vm_compute. repeat split; reflexivity. Qed.
Example line_split_needs_range : exists s k, ~ k < nlines s /\
  find_line_boundaries s k <> [line_start s k; line_start s k + length (line_text s k)].
Proof. exists txt, 5. split; [vm_compute; lia|vm_compute; discriminate]. Qed.

(* dispatch: the table is not empty, has the opcodes `match` statements use, and exactly one absorbed row *)
Example dispatch_nonvacuous :
  length op_table >= 150 /\
  existsb (fun r => String.eqb (op_name r) "MATCH_SEQUENCE" && reaches_vm r) op_table = true /\
  map op_name (filter op_absorbed op_table) = ["EXTENDED_ARG"%string] /\
  length intrinsic_table >= 10.
Proof. vm_compute. repeat split; try reflexivity; apply Nat.leb_le; reflexivity. Qed.

(* the chain distinguishes the cases: the same line, four different outcomes *)
Example chain_nonvacuous :
  outcome (Raised cls_TabError (Some 7)) false false = ODefault [7] InfoNone /\
  outcome (Raised cls_SyntaxError None) false true = ODefault [0] InfoNone /\
  outcome (Raised cls_KeyError (Some 7)) false false = OEscape true /\
  outcome (Raised cls_KeyError (Some 7)) true false = ODefault [] InfoCaught /\
  outcome (Raised cls_KeyError (Some 7)) true true = ODefault [] InfoNone /\
  outcome (Raised cls_KeyboardInterrupt None) true false = OEscape false /\
  outcome (Raised cls_UsageError None) true false = OEscape false.
Proof. vm_compute. repeat split; reflexivity. Qed.


(* texts used by the compile-path theorems' witnesses and Examples *)
Definition MSG_INVALID : text := [105; 110; 118; 97; 108; 105; 100; 32; 115; 121; 110; 116; 97; 120]%N.   (* invalid syntax *)
Definition MSG_RETURN : text := [39; 114; 101; 116; 117; 114; 110; 39; 32; 111; 117; 116; 115; 105; 100; 101; 32; 102; 117; 110; 99; 116; 105; 111; 110]%N.   (* 'return' outside function *)
Definition FILE_NL : text := [97; 10; 98; 46; 112; 121]%N.   (* a<newline>b.py *)
Definition FILE_F : text := [102; 46; 112; 121]%N.   (* f.py *)
Definition FILE_DIR_F : text := [47; 97; 47; 98; 47; 102; 46; 112; 121]%N.   (* /a/b/f.py *)
Definition FILE_PAREN : text := [97; 32; 40; 98; 44; 32; 108; 105; 110; 101; 32; 55; 41; 46; 112; 121]%N.   (* a (b, line 7).py *)
Definition FILE_PAREN_REST : text := [98; 44; 32; 108; 105; 110; 101; 32; 55; 41; 46; 112; 121]%N.   (* b, line 7).py *)
Definition MSG_ARABIC : text := [120; 32; 40; 102; 44; 32; 108; 105; 110; 101; 32; 1633; 1634; 41]%N.   (* x (f, line <ARABIC-INDIC ONE><ARABIC-INDIC TWO>) *)
Definition FILE_SURR : text := [120; 32; 40; 99; 97; 102; 56553; 46; 112; 121; 44; 32; 108; 105; 110; 101; 32; 51; 41]%N.   (* x (caf<U+DCE9>.py, line 3) *)

(* ============================================================================================================ *)
(* (4) The compile-error path end to end (Io/Compile.v): compile_bytecode.compile_src_to_pyc, the first-byte
   dispatch and CompileError.__init__ of pyc/compiler.py, and io.py's `except pyc.CompileError`.
   Text = list of code points (N).  nd = the table of Unicode Nd blocks that `\d` and int() use, maxd = int()'s
   digit limit: the theorems hold for EVERY table and limit (the real ones are regenerated on every run and
   `nd_table_wf` checks the side condition on them). *)

(* The matcher returns only readings of the message: msg = g1 " (" g2 ", line " d ")" with an optional final "\n",
   no "\n" in g1 and g2, d a non-empty run of digits. *)
Theorem pattern_match_sound : forall nd msg g1 g2 d,
  re_match nd msg = Some (g1, g2, d) -> decomp nd msg g1 g2 d.
Proof. exact re_match_sound. Qed.
Print Assumptions pattern_match_sound.

(* ... and every reading makes it succeed, with the same digits and with a group 1 at least as long (greedy). *)
Theorem pattern_match_complete : forall nd msg g1' g2' d', is_digit nd SP = false -> decomp nd msg g1' g2' d' ->
  exists g1 g2, re_match nd msg = Some (g1, g2, d') /\ (length g1' <= length g1)%nat /\
                g1 ++ sep_open ++ g2 = g1' ++ sep_open ++ g2'.
Proof. exact re_match_complete. Qed.
Print Assumptions pattern_match_complete.

(* "the n in the message" is well defined: all readings of one message carry the same digits, whatever the
   message text and the file name contain (parentheses, ", line 7)", other scripts' digits ...). *)
Theorem line_unambiguous : forall nd msg g1 g2 d g1' g2' d', is_digit nd SP = false ->
  decomp nd msg g1 g2 d -> decomp nd msg g1' g2' d' -> d = d'.
Proof. exact line_unambiguous_lemma. Qed.
Print Assumptions line_unambiguous.

(* CompileError.__init__ is total up to int()'s limit: either the message has a reading, and then the line is the
   value of ITS digits and the error text is the longest possible group 1 (or int() raises ValueError); or it has
   none, and then error = the whole message, filename = None, line = 1. *)
Theorem compile_error_init_cases : forall nd maxd msg, is_digit nd SP = false ->
  (exists g1 g2 d, decomp nd msg g1 g2 d /\
     (forall g1' g2' d', decomp nd msg g1' g2' d' -> d' = d /\ (length g1' <= length g1)%nat) /\
     compile_error_init nd maxd msg =
       if int_refuses maxd d then CEvalue_error else CEok g1 (Some g2) (int_of nd d)) \/
  ((forall g1 g2 d, ~ decomp nd msg g1 g2 d) /\ compile_error_init nd maxd msg = CEok msg None 1%N).
Proof. exact compile_error_init_cases_lemma. Qed.
Print Assumptions compile_error_init_cases.

(* CompileError(msg) itself raises (ValueError from int()) exactly for a readable message with more digits than
   sys.get_int_max_str_digits(); reproduced on the real class.  No compiler produces such a line number. *)
Theorem compile_error_raises_iff : forall nd maxd msg, is_digit nd SP = false ->
  (compile_error_init nd maxd msg = CEvalue_error <->
   exists g1 g2 d, decomp nd msg g1 g2 d /\ (0 < maxd)%nat /\ (maxd < length d)%nat).
Proof. exact compile_error_raises_iff_lemma. Qed.
Print Assumptions compile_error_raises_iff.

(* The well-formed compiler message, as SyntaxError.__str__ builds it from msg, a file name and a non-negative
   lineno: the reported line is the number in the message; error ++ " (" ++ filename is msg ++ " (" ++ basename;
   and the split is the intended one unless the file's base name itself contains " (". *)
Theorem syntax_error_line : forall nd maxd msg f d,
  wf_nd nd = true -> Compile.no_nl msg = true -> Compile.no_nl (basename f) = true ->
  d <> [] -> forallb ascii_digit d = true -> int_refuses maxd d = false ->
  exists e' f',
    compile_error_init nd maxd (syntax_error_str msg (Some f) (Some d)) = CEok e' (Some f') (ascii_value d) /\
    e' ++ sep_open ++ f' = msg ++ sep_open ++ basename f /\
    ((forall u v, basename f <> u ++ sep_open ++ v) -> e' = msg /\ f' = basename f).
Proof. exact syntax_error_line_lemma. Qed.
Print Assumptions syntax_error_line.

(* Malformed shape 1: a newline in the message or in the file's base name.  The pattern has no DOTALL: no match,
   line 1, and the whole "msg (file, line n)" text becomes the error message. *)
Theorem syntax_error_newline_falls_back : forall nd maxd msg f d,
  wf_nd nd = true -> Compile.no_nl (msg ++ sep_open ++ basename f) = false ->
  d <> [] -> forallb ascii_digit d = true ->
  compile_error_init nd maxd (syntax_error_str msg (Some f) (Some d)) =
    CEok (syntax_error_str msg (Some f) (Some d)) None 1%N.
Proof. exact syntax_error_newline_lemma. Qed.
Print Assumptions syntax_error_newline_falls_back.

(* so "the reported line is the n of the message" is REFUTED for the unchanged code: file "a\nb.py", message
   "invalid syntax", line 3 is reported at line 1 (reproduced on the real pyc.compile_src and end to end) *)
Theorem compile_error_line_refuted : exists msg f d,
  d <> [] /\ forallb ascii_digit d = true /\ ascii_value d = 3%N /\
  exists e, compile_error_init nd_block_starts int_max_str_digits (syntax_error_str msg (Some f) (Some d)) =
            CEok e None 1%N.
Proof.
  exists MSG_INVALID, FILE_NL, [51%N]. split; [discriminate|]. split; [reflexivity|]. split; [reflexivity|].
  eexists. vm_compute. reflexivity.
Qed.
Print Assumptions compile_error_line_refuted.

(* Malformed shape 2: a negative lineno (CPython 3.12 can blame line -1): "-" is not a digit, fallback to line 1. *)
Theorem syntax_error_negative_falls_back : forall nd maxd msg f d,
  wf_nd nd = true -> forallb ascii_digit d = true ->
  compile_error_init nd maxd (syntax_error_str msg (Some f) (Some (45%N :: d))) =
    CEok (syntax_error_str msg (Some f) (Some (45%N :: d))) None 1%N.
Proof. exact syntax_error_negative_lemma. Qed.
Print Assumptions syntax_error_negative_falls_back.

(* Malformed shape 3: no file name, "msg (line n)": fallback to line 1 although CPython names a line. *)
Theorem syntax_error_noname_falls_back : forall nd maxd msg d,
  wf_nd nd = true -> forallb ascii_digit d = true ->
  compile_error_init nd maxd (syntax_error_str msg None (Some d)) =
    CEok (syntax_error_str msg None (Some d)) None 1%N.
Proof. exact syntax_error_noname_lemma. Qed.
Print Assumptions syntax_error_noname_falls_back.

(* The native compile step: compile() returned -> pyc bytes; it raised -> UnicodeEncodeError if str(err) holds a
   lone surrogate (strict .encode("utf-8")), else CompileError(str(err)) (or its ValueError). *)
Theorem compile_native_cases : forall nd maxd,
  compile_native nd maxd CompOk = PBytes /\
  (forall s, existsb is_surrogate s = true -> compile_native nd maxd (CompExc s) = PRaise RUnicodeEncodeError) /\
  (forall s, existsb is_surrogate s = false ->
     compile_native nd maxd (CompExc s) =
       match compile_error_init nd maxd s with
       | CEok e f l => PCompileError e f l
       | CEvalue_error => PRaise RValueError
       end).
Proof. exact compile_native_cases_lemma. Qed.
Print Assumptions compile_native_cases.

(* The first-byte dispatch on ANY output of a compile script (external python_exe included), inverted. *)
Theorem from_output_total : forall nd maxd o,
  match from_output nd maxd o with
  | PBytes => exists p, o = Out 0 p
  | PCompileError e f l => exists s, o = Out 1 (Some s) /\ compile_error_init nd maxd s = CEok e f l
  | PRaise RIndexError => o = OutEmpty
  | PRaise RUnicodeDecodeError => o = Out 1 None
  | PRaise RValueError => exists s, o = Out 1 (Some s) /\ compile_error_init nd maxd s = CEvalue_error
  | PRaise ROSError => exists b p, o = Out b p /\ b <> 0%N /\ b <> 1%N
  | PRaise RUnicodeEncodeError => False
  end.
Proof. exact from_output_total_lemma. Qed.
Print Assumptions from_output_total.

(* io.py: a CompileError, whatever its message, becomes exactly ONE python-compiler-error, at CompileError.line. *)
Theorem compile_error_one_error : forall e f l nofail check,
  io_after_compile (PCompileError e f l) nofail check = Some (ODefault [N.to_nat l] InfoNone).
Proof. exact compile_error_one_error_lemma. Qed.
Print Assumptions compile_error_one_error.

(* End to end over the regenerated tables: a code-generation SyntaxError with a file name and a non-negative line
   (no newline in msg / base name, no lone surrogate) gives the default stub and exactly one error at that line. *)
Theorem compile_stage_error_end_to_end : forall msg f d nofail check,
  Compile.no_nl msg = true -> Compile.no_nl (basename f) = true ->
  existsb is_surrogate (syntax_error_str msg (Some f) (Some d)) = false ->
  d <> [] -> forallb ascii_digit d = true -> int_refuses int_max_str_digits d = false ->
  io_after_compile
    (compile_native nd_block_starts int_max_str_digits (CompExc (syntax_error_str msg (Some f) (Some d))))
    nofail check
  = Some (ODefault [N.to_nat (ascii_value d)] InfoNone).
Proof. exact compile_stage_error_end_to_end_lemma. Qed.
Print Assumptions compile_stage_error_end_to_end.

(* Everything else the compile step can raise (ValueError, UnicodeEncodeError, UnicodeDecodeError, OSError,
   IndexError) is an ordinary Exception for the chain: it ESCAPES unless options.nofail.  With a lone surrogate in
   str(err) - a file whose name is not valid UTF-8 - this is reachable: see compile_error_surrogate_escapes. *)
Theorem compile_step_raise_outcome : forall r nofail check,
  io_after_compile (PRaise r) nofail check =
    Some (if nofail then ODefault [] (if check then InfoNone else InfoCaught) else OEscape true).
Proof. exact compile_step_raise_outcome_lemma. Qed.
Print Assumptions compile_step_raise_outcome.

Theorem compile_error_surrogate_escapes : forall s check,
  existsb is_surrogate s = true ->
  io_after_compile (compile_native nd_block_starts int_max_str_digits (CompExc s)) false check = Some (OEscape true).
Proof. exact compile_stage_error_surrogate_lemma. Qed.
Print Assumptions compile_error_surrogate_escapes.

(* ---- non-vacuity ---- *)
Example table_wf : wf_nd nd_block_starts = true /\ (length nd_block_starts >= 60)%nat /\ int_max_str_digits = 4300%nat.
Proof. vm_compute. repeat split; try reflexivity. apply Nat.leb_le. reflexivity. Qed.

(* "'return' outside function (f.py, line 3)" *)
Example real_message :
  compile_error_init nd_block_starts int_max_str_digits (syntax_error_str MSG_RETURN (Some FILE_F) (Some [51%N])) =
    CEok MSG_RETURN (Some FILE_F) 3%N /\
  io_after_compile (compile_native nd_block_starts int_max_str_digits
                      (CompExc (syntax_error_str MSG_RETURN (Some FILE_DIR_F) (Some [49%N; 50%N])))) false false =
    Some (ODefault [12] InfoNone).
Proof. vm_compute. split; reflexivity. Qed.

(* the hypotheses of syntax_error_line / compile_stage_error_end_to_end are met by that message *)
Example real_message_hyps :
  Compile.no_nl MSG_RETURN = true /\ Compile.no_nl (basename FILE_DIR_F) = true /\ basename FILE_DIR_F = FILE_F /\
  existsb is_surrogate (syntax_error_str MSG_RETURN (Some FILE_DIR_F) (Some [49%N; 50%N])) = false /\
  forallb ascii_digit [49%N; 50%N] = true /\ int_refuses int_max_str_digits [49%N; 50%N] = false.
Proof. vm_compute. repeat split; reflexivity. Qed.

(* greedy group 1: file "a (b, line 7).py": the line is still 3, but the error text swallows " (a" *)
Example paren_in_file_name :
  compile_error_init nd_block_starts int_max_str_digits (syntax_error_str MSG_RETURN (Some FILE_PAREN) (Some [51%N])) =
    CEok (MSG_RETURN ++ [32; 40; 97]%N) (Some FILE_PAREN_REST) 3%N.
Proof. vm_compute. reflexivity. Qed.

(* other scripts' digits are digits for `\d` and for int(): "x (f, line ١٢)" is line 12; "-1" and "(line 5)" fall back *)
Example shapes :
  compile_error_init nd_block_starts int_max_str_digits MSG_ARABIC = CEok [120%N] (Some [102%N]) 12%N /\
  compile_error_init nd_block_starts int_max_str_digits (syntax_error_str [120%N] (Some [102%N]) (Some [45; 49]%N)) =
    CEok (syntax_error_str [120%N] (Some [102%N]) (Some [45; 49]%N)) None 1%N /\
  compile_error_init nd_block_starts int_max_str_digits (syntax_error_str [120%N] None (Some [53%N])) =
    CEok (syntax_error_str [120%N] None (Some [53%N])) None 1%N /\
  compile_native nd_block_starts int_max_str_digits (CompExc FILE_SURR) = PRaise RUnicodeEncodeError.
Proof. vm_compute. repeat split; reflexivity. Qed.

(* ============================================================================================================ *)
(* (5) "Every reported error carries a line inside the file" (Io/ErrLine.v; the director's filter is the C03 model).
   n = number of lines of the file.  MONITORED hypotheses (checked on every program the search analyses, through a
   hook in the worker): every opcode line and every function-range end lies in [1, n]. *)

(* Error.with_stack: the line is the line of an opcode that is on the stack, or it is 0 and then no frame with an
   opcode survives _dedup_opcodes (which drops skip_in_tracebacks frames when the stack has more than one frame). *)
Theorem with_stack_line_cases : forall stack,
  (dedup_opcodes stack = [] /\ with_stack_line stack = 0%Z) \/
  (exists fr, In fr stack /\ f_op fr = Some (with_stack_line stack)).
Proof. exact ErrLineProofs.with_stack_line_cases. Qed.
Print Assumptions with_stack_line_cases.

(* ErrorLog.error + ErrorLog._add with the director's filter (implicit-return adjustment included): a logged error
   that has a position (a surviving opcode, or a non-zero `line=` override inside the file) carries a line in [1, n]. *)
Theorem logged_line_in_file_partial : forall n st rl stack override name ret_op l',
  ops_in_file n stack -> ranges_in_file n st ->
  (forall l, override = Some l -> l = 0 \/ 1 <= l <= n)%Z ->
  (dedup_opcodes stack <> [] \/ exists l, override = Some l /\ l <> 0%Z) ->
  logged st rl stack override name ret_op = Directors.Model.Ok (Some l') -> (1 <= l' <= n)%Z.
Proof. exact logged_line_in_file_lemma. Qed.
Print Assumptions logged_line_in_file_partial.

(* the unconditional statement is REFUTED at this level: an error logged with a stack that holds no opcode (e.g. two
   frames, both skip_in_tracebacks) carries line 0.  Reproduced on the real ErrorLog.error; the search oracle
   reports any such error of a real analysis as error-line-outside-file. *)
Theorem logged_line_in_file_refuted : exists stack,
  ops_in_file 5 stack /\ stack <> [] /\ error_line stack None = 0%Z.
Proof.
  exists [mkF true (Some 2%Z); mkF true (Some 3%Z)]. split.
  - unfold ops_in_file. intros fr l [<- | [<- | []]] E; cbn in E; injection E as E; subst l; split; discriminate.
  - split; [discriminate|reflexivity].
Qed.
Print Assumptions logged_line_in_file_refuted.

Theorem no_opcode_line_zero : forall stack, dedup_opcodes stack = [] -> error_line stack None = 0%Z.
Proof. exact no_opcode_line_zero_lemma. Qed.
Print Assumptions no_opcode_line_zero.

(* non-vacuity: a three-frame stack (the middle frame is tracer_vm's placeholder), an implicit `return None` reported
   by RETURN_VALUE at line 2 of the function 1..4 of a 6-line file is moved to line 4, inside the file *)
Example logged_example :
  with_stack_line [mkF false (Some 6%Z); mkF true (Some 1%Z); mkF false (Some 2%Z)] = 2%Z /\
  match build_events [] [(1, 4)%Z] [] with
  | Directors.Model.Ok ds =>
      logged ds [] [mkF false (Some 6%Z); mkF true (Some 1%Z); mkF false (Some 2%Z)] None 6%N true =
        Directors.Model.Ok (Some 4%Z) /\
      ranges_in_file 6 ds
  | Directors.Model.Raise _ => False
  end.
Proof.
  split; [reflexivity|]. vm_compute. split; [reflexivity|].
  intros k v [E | []]. injection E as <- <-. split; intro H; discriminate H.
Qed.
