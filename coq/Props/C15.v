(* C15 — any compilable source is analysed to a result, never an internal failure.
   PARTIAL by nature: "no exception escapes the VM" cannot be a theorem about a total Gallina function; it is
   established by the declared search in harness/props/c15.py.  The three pieces below are logic and are proved.
   Property theorems only; each is closed by [exact] and followed by Print Assumptions. *)
From Coq Require Import String.
From Coq Require Import List Arith ZArith Bool Lia.
From PV Require Import Io.Model Generated.C15_Handlers Io.Proofs Io.LineProofs.
Import ListNotations.

(* (1) Opcode dispatch is total.  Bound: the finite table regenerated on every run = every opcode name in
   pycnite's tables for Python 3.8, 3.9, 3.10, 3.11, 3.12 (every listed version contributes rows).  Every row
   that the disassembler hands on (everything except EXTENDED_ARG, which pycnite folds into the next
   instruction) has an Opcode class in pyc/opcodes.py and a callable byte_<NAME>(self, state, op) on the
   analysing VM class, so neither `g[op.name]` (KeyError) nor "Unknown opcode" (VirtualMachineError) can occur;
   likewise every 3.12 CALL_INTRINSIC_1/2 name has its byte_<NAME>(self, state). *)
Theorem dispatch_total :
  supported_minor_versions = [8; 9; 10; 11; 12] /\
  (forall v, In v supported_minor_versions -> exists r, In r op_table /\ In v (op_versions r)) /\
  (forall r, In r op_table -> reaches_vm r = true -> op_class r = true /\ op_handler r = true) /\
  (forall i, In i intrinsic_table -> in_handler i = true).
Proof. exact dispatch_total_lemma. Qed.
Print Assumptions dispatch_total.

(* (2) What io.check_or_generate_pyi does with whatever check_py / generate_pyi did, for every reported line
   (None included), both values of options.nofail and options.check:
   - CompileError, ConstantError, IndentationError, TabError, libcst.ParserSyntaxError, SyntaxError:
     the default stub and exactly one python-compiler-error, at `line or 0`;
   - SkipFileError: the default stub plus the skip-file comment, no error;
   - UsageError: re-raised unchanged;
   - any other Exception: with nofail the default stub (plus the "Caught error" comment unless checking) and
     an EMPTY error log; without nofail the exception escapes, annotated with the file name;
   - a BaseException that is not an Exception (KeyboardInterrupt, SystemExit, ...) always escapes;
   - no exception: the analysis result. *)
Theorem outcome_classification : forall (line : option nat) (nofail check : bool),
  (forall c, In c compile_classes ->
     outcome (Raised c line) nofail check = ODefault [line_or_0 line] InfoNone) /\
  outcome (Raised cls_SkipFileError line) nofail check = ODefault [] InfoSkip /\
  (forall c, In c usage_classes -> outcome (Raised c line) nofail check = OEscape false) /\
  (forall c, In c other_exception_classes ->
     outcome (Raised c line) nofail check =
       if nofail then ODefault [] (if check then InfoNone else InfoCaught) else OEscape true) /\
  (forall c, In c non_exception_classes -> outcome (Raised c line) nofail check = OEscape false) /\
  outcome Returned nofail check = OResult.
Proof. exact outcome_classification_lemma. Qed.
Print Assumptions outcome_classification.

(* an exception escapes iff it is a UsageError, or not an Exception at all, or (Other and not nofail) *)
Theorem escape_iff : forall c line nofail check,
  In c class_universe ->
  (escapes (outcome (Raised c line) nofail check) = true <->
   In c usage_classes \/ In c non_exception_classes \/ (In c other_exception_classes /\ nofail = false)).
Proof. exact escape_iff_lemma. Qed.
Print Assumptions escape_iff.

(* (3) For any text and any 0-based line range inside it, _find_all_line_split returns the start offsets of
   lines b..e followed by the end offset (newline excluded) of line e.  No bound on the text. *)
Theorem line_split_exact : forall s b e,
  b <= e -> e < nlines s ->
  find_all_line_split s b e =
    map (line_start s) (seq b (S (e - b))) ++ [line_start s e + length (line_text s e)].
Proof. exact line_split_exact_lemma. Qed.
Print Assumptions line_split_exact.

(* _find_line_boundaries(k) delimits exactly the k-th element of src.split("\n") *)
Theorem line_boundaries_exact : forall s k,
  k < nlines s ->
  find_line_boundaries s k = [line_start s k; line_start s k + length (line_text s k)] /\
  slice s (line_start s k) (line_start s k + length (line_text s k)) = line_text s k.
Proof. exact line_boundaries_exact_lemma. Qed.
Print Assumptions line_boundaries_exact.

(* consecutive boundaries of a multi-line excerpt delimit one line together with its newline *)
Theorem line_with_newline : forall s k,
  S k < nlines s ->
  line_start s (S k) = line_start s k + S (length (line_text s k)) /\
  slice s (line_start s k) (line_start s (S k)) = line_text s k ++ [NL].
Proof. exact line_with_newline_lemma. Qed.
Print Assumptions line_with_newline.

(* the excerpt printed for a one-line error (endline = 0) at a 1-based line inside a non-empty text starts
   with exactly that source line *)
Theorem visualize_single_exact : forall src line col endcol,
  1 <= line -> line <= nlines src -> src <> [] ->
  exists rest, visualize src true line 0 col endcol = SText (line_text src (line - 1)) :: SText [NL] :: rest.
Proof. exact visualize_single_exact_lemma. Qed.
Print Assumptions visualize_single_exact.

(* ---- non-vacuity and the load-bearing hypothesis ---- *)

(* "ab\ncd\n\nxyz" : four lines, the third empty, no trailing newline *)
Definition txt : list nat := [97; 98; 10; 99; 100; 10; 10; 120; 121; 122].
Example txt_lines : lines txt = [[97; 98]; [99; 100]; []; [120; 121; 122]] /\ nlines txt = 4.
Proof. vm_compute. split; reflexivity. Qed.
Example txt_split_all : find_all_line_split txt 0 3 = [0; 3; 6; 7; 10].
Proof. vm_compute. reflexivity. Qed.
Example txt_line2 : find_line_boundaries txt 1 = [3; 5] /\ slice txt 3 5 = [99; 100].
Proof. vm_compute. split; reflexivity. Qed.
Example txt_render_line4 :
  visualize txt true 4 0 0 0 = [SText [120; 121; 122]; SText [NL]; SText []; STilde 3].
Proof. vm_compute. reflexivity. Qed.

(* A line PAST the file: str.find returns -1, `+ 1` wraps the index to 0, and the loop starts over from the top
   of the file.  An error "at line 6" of the four-line text is rendered with the text of line 2, and one "at
   line 5" with line 1 — silently the wrong source line.  This is why `every reported error carries a line inside
   the file` is load-bearing for the rendering (monitored by the search oracle on every reported error). *)
Example past_the_file_wraps :
  find_line_boundaries txt 4 = [0; 2] /\ slice txt 0 2 = [97; 98] /\
  find_line_boundaries txt 5 = [3; 5] /\
  visualize txt true 6 0 0 0 = [SText [99; 100]; SText [NL]; SText []; STilde 2].
Proof. vm_compute. repeat split; reflexivity. Qed.
Example line_split_needs_range : exists s k, ~ k < nlines s /\
  find_line_boundaries s k <> [line_start s k; line_start s k + length (line_text s k)].
Proof. exists txt, 5. split; [vm_compute; lia|vm_compute; discriminate]. Qed.

(* dispatch: the table is not empty, has the opcodes `match` statements use, and exactly one absorbed row *)
Example dispatch_nonvacuous :
  length op_table >= 150 /\
  existsb (fun r => String.eqb (op_name r) "MATCH_SEQUENCE" && reaches_vm r) op_table = true /\
  map op_name (filter op_absorbed op_table) = ["EXTENDED_ARG"%string] /\
  length intrinsic_table >= 10.
Proof. vm_compute. repeat split; try reflexivity; apply Nat.leb_le; reflexivity. Qed.

(* the chain distinguishes the cases: the same line, four different outcomes *)
Example chain_nonvacuous :
  outcome (Raised cls_TabError (Some 7)) false false = ODefault [7] InfoNone /\
  outcome (Raised cls_SyntaxError None) false true = ODefault [0] InfoNone /\
  outcome (Raised cls_KeyError (Some 7)) false false = OEscape true /\
  outcome (Raised cls_KeyError (Some 7)) true false = ODefault [] InfoCaught /\
  outcome (Raised cls_KeyError (Some 7)) true true = ODefault [] InfoNone /\
  outcome (Raised cls_KeyboardInterrupt None) true false = OEscape false /\
  outcome (Raised cls_UsageError None) true false = OEscape false.
Proof. vm_compute. repeat split; reflexivity. Qed.
