(* C04 (history part) - lemmas about coq/Loader/Model.v *)
From Coq Require Import List Bool Arith.
From PV Require Import Loader.Model.
Import ListNotations.

Lemma name_eqb_refl n : name_eqb n n = true.
Proof. unfold name_eqb. destruct (list_eq_dec Nat.eq_dec n n); congruence. Qed.

Lemma name_eqb_true a b : name_eqb a b = true -> a = b.
Proof. unfold name_eqb. destruct (list_eq_dec Nat.eq_dec a b); congruence. Qed.

Lemma lookup_set_same {A} n (v : A) l : lookup n (set n v l) = Some v.
Proof.
  induction l as [|[k w] t IH]; cbn.
  - rewrite name_eqb_refl. reflexivity.
  - destruct (name_eqb n k) eqn:E; cbn; rewrite E; [reflexivity|exact IH].
Qed.

Lemma lookup_set_other {A} n m (v : A) l : name_eqb m n = false -> lookup m (set n v l) = lookup m l.
Proof.
  intro H. induction l as [|[k w] t IH]; cbn.
  - rewrite H. reflexivity.
  - destruct (name_eqb n k) eqn:E; cbn.
    + apply name_eqb_true in E. subst k. rewrite H. reflexivity.
    + destruct (name_eqb m k); [reflexivity|exact IH].
Qed.

Definition ores_of (r : option entry) : ores := match r with Some e => OOk e | None => ONone end.

(* ---- the memo layer (Loader._import_name_cache) --------------------------------------------- *)
Section Memo.
  Variables (fuel : nat) (U : universe).
  Variable Good : mods -> Prop.
  Hypothesis good_nil : Good [].
  (* what the memo layer needs of the module map: an uncached import from a reachable map answers like one from
     the empty map, and keeps the map reachable.  (For the real code this is refuted in general - see below.) *)
  Hypothesis good_slow : forall n s, Good s ->
    Good (fst (import_slow fuel U n s)) /\ snd (import_slow fuel U n s) = snd (import_slow fuel U n []).

  Definition cache_ok (c : list (name * option entry)) : Prop :=
    forall n r, lookup n c = Some r -> snd (import_name fuel U fresh n) = ores_of r.

  Lemma fresh_is_slow n : snd (import_name fuel U fresh n) = snd (import_slow fuel U n []).
  Proof.
    unfold import_name, fresh. cbn [st_cache st_mods lookup].
    destruct (import_slow fuel U n []) as [s0 [| | |e0]]; reflexivity.
  Qed.

  Lemma import_name_step st n : Good (st_mods st) -> cache_ok (st_cache st) ->
    Good (st_mods (fst (import_name fuel U st n))) /\
    cache_ok (st_cache (fst (import_name fuel U st n))) /\
    snd (import_name fuel U st n) = snd (import_name fuel U fresh n).
  Proof.
    intros Hg Hc. unfold import_name at 1 2 3.
    destruct (lookup n (st_cache st)) as [[e|]|] eqn:Hl; cbn [fst snd st_mods st_cache].
    - split; [exact Hg|]. split; [exact Hc|]. symmetry. exact (Hc n (Some e) Hl).
    - split; [exact Hg|]. split; [exact Hc|]. symmetry. exact (Hc n None Hl).
    - destruct (good_slow n (st_mods st) Hg) as [Hg' He].
      rewrite fresh_is_slow. rewrite <- He.
      destruct (import_slow fuel U n (st_mods st)) as [s' r] eqn:Hld. cbn [fst snd] in *.
      assert (Hext : forall v, ores_of v = r -> cache_ok (set n v (st_cache st))).
      { intros v Hv m rm Hm. destruct (name_eqb m n) eqn:E.
        - apply name_eqb_true in E. subst m. rewrite lookup_set_same in Hm. inversion Hm; subst rm.
          rewrite fresh_is_slow, <- He. symmetry. exact Hv.
        - rewrite (lookup_set_other n m v _ E) in Hm. exact (Hc m rm Hm). }
      destruct r as [| | |e]; cbn [fst snd st_mods st_cache].
      + split; [exact Hg'|]. split; [apply (Hext None); reflexivity|reflexivity].
      + split; [exact Hg'|]. split; [exact Hc|reflexivity].
      + split; [exact Hg'|]. split; [exact Hc|reflexivity].
      + split; [exact Hg'|]. split; [apply (Hext (Some e)); reflexivity|reflexivity].
  Qed.

  Lemma run_coherent ops : forall st, Good (st_mods st) -> cache_ok (st_cache st) ->
    run fuel U st ops = fresh_answers fuel U ops.
  Proof.
    induction ops as [|n t IH]; intros st Hg Hc; [reflexivity|].
    cbn [run fresh_answers map].
    destruct (import_name_step st n Hg Hc) as [Hg' [Hc' He]].
    destruct (import_name fuel U st n) as [st' r]. cbn [fst snd] in *.
    rewrite He. f_equal. apply IH; assumption.
  Qed.

  Theorem memo_layer_history_independent_lemma ops :
    run fuel U fresh ops = fresh_answers fuel U ops.
  Proof.
    apply run_coherent; [exact good_nil|]. intros n r H. discriminate.
  Qed.
End Memo.

(* an answer that was cached is repeated verbatim, whatever happened to the module map *)
Lemma cached_answer_is_repeated_lemma fuel U st n st' r :
  import_name fuel U st n = (st', r) -> (r = ONone \/ exists e, r = OOk e) ->
  forall mods', import_name fuel U (mkState mods' (st_cache st')) n = (mkState mods' (st_cache st'), r).
Proof.
  unfold import_name. intros H Hr mods'.
  destruct (lookup n (st_cache st)) as [[e|]|] eqn:Hl.
  - inversion H; subst. cbn [st_cache]. rewrite Hl. reflexivity.
  - inversion H; subst. cbn [st_cache]. rewrite Hl. reflexivity.
  - destruct (import_slow fuel U n (st_mods st)) as [s' [| | |e]].
    + inversion H; subst. cbn [st_cache]. rewrite lookup_set_same. reflexivity.
    + inversion H; subst. destruct Hr as [Hr|[e Hr]]; discriminate.
    + inversion H; subst. destruct Hr as [Hr|[e Hr]]; discriminate.
    + inversion H; subst. cbn [st_cache]. rewrite lookup_set_same. reflexivity.
Qed.

(* an entry of the module map short-circuits the whole load: this is where history enters *)
Lemma load_existing_lemma fuel U n s e :
  lookup n s = Some e -> load (S fuel) U n s = (s, ROk e).
Proof. intro H. cbn [load]. rewrite H. reflexivity. Qed.

(* ---- the module map is NOT coherent: two witnesses ------------------------------------------ *)
Definition no_out (l : list ores) : Prop := Forall (fun r => r <> OOut) l.

(* (1) package 0 defines class 10 and has a sub-module 0.10; module 1 says  v0: n0.n10.
       Fresh: the class.  After import_name("n0.n10"): `t.name in module_map` leaves the NamedType unresolved. *)
Definition U_shadow : universe :=
  [([0], mkRaw true [10] []); ([0; 10], mkRaw false [11] []); ([1], mkRaw false [] [(0, ([0], 10))])].

Lemma shadow_refuted :
  no_out (run 10 U_shadow fresh [[0; 10]; [1]]) /\
  run 10 U_shadow fresh [[0; 10]; [1]] <> fresh_answers 10 U_shadow [[0; 10]; [1]].
Proof. split; [repeat constructor; discriminate|vm_compute; discriminate]. Qed.

(* (2) modules 0 and 1 refer to each other, module 0 also to a class module 1 does not define.
       import_name("n0") fails, but module 1 - linked while 0 was half-loaded - stays in the map;
       import_name("n1") then succeeds, while a fresh loader fails (it has to load 0, which fails). *)
Definition U_cycle : universe :=
  [([0], mkRaw false [12] [(0, ([1], 10))]); ([1], mkRaw false [] [(0, ([0], 12))])].

(* (3) the other direction of (1): package 0 defines class 12, has a sub-module 0.12 and says  v0: n0.n12.n12.
       collect_dependencies drops the dependency "n0.n12" (it is the name of a class of the module), so a fresh
       loader leaves the reference unresolved and fails; after import_name("n0.n12") the same request succeeds. *)
Definition U_own : universe :=
  [([0], mkRaw true [12] [(0, ([0; 12], 12))]); ([0; 12], mkRaw false [12] [])].

Lemma own_class_refuted :
  no_out (run 10 U_own fresh [[0; 12]; [0]]) /\
  run 10 U_own fresh [[0; 12]; [0]] <> fresh_answers 10 U_own [[0; 12]; [0]].
Proof. split; [repeat constructor; discriminate|vm_compute; discriminate]. Qed.

Lemma cycle_refuted :
  no_out (run 10 U_cycle fresh [[0]; [1]]) /\
  run 10 U_cycle fresh [[0]; [1]] = [OErr; OOk (mkEntry false [] [(0, TCls [0] 12)])] /\
  fresh_answers 10 U_cycle [[0]; [1]] = [OErr; OErr].
Proof. split; [repeat constructor; discriminate|split; vm_compute; reflexivity]. Qed.
