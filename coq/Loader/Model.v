(* C04 (history part) - executable model of pytype/load_pytd.py's Loader caches.  NO PROOFS in this file.

   Dialect of stub packages (checked by the harness before a case is handed to the model):
     a module is  (is_package, classes, refs)  where a ref  v: p.c  names a dotted module path p (an
     `import p` line is emitted for it) and a last component c; module names are lists of segment ids;
     first segments and later segments/class ids come from disjoint ranges; p is never the module itself.
   Modelled, branch for branch, for that dialect:
     _ModuleMap (_modules dict, insertion order kept), Loader._import_name_cache, Loader.import_name,
     _import_module_by_name (existing entry first, then the module finder), load_module/process_module
     (the half-linked entry is inserted BEFORE the dependencies are loaded and deleted again on
     BadDependencyError; modules loaded on the way stay cached), _load_ast_dependencies (dependency order,
     _try_import_prefix, the `import` alias that makes a missing module "a local dotted reference",
     submodule loading for names a package's __init__ does not define), LookupExternalTypes.VisitNamedType
     (the `t.name in module_map` test comes FIRST, then the longest loaded prefix), finish_and_verify_ast
     (an unresolved NamedType is an error; it is not cached; in the dialect the re-resolution of direct
     dependencies cannot change an entry, which the correspondence observes on every case). *)
From Coq Require Import List Bool Arith.
Import ListNotations.

Definition name := list nat.
Definition name_eqb (a b : name) : bool := if list_eq_dec Nat.eq_dec a b then true else false.
Definition memn (c : nat) (l : list nat) : bool := existsb (Nat.eqb c) l.

Record rawmod := mkRaw { rm_pkg : bool; rm_classes : list nat; rm_refs : list (nat * (name * nat)) }.
Definition universe := list (name * rawmod).

Inductive target := TUnres (q : name) | TCls (p : name) (c : nat).
Record entry := mkEntry { e_pkg : bool; e_classes : list nat; e_refs : list (nat * target) }.
Definition mods := list (name * entry).

Fixpoint lookup {A} (n : name) (l : list (name * A)) : option A :=
  match l with
  | [] => None
  | (k, v) :: t => if name_eqb n k then Some v else lookup n t
  end.
Definition mem {A} (n : name) (l : list (name * A)) : bool :=
  match lookup n l with Some _ => true | None => false end.
(* dict assignment: replace in place, else append *)
Fixpoint set {A} (n : name) (v : A) (l : list (name * A)) : list (name * A) :=
  match l with
  | [] => [(n, v)]
  | (k, w) :: t => if name_eqb n k then (k, v) :: t else (k, w) :: set n v t
  end.
Definition del {A} (n : name) (l : list (name * A)) : list (name * A) :=
  filter (fun kv => negb (name_eqb n (fst kv))) l.

(* result of _import_module_by_name: None, BadDependencyError, an AST; ROut = model fuel exhausted *)
Inductive res := RNone | RFail | ROut | ROk (e : entry).

Definition raw_entry (r : rawmod) : entry :=
  mkEntry (rm_pkg r) (rm_classes r) (map (fun vr => (fst vr, TUnres (fst (snd vr) ++ [snd (snd vr)]))) (rm_refs r)).

(* collect_dependencies: {module part: {last components}} in first-occurrence order *)
Fixpoint add_dep (p : name) (c : nat) (d : list (name * list nat)) : list (name * list nat) :=
  match d with
  | [] => [(p, [c])]
  | (k, cs) :: t => if name_eqb p k then (k, if memn c cs then cs else cs ++ [c]) :: t else (k, cs) :: add_dep p c t
  end.
Definition deps_of (refs : list (nat * (name * nat))) : list (name * list nat) :=
  fold_left (fun d vr => add_dep (fst (snd vr)) (snd (snd vr)) d) refs [].

(* _Resolver.collect_dependencies drops a dependency whose dotted name is the full name of one of the module's own
   classes:  `not isinstance(mod_ast.Get(k), (pytd.Class, pytd.ParamSpec))` *)
Fixpoint strip_prefix (n p : name) : option name :=
  match n, p with
  | [], r => Some r
  | x :: n', y :: p' => if Nat.eqb x y then strip_prefix n' p' else None
  | _ :: _, [] => None
  end.
Definition own_class (n : name) (classes : list nat) (p : name) : bool :=
  match strip_prefix n p with
  | Some [c] => memn c classes
  | _ => false
  end.
Definition deps_for (n : name) (raw : rawmod) : list (name * list nat) :=
  filter (fun d => negb (own_class n (rm_classes raw) (fst d))) (deps_of (rm_refs raw)).

(* LookupExternalTypes._LookupModuleRecursive: longest prefix of p that is in the module map *)
Fixpoint longest_prefix {A} (k : nat) (p : name) (s : list (name * A)) : option name :=
  if mem p s then Some p else
  match k with
  | 0 => None
  | S k' => match p with [] => None | _ => match removelast p with [] => None | p' => longest_prefix k' p' s end end
  end.

(* VisitNamedType for  v: p.c  in module n.   None = KeyError -> BadDependencyError *)
Definition link_ref (n : name) (s : mods) (r : name * nat) : option target :=
  let (p, c) := r in
  let q := p ++ [c] in
  if mem q s then Some (TUnres q)                         (* "a class with the same name as a module" *)
  else match longest_prefix (length p) p s with
       | None => Some (TUnres q)                          (* MissingModuleError, but `n.p` is an import alias of n *)
       | Some p' =>
           if name_eqb p' n then Some (TUnres q)          (* dotted local reference *)
           else if name_eqb p' p then
             match lookup p s with
             | Some e => if memn c (e_classes e) then Some (TCls p c) else None
             | None => None
             end
           else None                                      (* no nested classes in the dialect *)
       end.

Fixpoint link_all (n : name) (s : mods) (refs : list (nat * (name * nat))) : option (list (nat * target)) :=
  match refs with
  | [] => Some []
  | (v, r) :: t =>
      match link_ref n s r, link_all n s t with
      | Some x, Some l => Some ((v, x) :: l)
      | _, _ => None
      end
  end.

Section Loop.
  Variable ld : name -> mods -> mods * res.      (* _import_module_by_name with one unit of fuel less *)

  (* _try_import_prefix *)
  Fixpoint try_prefix (k : nat) (p : name) (s : mods) : mods * res :=
    match k with
    | 0 => (s, RNone)
    | S k' =>
        match removelast p with
        | [] => (s, RNone)
        | p' => match ld p' s with
                | (s', RNone) => try_prefix k' p' s'
                | r => r
                end
        end
    end.

  (* the submodule loop of _load_ast_dependencies for a package dependency p *)
  Fixpoint load_subs (p : name) (classes : list nat) (cs : list nat) (s : mods) : mods * bool :=
    match cs with
    | [] => (s, true)
    | c :: t =>
        if memn c classes then load_subs p classes t s
        else match ld (p ++ [c]) s with
             | (s', RFail) => (s', false)
             | (s', ROut) => (s', false)
             | (s', _) => load_subs p classes t s'
             end
    end.

  Fixpoint load_deps (d : list (name * list nat)) (s : mods) : mods * bool :=
    match d with
    | [] => (s, true)
    | (p, cs) :: t =>
        match lookup p s with
        | Some e => if e_pkg e then
                      match load_subs p (e_classes e) cs s with
                      | (s', true) => load_deps t s'
                      | r => r
                      end
                    else load_deps t s
        | None =>
            match ld p s with
            | (s', ROk e) =>
                if e_pkg e then
                  match load_subs p (e_classes e) cs s' with
                  | (s'', true) => load_deps t s''
                  | r => r
                  end
                else load_deps t s'
            | (s', RNone) =>
                match try_prefix (length p) p s' with
                | (s'', RFail) => (s'', false)
                | (s'', ROut) => (s'', false)
                | (s'', _) => load_deps t s''     (* a prefix exists, or `n.p` is the import alias: continue *)
                end
            | (s', _) => (s', false)
            end
        end
    end.
End Loop.

Definition out_of_fuel : name -> mods -> mods * res := fun _ s => (s, ROut).

(* _import_module_by_name -> load_module -> process_module *)
Fixpoint load (fuel : nat) (U : universe) (n : name) (s : mods) : mods * res :=
  match fuel with
  | 0 => (s, ROut)
  | S f =>
      match lookup n s with
      | Some e => (s, ROk e)
      | None =>
          match lookup n U with
          | None => (s, RNone)
          | Some raw =>
              let s1 := set n (raw_entry raw) s in
              match load_deps (load f U) (deps_for n raw) s1 with
              | (s2, false) => (del n s2, RFail)
              | (s2, true) =>
                  match link_all n s2 (rm_refs raw) with
                  | None => (del n s2, RFail)
                  | Some refs =>
                      let e := mkEntry (rm_pkg raw) (rm_classes raw) refs in
                      (set n e s2, ROk e)
                  end
              end
          end
      end
  end.

(* ---- the public operation ------------------------------------------------------------------- *)
Inductive ores := ONone | OErr | OOut | OOk (e : entry).
Record state := mkState { st_mods : mods; st_cache : list (name * option entry) }.
Definition fresh : state := mkState [] [].

Definition resolved (e : entry) : bool :=
  forallb (fun vt => match snd vt with TCls _ _ => true | TUnres _ => false end) (e_refs e).

(* finish_and_verify_ast when VerifyLookup fails: re-resolve the external types of the direct dependencies (their
   entries in _modules are REPLACED) and of the module itself (the result is returned and memoised, _modules keeps
   the old AST), then verify again.  VisitClassType keeps a ClassType whenever the lookup does not raise. *)
Definition relink_ref (n : name) (s : mods) (vt : nat * target) : option (nat * target) :=
  match snd vt with
  | TCls p c => match link_ref n s (p, c) with Some _ => Some vt | None => None end
  | TUnres q => match link_ref n s (removelast q, last q 0) with Some t => Some (fst vt, t) | None => None end
  end.
Fixpoint relink_refs (n : name) (s : mods) (l : list (nat * target)) : option (list (nat * target)) :=
  match l with
  | [] => Some []
  | vt :: t => match relink_ref n s vt, relink_refs n s t with
               | Some x, Some r => Some (x :: r)
               | _, _ => None
               end
  end.
Definition relink_entry (n : name) (s : mods) (e : entry) : option entry :=
  match relink_refs n s (e_refs e) with
  | Some r => Some (mkEntry (e_pkg e) (e_classes e) r)
  | None => None
  end.
Definition target_mod (t : target) : name := match t with TCls p _ => p | TUnres q => removelast q end.
Fixpoint dedup (l : list name) : list name :=
  match l with
  | [] => []
  | x :: t => x :: filter (fun y => negb (name_eqb x y)) (dedup t)
  end.
Definition entry_deps (n : name) (e : entry) : list name :=
  filter (fun p => negb (own_class n (e_classes e) p)) (dedup (map (fun vt => target_mod (snd vt)) (e_refs e))).
Fixpoint relink_deps (ks : list name) (s : mods) : mods * bool :=
  match ks with
  | [] => (s, true)
  | k :: t =>
      match longest_prefix (length k) k s with
      | None => (s, false)                                  (* "Can't find pyi for k" *)
      | Some k' =>
          match lookup k' s with
          | None => (s, false)
          | Some e => match relink_entry k' s e with
                      | None => (s, false)
                      | Some e' => relink_deps t (set k' e' s)
                      end
          end
      end
  end.

(* import_name without its memo: _import_module_by_name, then finish_and_verify_ast *)
Definition import_slow (fuel : nat) (U : universe) (n : name) (s : mods) : mods * ores :=
  match load fuel U n s with
  | (s', RNone) => (s', ONone)
  | (s', RFail) => (s', OErr)
  | (s', ROut) => (s', OOut)
  | (s', ROk e) =>
      if resolved e then (s', OOk e)
      else match relink_deps (entry_deps n e) s' with
           | (s'', false) => (s'', OErr)
           | (s'', true) =>
               match relink_entry n s'' e with
               | None => (s'', OErr)
               | Some e' => (s'', if resolved e' then OOk e' else OErr)
               end
           end
  end.

Definition import_name (fuel : nat) (U : universe) (st : state) (n : name) : state * ores :=
  match lookup n (st_cache st) with
  | Some (Some e) => (st, OOk e)
  | Some None => (st, ONone)
  | None =>
      match import_slow fuel U n (st_mods st) with
      | (s', ONone) => (mkState s' (set n None (st_cache st)), ONone)
      | (s', OOk e) => (mkState s' (set n (Some e) (st_cache st)), OOk e)
      | (s', r) => (mkState s' (st_cache st), r)
      end
  end.

Fixpoint run (fuel : nat) (U : universe) (st : state) (ops : list name) : list ores :=
  match ops with
  | [] => []
  | n :: t => let (st', r) := import_name fuel U st n in r :: run fuel U st' t
  end.

(* what the property demands: every answer is the answer of a fresh loader *)
Definition fresh_answers (fuel : nat) (U : universe) (ops : list name) : list ores :=
  map (fun n => snd (import_name fuel U fresh n)) ops.

(* for the correspondence: answers, key list of _modules and of the import_name cache after every operation *)
Fixpoint trace (fuel : nat) (U : universe) (st : state) (ops : list name)
  : list (ores * list name * list (name * bool)) :=
  match ops with
  | [] => []
  | n :: t => let (st', r) := import_name fuel U st n in
      (r, map fst (st_mods st'), map (fun kv => (fst kv, match snd kv with Some _ => true | None => false end)) (st_cache st'))
      :: trace fuel U st' t
  end.
