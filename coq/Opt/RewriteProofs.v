(* C11 — every lossless pass only makes justified rewrites (lemmas). *)
From Coq Require Import List Arith Bool Lia.
From PV Require Import Opt.Syntax Generated.C11_Passes Opt.Model Opt.Spec Opt.Proofs Opt.Rewrites.
Import ListNotations.

Section JR.
Variable H : hier.
Variable mx : nat.
Notation jr := (jr_ty H mx).

(* ---------------------------------------------------------------- congruence on whole lists *)
Section Cong.
  Variable C : list ty -> ty.
  Hypothesis cong : forall a x y b, jr x y -> jr (C (a ++ x :: b)) (C (a ++ y :: b)).
  Lemma cong_all_pre : forall l l', Forall2 jr l l' -> forall pre, jr (C (pre ++ l)) (C (pre ++ l')).
  Proof.
    induction 1 as [|x y l l' Hxy _ IH]; intros pre; [apply jr_refl|].
    eapply jr_trans; [apply cong; exact Hxy|].
    replace (pre ++ y :: l) with ((pre ++ [y]) ++ l) by (rewrite <- app_assoc; reflexivity).
    replace (pre ++ y :: l') with ((pre ++ [y]) ++ l') by (rewrite <- app_assoc; reflexivity).
    apply IH.
  Qed.
  Lemma cong_all : forall l l', Forall2 jr l l' -> jr (C l) (C l').
  Proof. intros l l' F. apply (cong_all_pre l l' F []). Qed.
End Cong.

Lemma jr_union_all : forall l l', Forall2 jr l l' -> jr (TUnion l) (TUnion l').
Proof. apply cong_all. intros; apply jr_in_union; assumption. Qed.
Lemma jr_gen_all : forall k c l l', Forall2 jr l l' -> jr (TGen k c l) (TGen k c l').
Proof. intros k c. apply (cong_all (TGen k c)). intros; apply jr_in_gen; assumption. Qed.
Lemma jr_tup_all : forall k c l l', Forall2 jr l l' -> jr (TTup k c l) (TTup k c l').
Proof. intros k c. apply (cong_all (TTup k c)). intros; apply jr_in_tup; assumption. Qed.
Lemma jr_call_all : forall k c l l', Forall2 jr l l' -> jr (TCall k c l) (TCall k c l').
Proof. intros k c. apply (cong_all (TCall k c)). intros; apply jr_in_call; assumption. Qed.

Lemma Forall2_map_fn : forall (f : ty -> ty) l, (forall x, In x l -> jr x (f x)) -> Forall2 jr l (map f l).
Proof.
  induction l as [|x r IH]; intros Hf; simpl; constructor.
  - apply Hf; left; reflexivity.
  - apply IH; intros; apply Hf; right; assumption.
Qed.

(* ---------------------------------------------------------------- (1) members, JoinTypes, UnionType() *)
Lemma Member_leaf : forall x t, Member x t -> is_union x = false /\ is_nothing x = false.
Proof. induction 1; auto. Qed.
Lemma Member_of_leaf : forall x t, is_union t = false -> Member x t -> x = t.
Proof. intros x t E M. inversion M; subst; [reflexivity | discriminate]. Qed.
Lemma Member_union_iff : forall x ts, Member x (TUnion ts) <-> exists t, In t ts /\ Member x t.
Proof.
  intros x ts. split.
  - intros M. inversion M; subst; [discriminate | eauto].
  - intros [t [Hin M]]. econstructor; eassumption.
Qed.

Lemma flat_Member : forall t x, In x (flat t) <-> Member x t.
Proof.
  induction t using ty_ind'; intros x;
    try (simpl; split; [intros [<-|[]]; constructor; reflexivity
                       | intros M; left; symmetry; apply Member_of_leaf; [reflexivity | exact M]]).
  - simpl. split; [contradiction | intros M; inversion M; subst; discriminate].
  - change (flat (TUnion ts)) with (flat_map flat ts). rewrite in_flat_map, Member_union_iff.
    rewrite Forall_forall in H0. split; intros [t [Hin Hx]]; exists t; split; auto; apply (H0 t Hin); exact Hx.
Qed.

Lemma same_members_flat : forall ts, same_members ts (dedup (flat_map flat ts)).
Proof.
  intros ts x. split.
  - intros [t [Hin M]]. exists x. split.
    + apply dedup_In. apply in_flat_map. exists t. split; [assumption | apply flat_Member; assumption].
    + destruct (Member_leaf _ _ M). constructor; assumption.
  - intros [t' [Hin M]]. rewrite dedup_In in Hin. apply in_flat_map in Hin. destruct Hin as [t [Hin Hf]].
    apply flat_Member in Hf. destruct (Member_leaf _ _ Hf) as [E _].
    rewrite (Member_of_leaf _ _ E M). exists t; auto.
Qed.

Lemma jr_join : forall ts, jr (TUnion ts) (join ts).
Proof.
  intros ts. eapply jr_trans; [apply jr_same_members; apply same_members_flat|].
  unfold join. remember (dedup (flat_map flat ts)) as l eqn:El. clear El ts.
  assert (G : jr (TUnion l) (if existsb is_any l
                             then if existsb is_named_none l then TUnion [TAny; TName KNamed c_none] else TAny
                             else match l with [] => TNothing | _ => TUnion l end)).
  { destruct (existsb is_any l) eqn:Ea.
    - apply existsb_exists in Ea. destruct Ea as [a [Ha Ea]]. destruct a; try discriminate.
      destruct (existsb is_named_none l) eqn:En; [|apply jr_any_absorbs; assumption].
      apply existsb_exists in En. destruct En as [n [Hn En]]. destruct n; try discriminate.
      destruct k; try discriminate. simpl in En. apply orb_true_iff in En.
      eapply jr_optional_any; [exact Ha | exact Hn |].
      destruct En as [En|En]; apply Nat.eqb_eq in En; auto.
    - destruct l; [apply jr_no_member | apply jr_refl]. }
  destruct l as [|y [|z r]]; try exact G. apply jr_one_member.
Qed.

Lemma same_members_norm : forall ts, same_members ts (norm_union ts).
Proof.
  intros ts x. unfold norm_union. split.
  - intros [t [Hin M]]. destruct t; try (exists (TUnion ts0) || idtac);
      try (eexists; split; [apply dedup_In; apply in_flat_map; eexists; split; [exact Hin | left; reflexivity] | exact M]).
    apply Member_union_iff in M. destruct M as [m [Hm M]]. exists m. split; [|assumption].
    apply dedup_In. apply in_flat_map. exists (TUnion ts0). split; [assumption | exact Hm].
  - intros [t' [Hin M]]. rewrite dedup_In in Hin. apply in_flat_map in Hin. destruct Hin as [t [Hin Hf]].
    exists t. split; [assumption|]. destruct t; simpl in Hf; try (destruct Hf as [<-|[]]; assumption).
    apply Member_union_iff. exists t'. auto.
Qed.

Lemma jr_norm_union : forall ts, jr (TUnion ts) (TUnion (norm_union ts)).
Proof. intros; apply jr_same_members; apply same_members_norm. Qed.

(* ---------------------------------------------------------------- the generic visitor *)
Section VisitJR.
  Variable fU : list ty -> ty.
  Variable fG : kind -> cid -> list ty -> ty.
  Variable fN : kind -> cid -> ty.
  Variable fB : kind -> kind.
  Variable I : ty -> Prop.
  Hypothesis I_union : forall ts, I (TUnion ts) -> Forall I ts.
  Hypothesis I_gen : forall k c ps, I (TGen k c ps) -> Forall I ps.
  Hypothesis I_tup : forall k c ps, I (TTup k c ps) -> Forall I ps.
  Hypothesis I_call : forall k c ps, I (TCall k c ps) -> Forall I ps.
  Hypothesis I_visit : forall t, I t -> I (visit fU fG fN fB t).
  Hypothesis fU_jr : forall l, Forall I l -> jr (TUnion l) (fU l).
  Hypothesis fG_jr : forall k c ps, jr (TGen k c ps) (fG (fB k) c ps).
  Hypothesis fN_jr : forall k c, jr (TName k c) (fN k c).
  Hypothesis fT_jr : forall k c ps, jr (TTup k c ps) (TTup (fB k) c ps).
  Hypothesis fC_jr : forall k c ps, jr (TCall k c ps) (TCall (fB k) c ps).

  Lemma visit_jr : forall t, I t -> jr t (visit fU fG fN fB t).
  Proof.
    assert (Ch : forall ps, Forall (fun t => I t -> jr t (visit fU fG fN fB t)) ps -> Forall I ps ->
                 Forall2 jr ps (map (visit fU fG fN fB) ps)).
    { intros ps F1 F2. apply Forall2_map_fn. rewrite Forall_forall in *. auto. }
    induction t using ty_ind'; intros It; simpl; try apply jr_refl.
    - apply fN_jr.
    - pose proof (I_union _ It) as Its.
      eapply jr_trans; [apply jr_union_all; apply (Ch ts H0 Its)|].
      eapply jr_trans; [apply jr_norm_union|]. apply fU_jr.
      apply norm_union_elems; [assumption|]. apply Forall_forall. intros x Hx. apply in_map_iff in Hx.
      destruct Hx as [t [<- Hin]]. apply I_visit. rewrite Forall_forall in Its. auto.
    - eapply jr_trans; [apply jr_gen_all; apply (Ch ps H0 (I_gen _ _ _ It))|]. apply fG_jr.
    - eapply jr_trans; [apply jr_tup_all; apply (Ch ps H0 (I_tup _ _ _ It))|]. apply fT_jr.
    - eapply jr_trans; [apply jr_call_all; apply (Ch ps H0 (I_call _ _ _ It))|]. apply fC_jr.
  Qed.
End VisitJR.

Ltac triv_inv := try (intros; apply Itrue_all); try (intros; exact Logic.I).

Lemma simplify_unions_jr : forall t, jr t (simplify_unions t).
Proof.
  intros t. unfold simplify_unions.
  apply (visit_jr join TGen TName id_kind Itrue); triv_inv; intros; try apply jr_refl. apply jr_join.
Qed.

Lemma simplify_containers_jr : forall b t, jr t (simplify_containers b t).
Proof.
  intros b t. unfold simplify_containers.
  apply (visit_jr (sc_union b) sc_generic TName id_kind Itrue); triv_inv; intros; try apply jr_refl.
  - unfold sc_union. destruct b; [|apply jr_refl]. destruct l as [|x [|y r]]; try apply jr_refl. apply jr_one_member.
  - unfold sc_generic, id_kind. destruct (forallb is_any ps) eqn:E; [apply jr_all_any_container; assumption | apply jr_refl].
Qed.

Lemma collapse_long_unions_jr : forall t, mx <> 0 -> jr t (collapse_long_unions mx t).
Proof.
  intros t N. unfold collapse_long_unions.
  apply (visit_jr (clu_union mx) TGen TName id_kind Itrue); triv_inv; intros; try apply jr_refl.
  unfold clu_union. destruct ((mx <? length l) && negb (existsb is_lit l)) eqn:E.
  - apply andb_true_iff in E. destruct E as [E1 E2]. apply Nat.ltb_lt in E1. apply negb_true_iff in E2.
    apply jr_long_union; assumption.
  - destruct (existsb is_any l); [apply jr_join | apply jr_refl].
Qed.

Lemma adjust_generic_type_jr : forall t, jr t (adjust_generic_type t).
Proof.
  intros t. unfold adjust_generic_type.
  apply (visit_jr TUnion TGen agt_name id_kind Itrue); triv_inv; intros; try apply jr_refl.
  unfold agt_name. destruct k; [apply jr_refl|]. destruct (Nat.eqb c c_object) eqn:E; [|apply jr_refl].
  apply Nat.eqb_eq in E. subst. apply jr_object_is_any.
Qed.

Lemma resolve_jr : forall t, jr t (resolve t).
Proof.
  intros t. unfold resolve.
  apply (visit_jr TUnion TGen (fun _ c => TName KClass c) to_class Itrue); triv_inv; intros; try apply jr_refl.
  - apply jr_lookup_gen.
  - apply jr_lookup_name.
  - apply jr_lookup_tup.
  - apply jr_lookup_call.
Qed.
End JR.
