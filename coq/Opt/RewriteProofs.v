(* C11 — every lossless pass only makes justified rewrites (lemmas). *)
From Coq Require Import List Arith Bool Lia.
From PV Require Import Opt.Syntax Generated.C11_Passes Opt.Model Opt.Spec Opt.Proofs Opt.Rewrites.
Import ListNotations.

Lemma stripped_sym : forall a b, stripped_eqb a b = stripped_eqb b a.
Proof.
  intros a b. destruct (stripped_eqb a b) eqn:E1; destruct (stripped_eqb b a) eqn:E2; try reflexivity.
  - apply stripped_eqb_iff in E1. destruct E1 as [? [? [? ?]]].
    assert (stripped_eqb b a = true) by (apply stripped_eqb_iff; auto). congruence.
  - apply stripped_eqb_iff in E2. destruct E2 as [? [? [? ?]]].
    assert (stripped_eqb a b = true) by (apply stripped_eqb_iff; auto). congruence.
Qed.

Section JR.
Variable H : hier.
Variable mx : nat.
Notation jr := (jr_ty H mx).

(* ---------------------------------------------------------------- congruence on whole lists *)
Section Cong.
  Variable C : list ty -> ty.
  Hypothesis cong : forall a x y b, jr x y -> jr (C (a ++ x :: b)) (C (a ++ y :: b)).
  Lemma cong_all_pre : forall l l', Forall2 jr l l' -> forall pre, jr (C (pre ++ l)) (C (pre ++ l')).
  Proof.
    induction 1 as [|x y l l' Hxy _ IH]; intros pre; [apply jr_refl|].
    eapply jr_trans; [apply cong; exact Hxy|].
    replace (pre ++ y :: l) with ((pre ++ [y]) ++ l) by (rewrite <- app_assoc; reflexivity).
    replace (pre ++ y :: l') with ((pre ++ [y]) ++ l') by (rewrite <- app_assoc; reflexivity).
    apply IH.
  Qed.
  Lemma cong_all : forall l l', Forall2 jr l l' -> jr (C l) (C l').
  Proof. intros l l' F. apply (cong_all_pre l l' F []). Qed.
End Cong.

Lemma jr_union_all : forall l l', Forall2 jr l l' -> jr (TUnion l) (TUnion l').
Proof. apply cong_all. intros; apply jr_in_union; assumption. Qed.
Lemma jr_gen_all : forall k c l l', Forall2 jr l l' -> jr (TGen k c l) (TGen k c l').
Proof. intros k c. apply (cong_all (TGen k c)). intros; apply jr_in_gen; assumption. Qed.
Lemma jr_tup_all : forall k c l l', Forall2 jr l l' -> jr (TTup k c l) (TTup k c l').
Proof. intros k c. apply (cong_all (TTup k c)). intros; apply jr_in_tup; assumption. Qed.
Lemma jr_call_all : forall k c l l', Forall2 jr l l' -> jr (TCall k c l) (TCall k c l').
Proof. intros k c. apply (cong_all (TCall k c)). intros; apply jr_in_call; assumption. Qed.

Lemma jr_var_all : forall n sc hb l l', Forall2 jr l l' -> jr (TVar n sc hb l) (TVar n sc hb l').
Proof. intros n sc hb. apply (cong_all (TVar n sc hb)). intros; apply jr_in_var; assumption. Qed.

Lemma Forall2_map_fn : forall (f : ty -> ty) l, (forall x, In x l -> jr x (f x)) -> Forall2 jr l (map f l).
Proof.
  induction l as [|x r IH]; intros Hf; simpl; constructor.
  - apply Hf; left; reflexivity.
  - apply IH; intros; apply Hf; right; assumption.
Qed.

(* ---------------------------------------------------------------- (1) members, JoinTypes, UnionType() *)
Lemma Member_leaf : forall x t, Member x t -> is_union x = false /\ is_nothing x = false.
Proof. induction 1; auto. Qed.
Lemma Member_of_leaf : forall x t, is_union t = false -> Member x t -> x = t.
Proof. intros x t E M. inversion M; subst; [reflexivity | discriminate]. Qed.
Lemma Member_union_iff : forall x ts, Member x (TUnion ts) <-> exists t, In t ts /\ Member x t.
Proof.
  intros x ts. split.
  - intros M. inversion M; subst; [discriminate | eauto].
  - intros [t [Hin M]]. econstructor; eassumption.
Qed.

Lemma flat_Member : forall t x, In x (flat t) <-> Member x t.
Proof.
  induction t using ty_ind'; intros x;
    try (simpl; split; [intros [<-|[]]; constructor; reflexivity
                       | intros M; left; symmetry; apply Member_of_leaf; [reflexivity | exact M]]).
  - simpl. split; [contradiction | intros M; inversion M; subst; discriminate].
  - change (flat (TUnion ts)) with (flat_map flat ts). rewrite in_flat_map, Member_union_iff.
    rewrite Forall_forall in H0. split; intros [t [Hin Hx]]; exists t; split; auto; apply (H0 t Hin); exact Hx.
Qed.

Lemma same_members_flat : forall ts, same_members ts (dedup (flat_map flat ts)).
Proof.
  intros ts x. split.
  - intros [t [Hin M]]. exists x. split.
    + apply dedup_In. apply in_flat_map. exists t. split; [assumption | apply flat_Member; assumption].
    + destruct (Member_leaf _ _ M). constructor; assumption.
  - intros [t' [Hin M]]. rewrite dedup_In in Hin. apply in_flat_map in Hin. destruct Hin as [t [Hin Hf]].
    apply flat_Member in Hf. destruct (Member_leaf _ _ Hf) as [E _].
    rewrite (Member_of_leaf _ _ E M). exists t; auto.
Qed.

Lemma jr_join : forall ts, jr (TUnion ts) (join ts).
Proof.
  intros ts. eapply jr_trans; [apply jr_same_members; apply same_members_flat|].
  unfold join. remember (dedup (flat_map flat ts)) as l eqn:El. clear El ts.
  assert (G : jr (TUnion l) (if existsb is_any l
                             then if existsb is_named_none l then TUnion [TAny; TName KNamed c_none] else TAny
                             else match l with [] => TNothing | _ => TUnion l end)).
  { destruct (existsb is_any l) eqn:Ea.
    - apply existsb_exists in Ea. destruct Ea as [a [Ha Ea]]. destruct a; try discriminate.
      destruct (existsb is_named_none l) eqn:En; [|apply jr_any_absorbs; assumption].
      apply existsb_exists in En. destruct En as [n [Hn En]]. destruct n; try discriminate.
      destruct k; try discriminate. simpl in En. apply orb_true_iff in En.
      eapply jr_optional_any; [exact Ha | exact Hn |].
      destruct En as [En|En]; apply Nat.eqb_eq in En; auto.
    - destruct l; [apply jr_no_member | apply jr_refl]. }
  destruct l as [|y [|z r]]; try exact G. apply jr_one_member.
Qed.

Lemma same_members_norm : forall ts, same_members ts (norm_union ts).
Proof.
  intros ts x. unfold norm_union. split.
  - intros [t [Hin M]]. destruct (is_union t) eqn:E.
    + destruct t; try discriminate. apply Member_union_iff in M. destruct M as [m [Hm M]].
      exists m. split; [|assumption].
      apply dedup_In. apply in_flat_map. exists (TUnion ts0). split; [assumption | exact Hm].
    + exists t. split; [|assumption]. apply dedup_In. apply in_flat_map. exists t. split; [assumption|].
      destruct t; simpl; try (left; reflexivity); discriminate.
  - intros [t' [Hin M]]. rewrite dedup_In in Hin. apply in_flat_map in Hin. destruct Hin as [t [Hin Hf]].
    exists t. split; [assumption|]. destruct t; simpl in Hf; try (destruct Hf as [<-|[]]; assumption).
    apply Member_union_iff. exists t'. auto.
Qed.

Lemma jr_norm_union : forall ts, jr (TUnion ts) (TUnion (norm_union ts)).
Proof. intros; apply jr_same_members; apply same_members_norm. Qed.

(* ---------------------------------------------------------------- the generic visitor *)
Section VisitJR.
  Variable fU : list ty -> ty.
  Variable fG : kind -> cid -> list ty -> ty.
  Variable fN : kind -> cid -> ty.
  Variable fB : kind -> kind.
  Variable I : ty -> Prop.
  Hypothesis I_union : forall ts, I (TUnion ts) -> Forall I ts.
  Hypothesis I_gen : forall k c ps, I (TGen k c ps) -> Forall I ps.
  Hypothesis I_tup : forall k c ps, I (TTup k c ps) -> Forall I ps.
  Hypothesis I_call : forall k c ps, I (TCall k c ps) -> Forall I ps.
  Hypothesis I_var : forall n sc hb ps, I (TVar n sc hb ps) -> Forall I ps.
  Hypothesis I_visit : forall t, I t -> I (visit fU fG fN fB t).
  Hypothesis fU_jr : forall l, Forall I l -> jr (TUnion l) (fU l).
  Hypothesis fG_jr : forall k c ps, jr (TGen k c ps) (fG (fB k) c ps).
  Hypothesis fN_jr : forall k c, jr (TName k c) (fN k c).
  Hypothesis fT_jr : forall k c ps, jr (TTup k c ps) (TTup (fB k) c ps).
  Hypothesis fC_jr : forall k c ps, jr (TCall k c ps) (TCall (fB k) c ps).

  Lemma visit_jr : forall t, I t -> jr t (visit fU fG fN fB t).
  Proof.
    assert (Ch : forall ps, Forall (fun t => I t -> jr t (visit fU fG fN fB t)) ps -> Forall I ps ->
                 Forall2 jr ps (map (visit fU fG fN fB) ps)).
    { intros ps F1 F2. apply Forall2_map_fn. rewrite Forall_forall in *. auto. }
    induction t using ty_ind'; intros It; simpl; try apply jr_refl.
    - apply fN_jr.
    - pose proof (I_union _ It) as Its.
      eapply jr_trans; [apply jr_union_all; apply (Ch ts H0 Its)|].
      eapply jr_trans; [apply jr_norm_union|]. apply fU_jr.
      apply norm_union_elems; [assumption|]. apply Forall_forall. intros x Hx. apply in_map_iff in Hx.
      destruct Hx as [t [<- Hin]]. apply I_visit. rewrite Forall_forall in Its. auto.
    - eapply jr_trans; [apply jr_gen_all; apply (Ch ps H0 (I_gen _ _ _ It))|]. apply fG_jr.
    - eapply jr_trans; [apply jr_tup_all; apply (Ch ps H0 (I_tup _ _ _ It))|]. apply fT_jr.
    - eapply jr_trans; [apply jr_call_all; apply (Ch ps H0 (I_call _ _ _ It))|]. apply fC_jr.
    - apply jr_var_all. apply (Ch ps H0 (I_var _ _ _ _ It)).
  Qed.
End VisitJR.

Ltac triv_inv := try (intros; apply Itrue_all); try (intros; exact Logic.I).

Lemma simplify_unions_jr : forall t, jr t (simplify_unions t).
Proof.
  intros t. unfold simplify_unions.
  apply (visit_jr join TGen TName id_kind Itrue); triv_inv; intros; try apply jr_refl. apply jr_join.
Qed.

Lemma simplify_containers_jr : forall b t, jr t (simplify_containers b t).
Proof.
  intros b t. unfold simplify_containers.
  apply (visit_jr (sc_union b) sc_generic TName id_kind Itrue); triv_inv; intros; try apply jr_refl.
  - unfold sc_union. destruct b; [|apply jr_refl]. destruct l as [|x [|y r]]; try apply jr_refl. apply jr_one_member.
  - unfold sc_generic, id_kind. destruct (forallb is_any ps) eqn:E; [apply jr_all_any_container; assumption | apply jr_refl].
Qed.

Lemma collapse_long_unions_jr : forall t, mx <> 0 -> jr t (collapse_long_unions mx t).
Proof.
  intros t N. unfold collapse_long_unions.
  apply (visit_jr (clu_union mx) TGen TName id_kind Itrue); triv_inv; intros; try apply jr_refl.
  unfold clu_union. destruct ((mx <? length l) && negb (existsb is_lit l)) eqn:E.
  - apply andb_true_iff in E. destruct E as [E1 E2]. apply Nat.ltb_lt in E1. apply negb_true_iff in E2.
    apply jr_long_union; assumption.
  - destruct (existsb is_any l); [apply jr_join | apply jr_refl].
Qed.

Lemma adjust_generic_type_jr : forall t, jr t (adjust_generic_type t).
Proof.
  intros t. unfold adjust_generic_type.
  apply (visit_jr TUnion TGen agt_name id_kind Itrue); triv_inv; intros; try apply jr_refl.
  unfold agt_name. destruct k; [apply jr_refl|]. destruct (Nat.eqb c c_object) eqn:E; [|apply jr_refl].
  apply Nat.eqb_eq in E. subst. apply jr_object_is_any.
Qed.

Lemma resolve_jr : forall t, jr t (resolve t).
Proof.
  intros t. unfold resolve.
  apply (visit_jr TUnion TGen (fun _ c => TName KClass c) to_class Itrue); triv_inv; intros; try apply jr_refl.
  - apply jr_lookup_gen.
  - apply jr_lookup_name.
  - apply jr_lookup_tup.
  - apply jr_lookup_call.
Qed.

(* ---------------------------------------------------------------- (3) SimplifyUnionsWithSuperclasses *)
Lemma drop_list : forall (keep : ty -> bool) l pre,
  (forall t, In t l -> keep t = false ->
     exists k c k' s, t = TName k c /\ Sub H c s /\ keep (TName k' s) = true /\ In (TName k' s) (pre ++ l)) ->
  jr (TUnion (pre ++ l)) (TUnion (pre ++ filter keep l)).
Proof.
  intros keep. induction l as [|x r IH]; intros pre J; simpl; [apply jr_refl|].
  destruct (keep x) eqn:Kx.
  - replace (pre ++ x :: r) with ((pre ++ [x]) ++ r) by (rewrite <- app_assoc; reflexivity).
    replace (pre ++ x :: filter keep r) with ((pre ++ [x]) ++ filter keep r) by (rewrite <- app_assoc; reflexivity).
    apply IH. intros t Ht Kt. destruct (J t (or_intror Ht) Kt) as [k [c [k' [s [E [Sb [Ks Hs]]]]]]].
    exists k, c, k', s. repeat split; try assumption. rewrite <- app_assoc. exact Hs.
  - destruct (J x (or_introl eq_refl) Kx) as [k [c [k' [s [E [Sb [Ks Hs]]]]]]]. subst x.
    assert (Hs' : In (TName k' s) (pre ++ r)).
    { apply in_app_or in Hs. apply in_or_app. destruct Hs as [Hs|[Hs|Hs]]; auto. congruence. }
    eapply jr_trans; [eapply jr_subclass_absorbed; eassumption|].
    apply IH. intros t Ht Kt. destruct (J t (or_intror Ht) Kt) as [k2 [c2 [k2' [s2 [E2 [Sb2 [Ks2 Hs2]]]]]]].
    exists k2, c2, k2', s2. repeat split; try assumption.
    apply in_app_or in Hs2. apply in_or_app. destruct Hs2 as [Hs2|[Hs2|Hs2]]; auto. congruence.
Qed.

Lemma suws_kept_super : forall k l, ranked H -> Forall (wf k) l ->
  forall c, In (TName k c) l ->
  exists u, In (TName k u) l /\ (suws_count H (filter_map name_of (dedup l)) u <=? 1) = true /\ Sub H c u.
Proof.
  intros k l R F.
  set (members := filter_map name_of (dedup l)).
  assert (M1 : forall c, In c members <-> In (TName k c) l).
  { intros c. unfold members. rewrite filter_map_In. split.
    - intros [t [Hin E]]. rewrite dedup_In in Hin. destruct t; try discriminate. simpl in E. inversion E; subst.
      rewrite Forall_forall in F. specialize (F _ Hin). inversion F; subst. assumption.
    - intros Hin. exists (TName k c). split; [apply dedup_In; assumption | reflexivity]. }
  assert (M2 : NoDup members).
  { unfold members. apply filter_map_NoDup; [|apply dedup_NoDup].
    intros x x' y Hx Hx' E E'. rewrite dedup_In in Hx, Hx'. rewrite Forall_forall in F.
    pose proof (F _ Hx) as W. pose proof (F _ Hx') as W'.
    destruct x; try discriminate. destruct x'; try discriminate. simpl in E, E'.
    inversion W; inversion W'; subst. congruence. }
  assert (K : forall n c, c < n -> In c members ->
              exists u, In u members /\ (suws_count H members u <=? 1) = true /\ Sub H c u).
  { induction n as [|n IH]; intros c Lt Hc; [lia|].
    destruct (suws_count H members c <=? 1) eqn:E.
    - exists c. repeat split; try assumption. constructor.
    - apply Nat.leb_gt in E. unfold suws_count in E.
      destruct (NoDup_two (filter (fun m => memn c (expand_sub H m)) members) c) as [m [Hm Ne]];
        [apply NoDup_filter; assumption | exact E |].
      apply filter_In in Hm. destruct Hm as [Hm Ec]. apply memn_In in Ec. apply expand_sub_sound in Ec.
      destruct (ranked_sub H R _ _ Ec) as [->|Lt']; [congruence|].
      destruct (IH m ltac:(lia) Hm) as [u [Hu [Ku Su]]]. exists u. repeat split; try assumption.
      eapply Sub_trans; eassumption. }
  intros c Hc. destruct (K (S c) c ltac:(lia) (proj2 (M1 c) Hc)) as [u [Hu [Ku Su]]].
  exists u. repeat split; try assumption. apply M1; assumption.
Qed.

Lemma suws_union_jr : forall k l, ranked H -> Forall (wf k) l -> jr (TUnion l) (suws_union H l).
Proof.
  intros k l R F. unfold suws_union.
  eapply jr_trans; [|apply jr_join].
  apply (drop_list _ l []). intros t Ht Kt.
  destruct (name_of t) as [c|] eqn:E; [|discriminate]. destruct t; try discriminate. simpl in E. inversion E; subst c0.
  rewrite Forall_forall in F. pose proof (F _ Ht) as W. assert (k0 = k) by (inversion W; reflexivity). subst k0.
  rewrite <- Forall_forall in F.
  destruct (suws_kept_super k l R F c Ht) as [u [Hu [Ku Su]]].
  exists k, c, k, u. repeat split; try assumption.
Qed.

Lemma simplify_superclasses_jr : forall k t, ranked H -> wf k t -> jr t (simplify_superclasses H t).
Proof.
  intros k t R. unfold simplify_superclasses.
  apply (visit_jr (suws_union H) TGen TName id_kind (wf k)); intros; try apply jr_refl.
  - apply wf_union_inv; assumption.
  - eapply wf_gen_inv; eassumption.
  - eapply wf_tup_inv; eassumption.
  - eapply wf_call_inv; eassumption.
  - eapply wf_var_inv; eassumption.
  - apply simplify_superclasses_wf; assumption.
  - apply (suws_union_jr k); assumption.
Qed.

(* ---------------------------------------------------------------- the relation cannot narrow *)
Lemma Member_sound : forall t v, admits H t v <-> exists x, Member x t /\ admits H x v.
Proof.
  intros t v. rewrite flat_sound. split; intros [x [Hx A]]; exists x; split; auto; apply flat_Member; assumption.
Qed.

Lemma pw_middle : forall a x y b, wider H x y -> pw H (a ++ x :: b) (a ++ y :: b).
Proof.
  induction a as [|z a IH]; intros x y b W; simpl; constructor; try apply wider_refl; try assumption.
  - apply pw_refl.
  - apply IH; assumption.
Qed.

Lemma zip_union_pw_l : forall a b, pw H a (zip_union a b).
Proof.
  induction a as [|x r IH]; intros b; simpl; [constructor|]. destruct b as [|y b']; constructor; [|apply IH].
  intros v A. apply admits_union. exists x. split; [left; reflexivity | assumption].
Qed.
Lemma zip_union_pw_r : forall a b, pw H b (zip_union a b).
Proof.
  induction a as [|x r IH]; intros b; simpl; [constructor|]. destruct b as [|y b']; constructor; [|apply IH].
  intros v A. apply admits_union. exists y. split; [right; left; reflexivity | assumption].
Qed.
Lemma zip_union_length : forall a b, length a = length b -> length (zip_union a b) = length a.
Proof. induction a as [|x r IH]; intros b L; destruct b; simpl in *; try lia. rewrite IH; lia. Qed.

Lemma merged_container_wider : forall t0 t1, same_container t0 t1 ->
  wider H t0 (with_params t0 (zip_union (params_of t0) (params_of t1))) /\
  wider H t1 (with_params t0 (zip_union (params_of t0) (params_of t1))).
Proof.
  intros t0 t1 S. destruct S; simpl.
  - split; apply wider_gen; [apply zip_union_pw_l | apply zip_union_pw_r].
  - split; apply wider_tup; try apply zip_union_pw_l; try apply zip_union_pw_r;
      rewrite zip_union_length; congruence.
  - split; apply wider_call; try apply zip_union_pw_l; try apply zip_union_pw_r;
      rewrite zip_union_length; congruence.
Qed.

Lemma jr_widens_lemma : forall t t', jr t t' -> wider H t t'.
Proof.
  induction 1.
  - apply wider_refl.
  - eapply wider_trans; eassumption.
  - intros v A. apply admits_union in A. destruct A as [t [Hin A]]. apply admits_union.
    apply in_app_or in Hin. destruct Hin as [Hin|[<-|Hin]].
    + exists t. split; [apply in_or_app; auto | assumption].
    + exists y. split; [apply in_or_app; right; left; reflexivity | apply IHjr_ty; assumption].
    + exists t. split; [apply in_or_app; right; right; assumption | assumption].
  - apply wider_gen. apply pw_middle. assumption.
  - apply wider_tup; [apply pw_middle; assumption | rewrite !app_length; reflexivity].
  - apply wider_call; [apply pw_middle; assumption | rewrite !app_length; reflexivity].
  - apply wider_var; [apply pw_middle; assumption | rewrite !app_length; reflexivity].
  - intros v A. apply admits_union in A. destruct A as [t [Hin A]]. apply Member_sound in A.
    destruct A as [x [Mx Ax]]. destruct (proj1 (H0 x) (ex_intro _ t (conj Hin Mx))) as [t' [Hin' Mx']].
    apply admits_union. exists t'. split; [assumption|]. apply Member_sound. exists x; auto.
  - intros v A. apply admits_union in A. destruct A as [t [[<-|[]] A]]. assumption.
  - intros v A. apply admits_union in A. destruct A as [t [[] _]].
  - intros v _. exact Logic.I.
  - intros v _. apply admits_union. exists TAny. split; [left; reflexivity | exact Logic.I].
  - intros v A. apply admits_union. exists x. split; [left; reflexivity | assumption].
  - intros v A. apply admits_tup in A. destruct A as [items [-> [S F]]].
    apply admits_gen. split; [assumption|]. simpl. split; [|exact Logic.I].
    apply Forall2_ex in F. eapply Forall_impl; [|exact F]. intros a [p [Hp Ap]].
    apply admits_union. exists p; auto.
  - apply (cc_conv_wider H true true (TCall k c ps)).
  - destruct (merged_container_wider t0 t1 H0) as [W0 W1].
    intros v A. apply admits_union in A. destruct A as [t [Hin A]]. apply admits_union.
    apply in_app_or in Hin. destruct Hin as [Hin|[<-|Hin]].
    + exists t. split; [apply in_or_app; auto | assumption].
    + eexists. split; [apply in_or_app; right; left; reflexivity | apply W0; assumption].
    + apply in_app_or in Hin. destruct Hin as [Hin|[<-|Hin]].
      * exists t. split; [apply in_or_app; right; right; apply in_or_app; auto | assumption].
      * eexists. split; [apply in_or_app; right; left; reflexivity | apply W1; assumption].
      * exists t. split; [apply in_or_app; right; right; apply in_or_app; auto | assumption].
  - intros v A. apply admits_union in A. destruct A as [t [Hin A]]. apply admits_union.
    apply in_app_or in Hin. destruct Hin as [Hin|[<-|Hin]].
    + exists t. split; [apply in_or_app; auto | assumption].
    + exists (TName k' s). split; [assumption|]. simpl in *. eapply Sub_trans; eassumption.
    + exists t. split; [apply in_or_app; auto | assumption].
  - intros v _. exact Logic.I.
  - intros v _. exact Logic.I.
  - intros v A. apply admits_gen in A. simpl. tauto.
  - intros v A. exact A.
  - intros v A. exact A.
  - intros v A. exact A.
  - intros v A. exact A.
  - intros v _. destruct cps as [|x r]; [congruence|]. apply admits_union. exists x.
    split; [left; reflexivity|]. apply unbounded_admits. inversion H2; assumption.
Qed.

(* ---------------------------------------------------------------- (2) CombineContainers *)
Lemma zip_union_join : forall a b, Forall2 jr (zip_union a b) (zip_join a b).
Proof.
  induction a as [|x r IH]; intros b; simpl; [constructor|]. destruct b as [|y b']; constructor; [|apply IH].
  apply jr_join.
Qed.

Lemma with_params_jr : forall t ps qs, Forall2 jr ps qs -> jr (with_params t ps) (with_params t qs).
Proof.
  intros t ps qs F. destruct t; simpl; try apply jr_refl;
    [apply jr_gen_all | apply jr_tup_all | apply jr_call_all]; assumption.
Qed.

Lemma key_same_container : forall k t0 t1 key, wf k t0 -> wf k t1 ->
  key_of t0 = Some key -> key_of t1 = Some key -> same_container t0 t1.
Proof.
  intros k t0 t1 key W0 W1 K0 K1.
  destruct t0; simpl in K0; try discriminate; destruct t1; simpl in K1; try discriminate;
    inversion K0; subst key; inversion K1; subst; try constructor; try congruence.
  - exfalso. inversion W0; subst. inversion W1; subst. discriminate.
  - exfalso. inversion W0; subst. inversion W1; subst. discriminate.
Qed.

Lemma key_with_params : forall t key ps, key_of t = Some key ->
  (forall k c n, key = KN k c n -> length ps = n) -> key_of (with_params t ps) = Some key.
Proof.
  intros t key ps K L. destruct t; simpl in *; try discriminate; inversion K; subst; try reflexivity;
    rewrite (L _ _ _ eq_refl); reflexivity.
Qed.
Lemma params_with_params : forall t key ps, key_of t = Some key -> params_of (with_params t ps) = ps.
Proof. intros t key ps K. destruct t; simpl in *; try discriminate; reflexivity. Qed.
Lemma with_params_twice : forall t ps qs, with_params (with_params t ps) qs = with_params t qs.
Proof. intros t ps qs. destruct t; reflexivity. Qed.
Lemma key_length : forall t k c n, key_of t = Some (KN k c n) -> length (params_of t) = n.
Proof. intros t k c n K. destruct t; simpl in K; try discriminate; inversion K; reflexivity. Qed.

Definition not_key (key : ckey) (t : ty) : bool := negb (has_key key t).

(* all later containers with this key are folded into the first one *)
Lemma merge_all : forall k key l t pre mid, wf k t -> Forall (wf k) l -> key_of t = Some key ->
  jr (TUnion (pre ++ t :: mid ++ l))
     (TUnion (pre ++ with_params t (fold_left (fun acc x => zip_join acc (params_of x))
                                              (filter (has_key key) l) (params_of t))
                  :: mid ++ filter (not_key key) l)).
Proof.
  intros k key. induction l as [|x r IH]; intros t pre mid Wt Fl Kt; simpl.
  - destruct t; simpl in Kt; try discriminate; apply jr_refl.
  - inversion Fl as [|? ? Wx Fr]; subst. unfold not_key at 1. destruct (has_key key x) eqn:Hx; simpl.
    + apply has_key_iff in Hx.
      pose proof (key_same_container k t x key Wt Wx Kt Hx) as SC.
      eapply jr_trans; [apply (jr_merge_containers H mx pre t mid x r SC)|].
      set (t2 := with_params t (zip_join (params_of t) (params_of x))).
      assert (J : jr (with_params t (zip_union (params_of t) (params_of x))) t2)
        by (apply with_params_jr; apply zip_union_join).
      eapply jr_trans; [apply jr_in_union; exact J|].
      assert (K2 : key_of t2 = Some key).
      { apply key_with_params; [assumption|]. intros k' c n ->. rewrite zip_join_length.
        - eapply key_length; eassumption.
        - rewrite (key_length _ _ _ _ Kt), (key_length _ _ _ _ Hx). reflexivity. }
      assert (W2 : wf k t2).
      { apply with_params_wf; [assumption|]. apply zip_join_wf; apply params_of_wf; assumption. }
      specialize (IH t2 pre mid W2 Fr K2).
      unfold t2 in IH at 2 3. rewrite with_params_twice, (params_with_params _ _ _ Kt) in IH. exact IH.
    + replace (mid ++ x :: r) with ((mid ++ [x]) ++ r) by (rewrite <- app_assoc; reflexivity).
      replace (mid ++ x :: filter (not_key key) r) with ((mid ++ [x]) ++ filter (not_key key) r)
        by (rewrite <- app_assoc; reflexivity).
      apply IH; assumption.
Qed.

Lemma join_head : forall r a rest, jr (TUnion (r :: a :: rest)) (TUnion (join [r; a] :: rest)).
Proof.
  intros r a rest.
  eapply jr_trans; [apply (jr_same_members H mx _ (TUnion [r; a] :: rest))|].
  - intros x. split.
    + intros [t [[<-|[<-|Hin]] M]].
      * exists (TUnion [r; a]). split; [left; reflexivity | apply Member_union_iff; exists r; simpl; auto].
      * exists (TUnion [r; a]). split; [left; reflexivity | apply Member_union_iff; exists a; simpl; auto].
      * exists t. split; [right; assumption | assumption].
    + intros [t [[<-|Hin] M]].
      * apply Member_union_iff in M. destruct M as [t [[<-|[<-|[]]] M]]; eexists; split; try exact M; simpl; auto.
      * exists t. split; [right; right; assumption | assumption].
  - apply (jr_in_union H mx [] _ _ rest). apply jr_join.
Qed.

Definition eff (done : list ckey) (l : list ty) : list ty :=
  filter (fun t => match key_of t with Some k => negb (mem_by ckey_eqb k done) | None => true end) l.

Lemma filter_filter_key : forall key done r,
  filter (not_key key) (eff done r) = eff (key :: done) r.
Proof.
  intros key done r. unfold eff. induction r as [|x r IH]; simpl; [reflexivity|].
  unfold not_key, has_key, mem_by at 2. simpl.
  destruct (key_of x) as [kx|] eqn:Kx; simpl.
  - destruct (mem_by ckey_eqb kx done) eqn:M; simpl.
    + rewrite orb_true_r. simpl. exact IH.
    + unfold not_key, has_key. rewrite Kx. rewrite orb_false_r.
      destruct (ckey_eqb kx key); simpl; [exact IH | f_equal; exact IH].
  - unfold not_key, has_key. rewrite Kx. simpl. f_equal. exact IH.
Qed.

Lemma filter_key_not_key : forall key key' l, key <> key' ->
  filter (has_key key') (filter (not_key key) l) = filter (has_key key') l.
Proof.
  intros key key' l N. induction l as [|x r IH]; simpl; [reflexivity|].
  unfold not_key at 1. destruct (has_key key x) eqn:Hk; simpl.
  - destruct (has_key key' x) eqn:Hk'; [|exact IH].
    apply has_key_iff in Hk. apply has_key_iff in Hk'. congruence.
  - rewrite IH. reflexivity.
Qed.

Section EmitJR.
  Variable k : kind.
  Variable rec : ty -> option ty.
  Hypothesis rec_ok : forall t t', wf k t -> rec t = Some t' -> wider H t t' /\ wf k t'.
  Hypothesis rec_jr : forall t t', wf k t -> rec t = Some t' -> jr t t'.
  Variable whole : list ty.
  Hypothesis whole_wf : Forall (wf k) whole.

  Lemma rec_params_jr : forall ps ps', Forall (wf k) ps -> map_opt rec ps = Some ps' -> Forall2 jr ps ps'.
  Proof.
    intros ps ps' F E. apply map_opt_Forall2 in E. induction E; constructor.
    - inversion F; subst. apply rec_jr; assumption.
    - inversion F; subst. apply IHE; assumption.
  Qed.

  Lemma eff_incl : forall done l, (forall t, In t l -> In t whole) -> Forall (wf k) (eff done l).
  Proof.
    intros done l Sub. apply Forall_forall. intros x Hx. unfold eff in Hx. apply filter_In in Hx.
    rewrite Forall_forall in whole_wf. apply whole_wf. apply Sub. tauto.
  Qed.

  Lemma cc_emit_jr : forall l done result t',
    (forall t, In t l -> In t whole) ->
    wf k result ->
    (forall key, mem_by ckey_eqb key done = false ->
                 filter (has_key key) (eff done l) = filter (has_key key) whole) ->
    cc_emit rec whole done result l = Some t' ->
    jr (TUnion (result :: eff done l)) t'.
  Proof.
    induction l as [|t r IH]; intros done result t' Sub Wr Hyp E; simpl in E.
    - inversion E; subst. simpl. apply jr_one_member.
    - assert (Wt : wf k t).
      { rewrite Forall_forall in whole_wf. apply whole_wf. apply Sub. left; reflexivity. }
      assert (Sub' : forall x, In x r -> In x whole) by (intros; apply Sub; right; assumption).
      destruct (key_of t) as [key|] eqn:Kt.
      + destruct (mem_by ckey_eqb key done) eqn:Md.
        * assert (Ee : eff done (t :: r) = eff done r) by (unfold eff; simpl; rewrite Kt, Md; reflexivity).
          rewrite Ee. apply IH; try assumption. intros key' M'. rewrite <- (Hyp key' M'), Ee. reflexivity.
        * destruct (map_opt rec (merged key whole)) as [ps'|] eqn:Em; [|discriminate].
          assert (Ee : eff done (t :: r) = t :: eff done r) by (unfold eff; simpl; rewrite Kt, Md; reflexivity).
          rewrite Ee.
          pose proof (Hyp key Md) as Hk. rewrite Ee in Hk. simpl in Hk.
          rewrite (proj2 (has_key_iff key t) Kt) in Hk.
          assert (Mg : merged key whole =
                       fold_left (fun acc x => zip_join acc (params_of x)) (filter (has_key key) (eff done r)) (params_of t)).
          { unfold merged. rewrite <- Hk. reflexivity. }
          pose proof (merge_all k key (eff done r) t [result] [] Wt (eff_incl done r Sub') Kt) as MA.
          simpl in MA. rewrite <- Mg, filter_filter_key in MA.
          eapply jr_trans; [exact MA|].
          pose proof (rec_params_jr _ _ (merged_wf k key whole whole_wf) Em) as Fp.
          destruct (rec_params H k rec rec_ok _ _ (merged_wf k key whole whole_wf) Em) as [_ [_ Fw]].
          eapply jr_trans; [apply (jr_in_union H mx [result]); apply with_params_jr; exact Fp|].
          eapply jr_trans; [apply join_head|].
          apply IH; try assumption.
          -- apply join_wf. constructor; [assumption|]. constructor; [|constructor]. apply with_params_wf; assumption.
          -- intros key' M'. unfold mem_by in M'. simpl in M'. apply orb_false_iff in M'. destruct M' as [Ne M'].
             assert (Nk : key <> key') by (intros ->; rewrite (proj2 (ckey_eqb_eq key' key') eq_refl) in Ne; discriminate).
             rewrite <- filter_filter_key, (filter_key_not_key key key' _ Nk).
             rewrite <- (Hyp key' M'), Ee. simpl.
             destruct (has_key key' t) eqn:Hk'; [|reflexivity].
             apply has_key_iff in Hk'. congruence.
      + assert (Ee : eff done (t :: r) = t :: eff done r) by (unfold eff; simpl; rewrite Kt; reflexivity).
        rewrite Ee. eapply jr_trans; [apply join_head|].
        apply IH; try assumption.
        * apply join_wf. repeat constructor; assumption.
        * intros key' M'. rewrite <- (Hyp key' M'), Ee. simpl. unfold has_key at 2. rewrite Kt. reflexivity.
  Qed.
End EmitJR.

Lemma eff_nil : forall l, eff [] l = l.
Proof.
  intros l. unfold eff. induction l as [|x r IH]; simpl; [reflexivity|].
  destruct (key_of x); simpl; f_equal; exact IH.
Qed.

Lemma cc_conv_jr : forall mt mc t, jr t (cc_conv mt mc t).
Proof.
  intros mt mc t. destruct t; simpl; try apply jr_refl.
  - destruct mt; [|apply jr_refl]. eapply jr_trans; [apply jr_tuple_homogeneous|].
    apply (jr_in_gen H mx k c [] _ _ []). apply jr_join.
  - destruct mc; [|apply jr_refl]. apply jr_callable_degenerate.
Qed.

Lemma cc_union_jr : forall k rec,
  (forall t t', wf k t -> rec t = Some t' -> wider H t t' /\ wf k t') ->
  (forall t t', wf k t -> rec t = Some t' -> jr t t') ->
  forall l0 t', Forall (wf k) l0 -> cc_union rec l0 = Some t' -> jr (TUnion l0) t'.
Proof.
  intros k rec Hok Hjr l0 t' F0 E. unfold cc_union in E.
  destruct (negb (existsb is_generic l0)); [inversion E; subst; apply jr_refl|].
  set (u := join l0) in *.
  set (l := match u with TUnion l' => l' | _ => [u] end) in *.
  assert (Wu : wf k u) by (apply join_wf; assumption).
  assert (Fl : Forall (wf k) l).
  { unfold l. destruct u; try (constructor; [assumption | constructor]). apply wf_union_inv; assumption. }
  assert (J1 : jr (TUnion l0) (TUnion l)).
  { eapply jr_trans; [apply jr_join|]. fold u. unfold l. destruct u; try apply jr_one_member_wrap. apply jr_refl. }
  set (mt := should_merge true None l) in *. set (mc := should_merge false None l) in *.
  set (l2 := if mt || mc then map (cc_conv mt mc) l else l) in *.
  assert (Fl2 : Forall (wf k) l2).
  { unfold l2. destruct (mt || mc); [|assumption]. apply Forall_forall. intros x Hx.
    apply in_map_iff in Hx. destruct Hx as [t [<- Hin]]. apply cc_conv_wf. rewrite Forall_forall in Fl; auto. }
  assert (J2 : jr (TUnion l) (TUnion l2)).
  { unfold l2. destruct (mt || mc); [|apply jr_refl]. apply jr_union_all. apply Forall2_map_fn.
    intros; apply cc_conv_jr. }
  destruct (negb (has_redundant l2)).
  { inversion E; subst. eapply jr_trans; eassumption. }
  eapply jr_trans; [exact J1|]. eapply jr_trans; [exact J2|].
  eapply jr_trans; [apply (jr_same_members H mx l2 (TNothing :: l2))|].
  - intros x. split.
    + intros [t [Hin M]]. exists t. split; [right; assumption | assumption].
    + intros [t [[<-|Hin] M]]; [inversion M; subst; discriminate | exists t; auto].
  - rewrite <- (eff_nil l2) at 1.
    apply (cc_emit_jr k rec Hok Hjr l2 Fl2 l2 [] TNothing t'); try assumption.
    + auto.
    + constructor.
    + intros key _. rewrite eff_nil. reflexivity.
Qed.

Lemma cc_jr : forall k n t t', wf k t -> cc n t = Some t' -> jr t t'.
Proof.
  intros k n; induction n as [|f IH]; intros t t' W E; simpl in E; [discriminate|].
  assert (Hok : forall t t', wf k t -> cc f t = Some t' -> wider H t t' /\ wf k t')
    by (intros; eapply cc_sound; eassumption).
  destruct t; try (inversion E; subst; apply jr_refl).
  - destruct (map_opt (cc f) ts) as [ts'|] eqn:Em; [|discriminate].
    destruct (rec_params H k (cc f) Hok _ _ (wf_union_inv _ _ W) Em) as [_ [_ F']].
    eapply jr_trans; [apply jr_union_all; apply (rec_params_jr k (cc f) IH _ _ (wf_union_inv _ _ W) Em)|].
    eapply jr_trans; [apply jr_norm_union|].
    apply (cc_union_jr k (cc f) Hok IH); [|assumption].
    apply norm_union_elems; [apply wf_union_inv | assumption].
  - destruct (map_opt (cc f) ps) as [ps'|] eqn:Em; [|discriminate]. simpl in E. inversion E; subst.
    apply jr_gen_all. apply (rec_params_jr k (cc f) IH _ _ (wf_gen_inv _ _ _ _ W) Em).
  - destruct (map_opt (cc f) ps) as [ps'|] eqn:Em; [|discriminate]. simpl in E. inversion E; subst.
    apply jr_tup_all. apply (rec_params_jr k (cc f) IH _ _ (wf_tup_inv _ _ _ _ W) Em).
  - destruct (map_opt (cc f) ps) as [ps'|] eqn:Em; [|discriminate]. simpl in E. inversion E; subst.
    apply jr_call_all. apply (rec_params_jr k (cc f) IH _ _ (wf_call_inv _ _ _ _ W) Em).
  - destruct (map_opt (cc f) ps) as [ps'|] eqn:Em; [|discriminate]. simpl in E. inversion E; subst.
    apply jr_var_all. apply (rec_params_jr k (cc f) IH _ _ (wf_var_inv _ _ _ _ _ W) Em).
Qed.

Lemma combine_containers_jr : forall k t, wf k t -> jr t (combine_containers t).
Proof.
  intros k t W. unfold combine_containers, cc_top. destruct (cc (2 * size t + 2) t) eqn:E; [|apply jr_refl].
  apply (cc_jr k _ _ _ W E).
Qed.

(* ---------------------------------------------------------------- `==`-duplicates *)
Lemma same_members_sets : forall a b, (forall x, In x a <-> In x b) -> same_members a b.
Proof. intros a b E x. split; intros [t [Hin M]]; exists t; split; auto; apply E; assumption. Qed.

Lemma tys_py_eqb_jr : forall l, Forall (fun a => forall b, py_eqb a b = true -> jr a b) l ->
  forall l', tys_py_eqb l l' = true -> Forall2 jr l l'.
Proof.
  intros l F. induction F as [|x r Hx _ IH]; destruct l' as [|y r']; simpl; intros E; try discriminate; constructor.
  - apply andb_true_iff in E. apply Hx. tauto.
  - apply andb_true_iff in E. apply IH. tauto.
Qed.

Lemma py_eqb_jr : forall a b, py_eqb a b = true -> jr a b.
Proof.
  intros a; induction a using ty_ind'; intros b E;
    try (assert (E' : ty_eqb _ b = true) by (destruct b; exact E);
         apply ty_eqb_eq in E'; subst b; apply jr_refl);
    destruct b; simpl in E; try discriminate.
  - apply andb_true_iff in E. destruct E as [E1 E2]. rewrite forallb_forall in E1, E2.
    apply jr_same_members. apply same_members_sets. intros x. split; intros Hx.
    + apply memb_In. apply E1. assumption.
    + apply memb_In. apply E2. assumption.
  - change (kind_eqb k k0 && Nat.eqb c c0 && tys_py_eqb ps ps0 = true) in E.
    rewrite !andb_true_iff, kind_eqb_eq, Nat.eqb_eq in E. destruct E as [[-> ->] E].
    apply jr_gen_all. apply (tys_py_eqb_jr ps H0 _ E).
  - change (kind_eqb k k0 && Nat.eqb c c0 && tys_py_eqb ps ps0 = true) in E.
    rewrite !andb_true_iff, kind_eqb_eq, Nat.eqb_eq in E. destruct E as [[-> ->] E].
    apply jr_tup_all. apply (tys_py_eqb_jr ps H0 _ E).
  - change (kind_eqb k k0 && Nat.eqb c c0 && tys_py_eqb ps ps0 = true) in E.
    rewrite !andb_true_iff, kind_eqb_eq, Nat.eqb_eq in E. destruct E as [[-> ->] E].
    apply jr_call_all. apply (tys_py_eqb_jr ps H0 _ E).
  - change (Nat.eqb n n0 && Nat.eqb sc sc0 && Bool.eqb hb hb0 && tys_py_eqb ps ps0 = true) in E.
    rewrite !andb_true_iff, !Nat.eqb_eq, Bool.eqb_true_iff in E. destruct E as [[[-> ->] ->] E].
    apply jr_var_all. apply (tys_py_eqb_jr ps H0 _ E).
Qed.

(* representative of a type among the `==`-deduplicated list *)
Definition py_rep (D : list ty) (r : ty) : ty :=
  if memb r D then r else match find (py_eqb r) D with Some y => y | None => r end.

Lemma py_rep_spec : forall l r, In r l -> In (py_rep (dedup_py l) r) (dedup_py l) /\ jr r (py_rep (dedup_py l) r).
Proof.
  intros l r Hin. unfold py_rep, dedup_py. destruct (memb r (dedup_by py_eqb l)) eqn:M.
  - split; [apply memb_In; assumption | apply jr_refl].
  - destruct (dedup_by_cover py_eqb py_eqb_refl l r Hin) as [y [Hy Ey]].
    destruct (find (py_eqb r) (dedup_by py_eqb l)) as [z|] eqn:Fz.
    + apply find_some in Fz. destruct Fz as [Hz Ez].
      split; [exact Hz | apply py_eqb_jr; exact Ez].
    + exfalso. pose proof (find_none _ _ Fz y Hy) as N. congruence.
Qed.

Lemma dedup_py_jr : forall l, jr (TUnion l) (TUnion (dedup_py l)).
Proof.
  intros l. eapply jr_trans; [apply jr_union_all; apply (Forall2_map_fn (py_rep (dedup_py l)))|].
  - intros x Hx. apply (py_rep_spec l x Hx).
  - apply jr_same_members. apply same_members_sets. intros x. split.
    + intros Hx. apply in_map_iff in Hx. destruct Hx as [r [<- Hr]]. apply (py_rep_spec l r Hr).
    + intros Hx. apply in_map_iff. exists x. split.
      * unfold py_rep. rewrite (proj2 (memb_In x (dedup_py l)) Hx). reflexivity.
      * eapply dedup_by_subset; eassumption.
Qed.

(* ---------------------------------------------------------------- parameters, signatures *)
Variable cls : option cid.
Notation jp := (jr_param H mx cls).
Notation jsig := (jr_sig H mx cls).
Notation jsigs := (jr_sigs H mx cls).

Lemma jr_omut_refl : forall m, jr_omut H mx m m.
Proof. intros [m|]; simpl; [apply jr_refl | exact Logic.I]. Qed.
Lemma jp_refl : forall p, jp p p.
Proof. intros [n t kd op m]. apply jp_types; [apply jr_refl | apply jr_omut_refl]. Qed.
Lemma jr_oparam_refl : forall p, jr_oparam H mx cls p p.
Proof. intros [p|]; simpl; [apply jp_refl | exact Logic.I]. Qed.
Lemma jr_exc_refl : forall es, jr_exc H mx es es.
Proof. intros es. split; intros e He; exists e; split; auto; apply jr_refl. Qed.
Lemma jsig_refl : forall s, jsig s s.
Proof.
  intros s. unfold jr_sig. split; [apply Forall2_refl; apply jp_refl|].
  split; [apply jr_oparam_refl|]. split; [apply jr_oparam_refl|]. split; [apply jr_refl | apply jr_exc_refl].
Qed.
Lemma jsigs_refl : forall l, jsigs l l.
Proof. intros l. apply js_each. apply Forall2_refl. apply jsig_refl. Qed.

Lemma map_param_jr : forall (I : ty -> Prop) f p, (forall t, I t -> jr t (f t)) -> wf_param I p -> jp p (map_param f p).
Proof.
  intros I f [n t kd op m] Hf [W M]. unfold map_param; simpl in *. apply jp_types; [auto|].
  destruct m; simpl; auto.
Qed.

Lemma map_sig3_jr : forall (I : ty -> Prop) fp fr fe ft s,
  (forall t, I t -> jr t (fp t)) -> (forall t, I t -> jr t (fr t)) -> (forall t, I t -> jr t (fe t)) ->
  wf_sig I s -> jsig s (map_sig4 fp fr fe ft s).
Proof.
  intros I fp fr fe ft s Hp Hr He [Pp [S [SS [R E]]]]. unfold jr_sig, map_sig4; simpl. repeat split.
  - apply Forall2_map_r. intros p Hin. eapply map_param_jr; [eassumption|]. rewrite Forall_forall in Pp; auto.
  - destruct (s_star s); simpl; [eapply map_param_jr; eassumption | exact Logic.I].
  - destruct (s_starstar s); simpl; [eapply map_param_jr; eassumption | exact Logic.I].
  - auto.
  - intros e Hin. exists (fe e). split; [apply in_map; assumption|]. apply He. rewrite Forall_forall in E; auto.
  - intros e' Hin. apply in_map_iff in Hin. destruct Hin as [e [<- Hin]]. exists e. split; [assumption|].
    apply He. rewrite Forall_forall in E; auto.
Qed.

(* (4) RemoveDuplicates *)
Lemma remove_dups_jr : forall l pre seen, (forall x, In x seen <-> In x pre) ->
  jsigs (pre ++ l) (pre ++ dedup_from sig_eqb seen l).
Proof.
  induction l as [|x r IH]; intros pre seen E; simpl; [apply jsigs_refl|].
  destruct (mem_by sig_eqb x seen) eqn:M.
  - apply (mem_by_In sig_eqb sig_eqb_eq) in M. apply E in M. apply in_split in M. destruct M as [a [b ->]].
    eapply js_trans; [|apply IH; exact E].
    rewrite <- !app_assoc. simpl. apply js_identical_removed.
  - replace (pre ++ x :: r) with ((pre ++ [x]) ++ r) by (rewrite <- app_assoc; reflexivity).
    replace (pre ++ x :: dedup_from sig_eqb (x :: seen) r) with ((pre ++ [x]) ++ dedup_from sig_eqb (x :: seen) r)
      by (rewrite <- app_assoc; reflexivity).
    apply IH. intros y. simpl. rewrite in_app_iff, E. simpl. tauto.
Qed.
Lemma remove_duplicates_jr : forall f, jr_func H mx cls f (remove_duplicates_f f).
Proof.
  intros f. unfold jr_func, remove_duplicates_f; simpl. repeat split.
  apply (remove_dups_jr (f_sigs f) [] []). intros; tauto.
Qed.

(* (4) CombineReturnsAndExceptions *)
Definition merge2 (acc x : sig) : sig :=
  mkSig (s_params acc) (s_star acc) (s_starstar acc) (TUnion [s_ret acc; s_ret x]) (s_exc acc ++ s_exc x)
        (s_template acc).
Definition not_same (s x : sig) : bool := negb (stripped_eqb s x).

Lemma sig_merge_all : forall s l acc pre mid, same_parameters s acc ->
  jsigs (pre ++ acc :: mid ++ l)
        (pre ++ fold_left merge2 (filter (stripped_eqb s) l) acc :: mid ++ filter (not_same s) l).
Proof.
  intros s. induction l as [|x r IH]; intros acc pre mid SP; simpl; [apply jsigs_refl|].
  unfold not_same at 1. destruct (stripped_eqb s x) eqn:E; simpl.
  - apply stripped_eqb_iff in E. destruct SP as [P1 [P2 [P3 P4]]]. destruct E as [E1 [E2 [E3 E4]]].
    eapply js_trans; [apply (js_merged H mx cls pre acc mid x r); unfold same_parameters; repeat split; congruence|].
    apply (IH (merge2 acc x)). unfold same_parameters, merge2; simpl. auto.
  - replace (mid ++ x :: r) with ((mid ++ [x]) ++ r) by (rewrite <- app_assoc; reflexivity).
    replace (mid ++ x :: filter (not_same s) r) with ((mid ++ [x]) ++ filter (not_same s) r)
      by (rewrite <- app_assoc; reflexivity).
    apply IH; assumption.
Qed.

Lemma fold_merge2_shape : forall l acc,
  s_params (fold_left merge2 l acc) = s_params acc /\ s_star (fold_left merge2 l acc) = s_star acc /\
  s_starstar (fold_left merge2 l acc) = s_starstar acc /\
  s_exc (fold_left merge2 l acc) = s_exc acc ++ flat_map s_exc l /\
  same_members [s_ret (fold_left merge2 l acc)] (s_ret acc :: map s_ret l).
Proof.
  induction l as [|x r IH]; intros acc; simpl.
  - rewrite app_nil_r. split; [reflexivity|]. split; [reflexivity|]. split; [reflexivity|]. split; [reflexivity|].
    intros y; tauto.
  - destruct (IH (merge2 acc x)) as [A [B [C [D M]]]]. simpl in *. rewrite A, B, C, D, <- app_assoc.
    split; [reflexivity|]. split; [reflexivity|]. split; [reflexivity|]. split; [reflexivity|].
    intros y. rewrite (M y). split.
    + intros [t [[<-|Hin] Mt]].
      * apply Member_union_iff in Mt. destruct Mt as [t [[<-|[<-|[]]] Mt]]; eexists; split; try exact Mt; simpl; auto.
      * exists t. split; [right; right; assumption | assumption].
    + intros [t [[<-|[<-|Hin]] Mt]].
      * exists (TUnion [s_ret acc; s_ret x]). split; [left; reflexivity|]. apply Member_union_iff.
        exists (s_ret acc). simpl; auto.
      * exists (TUnion [s_ret acc; s_ret x]). split; [left; reflexivity|]. apply Member_union_iff.
        exists (s_ret x). simpl; auto.
      * exists t. split; [right; assumption | assumption].
Qed.

Lemma merged_group_jr : forall s ms whole,
  filter (stripped_eqb s) whole = s :: ms ->
  jsig (fold_left merge2 ms s) (combine_group whole s).
Proof.
  intros s ms whole Fw. destruct (fold_merge2_shape ms s) as [A [B [C [D M]]]].
  unfold jr_sig, combine_group. rewrite Fw. simpl. rewrite A, B, C, D.
  split; [apply Forall2_refl; apply jp_refl|]. split; [apply jr_oparam_refl|]. split; [apply jr_oparam_refl|]. split.
  - eapply jr_trans; [apply jr_one_member_wrap|].
    eapply jr_trans; [apply jr_same_members; exact M|].
    eapply jr_trans; [apply dedup_py_jr|]. apply jr_join.
  - split.
    + intros e He. destruct (dedup_by_cover py_eqb py_eqb_refl _ e He) as [y [Hy Ey]].
      exists y. split; [exact Hy | apply py_eqb_jr; exact Ey].
    + intros e' He. exists e'. split; [eapply dedup_by_subset; exact He | apply jr_refl].
Qed.

Definition effS (seen : list sig) (l : list sig) : list sig :=
  filter (fun s => negb (mem_by stripped_eqb s seen)) l.

Lemma stripped_trans_false : forall s s0 x, stripped_eqb s x = true -> stripped_eqb s0 s = false -> stripped_eqb s0 x = false.
Proof.
  intros s s0 x E N. destruct (stripped_eqb s0 x) eqn:E2; [|reflexivity].
  apply stripped_eqb_iff in E. apply stripped_eqb_iff in E2. destruct E as [? [? [? ?]]]. destruct E2 as [? [? [? ?]]].
  assert (stripped_eqb s0 s = true) by (apply stripped_eqb_iff; repeat split; congruence). congruence.
Qed.

Lemma combine_jr : forall whole l seen pre,
  (forall s0, mem_by stripped_eqb s0 seen = false ->
     filter (stripped_eqb s0) (effS seen l) = filter (stripped_eqb s0) whole) ->
  jsigs (pre ++ effS seen l) (pre ++ map (combine_group whole) (dedup_from stripped_eqb seen l)).
Proof.
  intros whole. induction l as [|s r IH]; intros seen pre Hyp; [simpl; apply jsigs_refl|].
  simpl dedup_from. destruct (mem_by stripped_eqb s seen) eqn:M.
  - assert (Ee : effS seen (s :: r) = effS seen r) by (unfold effS; simpl; rewrite M; reflexivity).
    rewrite Ee. apply IH. intros s0 M0. rewrite <- (Hyp s0 M0), Ee. reflexivity.
  - assert (Ee : effS seen (s :: r) = s :: effS seen r) by (unfold effS; simpl; rewrite M; reflexivity).
    rewrite Ee. pose proof (Hyp s M) as Hs. rewrite Ee in Hs. simpl in Hs. rewrite stripped_eqb_refl in Hs.
    eapply js_trans; [apply (sig_merge_all s (effS seen r) s pre []); unfold same_parameters; auto|].
    simpl.
    assert (Fe : filter (not_same s) (effS seen r) = effS (s :: seen) r).
    { unfold effS, mem_by. clear. induction r as [|x r IHr]; simpl; [reflexivity|].
      destruct (existsb (stripped_eqb x) seen) eqn:Mx; simpl.
      - rewrite orb_true_r. simpl. exact IHr.
      - rewrite orb_false_r. unfold not_same at 1. rewrite (stripped_sym s x).
        destruct (stripped_eqb x s); simpl; [exact IHr | f_equal; exact IHr]. }
    rewrite Fe.
    eapply js_trans.
    + apply (js_each H mx cls (pre ++ _ :: effS (s :: seen) r)
                             (pre ++ combine_group whole s :: effS (s :: seen) r)).
      apply Forall2_app; [apply Forall2_refl; apply jsig_refl|]. constructor; [|apply Forall2_refl; apply jsig_refl].
      apply merged_group_jr. symmetry. exact Hs.
    + replace (pre ++ combine_group whole s :: effS (s :: seen) r)
        with ((pre ++ [combine_group whole s]) ++ effS (s :: seen) r) by (rewrite <- app_assoc; reflexivity).
      replace (pre ++ combine_group whole s :: map (combine_group whole) (dedup_from stripped_eqb (s :: seen) r))
        with ((pre ++ [combine_group whole s]) ++ map (combine_group whole) (dedup_from stripped_eqb (s :: seen) r))
        by (rewrite <- app_assoc; reflexivity).
      apply IH. intros s0 M0. unfold mem_by in M0. simpl in M0. apply orb_false_iff in M0. destruct M0 as [N0 M0].
      rewrite <- Fe. rewrite <- (Hyp s0 M0), Ee. simpl. rewrite N0.
      clear - N0. induction (effS seen r) as [|x l IHl]; simpl; [reflexivity|].
      unfold not_same at 1. destruct (stripped_eqb s x) eqn:Ex; simpl.
      * rewrite (stripped_trans_false s s0 x Ex N0). exact IHl.
      * rewrite IHl. reflexivity.
Qed.
End JR.

(* ================================================================== functions, units, the pipeline *)
Lemma has_flag_enabled_l : forall o f fl, has_flag f fl = true -> forallb (enabled o) fl = true -> enabled o f = true.
Proof.
  intros o f fl Hf En. unfold has_flag in Hf. apply existsb_exists in Hf. destruct Hf as [g [Hg E]].
  rewrite forallb_forall in En. specialize (En g Hg). destruct f, g; try discriminate; assumption.
Qed.

Lemma effS_nil : forall l, effS [] l = l.
Proof. intros l. unfold effS. induction l as [|x r IH]; simpl; [reflexivity | f_equal; exact IH]. Qed.

Lemma combine_returns_jr : forall H mx cls f, jr_func H mx cls f (combine_returns_f f).
Proof.
  intros H mx cls f. unfold jr_func, combine_returns_f; simpl. repeat split.
  pose proof (combine_jr H mx cls (f_sigs f) (f_sigs f) [] []) as C.
  assert (Hy : forall s0, mem_by stripped_eqb s0 [] = false ->
               filter (stripped_eqb s0) (effS [] (f_sigs f)) = filter (stripped_eqb s0) (f_sigs f))
    by (intros s0 _; rewrite effS_nil; reflexivity).
  specialize (C Hy). simpl in C. rewrite effS_nil in C. exact C.
Qed.

Lemma map_func_jr : forall H mx cls (I : ty -> Prop) g f,
  (forall s, wf_sig I s -> jr_sig H mx cls s (g s)) -> wf_func I f -> jr_func H mx cls f (map_func g f).
Proof.
  intros H mx cls I g f Hg W. unfold jr_func, map_func; simpl. repeat split. apply js_each.
  apply Forall2_map_r. intros s Hs. apply Hg. unfold wf_func in W. rewrite Forall_forall in W; auto.
Qed.

Lemma normalize_self_sig_jr : forall H mx c s, jr_sig H mx (Some c) s (normalize_self_sig c s).
Proof.
  intros H mx c s. unfold normalize_self_sig. destruct (s_params s) as [|p rest] eqn:Ep; [apply jsig_refl|].
  destruct (Nat.eqb (p_name p) 0 && is_generic (p_ty p) && Nat.eqb (base_cid (p_ty p)) c) eqn:E; [|apply jsig_refl].
  rewrite !andb_true_iff, !Nat.eqb_eq in E. destruct E as [[E1 E2] E3].
  unfold jr_sig; simpl. rewrite Ep.
  split; [|split; [apply jr_oparam_refl | split; [apply jr_oparam_refl | split; [apply jr_refl | apply jr_exc_refl]]]].
  constructor; [|apply Forall2_refl; apply jp_refl].
  destruct p as [n t kd op m]; simpl in *. subst n.
  destruct t; try discriminate;
    [apply (jp_self_unparameterised H mx (Some c) c (TGen k c0 ps))
    |apply (jp_self_unparameterised H mx (Some c) c (TTup k c0 ps))
    |apply (jp_self_unparameterised H mx (Some c) c (TCall k c0 ps))]; auto.
Qed.

Lemma unit_map_jr : forall (I : ty -> Prop) Hd mx gc gm gcc gf ft u,
  (forall c, wf_const I c -> jr_const (hier_of u ++ Hd) mx c (gc c)) ->
  (forall n f, wf_func I f -> jr_func (hier_of u ++ Hd) mx (Some n) f (gm n f)) ->
  (forall c, wf_const I c -> jr_const (hier_of u ++ Hd) mx c (gcc c)) ->
  (forall f, wf_func I f -> jr_func (hier_of u ++ Hd) mx None f (gf f)) ->
  Forall I (types_of_unit u) -> jr_unit Hd mx u (unit_map_t gc gm gcc gf ft u).
Proof.
  intros I Hd mx gc gm gcc gf ft u Hc Hm Hcc Hf W. apply wf_unit_iff in W. destruct W as [W1 [W2 W3]].
  rewrite Forall_forall in W1, W2, W3. unfold jr_unit; simpl. repeat split.
  - apply Forall2_map_r. intros; apply Hc; auto.
  - apply Forall2_map_r. intros cl Hcl. destruct (W2 cl Hcl) as [M C]. rewrite Forall_forall in M, C.
    unfold jr_class; simpl. repeat split.
    + apply Forall2_map_r. intros; apply Hm; auto.
    + apply Forall2_map_r. intros; apply Hcc; auto.
  - apply Forall2_map_r. intros; apply Hf; auto.
Qed.

Lemma map_unit4_jr : forall (I : ty -> Prop) Hd mx fp fr fe fc ft u,
  (forall t, I t -> jr_ty (hier_of u ++ Hd) mx t (fp t)) -> (forall t, I t -> jr_ty (hier_of u ++ Hd) mx t (fr t)) ->
  (forall t, I t -> jr_ty (hier_of u ++ Hd) mx t (fe t)) -> (forall t, I t -> jr_ty (hier_of u ++ Hd) mx t (fc t)) ->
  Forall I (types_of_unit u) -> jr_unit Hd mx u (map_unit5 fp fr fe fc ft u).
Proof.
  intros I Hd mx fp fr fe fc ft u Hp Hr He Hc W. rewrite map_unit4_eq. apply (unit_map_jr I); try assumption.
  - intros c Wc. split; [reflexivity | apply Hc; assumption].
  - intros n f Wf. eapply map_func_jr; [|eassumption]. intros; eapply map_sig3_jr; eassumption.
  - intros c Wc. split; [reflexivity | apply Hc; assumption].
  - intros f Wf. eapply map_func_jr; [|eassumption]. intros; eapply map_sig3_jr; eassumption.
Qed.

(* transitivity *)
Lemma jr_func_trans : forall H mx cls a b c, jr_func H mx cls a b -> jr_func H mx cls b c -> jr_func H mx cls a c.
Proof.
  intros H mx cls a b c [N1 [K1 S1]] [N2 [K2 S2]]. unfold jr_func. repeat split; try congruence.
  eapply js_trans; eassumption.
Qed.
Lemma jr_const_trans : forall H mx a b c, jr_const H mx a b -> jr_const H mx b c -> jr_const H mx a c.
Proof. intros H mx a b c [N1 W1] [N2 W2]. split; [congruence | eapply jr_trans; eassumption]. Qed.
Lemma jr_class_trans : forall H mx a b c, jr_class H mx a b -> jr_class H mx b c -> jr_class H mx a c.
Proof.
  intros H mx a b c [N1 [B1 [M1 C1]]] [N2 [B2 [M2 C2]]]. unfold jr_class. repeat split; try congruence.
  - rewrite <- N1 in M2. eapply Forall2_trans; [apply jr_func_trans | eassumption | eassumption].
  - eapply Forall2_trans; [apply jr_const_trans | eassumption | eassumption].
Qed.
Lemma jr_unit_hier : forall Hd mx u u', jr_unit Hd mx u u' -> hier_of u' = hier_of u.
Proof.
  intros Hd mx u u' [_ [L _]]. unfold hier_of. induction L; simpl; [reflexivity|].
  destruct H as [N [B _]]. rewrite IHL, N, B. reflexivity.
Qed.
Lemma jr_unit_refl : forall Hd mx u, jr_unit Hd mx u u.
Proof.
  intros Hd mx u. unfold jr_unit. repeat split; apply Forall2_refl.
  - intros c. split; [reflexivity | apply jr_refl].
  - intros c. unfold jr_class. repeat split; apply Forall2_refl.
    + intros f. unfold jr_func. repeat split. apply jsigs_refl.
    + intros k. split; [reflexivity | apply jr_refl].
  - intros f. unfold jr_func. repeat split. apply jsigs_refl.
Qed.
Lemma jr_unit_trans : forall Hd mx a b c, jr_unit Hd mx a b -> jr_unit Hd mx b c -> jr_unit Hd mx a c.
Proof.
  intros Hd mx a b c J1 J2. pose proof (jr_unit_hier _ _ _ _ J1) as E.
  destruct J1 as [C1 [L1 F1]]. destruct J2 as [C2 [L2 F2]]. rewrite E in C2, L2, F2.
  unfold jr_unit. repeat split.
  - eapply Forall2_trans; [apply jr_const_trans | eassumption | eassumption].
  - eapply Forall2_trans; [apply jr_class_trans | eassumption | eassumption].
  - eapply Forall2_trans; [apply jr_func_trans | eassumption | eassumption].
Qed.

Lemma resolve_unit_jr : forall Hd mx u, jr_unit Hd mx u (resolve_unit u).
Proof.
  intros Hd mx u.
  assert (W : jr_unit Hd mx u (map_ty_unit resolve u)).
  { unfold map_ty_unit. apply (map_unit4_jr Itrue); try (intros; apply resolve_jr). apply Itrue_all. }
  destruct W as [C [L F]]. unfold jr_unit, resolve_unit; simpl. repeat split; try assumption.
  apply Forall2_map_post; [|exact L].
  intros x y [N [B [M K]]]. unfold jr_class; simpl. repeat split; try assumption.
  rewrite map_map. simpl. exact B.
Qed.

Lemma run_pass_jr : forall k cs o Hd fl p u u',
  lossless o -> jr_guard_ok fl p = true -> forallb (enabled o) fl = true ->
  run_pass cs o Hd p u = Some u' ->
  ranked (hier_of u ++ Hd) -> (needs_wf p = true -> wf_unit k u) ->
  jr_unit Hd (o_max_union o) u u'.
Proof.
  intros k cs o Hd fl p u u' [L1 [L2 L3]] G En E R NW. set (mx := o_max_union o).
  destruct p; simpl in E; simpl in G; try discriminate; try (inversion E; subst u'; clear E).
  - rewrite normalize_self_eq. apply (unit_map_jr Itrue); try (intros; split; [reflexivity | apply jr_refl]);
      [| |apply Itrue_all].
    + intros n f Wf. apply (map_func_jr _ _ _ Itrue); [|exact Wf]. intros; apply normalize_self_sig_jr.
    + intros f _. unfold jr_func. repeat split. apply jsigs_refl.
  - rewrite map_funcs_unit_eq. apply (unit_map_jr Itrue); try (intros; split; [reflexivity | apply jr_refl]);
      try (intros; apply remove_duplicates_jr). apply Itrue_all.
  - apply (map_unit4_jr Itrue); try (intros; apply simplify_unions_jr). apply Itrue_all.
  - rewrite map_funcs_unit_eq. apply (unit_map_jr Itrue); try (intros; split; [reflexivity | apply jr_refl]);
      try (intros; apply combine_returns_jr). apply Itrue_all.
  - destruct (forallb (fun t => is_some (cc_top t)) (types_of_unit u)); [|discriminate].
    inversion E; subst u'; clear E. specialize (NW eq_refl).
    apply (map_unit4_jr (wf k)); try (intros; apply (combine_containers_jr _ _ k); assumption). assumption.
  - apply (map_unit4_jr Itrue); try (intros; apply simplify_containers_jr). apply Itrue_all.
  - specialize (NW eq_refl).
    apply (map_unit4_jr (wf k)); try (intros; apply (simplify_superclasses_jr _ _ k); assumption). assumption.
  - pose proof (has_flag_enabled_l o FMaxUnion fl G En) as D. simpl in D. apply negb_true_iff in D.
    apply Nat.eqb_neq in D.
    apply (map_unit4_jr Itrue); try (intros; apply collapse_long_unions_jr; assumption). apply Itrue_all.
  - apply (map_unit4_jr Itrue); try (intros; apply adjust_generic_type_jr); try (intros; apply jr_refl). apply Itrue_all.
  - pose proof (has_flag_enabled_l o FRemoveMutable fl G En) as D. simpl in D. congruence.
  - pose proof (has_flag_enabled_l o FRemoveMutable fl G En) as D. simpl in D. congruence.
  - pose proof (has_flag_enabled_l o FRemoveMutable fl G En) as D. simpl in D. congruence.
  - apply resolve_unit_jr.
Qed.

Lemma run_passes_jr : forall k cs o Hd ps wfok u u',
  lossless o ->
  pipeline_ok wfok ps = true -> forallb (fun s => jr_guard_ok (fst s) (snd s)) ps = true ->
  run_passes cs o Hd ps u = Some u' ->
  ranked (hier_of u ++ Hd) -> (wfok = true -> wf_unit k u) ->
  jr_unit Hd (o_max_union o) u u'.
Proof.
  intros k cs o Hd ps; induction ps as [|[fl p] r IH]; intros wfok u u' L OK G E R W; simpl in E.
  - inversion E; subst. apply jr_unit_refl.
  - simpl in OK, G. apply andb_true_iff in OK. destruct OK as [OK OK3]. apply andb_true_iff in OK.
    destruct OK as [OK1 OK2]. apply andb_true_iff in G. destruct G as [G1 G2].
    destruct (forallb (enabled o) fl) eqn:En.
    + destruct (run_pass cs o Hd p u) as [u1|] eqn:E1; [|discriminate].
      assert (Wn : needs_wf p = true -> wf_unit k u).
      { intros Nw. apply W. rewrite Nw in OK1. simpl in OK1. exact OK1. }
      destruct (run_pass_sound k cs o Hd p u u1 E1 R) as [_ [H1 K1]]; [|exact Wn|].
      * intros [-> | ->]; simpl in G1; pose proof (has_flag_enabled_l o FRemoveMutable fl G1 En) as D; simpl in D;
        destruct L as [_ [_ L3]]; congruence.
      * eapply jr_unit_trans; [eapply run_pass_jr; eassumption|].
        apply (IH (wfok && keeps_wf p) u1 u'); try assumption.
        -- rewrite H1; assumption.
        -- intros Ew. apply andb_true_iff in Ew. destruct Ew as [Ew Ek]. apply K1; auto.
    + apply (IH (wfok && keeps_wf p) u u'); try assumption.
      intros Ew. apply andb_true_iff in Ew. apply W. tauto.
Qed.

Lemma jr_passes_ok : jr_pipeline_ok passes = true.
Proof. vm_compute. reflexivity. Qed.

Lemma lossless_changes_only_lemma : forall k o Hd u u',
  lossless o -> ranked (hier_of u ++ Hd) -> wf_unit k u ->
  opt o Hd u = Some u' -> jr_unit Hd (o_max_union o) u u'.
Proof.
  intros k o Hd u u' L R W E. pose proof jr_passes_ok as OK. unfold jr_pipeline_ok in OK.
  apply andb_true_iff in OK. destruct OK as [OK1 OK2].
  eapply (run_passes_jr k sc_collapse_single o Hd passes true); try eassumption. auto.
Qed.

Lemma lossless_changes_only_ty_lemma : forall H k o t t',
  o_lossy o = false -> wf k t -> opt_ty o t = Some t' -> jr_ty H (o_max_union o) t t'.
Proof.
  intros H k o t t' L. unfold opt_ty.
  assert (G : forallb (fun s => jr_guard_ok (fst s) (snd s)) passes = true).
  { pose proof jr_passes_ok as OK. unfold jr_pipeline_ok in OK. apply andb_true_iff in OK. tauto. }
  revert G. generalize passes. intros ps; revert t.
  induction ps as [|[fl p] r IH]; intros t G W E; simpl in E.
  - inversion E; subst. apply jr_refl.
  - simpl in G. apply andb_true_iff in G. destruct G as [G1 G2].
    destruct (forallb (enabled o) fl) eqn:En; [|apply IH; assumption].
    destruct (run_pass_ty o p t) as [t1|] eqn:E1; [|discriminate].
    destruct (run_pass_ty_sound H k o p t t1 W E1) as [_ W1].
    eapply jr_trans; [|apply IH; eassumption].
    clear IH E. destruct p; simpl in E1; try discriminate; try (inversion E1; subst t1; apply jr_refl).
    + inversion E1; subst. apply simplify_unions_jr.
    + unfold cc_top in E1. eapply cc_jr; eassumption.
    + inversion E1; subst. apply simplify_containers_jr.
    + inversion E1; subst. apply collapse_long_unions_jr.
      simpl in G1. pose proof (has_flag_enabled_l o FMaxUnion fl G1 En) as D. simpl in D.
      apply negb_true_iff in D. apply Nat.eqb_neq in D. exact D.
Qed.

(* ---------------------------------------------------------------- the relation never narrows, at every level *)
Lemma Forall2_imp : forall {A B} (R R' : A -> B -> Prop) l l',
  (forall x y, R x y -> R' x y) -> Forall2 R l l' -> Forall2 R' l l'.
Proof. intros A B R R' l l' Hi F. induction F; constructor; auto. Qed.

Lemma jr_param_wider : forall H mx cls p p', jr_param H mx cls p p' -> param_wider H p p'.
Proof.
  induction 1.
  - eapply param_wider_trans; eassumption.
  - unfold param_wider; simpl. repeat split; [eapply jr_widens_lemma; eassumption|].
    destruct m, m'; simpl in *; try contradiction; [eapply jr_widens_lemma; eassumption | reflexivity].
  - unfold param_wider; simpl. repeat split; intros v A; apply admits_union; eexists; split; try exact A; simpl; auto.
  - unfold param_wider; simpl. repeat split.
    + intros v A. destruct t; try assumption.
      * apply admits_gen in A. simpl. tauto.
      * apply admits_tup in A. destruct A as [items [-> [S _]]]. exact S.
      * apply admits_call in A. destruct A as [a [r [-> [S _]]]]. exact S.
    + destruct m; [apply wider_refl | reflexivity].
Qed.

Lemma jr_sig_wider : forall H mx cls s s', jr_sig H mx cls s s' -> sig_wider H s s'.
Proof.
  intros H mx cls s s' [P [S [SS [R _]]]]. unfold sig_wider. repeat split.
  - eapply Forall2_imp; [|exact P]. intros; eapply jr_param_wider; eassumption.
  - destruct (s_star s), (s_star s'); simpl in *; try contradiction; try exact Logic.I. eapply jr_param_wider; eassumption.
  - destruct (s_starstar s), (s_starstar s'); simpl in *; try contradiction; try exact Logic.I. eapply jr_param_wider; eassumption.
  - eapply jr_widens_lemma; eassumption.
Qed.

Lemma jr_sigs_cover : forall H mx cls l l', jr_sigs H mx cls l l' ->
  forall q, In q l -> exists q', In q' l' /\ sig_wider H q q'.
Proof.
  induction 1; intros q Hs.
  - destruct (IHjr_sigs1 q Hs) as [s1 [H1 W1]]. destruct (IHjr_sigs2 s1 H1) as [s2 [H2 W2]].
    exists s2. split; [assumption | eapply sig_wider_trans; eassumption].
  - clear - H0 Hs. induction H0; [contradiction|]. destruct Hs as [<-|Hs].
    + exists y. split; [left; reflexivity | eapply jr_sig_wider; eassumption].
    + destruct (IHForall2 Hs) as [s' [Hs' W]]. exists s'. split; [right; assumption | assumption].
  - exists q. split; [|apply sig_wider_refl].
    rewrite !in_app_iff in *. simpl in *. rewrite !in_app_iff in *. simpl in *. tauto.
  - rewrite in_app_iff in Hs. simpl in Hs. rewrite in_app_iff in Hs. simpl in Hs.
    destruct H0 as [E1 [E2 [E3 E4]]].
    assert (M1 : sig_wider H s1 (mkSig (s_params s1) (s_star s1) (s_starstar s1) (TUnion [s_ret s1; s_ret s2]) (s_exc s1 ++ s_exc s2) (s_template s1))).
    { unfold sig_wider; simpl. repeat split; try apply oparam_wider_refl.
      - apply Forall2_refl; apply param_wider_refl.
      - intros v A. apply admits_union. exists (s_ret s1). simpl; auto. }
    assert (M2 : sig_wider H s2 (mkSig (s_params s1) (s_star s1) (s_starstar s1) (TUnion [s_ret s1; s_ret s2]) (s_exc s1 ++ s_exc s2) (s_template s1))).
    { unfold sig_wider; simpl. rewrite E1, E2, E3. repeat split; try apply oparam_wider_refl.
      - apply Forall2_refl; apply param_wider_refl.
      - intros v A. apply admits_union. exists (s_ret s2). simpl; auto. }
    destruct Hs as [Hs|[<-|[Hs|[<-|Hs]]]].
    + exists q. split; [apply in_or_app; auto | apply sig_wider_refl].
    + eexists. split; [apply in_or_app; right; left; reflexivity | exact M1].
    + exists q. split; [apply in_or_app; right; right; apply in_or_app; auto | apply sig_wider_refl].
    + eexists. split; [apply in_or_app; right; left; reflexivity | exact M2].
    + exists q. split; [apply in_or_app; right; right; apply in_or_app; auto | apply sig_wider_refl].
Qed.

Lemma jr_unit_widens_lemma : forall Hd mx u u', jr_unit Hd mx u u' -> unit_wider (hier_of u ++ Hd) u u'.
Proof.
  intros Hd mx u u' [C [L F]]. set (H := hier_of u ++ Hd) in *.
  assert (Fn : forall cls f f', jr_func H mx cls f f' -> func_wider H f f').
  { intros cls f f' [N [K S]]. unfold func_wider. repeat split; try assumption. eapply jr_sigs_cover; eassumption. }
  assert (Cn : forall c c', jr_const H mx c c' -> const_wider H c c').
  { intros c c' [N J]. split; [assumption | eapply jr_widens_lemma; eassumption]. }
  unfold unit_wider. repeat split.
  - eapply Forall2_imp; [|exact C]. exact Cn.
  - eapply Forall2_imp; [|exact L]. intros c c' [N [B [M K]]]. unfold class_wider. repeat split; try assumption.
    + eapply Forall2_imp; [|exact M]. intros; eapply Fn; eassumption.
    + eapply Forall2_imp; [|exact K]. exact Cn.
  - eapply Forall2_imp; [|exact F]. intros; eapply Fn; eassumption.
Qed.

(* optimize_widens (lossless settings) as a corollary of lossless_changes_only *)
Lemma optimize_widens_from_rewrites : forall k o Hd u u',
  lossless o -> ranked (hier_of u ++ Hd) -> wf_unit k u ->
  opt o Hd u = Some u' -> unit_wider (hier_of u ++ Hd) u u'.
Proof.
  intros k o Hd u u' L R W E. eapply jr_unit_widens_lemma. eapply lossless_changes_only_lemma; eassumption.
Qed.
