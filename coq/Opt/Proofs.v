(* C11 — lemmas about the optimiser model (Opt/Model.v). *)
From Coq Require Import List Arith Bool Lia.
From PV Require Import Opt.Syntax Generated.C11_Passes Opt.Model Opt.Spec.
Import ListNotations.

(* ================================================================== induction on types *)
Section TyInd.
  Variable P : ty -> Prop.
  Hypothesis Hname : forall k c, P (TName k c).
  Hypothesis Hany : P TAny.
  Hypothesis Hnothing : P TNothing.
  Hypothesis Hlit : forall n, P (TLit n).
  Hypothesis Hunion : forall ts, Forall P ts -> P (TUnion ts).
  Hypothesis Hgen : forall k c ps, Forall P ps -> P (TGen k c ps).
  Hypothesis Htup : forall k c ps, Forall P ps -> P (TTup k c ps).
  Hypothesis Hcall : forall k c ps, Forall P ps -> P (TCall k c ps).
  Fixpoint ty_ind' (t : ty) : P t :=
    let fix go (l : list ty) : Forall P l :=
      match l with
      | [] => Forall_nil P
      | x :: r => Forall_cons x (ty_ind' x) (go r)
      end in
    match t with
    | TName k c => Hname k c
    | TAny => Hany
    | TNothing => Hnothing
    | TLit n => Hlit n
    | TUnion ts => Hunion ts (go ts)
    | TGen k c ps => Hgen k c ps (go ps)
    | TTup k c ps => Htup k c ps (go ps)
    | TCall k c ps => Hcall k c ps (go ps)
    end.
End TyInd.

(* ================================================================== strict equality *)
Lemma kind_eqb_eq : forall a b, kind_eqb a b = true <-> a = b.
Proof. destruct a, b; simpl; split; congruence. Qed.

Definition tys_eqb := fix go (l l' : list ty) : bool :=
  match l, l' with
  | [], [] => true
  | x :: r, y :: r' => ty_eqb x y && go r r'
  | _, _ => false
  end.

Lemma tys_eqb_eq : forall l, Forall (fun a => forall b, ty_eqb a b = true <-> a = b) l ->
  forall l', tys_eqb l l' = true <-> l = l'.
Proof.
  induction 1 as [|x r Hx _ IH]; destruct l' as [|y r']; simpl; split; try congruence; try reflexivity.
  - rewrite andb_true_iff. intros [H1 H2]. apply Hx in H1. apply IH in H2. congruence.
  - intros E. inversion E; subst. rewrite andb_true_iff. split; [apply Hx | apply IH]; reflexivity.
Qed.

Lemma ty_eqb_eq : forall a b, ty_eqb a b = true <-> a = b.
Proof.
  induction a using ty_ind'; destruct b; simpl; split; try congruence; try reflexivity.
  - rewrite andb_true_iff, kind_eqb_eq, Nat.eqb_eq. intros [? ?]; congruence.
  - intros E; inversion E; subst. rewrite andb_true_iff, kind_eqb_eq, Nat.eqb_eq. auto.
  - rewrite Nat.eqb_eq. congruence.
  - intros E; inversion E; subst. apply Nat.eqb_refl.
  - intros E. change (tys_eqb ts ts0 = true) in E. apply (tys_eqb_eq _ H) in E. congruence.
  - intros E; inversion E; subst. change (tys_eqb ts0 ts0 = true). apply (tys_eqb_eq _ H). reflexivity.
  - change (kind_eqb k k0 && Nat.eqb c c0 && tys_eqb ps ps0 = true -> TGen k c ps = TGen k0 c0 ps0).
    rewrite !andb_true_iff, kind_eqb_eq, Nat.eqb_eq. intros [[? ?] E]. apply (tys_eqb_eq _ H) in E. congruence.
  - intros E; inversion E; subst.
    change (kind_eqb k0 k0 && Nat.eqb c0 c0 && tys_eqb ps0 ps0 = true).
    rewrite !andb_true_iff, kind_eqb_eq, Nat.eqb_eq. repeat split. apply (tys_eqb_eq _ H). reflexivity.
  - change (kind_eqb k k0 && Nat.eqb c c0 && tys_eqb ps ps0 = true -> TTup k c ps = TTup k0 c0 ps0).
    rewrite !andb_true_iff, kind_eqb_eq, Nat.eqb_eq. intros [[? ?] E]. apply (tys_eqb_eq _ H) in E. congruence.
  - intros E; inversion E; subst.
    change (kind_eqb k0 k0 && Nat.eqb c0 c0 && tys_eqb ps0 ps0 = true).
    rewrite !andb_true_iff, kind_eqb_eq, Nat.eqb_eq. repeat split. apply (tys_eqb_eq _ H). reflexivity.
  - change (kind_eqb k k0 && Nat.eqb c c0 && tys_eqb ps ps0 = true -> TCall k c ps = TCall k0 c0 ps0).
    rewrite !andb_true_iff, kind_eqb_eq, Nat.eqb_eq. intros [[? ?] E]. apply (tys_eqb_eq _ H) in E. congruence.
  - intros E; inversion E; subst.
    change (kind_eqb k0 k0 && Nat.eqb c0 c0 && tys_eqb ps0 ps0 = true).
    rewrite !andb_true_iff, kind_eqb_eq, Nat.eqb_eq. repeat split. apply (tys_eqb_eq _ H). reflexivity.
Qed.

Lemma ty_eqb_refl : forall a, ty_eqb a a = true.
Proof. intros; apply ty_eqb_eq; reflexivity. Qed.

(* ================================================================== membership / dedup *)
Lemma mem_by_In : forall {A} (eqb : A -> A -> bool),
  (forall a b, eqb a b = true <-> a = b) -> forall x l, mem_by eqb x l = true <-> In x l.
Proof.
  intros A eqb He x l. unfold mem_by. rewrite existsb_exists. split.
  - intros [y [Hy E]]. apply He in E. subst; assumption.
  - intros Hin. exists x. split; [assumption | apply He; reflexivity].
Qed.

Lemma memb_In : forall x l, memb x l = true <-> In x l.
Proof. intros. apply mem_by_In. apply ty_eqb_eq. Qed.

Lemma dedup_from_subset : forall {A} (eqb : A -> A -> bool) l seen x,
  In x (dedup_from eqb seen l) -> In x l.
Proof.
  induction l as [|y r IH]; simpl; intros seen x Hin; [contradiction|].
  destruct (mem_by eqb y seen).
  - right. eapply IH; eassumption.
  - destruct Hin as [->|Hin]; [left; reflexivity | right; eapply IH; eassumption].
Qed.

Lemma dedup_from_complete : forall {A} (eqb : A -> A -> bool),
  (forall a b, eqb a b = true <-> a = b) ->
  forall l seen x, In x l -> In x seen \/ In x (dedup_from eqb seen l).
Proof.
  intros A eqb He. induction l as [|y r IH]; simpl; intros seen x Hin; [contradiction|].
  destruct (mem_by eqb y seen) eqn:E.
  - destruct Hin as [->|Hin]; [left; apply (mem_by_In eqb He); assumption | apply IH; assumption].
  - destruct Hin as [->|Hin]; [right; left; reflexivity|].
    destruct (IH (y :: seen) x Hin) as [[->|H1]|H1]; [right; left; reflexivity | left; assumption | right; right; assumption].
Qed.

Lemma dedup_In : forall x l, In x (dedup l) <-> In x l.
Proof.
  intros x l. unfold dedup, dedup_by. split.
  - apply dedup_from_subset.
  - intros Hin. destruct (dedup_from_complete ty_eqb ty_eqb_eq l [] x Hin) as [[]|H]; assumption.
Qed.

Lemma dedup_by_subset : forall {A} (eqb : A -> A -> bool) l x, In x (dedup_by eqb l) -> In x l.
Proof. intros. eapply dedup_from_subset; eassumption. Qed.

(* ================================================================== semantics, unfolded *)
Lemma wider_refl : forall H t, wider H t t.
Proof. unfold wider; auto. Qed.
Lemma wider_trans : forall H a b c, wider H a b -> wider H b c -> wider H a c.
Proof. unfold wider; auto. Qed.

Fixpoint gen_ok (H : hier) (ps : list ty) (cs : list (list value)) : Prop :=
  match ps, cs with
  | p :: ps', c0 :: cs' => Forall (admits H p) c0 /\ gen_ok H ps' cs'
  | _, _ => True
  end.

Lemma admits_union : forall H ts v, admits H (TUnion ts) v <-> exists t, In t ts /\ admits H t v.
Proof.
  intros H ts v. simpl. induction ts as [|t r IH]; simpl.
  - split; [contradiction | intros [? [[] _]]].
  - rewrite IH. split.
    + intros [Ha | [t' [Hin Ha]]]; [exists t; auto | exists t'; auto].
    + intros [t' [[->|Hin] Ha]]; [left; assumption | right; exists t'; auto].
Qed.

Lemma admits_all : forall H p vs,
  (fix all (vs : list value) : Prop := match vs with [] => True | x :: r => admits H p x /\ all r end) vs
  <-> Forall (admits H p) vs.
Proof.
  induction vs as [|x r IH]; simpl; split; auto.
  - intros [? ?]; constructor; [assumption | apply IH; assumption].
  - intros F; inversion F; subst. split; [assumption | apply IH; assumption].
Qed.

Lemma admits_gen : forall H k c ps v,
  admits H (TGen k c ps) v <-> Sub H (cls_of v) c /\ gen_ok H ps (contents_of v).
Proof.
  intros H k c ps v. simpl. apply and_iff_compat_l.
  generalize (contents_of v). induction ps as [|p r IH]; intros cs; simpl; [tauto|].
  destruct cs as [|c0 cs']; [tauto|]. rewrite IH, admits_all. tauto.
Qed.

Lemma admits_tup : forall H k c ps v,
  admits H (TTup k c ps) v <->
  exists items, v = Tup items /\ Sub H c_tuple c /\ Forall2 (admits H) ps items.
Proof.
  intros H k c ps v. destruct v as [d cs|items|a r|n]; simpl;
    try (split; [contradiction | intros [? [E _]]; discriminate]).
  split.
  - intros [Hs Hf]. exists items. split; [reflexivity|]. split; [assumption|].
    clear Hs. revert items Hf.
    induction ps as [|p r IH]; intros items Hf; destruct items as [|x items']; try contradiction.
    + constructor.
    + destruct Hf as [Ha Hb]. constructor; [exact Ha | apply IH; exact Hb].
  - intros [items' [E [Hs Hf]]]. inversion E; subst items'. split; [assumption|]. clear E.
    induction Hf; [exact I | split; assumption].
Qed.

Lemma admits_call : forall H k c ps v,
  admits H (TCall k c ps) v <->
  exists a r, v = Fn a r /\ Sub H c_callable c /\ length ps = S a /\ admits H (last_or TNothing ps) r.
Proof.
  intros H k c ps v. destruct v as [d cs|items|a r|n]; simpl;
    try (split; [contradiction | intros [? [? [E _]]]; discriminate]).
  assert (L : (fix lst (ps0 : list ty) : Prop :=
                 match ps0 with
                 | [] => False
                 | p :: r' => match r' with [] => admits H p r | _ :: _ => lst r' end
                 end) ps <-> admits H (last_or TNothing ps) r).
  { induction ps as [|p r' IH]; simpl; [tauto|]. destruct r'; [tauto | exact IH]. }
  rewrite L. split.
  - intros [? [? ?]]. exists a, r. auto.
  - intros [a' [r' [E [? [? ?]]]]]. inversion E; subst. auto.
Qed.

Lemma admits_kind : forall H t v k k',
  match t with
  | TName _ c => admits H (TName k c) v <-> admits H (TName k' c) v
  | TGen _ c ps => admits H (TGen k c ps) v <-> admits H (TGen k' c ps) v
  | TTup _ c ps => admits H (TTup k c ps) v <-> admits H (TTup k' c ps) v
  | TCall _ c ps => admits H (TCall k c ps) v <-> admits H (TCall k' c ps) v
  | _ => True
  end.
Proof. intros; destruct t; simpl; tauto. Qed.

Lemma Sub_trans : forall H a b c, Sub H a b -> Sub H b c -> Sub H a c.
Proof. intros H a b c S1; induction S1; intros S2; [assumption | econstructor; eauto]. Qed.

(* prefix-pointwise widening of parameter lists: [ps'] may be shorter (zip truncation) *)
Inductive pw (H : hier) : list ty -> list ty -> Prop :=
| pw_nil : forall qs, pw H qs []
| pw_cons : forall q p qs ps, wider H q p -> pw H qs ps -> pw H (q :: qs) (p :: ps).

Lemma pw_refl : forall H l, pw H l l.
Proof. induction l; constructor; [apply wider_refl | assumption]. Qed.
Lemma pw_trans : forall H a b c, pw H a b -> pw H b c -> pw H a c.
Proof.
  intros H a b c P1; revert c; induction P1; intros c0 P2; inversion P2; subst; constructor.
  - eapply wider_trans; eassumption.
  - apply IHP1; assumption.
Qed.
Lemma pw_length : forall H a b, pw H a b -> length b <= length a.
Proof. induction 1; simpl; lia. Qed.

Lemma gen_ok_pw : forall H qs ps, pw H qs ps -> forall cs, gen_ok H qs cs -> gen_ok H ps cs.
Proof.
  induction 1; intros cs G; simpl; [destruct cs; exact I|].
  destruct cs as [|c0 cs']; [exact I|]. simpl in G. destruct G as [G1 G2]. split.
  - eapply Forall_impl; [|exact G1]. intros; apply H0; assumption.
  - apply IHpw; assumption.
Qed.

Lemma forall2_pw : forall H qs ps, pw H qs ps -> length ps = length qs ->
  forall items, Forall2 (admits H) qs items -> Forall2 (admits H) ps items.
Proof.
  induction 1; intros L items F.
  - destruct qs; [assumption | discriminate].
  - inversion F; subst. constructor; [apply H0; assumption | apply IHpw; [simpl in L; lia | assumption]].
Qed.

Lemma last_or_pw : forall H qs ps, pw H qs ps -> length ps = length qs ->
  wider H (last_or TNothing qs) (last_or TNothing ps).
Proof.
  induction 1; intros L.
  - destruct qs; [apply wider_refl | discriminate].
  - simpl in L. destruct qs as [|q' qs']; destruct ps as [|p' ps']; simpl in *; try lia.
    + assumption.
    + apply IHpw. lia.
Qed.

Lemma wider_gen : forall H k k' c qs ps, pw H qs ps -> wider H (TGen k c qs) (TGen k' c ps).
Proof.
  intros H k k' c qs ps P v. rewrite !admits_gen. intros [S G]. split; [assumption|].
  eapply gen_ok_pw; eassumption.
Qed.
Lemma wider_tup : forall H k k' c qs ps, pw H qs ps -> length ps = length qs ->
  wider H (TTup k c qs) (TTup k' c ps).
Proof.
  intros H k k' c qs ps P L v. rewrite !admits_tup. intros [items [E [S F]]]. exists items.
  repeat split; try assumption. eapply forall2_pw; eassumption.
Qed.
Lemma wider_call : forall H k k' c qs ps, pw H qs ps -> length ps = length qs ->
  wider H (TCall k c qs) (TCall k' c ps).
Proof.
  intros H k k' c qs ps P L v. rewrite !admits_call. intros [a [r [E [S [Ln A]]]]]. exists a, r.
  repeat split; try assumption; [congruence|]. eapply last_or_pw; eassumption.
Qed.

Lemma pw_map : forall H (f : ty -> ty) l, Forall (fun t => wider H t (f t)) l -> pw H l (map f l).
Proof. induction 1; simpl; constructor; assumption. Qed.

(* ================================================================== JoinTypes / UnionType() *)
Lemma flat_sound : forall H t v, admits H t v <-> exists x, In x (flat t) /\ admits H x v.
Proof.
  intros H t; induction t using ty_ind'; intros v;
    try (simpl; split; [intros A; eexists; split; [left; reflexivity | exact A]
                       | intros [x [[<-|[]] A]]; exact A]).
  - simpl. split; [contradiction | intros [x [[] _]]].
  - rewrite admits_union. change (flat (TUnion ts)) with (flat_map flat ts). split.
    + intros [t [Hin A]]. rewrite Forall_forall in H0. apply (H0 t Hin) in A.
      destruct A as [x [Hx A]]. exists x. split; [apply in_flat_map; exists t; auto | assumption].
    + intros [x [Hx A]]. apply in_flat_map in Hx. destruct Hx as [t [Hin Hx]]. exists t. split; [assumption|].
      rewrite Forall_forall in H0. apply (H0 t Hin). exists x; auto.
Qed.

Lemma join_widens : forall H ts t, In t ts -> wider H t (join ts).
Proof.
  intros H ts t Hin v A. apply flat_sound in A. destruct A as [x [Hx A]].
  assert (Hl : In x (dedup (flat_map flat ts))).
  { apply dedup_In. apply in_flat_map. exists t; auto. }
  unfold join. remember (dedup (flat_map flat ts)) as l eqn:El. clear El.
  assert (G : admits H (if existsb is_any l
                        then if existsb is_named_none l then TUnion [TAny; TName KNamed c_none] else TAny
                        else match l with [] => TNothing | _ => TUnion l end) v).
  { destruct (existsb is_any l).
    - destruct (existsb is_named_none l); simpl; auto.
    - destruct l as [|y r]; [contradiction|]. apply admits_union. exists x; auto. }
  destruct l as [|y [|z r]]; try exact G.
  destruct Hl as [->|[]]. exact A.
Qed.

Lemma flat1_sound : forall H t v, admits H t v <-> exists x, In x (flat1 t) /\ admits H x v.
Proof.
  intros H t v. destruct t; try (simpl; split; [intros A; eexists; split; [left; reflexivity | exact A]
                                               | intros [x [[<-|[]] A]]; exact A]).
  simpl flat1. apply admits_union.
Qed.

Lemma norm_union_admits : forall H l v, admits H (TUnion (norm_union l)) v <-> admits H (TUnion l) v.
Proof.
  intros H l v. rewrite !admits_union. unfold norm_union. split.
  - intros [x [Hx A]]. rewrite dedup_In in Hx. apply in_flat_map in Hx. destruct Hx as [t [Hin Hx]].
    exists t. split; [assumption|]. apply flat1_sound. exists x; auto.
  - intros [t [Hin A]]. apply flat1_sound in A. destruct A as [x [Hx A]]. exists x. split; [|assumption].
    apply dedup_In. apply in_flat_map. exists t; auto.
Qed.

(* ================================================================== the generic visitor *)
Lemma norm_union_elems : forall (I : ty -> Prop),
  (forall ts, I (TUnion ts) -> Forall I ts) ->
  forall l, Forall I l -> Forall I (norm_union l).
Proof.
  intros I IU l F. apply Forall_forall. intros x Hx. unfold norm_union in Hx. rewrite dedup_In in Hx.
  apply in_flat_map in Hx. destruct Hx as [t [Hin Hx]]. rewrite Forall_forall in F. specialize (F t Hin).
  destruct t; simpl in Hx; try (destruct Hx as [<-|[]]; exact F).
  apply IU in F. rewrite Forall_forall in F. apply F; assumption.
Qed.

Section VisitWidens.
  Variable fU : list ty -> ty.
  Variable fG : kind -> cid -> list ty -> ty.
  Variable fN : kind -> cid -> ty.
  Variable fB : kind -> kind.
  Variable H : hier.
  Variable I : ty -> Prop.
  Hypothesis I_union : forall ts, I (TUnion ts) -> Forall I ts.
  Hypothesis I_gen : forall k c ps, I (TGen k c ps) -> Forall I ps.
  Hypothesis I_tup : forall k c ps, I (TTup k c ps) -> Forall I ps.
  Hypothesis I_call : forall k c ps, I (TCall k c ps) -> Forall I ps.
  Hypothesis I_visit : forall t, I t -> I (visit fU fG fN fB t).
  Hypothesis fU_ok : forall l, Forall I l -> wider H (TUnion l) (fU l).
  Hypothesis fG_ok : forall k c ps, wider H (TGen k c ps) (fG k c ps).
  Hypothesis fN_ok : forall k c, wider H (TName k c) (fN k c).

  Lemma visit_children : forall ps,
    Forall (fun t => I t -> wider H t (visit fU fG fN fB t)) ps -> Forall I ps ->
    pw H ps (map (visit fU fG fN fB) ps).
  Proof.
    intros ps F1 F2. apply pw_map. rewrite Forall_forall in *. intros t Hin. apply F1; auto.
  Qed.

  Lemma visit_widens : forall t, I t -> wider H t (visit fU fG fN fB t).
  Proof.
    induction t using ty_ind'; intros It; simpl; try apply wider_refl.
    - apply fN_ok.
    - pose proof (I_union _ It) as Its.
      eapply wider_trans; [|apply fU_ok].
      + intros v A. apply norm_union_admits. apply admits_union in A. destruct A as [t [Hin A]].
        apply admits_union. exists (visit fU fG fN fB t). split; [apply in_map; assumption|].
        rewrite Forall_forall in H0, Its. apply H0; auto.
      + apply norm_union_elems; [assumption|]. apply Forall_forall. intros x Hx. apply in_map_iff in Hx.
        destruct Hx as [t [<- Hin]]. apply I_visit. rewrite Forall_forall in Its. auto.
    - eapply wider_trans; [|apply fG_ok]. apply wider_gen. apply visit_children; eauto.
    - pose proof (visit_children ps H0 (I_tup _ _ _ It)) as P. apply wider_tup; [assumption | apply map_length].
    - pose proof (visit_children ps H0 (I_call _ _ _ It)) as P. apply wider_call; [assumption | apply map_length].
  Qed.
End VisitWidens.

(* wf is closed under subterms *)
Lemma wf_union_inv : forall k ts, wf k (TUnion ts) -> Forall (wf k) ts.
Proof. intros k ts W; inversion W; assumption. Qed.
Lemma wf_gen_inv : forall k k' c ps, wf k (TGen k' c ps) -> Forall (wf k) ps.
Proof. intros k k' c ps W; inversion W; assumption. Qed.
Lemma wf_tup_inv : forall k k' c ps, wf k (TTup k' c ps) -> Forall (wf k) ps.
Proof. intros k k' c ps W; inversion W; assumption. Qed.
Lemma wf_call_inv : forall k k' c ps, wf k (TCall k' c ps) -> Forall (wf k) ps.
Proof. intros k k' c ps W; inversion W; assumption. Qed.

Section VisitWf.
  Variable fU : list ty -> ty.
  Variable fG : kind -> cid -> list ty -> ty.
  Variable fN : kind -> cid -> ty.
  Variable k : kind.
  Hypothesis fU_wf : forall l, Forall (wf k) l -> wf k (fU l).
  Hypothesis fG_wf : forall c ps, Forall (wf k) ps -> wf k (fG k c ps).
  Hypothesis fN_wf : forall c, wf k (fN k c).

  Lemma visit_wf : forall t, wf k t -> wf k (visit fU fG fN id_kind t).
  Proof.
    induction t using ty_ind'; intros W; simpl; try assumption.
    - inversion W; subst. apply fN_wf.
    - apply fU_wf. apply norm_union_elems; [apply wf_union_inv|].
      apply wf_union_inv in W. apply Forall_forall. intros x Hx. apply in_map_iff in Hx.
      destruct Hx as [t [<- Hin]]. rewrite Forall_forall in H, W. auto.
    - pose proof (wf_gen_inv _ _ _ _ W) as Wp. inversion W; subst. unfold id_kind. apply fG_wf.
      apply Forall_forall. intros x Hx.
      apply in_map_iff in Hx. destruct Hx as [t [<- Hin]]. rewrite Forall_forall in H, Wp. auto.
    - pose proof (wf_tup_inv _ _ _ _ W) as Wp. inversion W; subst. unfold id_kind.
      constructor; [assumption|]. apply Forall_forall. intros x Hx.
      apply in_map_iff in Hx. destruct Hx as [t [<- Hin]]. rewrite Forall_forall in H, Wp. auto.
    - pose proof (wf_call_inv _ _ _ _ W) as Wp. inversion W; subst. unfold id_kind. constructor.
      apply Forall_forall. intros x Hx.
      apply in_map_iff in Hx. destruct Hx as [t [<- Hin]]. rewrite Forall_forall in H, Wp. auto.
  Qed.
End VisitWf.

Definition Itrue (t : ty) : Prop := True.
Lemma Itrue_all : forall l, Forall Itrue l.
Proof. intros l. apply Forall_forall. intros; exact I. Qed.

(* --- JoinTypes keeps well-formedness *)
Lemma flat_wf : forall k t, wf k t -> Forall (wf k) (flat t).
Proof.
  intros k t; induction t using ty_ind'; intros W; simpl; try (constructor; [assumption | constructor]).
  - constructor.
  - apply wf_union_inv in W. apply Forall_forall. intros x Hx. apply in_flat_map in Hx.
    destruct Hx as [t [Hin Hx]]. rewrite Forall_forall in H, W. specialize (H t Hin (W t Hin)).
    rewrite Forall_forall in H. auto.
Qed.

Lemma named_none_kind : forall k l, Forall (wf k) l -> existsb is_named_none l = true -> k = KNamed.
Proof.
  intros k l F E. apply existsb_exists in E. destruct E as [x [Hx E]]. rewrite Forall_forall in F.
  specialize (F x Hx). destruct x; try discriminate. destruct k0; try discriminate. inversion F; reflexivity.
Qed.

Lemma join_wf : forall k ts, Forall (wf k) ts -> wf k (join ts).
Proof.
  intros k ts F. unfold join.
  assert (Fl : Forall (wf k) (dedup (flat_map flat ts))).
  { apply Forall_forall. intros x Hx. rewrite dedup_In in Hx. apply in_flat_map in Hx.
    destruct Hx as [t [Hin Hx]]. rewrite Forall_forall in F. pose proof (flat_wf k t (F t Hin)) as G.
    rewrite Forall_forall in G. auto. }
  remember (dedup (flat_map flat ts)) as l eqn:El. clear El.
  assert (G : wf k (if existsb is_any l
                    then if existsb is_named_none l then TUnion [TAny; TName KNamed c_none] else TAny
                    else match l with [] => TNothing | _ => TUnion l end)).
  { destruct (existsb is_any l).
    - destruct (existsb is_named_none l) eqn:E; [|constructor].
      rewrite (named_none_kind k l Fl E). repeat constructor.
    - destruct l; constructor. assumption. }
  destruct l as [|y [|z r]]; try exact G. inversion Fl; assumption.
Qed.

(* ================================================================== simple type-level passes *)
Lemma join_wider_union : forall H l, wider H (TUnion l) (join l).
Proof.
  intros H l v A. apply admits_union in A. destruct A as [t [Hin A]]. eapply join_widens; eassumption.
Qed.

Lemma simplify_unions_widens_lemma : forall H t, wider H t (simplify_unions t).
Proof.
  intros H t. unfold simplify_unions.
  apply (visit_widens join TGen TName id_kind H Itrue); try (intros; apply Itrue_all); try (intros; exact I).
  - intros; apply join_wider_union.
  - intros; apply wider_refl.
  - intros; apply wider_refl.
Qed.

Lemma simplify_unions_wf : forall k t, wf k t -> wf k (simplify_unions t).
Proof.
  intros k t. unfold simplify_unions. apply visit_wf.
  - apply join_wf.
  - intros; constructor; assumption.
  - intros; constructor.
Qed.

Lemma sc_generic_wider : forall H k c ps, wider H (TGen k c ps) (sc_generic k c ps).
Proof.
  intros H k c ps v A. unfold sc_generic. destruct (forallb is_any ps); [|assumption].
  apply admits_gen in A. simpl. tauto.
Qed.
Lemma sc_union_wider : forall H b l, wider H (TUnion l) (sc_union b l).
Proof.
  intros H b l v A. unfold sc_union. destruct b; [|assumption].
  destruct l as [|x [|y r]]; try assumption. apply admits_union in A.
  destruct A as [t [[<-|[]] A]]. assumption.
Qed.
Lemma simplify_containers_widens_lemma : forall H b t, wider H t (simplify_containers b t).
Proof.
  intros H b t. unfold simplify_containers.
  apply (visit_widens (sc_union b) sc_generic TName id_kind H Itrue);
    try (intros; apply Itrue_all); try (intros; exact I).
  - intros; apply sc_union_wider.
  - intros; apply sc_generic_wider.
  - intros; apply wider_refl.
Qed.
Lemma simplify_containers_wf : forall k b t, wf k t -> wf k (simplify_containers b t).
Proof.
  intros k b t. unfold simplify_containers. apply visit_wf.
  - intros l F. unfold sc_union. destruct b; [|constructor; assumption].
    destruct l as [|x [|y r]]; try (constructor; assumption). inversion F; assumption.
  - intros c ps F. unfold sc_generic. destruct (forallb is_any ps); constructor; assumption.
  - intros; constructor.
Qed.

Lemma clu_union_wider : forall H n l, wider H (TUnion l) (clu_union n l).
Proof.
  intros H n l v A. unfold clu_union.
  destruct ((n <? length l) && negb (existsb is_lit l)); [exact I|].
  destruct (existsb is_any l); [apply join_wider_union; assumption | assumption].
Qed.
Lemma collapse_long_unions_widens_lemma : forall H n t, wider H t (collapse_long_unions n t).
Proof.
  intros H n t. unfold collapse_long_unions.
  apply (visit_widens (clu_union n) TGen TName id_kind H Itrue);
    try (intros; apply Itrue_all); try (intros; exact I).
  - intros; apply clu_union_wider.
  - intros; apply wider_refl.
  - intros; apply wider_refl.
Qed.
Lemma collapse_long_unions_wf : forall k n t, wf k t -> wf k (collapse_long_unions n t).
Proof.
  intros k n t. unfold collapse_long_unions. apply visit_wf.
  - intros l F. unfold clu_union. destruct ((n <? length l) && negb (existsb is_lit l)); [constructor|].
    destruct (existsb is_any l); [apply join_wf; assumption | constructor; assumption].
  - intros; constructor; assumption.
  - intros; constructor.
Qed.

Lemma agt_name_wider : forall H k c, wider H (TName k c) (agt_name k c).
Proof.
  intros H k c v A. unfold agt_name. destruct k; [assumption|]. destruct (Nat.eqb c c_object); [exact I | assumption].
Qed.
Lemma adjust_generic_type_widens_lemma : forall H t, wider H t (adjust_generic_type t).
Proof.
  intros H t. unfold adjust_generic_type.
  apply (visit_widens TUnion TGen agt_name id_kind H Itrue);
    try (intros; apply Itrue_all); try (intros; exact I).
  - intros; apply wider_refl.
  - intros; apply wider_refl.
  - intros; apply agt_name_wider.
Qed.
Lemma adjust_generic_type_wf : forall k t, wf k t -> wf k (adjust_generic_type t).
Proof.
  intros k t. unfold adjust_generic_type. apply visit_wf.
  - intros; constructor; assumption.
  - intros; constructor; assumption.
  - intros c. unfold agt_name. destruct k; [constructor|]. destruct (Nat.eqb c c_object); constructor.
Qed.

Lemma resolve_widens_lemma : forall H t, wider H t (resolve t).
Proof.
  intros H t. unfold resolve.
  apply (visit_widens TUnion TGen (fun _ c => TName KClass c) to_class H Itrue);
    try (intros; apply Itrue_all); try (intros; exact I).
  - intros; apply wider_refl.
  - intros; apply wider_refl.
  - intros k c v A. exact A.
Qed.

(* ================================================================== SimplifyUnionsWithSuperclasses *)
Lemma memn_In : forall x l, memn x l = true <-> In x l.
Proof.
  intros x l. unfold memn. rewrite existsb_exists. split.
  - intros [y [Hy E]]. apply Nat.eqb_eq in E. subst; assumption.
  - intros Hin. exists x. split; [assumption | apply Nat.eqb_refl].
Qed.

Lemma subs_step_sound : forall H m S, (forall n, In n S -> Sub H n m) ->
  forall n, In n (subs_step H S) -> Sub H n m.
Proof.
  intros H m S HS n Hin. unfold subs_step in Hin. apply in_app_or in Hin. destruct Hin as [Hin|Hin]; [auto|].
  apply filter_In in Hin. destruct Hin as [_ E]. apply andb_true_iff in E. destruct E as [_ E].
  apply existsb_exists in E. destruct E as [s [Hs E]]. apply memn_In in E.
  econstructor; [exact Hs | auto].
Qed.

Lemma iter_subs_sound : forall H m k S, (forall n, In n S -> Sub H n m) ->
  forall n, In n (iter k (subs_step H) S) -> Sub H n m.
Proof.
  intros H m k; induction k as [|k IH]; intros S HS n Hin; simpl in Hin; [auto|].
  eapply IH; [|exact Hin]. apply subs_step_sound; assumption.
Qed.

Lemma expand_sub_sound : forall H m n, In n (expand_sub H m) -> Sub H n m.
Proof.
  intros H m n Hin. unfold expand_sub in Hin. eapply iter_subs_sound; [|exact Hin].
  intros x [<-|[]]. constructor.
Qed.

Lemma iter_subs_mono : forall H k S n, In n S -> In n (iter k (subs_step H) S).
Proof.
  intros H k; induction k as [|k IH]; intros S n Hin; simpl; [assumption|].
  apply IH. unfold subs_step. apply in_or_app; left; assumption.
Qed.

Lemma expand_sub_refl : forall H m, In m (expand_sub H m).
Proof. intros. unfold expand_sub. apply iter_subs_mono. left; reflexivity. Qed.

Lemma ranked_sub : forall H, ranked H -> forall a b, Sub H a b -> a = b \/ b < a.
Proof.
  intros H R a b S. induction S as [|d s c Hs _ IH]; [left; reflexivity|].
  right. apply R in Hs. destruct IH as [<-|IH]; lia.
Qed.

Lemma dedup_from_NoDup : forall {A} (eqb : A -> A -> bool),
  (forall a b, eqb a b = true <-> a = b) ->
  forall l seen, NoDup (dedup_from eqb seen l) /\ (forall x, In x (dedup_from eqb seen l) -> ~ In x seen).
Proof.
  intros A eqb He. induction l as [|y r IH]; intros seen; simpl.
  - split; [constructor | intros x []].
  - destruct (mem_by eqb y seen) eqn:E; [apply IH|].
    destruct (IH (y :: seen)) as [ND NI]. split.
    + constructor; [|assumption]. intros Hin. apply (NI y Hin). left; reflexivity.
    + intros x [<-|Hin] Hs.
      * apply (mem_by_In eqb He) in Hs. congruence.
      * apply (NI x Hin). right; assumption.
Qed.

Lemma dedup_NoDup : forall l, NoDup (dedup l).
Proof. intros l. apply (dedup_from_NoDup ty_eqb ty_eqb_eq l []). Qed.

Lemma filter_map_In : forall {A B} (f : A -> option B) l y,
  In y (filter_map f l) <-> exists x, In x l /\ f x = Some y.
Proof.
  intros A B f l y. induction l as [|x r IH]; simpl.
  - split; [contradiction | intros [? [[] _]]].
  - destruct (f x) eqn:E; simpl; rewrite IH; split.
    + intros [<-|[x' [Hin E']]]; [exists x; auto | exists x'; auto].
    + intros [x' [[<-|Hin] E']]; [left; congruence | right; exists x'; auto].
    + intros [x' [Hin E']]; exists x'; auto.
    + intros [x' [[<-|Hin] E']]; [congruence | exists x'; auto].
Qed.

Lemma filter_map_NoDup : forall {A B} (f : A -> option B) l,
  (forall x x' y, In x l -> In x' l -> f x = Some y -> f x' = Some y -> x = x') ->
  NoDup l -> NoDup (filter_map f l).
Proof.
  intros A B f l Inj ND. induction ND as [|x r Hx ND IH]; simpl; [constructor|].
  assert (IH' : NoDup (filter_map f r)).
  { apply IH. intros a a' y Ha Ha'. apply Inj; right; assumption. }
  destruct (f x) eqn:E; [|assumption]. constructor; [|assumption].
  intros Hin. apply filter_map_In in Hin. destruct Hin as [x' [Hin E']].
  assert (x = x') by (eapply Inj; [left; reflexivity | right; assumption | exact E | exact E']).
  subst; contradiction.
Qed.

Lemma NoDup_two : forall (l : list nat) c, NoDup l -> 2 <= length l -> exists m, In m l /\ m <> c.
Proof.
  intros l c ND L. destruct l as [|a [|b r]]; simpl in L; try lia.
  destruct (Nat.eq_dec a c) as [->|Ne]; [|exists a; split; [left; reflexivity | assumption]].
  exists b. split; [right; left; reflexivity|]. inversion ND; subst. intros ->. apply H1. left; reflexivity.
Qed.

Lemma suws_union_wider : forall H k l, ranked H -> Forall (wf k) l -> wider H (TUnion l) (suws_union H l).
Proof.
  intros H k l R F. unfold suws_union.
  set (members := filter_map name_of (dedup l)).
  assert (M1 : forall c, In c members <-> In (TName k c) l).
  { intros c. unfold members. rewrite filter_map_In. split.
    - intros [t [Hin E]]. rewrite dedup_In in Hin. destruct t; try discriminate. simpl in E. inversion E; subst.
      rewrite Forall_forall in F. specialize (F _ Hin). inversion F; subst. assumption.
    - intros Hin. exists (TName k c). split; [apply dedup_In; assumption | reflexivity]. }
  assert (M2 : NoDup members).
  { unfold members. apply filter_map_NoDup; [|apply dedup_NoDup].
    intros x x' y Hx Hx' E E'. rewrite dedup_In in Hx, Hx'. rewrite Forall_forall in F.
    pose proof (F _ Hx) as W. pose proof (F _ Hx') as W'.
    destruct x; try discriminate. destruct x'; try discriminate. simpl in E, E'.
    inversion W; inversion W'; subst. congruence. }
  assert (K : forall n c, c < n -> In c members ->
              exists u, In u members /\ (suws_count H members u <=? 1) = true /\ Sub H c u).
  { induction n as [|n IH]; intros c Lt Hc; [lia|].
    destruct (suws_count H members c <=? 1) eqn:E.
    - exists c. repeat split; try assumption. constructor.
    - apply Nat.leb_gt in E. unfold suws_count in E.
      destruct (NoDup_two (filter (fun m => memn c (expand_sub H m)) members) c) as [m [Hm Ne]];
        [apply NoDup_filter; assumption | exact E |].
      apply filter_In in Hm. destruct Hm as [Hm Ec]. apply memn_In in Ec. apply expand_sub_sound in Ec.
      destruct (ranked_sub H R _ _ Ec) as [->|Lt']; [congruence|].
      destruct (IH m ltac:(lia) Hm) as [u [Hu [Ku Su]]]. exists u. repeat split; try assumption.
      eapply Sub_trans; eassumption. }
  intros v A. apply admits_union in A. destruct A as [t [Hin A]].
  destruct (name_of t) as [c|] eqn:E.
  - destruct t; try discriminate. simpl in E. inversion E; subst c0.
    rewrite Forall_forall in F. pose proof (F _ Hin) as W.
    assert (k0 = k) by (inversion W; reflexivity). subst k0.
    destruct (K (S c) c ltac:(lia) (proj2 (M1 c) Hin)) as [u [Hu [Ku Su]]].
    eapply (join_widens H _ (TName k u)).
    + apply filter_In. split; [apply M1; assumption|]. simpl. exact Ku.
    + simpl. simpl in A. eapply Sub_trans; eassumption.
  - eapply join_widens; [|exact A]. apply filter_In. split; [assumption|]. rewrite E. reflexivity.
Qed.

Lemma suws_union_wf : forall H k l, Forall (wf k) l -> wf k (suws_union H l).
Proof.
  intros H k l F. unfold suws_union. apply join_wf. apply Forall_forall. intros x Hx.
  apply filter_In in Hx. destruct Hx as [Hx _]. rewrite Forall_forall in F. auto.
Qed.

Lemma simplify_superclasses_wf : forall H k t, wf k t -> wf k (simplify_superclasses H t).
Proof.
  intros H k t. unfold simplify_superclasses. apply visit_wf.
  - apply suws_union_wf.
  - intros; constructor; assumption.
  - intros; constructor.
Qed.

Lemma simplify_superclasses_widens_lemma : forall H k t,
  ranked H -> wf k t -> wider H t (simplify_superclasses H t).
Proof.
  intros H k t R. unfold simplify_superclasses.
  apply (visit_widens (suws_union H) TGen TName id_kind H (wf k)).
  - apply wf_union_inv.
  - intros k0 c ps; apply wf_gen_inv.
  - intros k0 c ps; apply wf_tup_inv.
  - intros k0 c ps; apply wf_call_inv.
  - apply simplify_superclasses_wf.
  - intros; apply (suws_union_wider H k); assumption.
  - intros; apply wider_refl.
  - intros; apply wider_refl.
Qed.
