(* C11 — lemmas about the optimiser model (Opt/Model.v). *)
From Coq Require Import List Arith Bool Lia.
From PV Require Import Opt.Syntax Generated.C11_Passes Opt.Model.
Import ListNotations.

(* ================================================================== induction on types *)
Section TyInd.
  Variable P : ty -> Prop.
  Hypothesis Hname : forall k c, P (TName k c).
  Hypothesis Hany : P TAny.
  Hypothesis Hnothing : P TNothing.
  Hypothesis Hlit : forall n, P (TLit n).
  Hypothesis Hunion : forall ts, Forall P ts -> P (TUnion ts).
  Hypothesis Hgen : forall k c ps, Forall P ps -> P (TGen k c ps).
  Hypothesis Htup : forall k c ps, Forall P ps -> P (TTup k c ps).
  Hypothesis Hcall : forall k c ps, Forall P ps -> P (TCall k c ps).
  Fixpoint ty_ind' (t : ty) : P t :=
    let fix go (l : list ty) : Forall P l :=
      match l with
      | [] => Forall_nil P
      | x :: r => Forall_cons x (ty_ind' x) (go r)
      end in
    match t with
    | TName k c => Hname k c
    | TAny => Hany
    | TNothing => Hnothing
    | TLit n => Hlit n
    | TUnion ts => Hunion ts (go ts)
    | TGen k c ps => Hgen k c ps (go ps)
    | TTup k c ps => Htup k c ps (go ps)
    | TCall k c ps => Hcall k c ps (go ps)
    end.
End TyInd.

(* ================================================================== strict equality *)
Lemma kind_eqb_eq : forall a b, kind_eqb a b = true <-> a = b.
Proof. destruct a, b; simpl; split; congruence. Qed.

Definition tys_eqb := fix go (l l' : list ty) : bool :=
  match l, l' with
  | [], [] => true
  | x :: r, y :: r' => ty_eqb x y && go r r'
  | _, _ => false
  end.

Lemma tys_eqb_eq : forall l, Forall (fun a => forall b, ty_eqb a b = true <-> a = b) l ->
  forall l', tys_eqb l l' = true <-> l = l'.
Proof.
  induction 1 as [|x r Hx _ IH]; destruct l' as [|y r']; simpl; split; try congruence; try reflexivity.
  - rewrite andb_true_iff. intros [H1 H2]. apply Hx in H1. apply IH in H2. congruence.
  - intros E. inversion E; subst. rewrite andb_true_iff. split; [apply Hx | apply IH]; reflexivity.
Qed.

Lemma ty_eqb_eq : forall a b, ty_eqb a b = true <-> a = b.
Proof.
  induction a using ty_ind'; destruct b; simpl; split; try congruence; try reflexivity.
  - rewrite andb_true_iff, kind_eqb_eq, Nat.eqb_eq. intros [? ?]; congruence.
  - intros E; inversion E; subst. rewrite andb_true_iff, kind_eqb_eq, Nat.eqb_eq. auto.
  - rewrite Nat.eqb_eq. congruence.
  - intros E; inversion E; subst. apply Nat.eqb_refl.
  - intros E. change (tys_eqb ts ts0 = true) in E. apply (tys_eqb_eq _ H) in E. congruence.
  - intros E; inversion E; subst. change (tys_eqb ts0 ts0 = true). apply (tys_eqb_eq _ H). reflexivity.
  - change (kind_eqb k k0 && Nat.eqb c c0 && tys_eqb ps ps0 = true -> TGen k c ps = TGen k0 c0 ps0).
    rewrite !andb_true_iff, kind_eqb_eq, Nat.eqb_eq. intros [[? ?] E]. apply (tys_eqb_eq _ H) in E. congruence.
  - intros E; inversion E; subst.
    change (kind_eqb k0 k0 && Nat.eqb c0 c0 && tys_eqb ps0 ps0 = true).
    rewrite !andb_true_iff, kind_eqb_eq, Nat.eqb_eq. repeat split. apply (tys_eqb_eq _ H). reflexivity.
  - change (kind_eqb k k0 && Nat.eqb c c0 && tys_eqb ps ps0 = true -> TTup k c ps = TTup k0 c0 ps0).
    rewrite !andb_true_iff, kind_eqb_eq, Nat.eqb_eq. intros [[? ?] E]. apply (tys_eqb_eq _ H) in E. congruence.
  - intros E; inversion E; subst.
    change (kind_eqb k0 k0 && Nat.eqb c0 c0 && tys_eqb ps0 ps0 = true).
    rewrite !andb_true_iff, kind_eqb_eq, Nat.eqb_eq. repeat split. apply (tys_eqb_eq _ H). reflexivity.
  - change (kind_eqb k k0 && Nat.eqb c c0 && tys_eqb ps ps0 = true -> TCall k c ps = TCall k0 c0 ps0).
    rewrite !andb_true_iff, kind_eqb_eq, Nat.eqb_eq. intros [[? ?] E]. apply (tys_eqb_eq _ H) in E. congruence.
  - intros E; inversion E; subst.
    change (kind_eqb k0 k0 && Nat.eqb c0 c0 && tys_eqb ps0 ps0 = true).
    rewrite !andb_true_iff, kind_eqb_eq, Nat.eqb_eq. repeat split. apply (tys_eqb_eq _ H). reflexivity.
Qed.

Lemma ty_eqb_refl : forall a, ty_eqb a a = true.
Proof. intros; apply ty_eqb_eq; reflexivity. Qed.

(* ================================================================== membership / dedup *)
Lemma mem_by_In : forall {A} (eqb : A -> A -> bool),
  (forall a b, eqb a b = true <-> a = b) -> forall x l, mem_by eqb x l = true <-> In x l.
Proof.
  intros A eqb He x l. unfold mem_by. rewrite existsb_exists. split.
  - intros [y [Hy E]]. apply He in E. subst; assumption.
  - intros Hin. exists x. split; [assumption | apply He; reflexivity].
Qed.

Lemma memb_In : forall x l, memb x l = true <-> In x l.
Proof. intros. apply mem_by_In. apply ty_eqb_eq. Qed.

Lemma dedup_from_subset : forall {A} (eqb : A -> A -> bool) l seen x,
  In x (dedup_from eqb seen l) -> In x l.
Proof.
  induction l as [|y r IH]; simpl; intros seen x Hin; [contradiction|].
  destruct (mem_by eqb y seen).
  - right. eapply IH; eassumption.
  - destruct Hin as [->|Hin]; [left; reflexivity | right; eapply IH; eassumption].
Qed.

Lemma dedup_from_complete : forall {A} (eqb : A -> A -> bool),
  (forall a b, eqb a b = true <-> a = b) ->
  forall l seen x, In x l -> In x seen \/ In x (dedup_from eqb seen l).
Proof.
  intros A eqb He. induction l as [|y r IH]; simpl; intros seen x Hin; [contradiction|].
  destruct (mem_by eqb y seen) eqn:E.
  - destruct Hin as [->|Hin]; [left; apply (mem_by_In eqb He); assumption | apply IH; assumption].
  - destruct Hin as [->|Hin]; [right; left; reflexivity|].
    destruct (IH (y :: seen) x Hin) as [[->|H1]|H1]; [right; left; reflexivity | left; assumption | right; right; assumption].
Qed.

Lemma dedup_In : forall x l, In x (dedup l) <-> In x l.
Proof.
  intros x l. unfold dedup, dedup_by. split.
  - apply dedup_from_subset.
  - intros Hin. destruct (dedup_from_complete ty_eqb ty_eqb_eq l [] x Hin) as [[]|H]; assumption.
Qed.

Lemma dedup_by_subset : forall {A} (eqb : A -> A -> bool) l x, In x (dedup_by eqb l) -> In x l.
Proof. intros. eapply dedup_from_subset; eassumption. Qed.

(* ================================================================== semantics, unfolded *)
Definition wider (H : hier) (t t' : ty) : Prop := forall v, admits H t v -> admits H t' v.

Lemma wider_refl : forall H t, wider H t t.
Proof. unfold wider; auto. Qed.
Lemma wider_trans : forall H a b c, wider H a b -> wider H b c -> wider H a c.
Proof. unfold wider; auto. Qed.

Fixpoint gen_ok (H : hier) (ps : list ty) (cs : list (list value)) : Prop :=
  match ps, cs with
  | p :: ps', c0 :: cs' => Forall (admits H p) c0 /\ gen_ok H ps' cs'
  | _, _ => True
  end.

Lemma admits_union : forall H ts v, admits H (TUnion ts) v <-> exists t, In t ts /\ admits H t v.
Proof.
  intros H ts v. simpl. induction ts as [|t r IH]; simpl.
  - split; [contradiction | intros [? [[] _]]].
  - rewrite IH. split.
    + intros [Ha | [t' [Hin Ha]]]; [exists t; auto | exists t'; auto].
    + intros [t' [[->|Hin] Ha]]; [left; assumption | right; exists t'; auto].
Qed.

Lemma admits_all : forall H p vs,
  (fix all (vs : list value) : Prop := match vs with [] => True | x :: r => admits H p x /\ all r end) vs
  <-> Forall (admits H p) vs.
Proof.
  induction vs as [|x r IH]; simpl; split; auto.
  - intros [? ?]; constructor; [assumption | apply IH; assumption].
  - intros F; inversion F; subst. split; [assumption | apply IH; assumption].
Qed.

Lemma admits_gen : forall H k c ps v,
  admits H (TGen k c ps) v <-> Sub H (cls_of v) c /\ gen_ok H ps (contents_of v).
Proof.
  intros H k c ps v. simpl. apply and_iff_compat_l.
  generalize (contents_of v). induction ps as [|p r IH]; intros cs; simpl; [tauto|].
  destruct cs as [|c0 cs']; [tauto|]. rewrite IH, admits_all. tauto.
Qed.

Lemma admits_tup : forall H k c ps v,
  admits H (TTup k c ps) v <->
  exists items, v = Tup items /\ Sub H c_tuple c /\ Forall2 (admits H) ps items.
Proof.
  intros H k c ps v. destruct v as [d cs|items|a r|n]; simpl;
    try (split; [contradiction | intros [? [E _]]; discriminate]).
  split.
  - intros [Hs Hf]. exists items. split; [reflexivity|]. split; [assumption|].
    clear Hs. revert items Hf.
    induction ps as [|p r IH]; intros items Hf; destruct items as [|x items']; try contradiction.
    + constructor.
    + destruct Hf as [Ha Hb]. constructor; [exact Ha | apply IH; exact Hb].
  - intros [items' [E [Hs Hf]]]. inversion E; subst items'. split; [assumption|].
    induction Hf; [exact I | split; assumption].
Qed.

Lemma admits_call : forall H k c ps v,
  admits H (TCall k c ps) v <->
  exists a r, v = Fn a r /\ Sub H c_callable c /\ length ps = S a /\ admits H (last_or TNothing ps) r.
Proof.
  intros H k c ps v. destruct v as [d cs|items|a r|n]; simpl;
    try (split; [contradiction | intros [? [? [E _]]]; discriminate]).
  assert (L : (fix lst (ps0 : list ty) : Prop :=
                 match ps0 with
                 | [] => False
                 | p :: r' => match r' with [] => admits H p r | _ :: _ => lst r' end
                 end) ps <-> admits H (last_or TNothing ps) r).
  { induction ps as [|p r' IH]; simpl; [tauto|]. destruct r'; [tauto | exact IH]. }
  rewrite L. split.
  - intros [? [? ?]]. exists a, r. auto.
  - intros [a' [r' [E [? [? ?]]]]]. inversion E; subst. auto.
Qed.

Lemma admits_kind : forall H t v k k',
  match t with
  | TName _ c => admits H (TName k c) v <-> admits H (TName k' c) v
  | TGen _ c ps => admits H (TGen k c ps) v <-> admits H (TGen k' c ps) v
  | TTup _ c ps => admits H (TTup k c ps) v <-> admits H (TTup k' c ps) v
  | TCall _ c ps => admits H (TCall k c ps) v <-> admits H (TCall k' c ps) v
  | _ => True
  end.
Proof. intros; destruct t; simpl; tauto. Qed.

Lemma Sub_trans : forall H a b c, Sub H a b -> Sub H b c -> Sub H a c.
Proof. intros H a b c S1; induction S1; intros S2; [assumption | econstructor; eauto]. Qed.

(* prefix-pointwise widening of parameter lists: [ps'] may be shorter (zip truncation) *)
Inductive pw (H : hier) : list ty -> list ty -> Prop :=
| pw_nil : forall qs, pw H qs []
| pw_cons : forall q p qs ps, wider H q p -> pw H qs ps -> pw H (q :: qs) (p :: ps).

Lemma pw_refl : forall H l, pw H l l.
Proof. induction l; constructor; [apply wider_refl | assumption]. Qed.
Lemma pw_trans : forall H a b c, pw H a b -> pw H b c -> pw H a c.
Proof.
  intros H a b c P1; revert c; induction P1; intros c0 P2; inversion P2; subst; constructor.
  - eapply wider_trans; eassumption.
  - apply IHP1; assumption.
Qed.
Lemma pw_length : forall H a b, pw H a b -> length b <= length a.
Proof. induction 1; simpl; lia. Qed.

Lemma gen_ok_pw : forall H qs ps, pw H qs ps -> forall cs, gen_ok H qs cs -> gen_ok H ps cs.
Proof.
  induction 1; intros cs G; simpl; [destruct cs; exact I|].
  destruct cs as [|c0 cs']; [exact I|]. simpl in G. destruct G as [G1 G2]. split.
  - eapply Forall_impl; [|exact G1]. intros; apply H0; assumption.
  - apply IHpw; assumption.
Qed.

Lemma forall2_pw : forall H qs ps, pw H qs ps -> length ps = length qs ->
  forall items, Forall2 (admits H) qs items -> Forall2 (admits H) ps items.
Proof.
  induction 1; intros L items F.
  - destruct qs; [assumption | discriminate].
  - inversion F; subst. constructor; [apply H0; assumption | apply IHpw; [simpl in L; lia | assumption]].
Qed.

Lemma last_or_pw : forall H qs ps, pw H qs ps -> length ps = length qs ->
  wider H (last_or TNothing qs) (last_or TNothing ps).
Proof.
  induction 1; intros L.
  - destruct qs; [apply wider_refl | discriminate].
  - simpl in L. destruct qs as [|q' qs']; destruct ps as [|p' ps']; simpl in *; try lia.
    + assumption.
    + apply IHpw. lia.
Qed.

Lemma wider_gen : forall H k k' c qs ps, pw H qs ps -> wider H (TGen k c qs) (TGen k' c ps).
Proof.
  intros H k k' c qs ps P v. rewrite !admits_gen. intros [S G]. split; [assumption|].
  eapply gen_ok_pw; eassumption.
Qed.
Lemma wider_tup : forall H k k' c qs ps, pw H qs ps -> length ps = length qs ->
  wider H (TTup k c qs) (TTup k' c ps).
Proof.
  intros H k k' c qs ps P L v. rewrite !admits_tup. intros [items [E [S F]]]. exists items.
  repeat split; try assumption. eapply forall2_pw; eassumption.
Qed.
Lemma wider_call : forall H k k' c qs ps, pw H qs ps -> length ps = length qs ->
  wider H (TCall k c qs) (TCall k' c ps).
Proof.
  intros H k k' c qs ps P L v. rewrite !admits_call. intros [a [r [E [S [Ln A]]]]]. exists a, r.
  repeat split; try assumption; [congruence|]. eapply last_or_pw; eassumption.
Qed.

Lemma pw_map : forall H (f : ty -> ty) l, Forall (fun t => wider H t (f t)) l -> pw H l (map f l).
Proof. induction 1; simpl; constructor; assumption. Qed.

(* ================================================================== JoinTypes / UnionType() *)
Lemma flat_sound : forall H t v, admits H t v <-> exists x, In x (flat t) /\ admits H x v.
Proof.
  intros H t; induction t using ty_ind'; intros v;
    try (simpl; split; [intros A; eexists; split; [left; reflexivity | exact A]
                       | intros [x [[<-|[]] A]]; exact A]).
  - simpl. split; [contradiction | intros [x [[] _]]].
  - rewrite admits_union. change (flat (TUnion ts)) with (flat_map flat ts). split.
    + intros [t [Hin A]]. rewrite Forall_forall in H0. apply (H0 t Hin) in A.
      destruct A as [x [Hx A]]. exists x. split; [apply in_flat_map; exists t; auto | assumption].
    + intros [x [Hx A]]. apply in_flat_map in Hx. destruct Hx as [t [Hin Hx]]. exists t. split; [assumption|].
      rewrite Forall_forall in H0. apply (H0 t Hin). exists x; auto.
Qed.

Lemma join_widens : forall H ts t, In t ts -> wider H t (join ts).
Proof.
  intros H ts t Hin v A. apply flat_sound in A. destruct A as [x [Hx A]].
  assert (Hl : In x (dedup (flat_map flat ts))).
  { apply dedup_In. apply in_flat_map. exists t; auto. }
  unfold join. remember (dedup (flat_map flat ts)) as l eqn:El. clear El.
  assert (G : admits H (if existsb is_any l
                        then if existsb is_named_none l then TUnion [TAny; TName KNamed c_none] else TAny
                        else match l with [] => TNothing | _ => TUnion l end) v).
  { destruct (existsb is_any l).
    - destruct (existsb is_named_none l); simpl; auto.
    - destruct l as [|y r]; [contradiction|]. apply admits_union. exists x; auto. }
  destruct l as [|y [|z r]]; try exact G.
  destruct Hl as [->|[]]. exact A.
Qed.

Lemma flat1_sound : forall H t v, admits H t v <-> exists x, In x (flat1 t) /\ admits H x v.
Proof.
  intros H t v. destruct t; try (simpl; split; [intros A; eexists; split; [left; reflexivity | exact A]
                                               | intros [x [[<-|[]] A]]; exact A]).
  simpl flat1. apply admits_union.
Qed.

Lemma norm_union_admits : forall H l v, admits H (TUnion (norm_union l)) v <-> admits H (TUnion l) v.
Proof.
  intros H l v. rewrite !admits_union. unfold norm_union. split.
  - intros [x [Hx A]]. apply dedup_In in Hx. apply in_flat_map in Hx. destruct Hx as [t [Hin Hx]].
    exists t. split; [assumption|]. apply flat1_sound. exists x; auto.
  - intros [t [Hin A]]. apply flat1_sound in A. destruct A as [x [Hx A]]. exists x. split; [|assumption].
    apply dedup_In. apply in_flat_map. exists t; auto.
Qed.
