(* C11 — lemmas about the optimiser model (Opt/Model.v). *)
From Coq Require Import List Arith Bool Lia.
From PV Require Import Opt.Syntax Generated.C11_Passes Opt.Model Opt.Spec.
Import ListNotations.

(* ================================================================== induction on types *)
Section TyInd.
  Variable P : ty -> Prop.
  Hypothesis Hname : forall k c, P (TName k c).
  Hypothesis Hany : P TAny.
  Hypothesis Hnothing : P TNothing.
  Hypothesis Hlit : forall n, P (TLit n).
  Hypothesis Hunion : forall ts, Forall P ts -> P (TUnion ts).
  Hypothesis Hgen : forall k c ps, Forall P ps -> P (TGen k c ps).
  Hypothesis Htup : forall k c ps, Forall P ps -> P (TTup k c ps).
  Hypothesis Hcall : forall k c ps, Forall P ps -> P (TCall k c ps).
  Hypothesis Hvar : forall n sc hb ps, Forall P ps -> P (TVar n sc hb ps).
  Fixpoint ty_ind' (t : ty) : P t :=
    let fix go (l : list ty) : Forall P l :=
      match l with
      | [] => Forall_nil P
      | x :: r => Forall_cons x (ty_ind' x) (go r)
      end in
    match t with
    | TName k c => Hname k c
    | TAny => Hany
    | TNothing => Hnothing
    | TLit n => Hlit n
    | TUnion ts => Hunion ts (go ts)
    | TGen k c ps => Hgen k c ps (go ps)
    | TTup k c ps => Htup k c ps (go ps)
    | TCall k c ps => Hcall k c ps (go ps)
    | TVar n sc hb ps => Hvar n sc hb ps (go ps)
    end.
End TyInd.

(* ================================================================== strict equality *)
Lemma kind_eqb_eq : forall a b, kind_eqb a b = true <-> a = b.
Proof. destruct a, b; simpl; split; congruence. Qed.

Definition tys_eqb := fix go (l l' : list ty) : bool :=
  match l, l' with
  | [], [] => true
  | x :: r, y :: r' => ty_eqb x y && go r r'
  | _, _ => false
  end.

Lemma tys_eqb_eq : forall l, Forall (fun a => forall b, ty_eqb a b = true <-> a = b) l ->
  forall l', tys_eqb l l' = true <-> l = l'.
Proof.
  induction 1 as [|x r Hx _ IH]; destruct l' as [|y r']; simpl; split; try congruence; try reflexivity.
  - rewrite andb_true_iff. intros [H1 H2]. apply Hx in H1. apply IH in H2. congruence.
  - intros E. inversion E; subst. rewrite andb_true_iff. split; [apply Hx | apply IH]; reflexivity.
Qed.

Lemma ty_eqb_eq : forall a b, ty_eqb a b = true <-> a = b.
Proof.
  induction a using ty_ind'; destruct b; simpl; split; try congruence; try reflexivity.
  - rewrite andb_true_iff, kind_eqb_eq, Nat.eqb_eq. intros [? ?]; congruence.
  - intros E; inversion E; subst. rewrite andb_true_iff, kind_eqb_eq, Nat.eqb_eq. auto.
  - rewrite Nat.eqb_eq. congruence.
  - intros E; inversion E; subst. apply Nat.eqb_refl.
  - intros E. change (tys_eqb ts ts0 = true) in E. apply (tys_eqb_eq _ H) in E. congruence.
  - intros E; inversion E; subst. change (tys_eqb ts0 ts0 = true). apply (tys_eqb_eq _ H). reflexivity.
  - change (kind_eqb k k0 && Nat.eqb c c0 && tys_eqb ps ps0 = true -> TGen k c ps = TGen k0 c0 ps0).
    rewrite !andb_true_iff, kind_eqb_eq, Nat.eqb_eq. intros [[? ?] E]. apply (tys_eqb_eq _ H) in E. congruence.
  - intros E; inversion E; subst.
    change (kind_eqb k0 k0 && Nat.eqb c0 c0 && tys_eqb ps0 ps0 = true).
    rewrite !andb_true_iff, kind_eqb_eq, Nat.eqb_eq. repeat split. apply (tys_eqb_eq _ H). reflexivity.
  - change (kind_eqb k k0 && Nat.eqb c c0 && tys_eqb ps ps0 = true -> TTup k c ps = TTup k0 c0 ps0).
    rewrite !andb_true_iff, kind_eqb_eq, Nat.eqb_eq. intros [[? ?] E]. apply (tys_eqb_eq _ H) in E. congruence.
  - intros E; inversion E; subst.
    change (kind_eqb k0 k0 && Nat.eqb c0 c0 && tys_eqb ps0 ps0 = true).
    rewrite !andb_true_iff, kind_eqb_eq, Nat.eqb_eq. repeat split. apply (tys_eqb_eq _ H). reflexivity.
  - change (kind_eqb k k0 && Nat.eqb c c0 && tys_eqb ps ps0 = true -> TCall k c ps = TCall k0 c0 ps0).
    rewrite !andb_true_iff, kind_eqb_eq, Nat.eqb_eq. intros [[? ?] E]. apply (tys_eqb_eq _ H) in E. congruence.
  - intros E; inversion E; subst.
    change (kind_eqb k0 k0 && Nat.eqb c0 c0 && tys_eqb ps0 ps0 = true).
    rewrite !andb_true_iff, kind_eqb_eq, Nat.eqb_eq. repeat split. apply (tys_eqb_eq _ H). reflexivity.
  - change (Nat.eqb n n0 && Nat.eqb sc sc0 && Bool.eqb hb hb0 && tys_eqb ps ps0 = true
            -> TVar n sc hb ps = TVar n0 sc0 hb0 ps0).
    rewrite !andb_true_iff, !Nat.eqb_eq, Bool.eqb_true_iff. intros [[[? ?] ?] E].
    apply (tys_eqb_eq _ H) in E. congruence.
  - intros E; inversion E; subst.
    change (Nat.eqb n0 n0 && Nat.eqb sc0 sc0 && Bool.eqb hb0 hb0 && tys_eqb ps0 ps0 = true).
    rewrite !andb_true_iff, !Nat.eqb_eq, Bool.eqb_true_iff. repeat split. apply (tys_eqb_eq _ H). reflexivity.
Qed.

Lemma ty_eqb_refl : forall a, ty_eqb a a = true.
Proof. intros; apply ty_eqb_eq; reflexivity. Qed.

(* ================================================================== membership / dedup *)
Lemma mem_by_In : forall {A} (eqb : A -> A -> bool),
  (forall a b, eqb a b = true <-> a = b) -> forall x l, mem_by eqb x l = true <-> In x l.
Proof.
  intros A eqb He x l. unfold mem_by. rewrite existsb_exists. split.
  - intros [y [Hy E]]. apply He in E. subst; assumption.
  - intros Hin. exists x. split; [assumption | apply He; reflexivity].
Qed.

Lemma memb_In : forall x l, memb x l = true <-> In x l.
Proof. intros. apply mem_by_In. apply ty_eqb_eq. Qed.

Lemma dedup_from_subset : forall {A} (eqb : A -> A -> bool) l seen x,
  In x (dedup_from eqb seen l) -> In x l.
Proof.
  induction l as [|y r IH]; simpl; intros seen x Hin; [contradiction|].
  destruct (mem_by eqb y seen).
  - right. eapply IH; eassumption.
  - destruct Hin as [->|Hin]; [left; reflexivity | right; eapply IH; eassumption].
Qed.

Lemma dedup_from_complete : forall {A} (eqb : A -> A -> bool),
  (forall a b, eqb a b = true <-> a = b) ->
  forall l seen x, In x l -> In x seen \/ In x (dedup_from eqb seen l).
Proof.
  intros A eqb He. induction l as [|y r IH]; simpl; intros seen x Hin; [contradiction|].
  destruct (mem_by eqb y seen) eqn:E.
  - destruct Hin as [->|Hin]; [left; apply (mem_by_In eqb He); assumption | apply IH; assumption].
  - destruct Hin as [->|Hin]; [right; left; reflexivity|].
    destruct (IH (y :: seen) x Hin) as [[->|H1]|H1]; [right; left; reflexivity | left; assumption | right; right; assumption].
Qed.

Lemma dedup_In : forall x l, In x (dedup l) <-> In x l.
Proof.
  intros x l. unfold dedup, dedup_by. split.
  - apply dedup_from_subset.
  - intros Hin. destruct (dedup_from_complete ty_eqb ty_eqb_eq l [] x Hin) as [[]|H]; assumption.
Qed.

Lemma dedup_by_subset : forall {A} (eqb : A -> A -> bool) l x, In x (dedup_by eqb l) -> In x l.
Proof. intros. eapply dedup_from_subset; eassumption. Qed.

(* ================================================================== semantics, unfolded *)
Lemma wider_refl : forall H t, wider H t t.
Proof. unfold wider; auto. Qed.
Lemma wider_trans : forall H a b c, wider H a b -> wider H b c -> wider H a c.
Proof. unfold wider; auto. Qed.

Fixpoint gen_ok (H : hier) (ps : list ty) (cs : list (list value)) : Prop :=
  match ps, cs with
  | p :: ps', c0 :: cs' => Forall (admits H p) c0 /\ gen_ok H ps' cs'
  | _, _ => True
  end.

Lemma admits_union : forall H ts v, admits H (TUnion ts) v <-> exists t, In t ts /\ admits H t v.
Proof.
  intros H ts v. simpl. induction ts as [|t r IH]; simpl.
  - split; [contradiction | intros [? [[] _]]].
  - rewrite IH. split.
    + intros [Ha | [t' [Hin Ha]]]; [exists t; auto | exists t'; auto].
    + intros [t' [[->|Hin] Ha]]; [left; assumption | right; exists t'; auto].
Qed.

Lemma admits_all : forall H p vs,
  (fix all (vs : list value) : Prop := match vs with [] => True | x :: r => admits H p x /\ all r end) vs
  <-> Forall (admits H p) vs.
Proof.
  induction vs as [|x r IH]; simpl; split; auto.
  - intros [? ?]; constructor; [assumption | apply IH; assumption].
  - intros F; inversion F; subst. split; [assumption | apply IH; assumption].
Qed.

Lemma admits_gen : forall H k c ps v,
  admits H (TGen k c ps) v <-> Sub H (cls_of v) c /\ gen_ok H ps (contents_of v).
Proof.
  intros H k c ps v. simpl. apply and_iff_compat_l.
  generalize (contents_of v). induction ps as [|p r IH]; intros cs; simpl; [tauto|].
  destruct cs as [|c0 cs']; [tauto|]. rewrite IH, admits_all. tauto.
Qed.

Lemma admits_tup : forall H k c ps v,
  admits H (TTup k c ps) v <->
  exists items, v = Tup items /\ Sub H c_tuple c /\ Forall2 (admits H) ps items.
Proof.
  intros H k c ps v. destruct v as [d cs|items|a r|n]; simpl;
    try (split; [contradiction | intros [? [E _]]; discriminate]).
  split.
  - intros [Hs Hf]. exists items. split; [reflexivity|]. split; [assumption|].
    clear Hs. revert items Hf.
    induction ps as [|p r IH]; intros items Hf; destruct items as [|x items']; try contradiction.
    + constructor.
    + destruct Hf as [Ha Hb]. constructor; [exact Ha | apply IH; exact Hb].
  - intros [items' [E [Hs Hf]]]. inversion E; subst items'. split; [assumption|]. clear E.
    induction Hf; [exact I | split; assumption].
Qed.

Lemma admits_call : forall H k c ps v,
  admits H (TCall k c ps) v <->
  exists a r, v = Fn a r /\ Sub H c_callable c /\ length ps = S a /\ admits H (last_or TNothing ps) r.
Proof.
  intros H k c ps v. destruct v as [d cs|items|a r|n]; simpl;
    try (split; [contradiction | intros [? [? [E _]]]; discriminate]).
  assert (L : (fix lst (ps0 : list ty) : Prop :=
                 match ps0 with
                 | [] => False
                 | p :: r' => match r' with [] => admits H p r | _ :: _ => lst r' end
                 end) ps <-> admits H (last_or TNothing ps) r).
  { induction ps as [|p r' IH]; simpl; [tauto|]. destruct r'; [tauto | exact IH]. }
  rewrite L. split.
  - intros [? [? ?]]. exists a, r. auto.
  - intros [a' [r' [E [? [? ?]]]]]. inversion E; subst. auto.
Qed.

Lemma admits_kind : forall H t v k k',
  match t with
  | TName _ c => admits H (TName k c) v <-> admits H (TName k' c) v
  | TGen _ c ps => admits H (TGen k c ps) v <-> admits H (TGen k' c ps) v
  | TTup _ c ps => admits H (TTup k c ps) v <-> admits H (TTup k' c ps) v
  | TCall _ c ps => admits H (TCall k c ps) v <-> admits H (TCall k' c ps) v
  | _ => True
  end.
Proof. intros; destruct t; simpl; tauto. Qed.

Lemma Sub_trans : forall H a b c, Sub H a b -> Sub H b c -> Sub H a c.
Proof. intros H a b c S1; induction S1; intros S2; [assumption | econstructor; eauto]. Qed.

(* prefix-pointwise widening of parameter lists: [ps'] may be shorter (zip truncation) *)
Inductive pw (H : hier) : list ty -> list ty -> Prop :=
| pw_nil : forall qs, pw H qs []
| pw_cons : forall q p qs ps, wider H q p -> pw H qs ps -> pw H (q :: qs) (p :: ps).

Lemma pw_refl : forall H l, pw H l l.
Proof. induction l; constructor; [apply wider_refl | assumption]. Qed.
Lemma pw_trans : forall H a b c, pw H a b -> pw H b c -> pw H a c.
Proof.
  intros H a b c P1; revert c; induction P1; intros c0 P2; inversion P2; subst; constructor.
  - eapply wider_trans; eassumption.
  - apply IHP1; assumption.
Qed.
Lemma pw_length : forall H a b, pw H a b -> length b <= length a.
Proof. induction 1; simpl; lia. Qed.

Lemma gen_ok_pw : forall H qs ps, pw H qs ps -> forall cs, gen_ok H qs cs -> gen_ok H ps cs.
Proof.
  induction 1; intros cs G; simpl; [destruct cs; exact I|].
  destruct cs as [|c0 cs']; [exact I|]. simpl in G. destruct G as [G1 G2]. split.
  - eapply Forall_impl; [|exact G1]. intros; apply H0; assumption.
  - apply IHpw; assumption.
Qed.

Lemma forall2_pw : forall H qs ps, pw H qs ps -> length ps = length qs ->
  forall items, Forall2 (admits H) qs items -> Forall2 (admits H) ps items.
Proof.
  induction 1; intros L items F.
  - destruct qs; [assumption | discriminate].
  - inversion F; subst. constructor; [apply H0; assumption | apply IHpw; [simpl in L; lia | assumption]].
Qed.

Lemma last_or_pw : forall H qs ps, pw H qs ps -> length ps = length qs ->
  wider H (last_or TNothing qs) (last_or TNothing ps).
Proof.
  induction 1; intros L.
  - destruct qs; [apply wider_refl | discriminate].
  - simpl in L. destruct qs as [|q' qs']; destruct ps as [|p' ps']; simpl in *; try lia.
    + assumption.
    + apply IHpw. lia.
Qed.

Lemma wider_gen : forall H k k' c qs ps, pw H qs ps -> wider H (TGen k c qs) (TGen k' c ps).
Proof.
  intros H k k' c qs ps P v. rewrite !admits_gen. intros [S G]. split; [assumption|].
  eapply gen_ok_pw; eassumption.
Qed.
Lemma wider_tup : forall H k k' c qs ps, pw H qs ps -> length ps = length qs ->
  wider H (TTup k c qs) (TTup k' c ps).
Proof.
  intros H k k' c qs ps P L v. rewrite !admits_tup. intros [items [E [S F]]]. exists items.
  repeat split; try assumption. eapply forall2_pw; eassumption.
Qed.
Lemma wider_call : forall H k k' c qs ps, pw H qs ps -> length ps = length qs ->
  wider H (TCall k c qs) (TCall k' c ps).
Proof.
  intros H k k' c qs ps P L v. rewrite !admits_call. intros [a [r [E [S [Ln A]]]]]. exists a, r.
  repeat split; try assumption; [congruence|]. eapply last_or_pw; eassumption.
Qed.

(* a type parameter is its upper value *)
Definition upper (hb : bool) (ps : list ty) : ty :=
  match ps with
  | [] => TAny
  | b :: cs => if hb then match cs with [] => b | _ => TUnion cs end else TUnion (b :: cs)
  end.
Lemma admits_var : forall H n sc hb ps v, admits H (TVar n sc hb ps) v <-> admits H (upper hb ps) v.
Proof. intros H n sc hb ps v. destruct ps as [|b cs]; simpl; [tauto|]. destruct hb; destruct cs; simpl; tauto. Qed.
Lemma union_pw : forall H qs ps, pw H qs ps -> length ps = length qs -> wider H (TUnion qs) (TUnion ps).
Proof.
  induction 1; intros L v A.
  - destruct qs; [assumption | discriminate].
  - apply admits_union in A. destruct A as [t [[<-|Hin] A]]; apply admits_union.
    + exists p. split; [left; reflexivity | apply H0; assumption].
    + assert (A' : admits H (TUnion ps) v).
      { apply IHpw; [simpl in L; lia|]. apply admits_union. exists t; auto. }
      apply admits_union in A'. destruct A' as [t' [Hin' A']]. exists t'. split; [right; assumption | assumption].
Qed.
Lemma wider_var : forall H n sc hb qs ps, pw H qs ps -> length ps = length qs ->
  wider H (TVar n sc hb qs) (TVar n sc hb ps).
Proof.
  intros H n sc hb qs ps P L v. rewrite !admits_var. destruct P as [qs|q p qs ps W P].
  - destruct qs; [auto | discriminate].
  - simpl in L. assert (L' : length ps = length qs) by lia.
    unfold upper. destruct hb.
    + destruct qs as [|q' qs']; destruct ps as [|p' ps']; try discriminate; [apply W|].
      apply (union_pw H (q' :: qs') (p' :: ps')); assumption.
    + apply (union_pw H (q :: qs) (p :: ps)); [constructor; assumption | simpl; lia].
Qed.

Lemma pw_map : forall H (f : ty -> ty) l, Forall (fun t => wider H t (f t)) l -> pw H l (map f l).
Proof. induction 1; simpl; constructor; assumption. Qed.

(* ================================================================== JoinTypes / UnionType() *)
Lemma flat_sound : forall H t v, admits H t v <-> exists x, In x (flat t) /\ admits H x v.
Proof.
  intros H t; induction t using ty_ind'; intros v;
    try (simpl; split; [intros A; eexists; split; [left; reflexivity | exact A]
                       | intros [x [[<-|[]] A]]; exact A]).
  - simpl. split; [contradiction | intros [x [[] _]]].
  - rewrite admits_union. change (flat (TUnion ts)) with (flat_map flat ts). split.
    + intros [t [Hin A]]. rewrite Forall_forall in H0. apply (H0 t Hin) in A.
      destruct A as [x [Hx A]]. exists x. split; [apply in_flat_map; exists t; auto | assumption].
    + intros [x [Hx A]]. apply in_flat_map in Hx. destruct Hx as [t [Hin Hx]]. exists t. split; [assumption|].
      rewrite Forall_forall in H0. apply (H0 t Hin). exists x; auto.
Qed.

Lemma join_widens : forall H ts t, In t ts -> wider H t (join ts).
Proof.
  intros H ts t Hin v A. apply flat_sound in A. destruct A as [x [Hx A]].
  assert (Hl : In x (dedup (flat_map flat ts))).
  { apply dedup_In. apply in_flat_map. exists t; auto. }
  unfold join. remember (dedup (flat_map flat ts)) as l eqn:El. clear El.
  assert (G : admits H (if existsb is_any l
                        then if existsb is_named_none l then TUnion [TAny; TName KNamed c_none] else TAny
                        else match l with [] => TNothing | _ => TUnion l end) v).
  { destruct (existsb is_any l).
    - destruct (existsb is_named_none l); simpl; auto.
    - destruct l as [|y r]; [contradiction|]. apply admits_union. exists x; auto. }
  destruct l as [|y [|z r]]; try exact G.
  destruct Hl as [->|[]]. exact A.
Qed.

Lemma flat1_sound : forall H t v, admits H t v <-> exists x, In x (flat1 t) /\ admits H x v.
Proof.
  intros H t v. destruct t; try (simpl; split; [intros A; eexists; split; [left; reflexivity | exact A]
                                               | intros [x [[<-|[]] A]]; exact A]).
  simpl flat1. apply admits_union.
Qed.

Lemma norm_union_admits : forall H l v, admits H (TUnion (norm_union l)) v <-> admits H (TUnion l) v.
Proof.
  intros H l v. rewrite !admits_union. unfold norm_union. split.
  - intros [x [Hx A]]. rewrite dedup_In in Hx. apply in_flat_map in Hx. destruct Hx as [t [Hin Hx]].
    exists t. split; [assumption|]. apply flat1_sound. exists x; auto.
  - intros [t [Hin A]]. apply flat1_sound in A. destruct A as [x [Hx A]]. exists x. split; [|assumption].
    apply dedup_In. apply in_flat_map. exists t; auto.
Qed.

(* ================================================================== the generic visitor *)
Lemma norm_union_elems : forall (I : ty -> Prop),
  (forall ts, I (TUnion ts) -> Forall I ts) ->
  forall l, Forall I l -> Forall I (norm_union l).
Proof.
  intros I IU l F. apply Forall_forall. intros x Hx. unfold norm_union in Hx. rewrite dedup_In in Hx.
  apply in_flat_map in Hx. destruct Hx as [t [Hin Hx]]. rewrite Forall_forall in F. specialize (F t Hin).
  destruct t; simpl in Hx; try (destruct Hx as [<-|[]]; exact F).
  apply IU in F. rewrite Forall_forall in F. apply F; assumption.
Qed.

Section VisitWidens.
  Variable fU : list ty -> ty.
  Variable fG : kind -> cid -> list ty -> ty.
  Variable fN : kind -> cid -> ty.
  Variable fB : kind -> kind.
  Variable H : hier.
  Variable I : ty -> Prop.
  Hypothesis I_union : forall ts, I (TUnion ts) -> Forall I ts.
  Hypothesis I_gen : forall k c ps, I (TGen k c ps) -> Forall I ps.
  Hypothesis I_tup : forall k c ps, I (TTup k c ps) -> Forall I ps.
  Hypothesis I_call : forall k c ps, I (TCall k c ps) -> Forall I ps.
  Hypothesis I_var : forall n sc hb ps, I (TVar n sc hb ps) -> Forall I ps.
  Hypothesis I_visit : forall t, I t -> I (visit fU fG fN fB t).
  Hypothesis fU_ok : forall l, Forall I l -> wider H (TUnion l) (fU l).
  Hypothesis fG_ok : forall k c ps, wider H (TGen k c ps) (fG k c ps).
  Hypothesis fN_ok : forall k c, wider H (TName k c) (fN k c).

  Lemma visit_children : forall ps,
    Forall (fun t => I t -> wider H t (visit fU fG fN fB t)) ps -> Forall I ps ->
    pw H ps (map (visit fU fG fN fB) ps).
  Proof.
    intros ps F1 F2. apply pw_map. rewrite Forall_forall in *. intros t Hin. apply F1; auto.
  Qed.

  Lemma visit_widens : forall t, I t -> wider H t (visit fU fG fN fB t).
  Proof.
    induction t using ty_ind'; intros It; simpl; try apply wider_refl.
    - apply fN_ok.
    - pose proof (I_union _ It) as Its.
      eapply wider_trans; [|apply fU_ok].
      + intros v A. apply norm_union_admits. apply admits_union in A. destruct A as [t [Hin A]].
        apply admits_union. exists (visit fU fG fN fB t). split; [apply in_map; assumption|].
        rewrite Forall_forall in H0, Its. apply H0; auto.
      + apply norm_union_elems; [assumption|]. apply Forall_forall. intros x Hx. apply in_map_iff in Hx.
        destruct Hx as [t [<- Hin]]. apply I_visit. rewrite Forall_forall in Its. auto.
    - eapply wider_trans; [|apply fG_ok]. apply wider_gen. apply visit_children; eauto.
    - pose proof (visit_children ps H0 (I_tup _ _ _ It)) as P. apply wider_tup; [assumption | apply map_length].
    - pose proof (visit_children ps H0 (I_call _ _ _ It)) as P. apply wider_call; [assumption | apply map_length].
    - pose proof (visit_children ps H0 (I_var _ _ _ _ It)) as P. apply wider_var; [assumption | apply map_length].
  Qed.
End VisitWidens.

(* wf is closed under subterms *)
Lemma wf_union_inv : forall k ts, wf k (TUnion ts) -> Forall (wf k) ts.
Proof. intros k ts W; inversion W; assumption. Qed.
Lemma wf_gen_inv : forall k k' c ps, wf k (TGen k' c ps) -> Forall (wf k) ps.
Proof. intros k k' c ps W; inversion W; assumption. Qed.
Lemma wf_tup_inv : forall k k' c ps, wf k (TTup k' c ps) -> Forall (wf k) ps.
Proof. intros k k' c ps W; inversion W; assumption. Qed.
Lemma wf_call_inv : forall k k' c ps, wf k (TCall k' c ps) -> Forall (wf k) ps.
Proof. intros k k' c ps W; inversion W; assumption. Qed.
Lemma wf_var_inv : forall k n sc hb ps, wf k (TVar n sc hb ps) -> Forall (wf k) ps.
Proof. intros k n sc hb ps W; inversion W; assumption. Qed.

Section VisitWf.
  Variable fU : list ty -> ty.
  Variable fG : kind -> cid -> list ty -> ty.
  Variable fN : kind -> cid -> ty.
  Variable k : kind.
  Hypothesis fU_wf : forall l, Forall (wf k) l -> wf k (fU l).
  Hypothesis fG_wf : forall c ps, Forall (wf k) ps -> wf k (fG k c ps).
  Hypothesis fN_wf : forall c, wf k (fN k c).

  Lemma visit_wf : forall t, wf k t -> wf k (visit fU fG fN id_kind t).
  Proof.
    induction t using ty_ind'; intros W; simpl; try assumption.
    - inversion W; subst. apply fN_wf.
    - apply fU_wf. apply norm_union_elems; [apply wf_union_inv|].
      apply wf_union_inv in W. apply Forall_forall. intros x Hx. apply in_map_iff in Hx.
      destruct Hx as [t [<- Hin]]. rewrite Forall_forall in H, W. auto.
    - pose proof (wf_gen_inv _ _ _ _ W) as Wp. inversion W; subst. unfold id_kind. apply fG_wf.
      apply Forall_forall. intros x Hx.
      apply in_map_iff in Hx. destruct Hx as [t [<- Hin]]. rewrite Forall_forall in H, Wp. auto.
    - pose proof (wf_tup_inv _ _ _ _ W) as Wp. inversion W; subst. unfold id_kind.
      constructor; [assumption|]. apply Forall_forall. intros x Hx.
      apply in_map_iff in Hx. destruct Hx as [t [<- Hin]]. rewrite Forall_forall in H, Wp. auto.
    - pose proof (wf_call_inv _ _ _ _ W) as Wp. inversion W; subst. unfold id_kind. constructor.
      apply Forall_forall. intros x Hx.
      apply in_map_iff in Hx. destruct Hx as [t [<- Hin]]. rewrite Forall_forall in H, Wp. auto.
    - pose proof (wf_var_inv _ _ _ _ _ W) as Wp. constructor.
      apply Forall_forall. intros x Hx.
      apply in_map_iff in Hx. destruct Hx as [t [<- Hin]]. rewrite Forall_forall in H, Wp. auto.
  Qed.
End VisitWf.

Definition Itrue (t : ty) : Prop := True.
Lemma Itrue_all : forall l, Forall Itrue l.
Proof. intros l. apply Forall_forall. intros; exact I. Qed.

(* --- JoinTypes keeps well-formedness *)
Lemma flat_wf : forall k t, wf k t -> Forall (wf k) (flat t).
Proof.
  intros k t; induction t using ty_ind'; intros W; simpl; try (constructor; [assumption | constructor]).
  - constructor.
  - apply wf_union_inv in W. apply Forall_forall. intros x Hx. apply in_flat_map in Hx.
    destruct Hx as [t [Hin Hx]]. rewrite Forall_forall in H, W. specialize (H t Hin (W t Hin)).
    rewrite Forall_forall in H. auto.
Qed.

Lemma named_none_kind : forall k l, Forall (wf k) l -> existsb is_named_none l = true -> k = KNamed.
Proof.
  intros k l F E. apply existsb_exists in E. destruct E as [x [Hx E]]. rewrite Forall_forall in F.
  specialize (F x Hx). destruct x; try discriminate. destruct k0; try discriminate. inversion F; reflexivity.
Qed.

Lemma join_wf : forall k ts, Forall (wf k) ts -> wf k (join ts).
Proof.
  intros k ts F. unfold join.
  assert (Fl : Forall (wf k) (dedup (flat_map flat ts))).
  { apply Forall_forall. intros x Hx. rewrite dedup_In in Hx. apply in_flat_map in Hx.
    destruct Hx as [t [Hin Hx]]. rewrite Forall_forall in F. pose proof (flat_wf k t (F t Hin)) as G.
    rewrite Forall_forall in G. auto. }
  remember (dedup (flat_map flat ts)) as l eqn:El. clear El.
  assert (G : wf k (if existsb is_any l
                    then if existsb is_named_none l then TUnion [TAny; TName KNamed c_none] else TAny
                    else match l with [] => TNothing | _ => TUnion l end)).
  { destruct (existsb is_any l).
    - destruct (existsb is_named_none l) eqn:E; [|constructor].
      rewrite (named_none_kind k l Fl E). repeat constructor.
    - destruct l; constructor. assumption. }
  destruct l as [|y [|z r]]; try exact G. inversion Fl; assumption.
Qed.

(* ================================================================== simple type-level passes *)
Lemma join_wider_union : forall H l, wider H (TUnion l) (join l).
Proof.
  intros H l v A. apply admits_union in A. destruct A as [t [Hin A]]. eapply join_widens; eassumption.
Qed.

Lemma simplify_unions_widens_lemma : forall H t, wider H t (simplify_unions t).
Proof.
  intros H t. unfold simplify_unions.
  apply (visit_widens join TGen TName id_kind H Itrue); try (intros; apply Itrue_all); try (intros; exact I).
  - intros; apply join_wider_union.
  - intros; apply wider_refl.
  - intros; apply wider_refl.
Qed.

Lemma simplify_unions_wf : forall k t, wf k t -> wf k (simplify_unions t).
Proof.
  intros k t. unfold simplify_unions. apply visit_wf.
  - apply join_wf.
  - intros; constructor; assumption.
  - intros; constructor.
Qed.

Lemma sc_generic_wider : forall H k c ps, wider H (TGen k c ps) (sc_generic k c ps).
Proof.
  intros H k c ps v A. unfold sc_generic. destruct (forallb is_any ps); [|assumption].
  apply admits_gen in A. simpl. tauto.
Qed.
Lemma sc_union_wider : forall H b l, wider H (TUnion l) (sc_union b l).
Proof.
  intros H b l v A. unfold sc_union. destruct b; [|assumption].
  destruct l as [|x [|y r]]; try assumption. apply admits_union in A.
  destruct A as [t [[<-|[]] A]]. assumption.
Qed.
Lemma simplify_containers_widens_lemma : forall H b t, wider H t (simplify_containers b t).
Proof.
  intros H b t. unfold simplify_containers.
  apply (visit_widens (sc_union b) sc_generic TName id_kind H Itrue);
    try (intros; apply Itrue_all); try (intros; exact I).
  - intros; apply sc_union_wider.
  - intros; apply sc_generic_wider.
  - intros; apply wider_refl.
Qed.
Lemma simplify_containers_wf : forall k b t, wf k t -> wf k (simplify_containers b t).
Proof.
  intros k b t. unfold simplify_containers. apply visit_wf.
  - intros l F. unfold sc_union. destruct b; [|constructor; assumption].
    destruct l as [|x [|y r]]; try (constructor; assumption). inversion F; assumption.
  - intros c ps F. unfold sc_generic. destruct (forallb is_any ps); constructor; assumption.
  - intros; constructor.
Qed.

Lemma clu_union_wider : forall H n l, wider H (TUnion l) (clu_union n l).
Proof.
  intros H n l v A. unfold clu_union.
  destruct ((n <? length l) && negb (existsb is_lit l)); [exact I|].
  destruct (existsb is_any l); [apply join_wider_union; assumption | assumption].
Qed.
Lemma collapse_long_unions_widens_lemma : forall H n t, wider H t (collapse_long_unions n t).
Proof.
  intros H n t. unfold collapse_long_unions.
  apply (visit_widens (clu_union n) TGen TName id_kind H Itrue);
    try (intros; apply Itrue_all); try (intros; exact I).
  - intros; apply clu_union_wider.
  - intros; apply wider_refl.
  - intros; apply wider_refl.
Qed.
Lemma collapse_long_unions_wf : forall k n t, wf k t -> wf k (collapse_long_unions n t).
Proof.
  intros k n t. unfold collapse_long_unions. apply visit_wf.
  - intros l F. unfold clu_union. destruct ((n <? length l) && negb (existsb is_lit l)); [constructor|].
    destruct (existsb is_any l); [apply join_wf; assumption | constructor; assumption].
  - intros; constructor; assumption.
  - intros; constructor.
Qed.

Lemma agt_name_wider : forall H k c, wider H (TName k c) (agt_name k c).
Proof.
  intros H k c v A. unfold agt_name. destruct k; [assumption|]. destruct (Nat.eqb c c_object); [exact I | assumption].
Qed.
Lemma adjust_generic_type_widens_lemma : forall H t, wider H t (adjust_generic_type t).
Proof.
  intros H t. unfold adjust_generic_type.
  apply (visit_widens TUnion TGen agt_name id_kind H Itrue);
    try (intros; apply Itrue_all); try (intros; exact I).
  - intros; apply wider_refl.
  - intros; apply wider_refl.
  - intros; apply agt_name_wider.
Qed.
Lemma adjust_generic_type_wf : forall k t, wf k t -> wf k (adjust_generic_type t).
Proof.
  intros k t. unfold adjust_generic_type. apply visit_wf.
  - intros; constructor; assumption.
  - intros; constructor; assumption.
  - intros c. unfold agt_name. destruct k; [constructor|]. destruct (Nat.eqb c c_object); constructor.
Qed.

Lemma resolve_widens_lemma : forall H t, wider H t (resolve t).
Proof.
  intros H t. unfold resolve.
  apply (visit_widens TUnion TGen (fun _ c => TName KClass c) to_class H Itrue);
    try (intros; apply Itrue_all); try (intros; exact I).
  - intros; apply wider_refl.
  - intros; apply wider_refl.
  - intros k c v A. exact A.
Qed.

(* ================================================================== SimplifyUnionsWithSuperclasses *)
Lemma memn_In : forall x l, memn x l = true <-> In x l.
Proof.
  intros x l. unfold memn. rewrite existsb_exists. split.
  - intros [y [Hy E]]. apply Nat.eqb_eq in E. subst; assumption.
  - intros Hin. exists x. split; [assumption | apply Nat.eqb_refl].
Qed.

Lemma subs_step_sound : forall H m S, (forall n, In n S -> Sub H n m) ->
  forall n, In n (subs_step H S) -> Sub H n m.
Proof.
  intros H m S HS n Hin. unfold subs_step in Hin. apply in_app_or in Hin. destruct Hin as [Hin|Hin]; [auto|].
  apply filter_In in Hin. destruct Hin as [_ E]. apply andb_true_iff in E. destruct E as [_ E].
  apply existsb_exists in E. destruct E as [s [Hs E]]. apply memn_In in E.
  econstructor; [exact Hs | auto].
Qed.

Lemma iter_subs_sound : forall H m k S, (forall n, In n S -> Sub H n m) ->
  forall n, In n (iter k (subs_step H) S) -> Sub H n m.
Proof.
  intros H m k; induction k as [|k IH]; intros S HS n Hin; simpl in Hin; [auto|].
  eapply IH; [|exact Hin]. apply subs_step_sound; assumption.
Qed.

Lemma expand_sub_sound : forall H m n, In n (expand_sub H m) -> Sub H n m.
Proof.
  intros H m n Hin. unfold expand_sub in Hin. eapply iter_subs_sound; [|exact Hin].
  intros x [<-|[]]. constructor.
Qed.

Lemma iter_subs_mono : forall H k S n, In n S -> In n (iter k (subs_step H) S).
Proof.
  intros H k; induction k as [|k IH]; intros S n Hin; simpl; [assumption|].
  apply IH. unfold subs_step. apply in_or_app; left; assumption.
Qed.

Lemma expand_sub_refl : forall H m, In m (expand_sub H m).
Proof. intros. unfold expand_sub. apply iter_subs_mono. left; reflexivity. Qed.

Lemma ranked_sub : forall H, ranked H -> forall a b, Sub H a b -> a = b \/ b < a.
Proof.
  intros H R a b S. induction S as [|d s c Hs _ IH]; [left; reflexivity|].
  right. apply R in Hs. destruct IH as [<-|IH]; lia.
Qed.

Lemma dedup_from_NoDup : forall {A} (eqb : A -> A -> bool),
  (forall a b, eqb a b = true <-> a = b) ->
  forall l seen, NoDup (dedup_from eqb seen l) /\ (forall x, In x (dedup_from eqb seen l) -> ~ In x seen).
Proof.
  intros A eqb He. induction l as [|y r IH]; intros seen; simpl.
  - split; [constructor | intros x []].
  - destruct (mem_by eqb y seen) eqn:E; [apply IH|].
    destruct (IH (y :: seen)) as [ND NI]. split.
    + constructor; [|assumption]. intros Hin. apply (NI y Hin). left; reflexivity.
    + intros x [<-|Hin] Hs.
      * apply (mem_by_In eqb He) in Hs. congruence.
      * apply (NI x Hin). right; assumption.
Qed.

Lemma dedup_NoDup : forall l, NoDup (dedup l).
Proof. intros l. apply (dedup_from_NoDup ty_eqb ty_eqb_eq l []). Qed.

Lemma filter_map_In : forall {A B} (f : A -> option B) l y,
  In y (filter_map f l) <-> exists x, In x l /\ f x = Some y.
Proof.
  intros A B f l y. induction l as [|x r IH]; simpl.
  - split; [contradiction | intros [? [[] _]]].
  - destruct (f x) eqn:E; simpl; rewrite IH; split.
    + intros [<-|[x' [Hin E']]]; [exists x; auto | exists x'; auto].
    + intros [x' [[<-|Hin] E']]; [left; congruence | right; exists x'; auto].
    + intros [x' [Hin E']]; exists x'; auto.
    + intros [x' [[<-|Hin] E']]; [congruence | exists x'; auto].
Qed.

Lemma filter_map_NoDup : forall {A B} (f : A -> option B) l,
  (forall x x' y, In x l -> In x' l -> f x = Some y -> f x' = Some y -> x = x') ->
  NoDup l -> NoDup (filter_map f l).
Proof.
  intros A B f l Inj ND. induction ND as [|x r Hx ND IH]; simpl; [constructor|].
  assert (IH' : NoDup (filter_map f r)).
  { apply IH. intros a a' y Ha Ha'. apply Inj; right; assumption. }
  destruct (f x) eqn:E; [|assumption]. constructor; [|assumption].
  intros Hin. apply filter_map_In in Hin. destruct Hin as [x' [Hin E']].
  assert (x = x') by (eapply Inj; [left; reflexivity | right; assumption | exact E | exact E']).
  subst; contradiction.
Qed.

Lemma NoDup_two : forall (l : list nat) c, NoDup l -> 2 <= length l -> exists m, In m l /\ m <> c.
Proof.
  intros l c ND L. destruct l as [|a [|b r]]; simpl in L; try lia.
  destruct (Nat.eq_dec a c) as [->|Ne]; [|exists a; split; [left; reflexivity | assumption]].
  exists b. split; [right; left; reflexivity|]. inversion ND; subst. intros ->. apply H1. left; reflexivity.
Qed.

Lemma suws_union_wider : forall H k l, ranked H -> Forall (wf k) l -> wider H (TUnion l) (suws_union H l).
Proof.
  intros H k l R F. unfold suws_union.
  set (members := filter_map name_of (dedup l)).
  assert (M1 : forall c, In c members <-> In (TName k c) l).
  { intros c. unfold members. rewrite filter_map_In. split.
    - intros [t [Hin E]]. rewrite dedup_In in Hin. destruct t; try discriminate. simpl in E. inversion E; subst.
      rewrite Forall_forall in F. specialize (F _ Hin). inversion F; subst. assumption.
    - intros Hin. exists (TName k c). split; [apply dedup_In; assumption | reflexivity]. }
  assert (M2 : NoDup members).
  { unfold members. apply filter_map_NoDup; [|apply dedup_NoDup].
    intros x x' y Hx Hx' E E'. rewrite dedup_In in Hx, Hx'. rewrite Forall_forall in F.
    pose proof (F _ Hx) as W. pose proof (F _ Hx') as W'.
    destruct x; try discriminate. destruct x'; try discriminate. simpl in E, E'.
    inversion W; inversion W'; subst. congruence. }
  assert (K : forall n c, c < n -> In c members ->
              exists u, In u members /\ (suws_count H members u <=? 1) = true /\ Sub H c u).
  { induction n as [|n IH]; intros c Lt Hc; [lia|].
    destruct (suws_count H members c <=? 1) eqn:E.
    - exists c. repeat split; try assumption. constructor.
    - apply Nat.leb_gt in E. unfold suws_count in E.
      destruct (NoDup_two (filter (fun m => memn c (expand_sub H m)) members) c) as [m [Hm Ne]];
        [apply NoDup_filter; assumption | exact E |].
      apply filter_In in Hm. destruct Hm as [Hm Ec]. apply memn_In in Ec. apply expand_sub_sound in Ec.
      destruct (ranked_sub H R _ _ Ec) as [->|Lt']; [congruence|].
      destruct (IH m ltac:(lia) Hm) as [u [Hu [Ku Su]]]. exists u. repeat split; try assumption.
      eapply Sub_trans; eassumption. }
  intros v A. apply admits_union in A. destruct A as [t [Hin A]].
  destruct (name_of t) as [c|] eqn:E.
  - destruct t; try discriminate. simpl in E. inversion E; subst c0.
    rewrite Forall_forall in F. pose proof (F _ Hin) as W.
    assert (k0 = k) by (inversion W; reflexivity). subst k0.
    destruct (K (S c) c ltac:(lia) (proj2 (M1 c) Hin)) as [u [Hu [Ku Su]]].
    eapply (join_widens H _ (TName k u)).
    + apply filter_In. split; [apply M1; assumption|]. simpl. exact Ku.
    + simpl. simpl in A. eapply Sub_trans; eassumption.
  - eapply join_widens; [|exact A]. apply filter_In. split; [assumption|]. rewrite E. reflexivity.
Qed.

Lemma suws_union_wf : forall H k l, Forall (wf k) l -> wf k (suws_union H l).
Proof.
  intros H k l F. unfold suws_union. apply join_wf. apply Forall_forall. intros x Hx.
  apply filter_In in Hx. destruct Hx as [Hx _]. rewrite Forall_forall in F. auto.
Qed.

Lemma simplify_superclasses_wf : forall H k t, wf k t -> wf k (simplify_superclasses H t).
Proof.
  intros H k t. unfold simplify_superclasses. apply visit_wf.
  - apply suws_union_wf.
  - intros; constructor; assumption.
  - intros; constructor.
Qed.

Lemma simplify_superclasses_widens_lemma : forall H k t,
  ranked H -> wf k t -> wider H t (simplify_superclasses H t).
Proof.
  intros H k t R. unfold simplify_superclasses.
  apply (visit_widens (suws_union H) TGen TName id_kind H (wf k)).
  - apply wf_union_inv.
  - intros k0 c ps; apply wf_gen_inv.
  - intros k0 c ps; apply wf_tup_inv.
  - intros k0 c ps; apply wf_call_inv.
  - intros n sc hb ps; apply wf_var_inv.
  - apply simplify_superclasses_wf.
  - intros; apply (suws_union_wider H k); assumption.
  - intros; apply wider_refl.
  - intros; apply wider_refl.
Qed.

(* ================================================================== CombineContainers *)
Lemma map_opt_Forall2 : forall {A B} (f : A -> option B) l l',
  map_opt f l = Some l' -> Forall2 (fun a b => f a = Some b) l l'.
Proof.
  intros A B f. induction l as [|x r IH]; intros l' E; simpl in E.
  - inversion E; constructor.
  - destruct (f x) eqn:Ex; [|discriminate]. destruct (map_opt f r) eqn:Er; [|discriminate].
    inversion E; subst. constructor; [assumption | apply IH; reflexivity].
Qed.

Lemma union_map_wider : forall H (f : ty -> ty) l,
  (forall t, In t l -> wider H t (f t)) -> wider H (TUnion l) (TUnion (map f l)).
Proof.
  intros H f l Hf v A. apply admits_union in A. destruct A as [t [Hin A]].
  apply admits_union. exists (f t). split; [apply in_map; assumption | apply Hf; assumption].
Qed.

Lemma last_or_nonempty : forall d d' ps, ps <> [] -> last_or d ps = last_or d' ps.
Proof.
  intros d d' ps. induction ps as [|p r IH]; intros N; [congruence|].
  destruct r as [|q r']; [reflexivity|]. simpl in *. apply IH. discriminate.
Qed.

Lemma last_or_In : forall d ps, ps <> [] -> In (last_or d ps) ps.
Proof.
  intros d ps. induction ps as [|p r IH]; intros N; [congruence|].
  destruct r as [|q r']; [left; reflexivity|]. right. apply IH. discriminate.
Qed.

Lemma Forall2_ex : forall {A B} (R : A -> B -> Prop) l l',
  Forall2 R l l' -> Forall (fun x => exists p, In p l /\ R p x) l'.
Proof.
  induction 1; constructor.
  - exists x; split; [left; reflexivity | assumption].
  - eapply Forall_impl; [|exact IHForall2]. intros a [p [Hp Rp]]. exists p; split; [right; assumption | assumption].
Qed.

Lemma cc_conv_wider : forall H mt mc t, wider H t (cc_conv mt mc t).
Proof.
  intros H mt mc t v A. destruct t; simpl; try assumption.
  - destruct mt; [|assumption]. apply admits_tup in A. destruct A as [items [-> [S F]]].
    apply admits_gen. split; [assumption|]. simpl. split; [|exact I].
    apply Forall2_ex in F. eapply Forall_impl; [|exact F]. intros a [p [Hp Ap]].
    eapply join_widens; eassumption.
  - destruct mc; [|assumption]. apply admits_call in A. destruct A as [a [r [-> [S [L A]]]]].
    apply admits_gen. split; [assumption|]. simpl. split; [constructor|]. split; [|exact I].
    constructor; [|constructor].
    rewrite (last_or_nonempty TAny TNothing); [assumption|]. destruct ps; discriminate.
Qed.

Lemma cc_conv_wf : forall k mt mc t, wf k t -> wf k (cc_conv mt mc t).
Proof.
  intros k mt mc t W. destruct t; simpl; try assumption.
  - destruct mt; [|assumption]. pose proof (wf_tup_inv _ _ _ _ W) as Wp. inversion W; subst.
    constructor. constructor; [|constructor]. apply join_wf; assumption.
  - destruct mc; [|assumption]. pose proof (wf_call_inv _ _ _ _ W) as Wp. inversion W; subst.
    constructor. constructor; [constructor|]. constructor; [|constructor].
    destruct ps as [|p r]; [constructor|]. rewrite Forall_forall in Wp. apply Wp.
    apply last_or_In. discriminate.
Qed.

Lemma zip_join_pw_l : forall H a b, pw H a (zip_join a b).
Proof.
  intros H a; induction a as [|x r IH]; intros b; simpl; [constructor|].
  destruct b as [|y b']; constructor; [|apply IH].
  apply join_widens. left; reflexivity.
Qed.
Lemma zip_join_pw_r : forall H a b, pw H b (zip_join a b).
Proof.
  intros H a; induction a as [|x r IH]; intros b; simpl; [constructor|].
  destruct b as [|y b']; constructor; [|apply IH].
  apply join_widens. right; left; reflexivity.
Qed.
Lemma zip_join_length : forall a b, length a = length b -> length (zip_join a b) = length a.
Proof.
  induction a as [|x r IH]; intros b L; destruct b; simpl in *; try lia. rewrite IH; lia.
Qed.
Lemma zip_join_wf : forall k a b, Forall (wf k) a -> Forall (wf k) b -> Forall (wf k) (zip_join a b).
Proof.
  intros k a; induction a as [|x r IH]; intros b Fa Fb; simpl; [constructor|].
  destruct b as [|y b']; [constructor|]. inversion Fa; inversion Fb; subst.
  constructor; [apply join_wf; repeat constructor; assumption | apply IH; assumption].
Qed.

Lemma fold_zip_pw : forall H rest init,
  pw H init (fold_left (fun acc t => zip_join acc (params_of t)) rest init) /\
  forall m, In m rest -> pw H (params_of m) (fold_left (fun acc t => zip_join acc (params_of t)) rest init).
Proof.
  intros H rest; induction rest as [|a r IH]; intros init; simpl.
  - split; [apply pw_refl | intros m []].
  - destruct (IH (zip_join init (params_of a))) as [P1 P2]. split.
    + eapply pw_trans; [apply zip_join_pw_l | exact P1].
    + intros m [<-|Hin]; [eapply pw_trans; [apply zip_join_pw_r | exact P1] | apply P2; assumption].
Qed.
Lemma fold_zip_length : forall n rest init, length init = n ->
  (forall m, In m rest -> length (params_of m) = n) ->
  length (fold_left (fun acc t => zip_join acc (params_of t)) rest init) = n.
Proof.
  intros n rest; induction rest as [|a r IH]; intros init Li Lr; simpl; [assumption|].
  apply IH.
  - rewrite zip_join_length; [assumption|]. rewrite Li. symmetry. apply Lr. left; reflexivity.
  - intros m Hm. apply Lr. right; assumption.
Qed.
Lemma fold_zip_wf : forall k rest init, Forall (wf k) init ->
  (forall m, In m rest -> Forall (wf k) (params_of m)) ->
  Forall (wf k) (fold_left (fun acc t => zip_join acc (params_of t)) rest init).
Proof.
  intros k rest; induction rest as [|a r IH]; intros init Fi Fr; simpl; [assumption|].
  apply IH; [apply zip_join_wf; [assumption | apply Fr; left; reflexivity] | intros m Hm; apply Fr; right; assumption].
Qed.

Lemma params_of_wf : forall k t, wf k t -> Forall (wf k) (params_of t).
Proof. intros k t W. destruct t; simpl; try constructor; inversion W; assumption. Qed.

Lemma ckey_eqb_eq : forall a b, ckey_eqb a b = true <-> a = b.
Proof.
  destruct a, b; simpl; split; try congruence.
  - rewrite andb_true_iff, kind_eqb_eq, Nat.eqb_eq. intros [? ?]; congruence.
  - intros E; inversion E; subst. rewrite andb_true_iff, kind_eqb_eq, Nat.eqb_eq. auto.
  - rewrite !andb_true_iff, kind_eqb_eq, !Nat.eqb_eq. intros [[? ?] ?]; congruence.
  - intros E; inversion E; subst. rewrite !andb_true_iff, kind_eqb_eq, !Nat.eqb_eq. auto.
Qed.

Lemma has_key_iff : forall key t, has_key key t = true <-> key_of t = Some key.
Proof.
  intros key t. unfold has_key. destruct (key_of t) as [k'|]; [|split; discriminate].
  rewrite ckey_eqb_eq. split; congruence.
Qed.

(* every member with this key is covered by the merged parameters *)
Lemma merged_covers : forall H key whole m, In m whole -> key_of m = Some key ->
  pw H (params_of m) (merged key whole).
Proof.
  intros H key whole m Hin Hk. unfold merged.
  assert (Hm : In m (filter (has_key key) whole)) by (apply filter_In; split; [assumption | apply has_key_iff; assumption]).
  destruct (filter (has_key key) whole) as [|t0 rest]; [contradiction|].
  destruct (fold_zip_pw H rest (params_of t0)) as [P1 P2]. destruct Hm as [<-|Hm]; auto.
Qed.

Lemma merged_length : forall k c n whole m, In m whole -> key_of m = Some (KN k c n) ->
  length (merged (KN k c n) whole) = n.
Proof.
  intros k c n whole m0 Hin0 Hk0. unfold merged.
  assert (Hm0 : In m0 (filter (has_key (KN k c n)) whole))
    by (apply filter_In; split; [assumption | apply has_key_iff; assumption]).
  pose proof (fun m => proj1 (filter_In (has_key (KN k c n)) m whole)) as Fi.
  destruct (filter (has_key (KN k c n)) whole) as [|t0 rest]; [contradiction|].
  assert (L : forall m, In m (t0 :: rest) -> length (params_of m) = n).
  { intros m Hm. apply Fi in Hm. destruct Hm as [_ Hk]. apply has_key_iff in Hk.
    destruct m; simpl in Hk; try discriminate; inversion Hk; reflexivity. }
  apply fold_zip_length; [apply L; left; reflexivity | intros m Hm; apply L; right; assumption].
Qed.

Lemma merged_wf : forall k key whole, Forall (wf k) whole -> Forall (wf k) (merged key whole).
Proof.
  intros k key whole F. unfold merged.
  pose proof (fun m => proj1 (filter_In (has_key key) m whole)) as Fi.
  destruct (filter (has_key key) whole) as [|t0 rest]; [constructor|].
  rewrite Forall_forall in F.
  apply fold_zip_wf.
  - apply params_of_wf. apply F. apply (Fi t0). left; reflexivity.
  - intros m Hm. apply params_of_wf. apply F. apply (Fi m). right; assumption.
Qed.

(* a member is covered by the re-parameterised first occurrence with the same key *)
Lemma same_key_wider : forall H k key t0 t ps',
  wf k t0 -> wf k t -> key_of t0 = Some key -> key_of t = Some key ->
  pw H (params_of t0) ps' -> (forall k' c n, key = KN k' c n -> length ps' = n) ->
  wider H t0 (with_params t ps').
Proof.
  intros H k key t0 t ps' W0 W K0 K P L.
  destruct t0; simpl in K0; try discriminate; destruct t; simpl in K; try discriminate;
    inversion K0; subst key; inversion K; subst; simpl in *.
  - apply wider_gen; assumption.
  - apply wider_tup; [assumption | eapply L; reflexivity].
  - (* tuple vs callable with one key: excluded by wf *)
    exfalso. inversion W0; subst. inversion W; subst. discriminate.
  - exfalso. inversion W0; subst. inversion W; subst. discriminate.
  - apply wider_call; [assumption | eapply L; reflexivity].
Qed.

Lemma with_params_wf : forall k t ps, wf k t -> Forall (wf k) ps -> wf k (with_params t ps).
Proof. intros k t ps W F. destruct t; simpl; try assumption; inversion W; subst; constructor; assumption. Qed.

Section CCEmit.
  Variable H : hier.
  Variable k : kind.
  Variable rec : ty -> option ty.
  Hypothesis rec_ok : forall t t', wf k t -> rec t = Some t' -> wider H t t' /\ wf k t'.
  Variable whole : list ty.
  Hypothesis whole_wf : Forall (wf k) whole.

  Lemma rec_params : forall ps ps', Forall (wf k) ps -> map_opt rec ps = Some ps' ->
    pw H ps ps' /\ length ps' = length ps /\ Forall (wf k) ps'.
  Proof.
    intros ps ps' F E. apply map_opt_Forall2 in E. induction E; simpl.
    - repeat split; constructor.
    - inversion F; subst. destruct (rec_ok _ _ H3 H0) as [Wd Wf']. destruct (IHE H4) as [P [L F']].
      repeat split; [constructor; assumption | lia | constructor; assumption].
  Qed.

  Lemma rec_params_f2 : forall ps ps', Forall (wf k) ps -> map_opt rec ps = Some ps' ->
    Forall2 (wider H) ps ps'.
  Proof.
    intros ps ps' F E. apply map_opt_Forall2 in E. induction E; constructor.
    - inversion F; subst. apply (rec_ok _ _ H3 H0).
    - inversion F; subst. apply IHE; assumption.
  Qed.

  Lemma cc_emit_sound : forall l done result t',
    (forall t, In t l -> In t whole) ->
    wf k result ->
    (forall t0 key, In t0 whole -> key_of t0 = Some key -> mem_by ckey_eqb key done = true ->
                    wider H t0 result) ->
    cc_emit rec whole done result l = Some t' ->
    wf k t' /\ wider H result t' /\ forall t, In t l -> wider H t t'.
  Proof.
    induction l as [|t r IH]; intros done result t' Sub Wr Done E; simpl in E.
    - inversion E; subst. repeat split; [assumption | apply wider_refl | intros ? []].
    - assert (Wt : wf k t).
      { rewrite Forall_forall in whole_wf. apply whole_wf. apply Sub. left; reflexivity. }
      assert (Sub' : forall x, In x r -> In x whole) by (intros; apply Sub; right; assumption).
      destruct (key_of t) as [key|] eqn:Kt.
      + destruct (mem_by ckey_eqb key done) eqn:Md.
        * destruct (IH _ _ _ Sub' Wr Done E) as [W' [R' A']]. repeat split; try assumption.
          intros x [<-|Hx]; [|auto]. eapply wider_trans; [|exact R'].
          eapply Done; [apply Sub; left; reflexivity | exact Kt | exact Md].
        * destruct (map_opt rec (merged key whole)) as [ps'|] eqn:Em; [|discriminate].
          destruct (rec_params _ _ (merged_wf k key whole whole_wf) Em) as [P [L F']].
          assert (Cov : forall t0, In t0 whole -> key_of t0 = Some key -> wider H t0 (with_params t ps')).
          { intros t0 H0 K0. rewrite Forall_forall in whole_wf.
            eapply (same_key_wider H k key); try eassumption; [apply whole_wf; assumption | |].
            - eapply pw_trans; [apply merged_covers; eassumption | exact P].
            - intros k' c n ->. rewrite L. eapply merged_length; eassumption. }
          assert (Wa : wf k (with_params t ps')) by (apply with_params_wf; assumption).
          assert (Wj : wf k (join [result; with_params t ps'])).
          { apply join_wf. repeat constructor; assumption. }
          edestruct (IH (key :: done) (join [result; with_params t ps']) t' Sub' Wj) as [W' [R' A']]; [|exact E|].
          { intros t0 key0 H0 K0 M0. simpl in M0. apply orb_true_iff in M0. destruct M0 as [M0|M0].
            - apply ckey_eqb_eq in M0. subst key0.
              eapply wider_trans; [apply Cov; assumption|]. apply join_widens. right; left; reflexivity.
            - eapply wider_trans; [eapply Done; eassumption|]. apply join_widens. left; reflexivity. }
          repeat split; try assumption.
          -- eapply wider_trans; [|exact R']. apply join_widens. left; reflexivity.
          -- intros x [<-|Hx]; [|auto]. eapply wider_trans; [|exact R'].
             eapply wider_trans; [apply Cov; [apply Sub; left; reflexivity | exact Kt]|].
             apply join_widens. right; left; reflexivity.
      + assert (Wj : wf k (join [result; t])) by (apply join_wf; repeat constructor; assumption).
        edestruct (IH done (join [result; t]) t' Sub' Wj) as [W' [R' A']]; [|exact E|].
        { intros t0 key0 H0 K0 M0. eapply wider_trans; [eapply Done; eassumption|].
          apply join_widens. left; reflexivity. }
        repeat split; try assumption.
        * eapply wider_trans; [|exact R']. apply join_widens. left; reflexivity.
        * intros x [<-|Hx]; [|auto]. eapply wider_trans; [|exact R']. apply join_widens. right; left; reflexivity.
  Qed.
End CCEmit.

Lemma cc_union_sound : forall H k rec,
  (forall t t', wf k t -> rec t = Some t' -> wider H t t' /\ wf k t') ->
  forall l0 t', Forall (wf k) l0 -> cc_union rec l0 = Some t' ->
  wider H (TUnion l0) t' /\ wf k t'.
Proof.
  intros H k rec Hrec l0 t' F0 E. unfold cc_union in E.
  destruct (negb (existsb is_generic l0)).
  { inversion E; subst. split; [apply wider_refl | constructor; assumption]. }
  set (u := join l0) in *.
  set (l := match u with TUnion l' => l' | _ => [u] end) in *.
  assert (Wu : wf k u) by (apply join_wf; assumption).
  assert (Fl : Forall (wf k) l).
  { unfold l. destruct u; try (constructor; [assumption | constructor]). apply wf_union_inv; assumption. }
  assert (W1 : wider H (TUnion l0) (TUnion l)).
  { eapply wider_trans; [apply join_wider_union|]. fold u. unfold l.
    destruct u; try (intros v A; apply admits_union; eexists; split; [left; reflexivity | exact A]).
    apply wider_refl. }
  set (mt := should_merge true None l) in *. set (mc := should_merge false None l) in *.
  set (l2 := if mt || mc then map (cc_conv mt mc) l else l) in *.
  assert (Fl2 : Forall (wf k) l2).
  { unfold l2. destruct (mt || mc); [|assumption]. apply Forall_forall. intros x Hx.
    apply in_map_iff in Hx. destruct Hx as [t [<- Hin]]. apply cc_conv_wf. rewrite Forall_forall in Fl; auto. }
  assert (W2 : wider H (TUnion l) (TUnion l2)).
  { unfold l2. destruct (mt || mc); [|apply wider_refl]. apply union_map_wider. intros; apply cc_conv_wider. }
  destruct (negb (has_redundant l2)).
  { inversion E; subst. split; [eapply wider_trans; eassumption | constructor; assumption]. }
  destruct (cc_emit_sound H k rec Hrec l2 Fl2 l2 [] TNothing t') as [W' [_ A']]; try assumption.
  - auto.
  - constructor.
  - intros t0 key _ _ M. discriminate.
  - split; [|assumption]. eapply wider_trans; [exact W1|]. eapply wider_trans; [exact W2|].
    intros v A. apply admits_union in A. destruct A as [t [Hin A]]. eapply A'; eassumption.
Qed.

Lemma cc_sound : forall H k n t t', wf k t -> cc n t = Some t' -> wider H t t' /\ wf k t'.
Proof.
  intros H k n; induction n as [|f IH]; intros t t' W E; simpl in E; [discriminate|].
  assert (Ch : forall ps ps', Forall (wf k) ps -> map_opt (cc f) ps = Some ps' ->
               pw H ps ps' /\ length ps' = length ps /\ Forall (wf k) ps').
  { intros ps ps' F Em. eapply (rec_params H k (cc f)); eauto. }
  destruct t; try (inversion E; subst; split; [apply wider_refl | assumption]).
  - destruct (map_opt (cc f) ts) as [ts'|] eqn:Em; [|discriminate].
    destruct (Ch _ _ (wf_union_inv _ _ W) Em) as [P [L F']].
    destruct (cc_union_sound H k (cc f) IH (norm_union ts') t') as [W1 W2]; try assumption.
    + apply norm_union_elems; [apply wf_union_inv | assumption].
    + split; [|assumption]. eapply wider_trans; [|exact W1].
      intros v A. apply norm_union_admits. apply admits_union in A. destruct A as [t [Hin A]].
      apply admits_union.
      pose proof (rec_params_f2 H k (cc f) IH _ _ (wf_union_inv _ _ W) Em) as F2.
      clear - F2 Hin A. induction F2; [contradiction|].
      destruct Hin as [<-|Hin].
      * exists y. split; [left; reflexivity | apply H0; assumption].
      * destruct (IHF2 Hin) as [z [Hz Az]]. exists z. split; [right; assumption | assumption].
  - destruct (map_opt (cc f) ps) as [ps'|] eqn:Em; [|discriminate]. simpl in E. inversion E; subst.
    destruct (Ch _ _ (wf_gen_inv _ _ _ _ W) Em) as [P [L F']].
    split; [apply wider_gen; assumption | inversion W; subst; constructor; assumption].
  - destruct (map_opt (cc f) ps) as [ps'|] eqn:Em; [|discriminate]. simpl in E. inversion E; subst.
    destruct (Ch _ _ (wf_tup_inv _ _ _ _ W) Em) as [P [L F']].
    split; [apply wider_tup; assumption | inversion W; subst; constructor; assumption].
  - destruct (map_opt (cc f) ps) as [ps'|] eqn:Em; [|discriminate]. simpl in E. inversion E; subst.
    destruct (Ch _ _ (wf_call_inv _ _ _ _ W) Em) as [P [L F']].
    split; [apply wider_call; assumption | inversion W; subst; constructor; assumption].
  - destruct (map_opt (cc f) ps) as [ps'|] eqn:Em; [|discriminate]. simpl in E. inversion E; subst.
    destruct (Ch _ _ (wf_var_inv _ _ _ _ _ W) Em) as [P [L F']].
    split; [apply wider_var; assumption | constructor; assumption].
Qed.

Lemma combine_containers_widens_lemma : forall H k t, wf k t -> wider H t (combine_containers t).
Proof.
  intros H k t W. unfold combine_containers, cc_top. destruct (cc (2 * size t + 2) t) eqn:E; [|apply wider_refl].
  apply (cc_sound H k _ _ _ W E).
Qed.
Lemma combine_containers_wf : forall k t, wf k t -> wf k (combine_containers t).
Proof.
  intros k t W. unfold combine_containers, cc_top. destruct (cc (2 * size t + 2) t) eqn:E; [|assumption].
  apply (cc_sound [] k _ _ _ W E).
Qed.

(* ================================================================== declarations: order properties *)
Lemma param_wider_refl : forall H p, param_wider H p p.
Proof.
  intros H p. unfold param_wider. repeat split; try apply wider_refl.
  destruct (p_mut p); [apply wider_refl | reflexivity].
Qed.
Lemma param_wider_trans : forall H a b c, param_wider H a b -> param_wider H b c -> param_wider H a c.
Proof.
  intros H a b c [N1 [K1 [O1 [T1 M1]]]] [N2 [K2 [O2 [T2 M2]]]]. unfold param_wider.
  repeat split; try congruence; [eapply wider_trans; eassumption|].
  destruct (p_mut a) as [m|]; destruct (p_mut b) as [m'|]; destruct (p_mut c) as [m''|];
    try congruence; try discriminate; try (eapply wider_trans; eassumption).
Qed.
Lemma oparam_wider_refl : forall H p, oparam_wider H p p.
Proof. intros H [p|]; simpl; [apply param_wider_refl | exact I]. Qed.
Lemma oparam_wider_trans : forall H a b c, oparam_wider H a b -> oparam_wider H b c -> oparam_wider H a c.
Proof.
  intros H [a|] [b|] [c|]; simpl; try tauto. apply param_wider_trans.
Qed.

Lemma Forall2_refl : forall {A} (R : A -> A -> Prop), (forall x, R x x) -> forall l, Forall2 R l l.
Proof. intros A R Rr; induction l; constructor; auto. Qed.
Lemma Forall2_trans : forall {A} (R : A -> A -> Prop), (forall x y z, R x y -> R y z -> R x z) ->
  forall a b c, Forall2 R a b -> Forall2 R b c -> Forall2 R a c.
Proof.
  intros A R Rt a b c F1; revert c; induction F1; intros c0 F2; inversion F2; subst; constructor; eauto.
Qed.
Lemma Forall2_map_r : forall {A B} (R : A -> B -> Prop) (g : A -> B) l,
  (forall x, In x l -> R x (g x)) -> Forall2 R l (map g l).
Proof.
  intros A B R g; induction l as [|x r IH]; intros Hl; simpl; constructor.
  - apply Hl; left; reflexivity.
  - apply IH; intros; apply Hl; right; assumption.
Qed.

Lemma sig_wider_refl : forall H s, sig_wider H s s.
Proof.
  intros H s. unfold sig_wider. repeat split; try apply oparam_wider_refl; try apply wider_refl.
  apply Forall2_refl. apply param_wider_refl.
Qed.
Lemma sig_wider_trans : forall H a b c, sig_wider H a b -> sig_wider H b c -> sig_wider H a c.
Proof.
  intros H a b c [P1 [S1 [SS1 R1]]] [P2 [S2 [SS2 R2]]]. unfold sig_wider. repeat split.
  - eapply Forall2_trans; [apply param_wider_trans | eassumption | eassumption].
  - eapply oparam_wider_trans; eassumption.
  - eapply oparam_wider_trans; eassumption.
  - eapply wider_trans; eassumption.
Qed.
Lemma func_wider_refl : forall H f, func_wider H f f.
Proof.
  intros H f. unfold func_wider. repeat split. intros s Hs. exists s. split; [assumption | apply sig_wider_refl].
Qed.
Lemma func_wider_trans : forall H a b c, func_wider H a b -> func_wider H b c -> func_wider H a c.
Proof.
  intros H a b c [N1 [K1 S1]] [N2 [K2 S2]]. unfold func_wider. repeat split; try congruence.
  intros s Hs. destruct (S1 s Hs) as [s' [Hs' W1]]. destruct (S2 s' Hs') as [s'' [Hs'' W2]].
  exists s''. split; [assumption | eapply sig_wider_trans; eassumption].
Qed.
Lemma const_wider_refl : forall H c, const_wider H c c.
Proof. intros; split; [reflexivity | apply wider_refl]. Qed.
Lemma const_wider_trans : forall H a b c, const_wider H a b -> const_wider H b c -> const_wider H a c.
Proof. intros H a b c [N1 W1] [N2 W2]. split; [congruence | eapply wider_trans; eassumption]. Qed.
Lemma class_wider_refl : forall H c, class_wider H c c.
Proof.
  intros; unfold class_wider; repeat split;
    [apply Forall2_refl; apply func_wider_refl | apply Forall2_refl; apply const_wider_refl].
Qed.
Lemma class_wider_trans : forall H a b c, class_wider H a b -> class_wider H b c -> class_wider H a c.
Proof.
  intros H a b c [N1 [B1 [M1 C1]]] [N2 [B2 [M2 C2]]]. unfold class_wider. repeat split; try congruence.
  - eapply Forall2_trans; [apply func_wider_trans | eassumption | eassumption].
  - eapply Forall2_trans; [apply const_wider_trans | eassumption | eassumption].
Qed.
Lemma unit_wider_refl : forall H u, unit_wider H u u.
Proof.
  intros; unfold unit_wider; repeat split; apply Forall2_refl;
    [apply const_wider_refl | apply class_wider_refl | apply func_wider_refl].
Qed.
Lemma unit_wider_trans : forall H a b c, unit_wider H a b -> unit_wider H b c -> unit_wider H a c.
Proof.
  intros H a b c [C1 [L1 F1]] [C2 [L2 F2]]. unfold unit_wider. repeat split.
  - eapply Forall2_trans; [apply const_wider_trans | eassumption | eassumption].
  - eapply Forall2_trans; [apply class_wider_trans | eassumption | eassumption].
  - eapply Forall2_trans; [apply func_wider_trans | eassumption | eassumption].
Qed.

(* ================================================================== declarations: invariants *)
Section Decl.
Variable P : ty -> Prop.
Definition wf_param (p : param) : Prop :=
  P (p_ty p) /\ match p_mut p with Some m => P m | None => True end.
Definition wf_oparam (p : option param) : Prop :=
  match p with Some p => wf_param p | None => True end.
Definition wf_sig (s : sig) : Prop :=
  Forall (wf_param) (s_params s) /\ wf_oparam (s_star s) /\ wf_oparam (s_starstar s) /\
  P (s_ret s) /\ Forall P (s_exc s).
Definition wf_func (f : func) : Prop := Forall (wf_sig) (f_sigs f).
Definition wf_const (c : const) : Prop := P (k_ty c).
Definition wf_class (c : class) : Prop :=
  Forall (wf_func) (cl_methods c) /\ Forall (wf_const) (cl_consts c).

Lemma wf_param_iff : forall p, Forall P (types_of_param p) <-> wf_param p.
Proof.
  intros p. unfold types_of_param, wf_param. destruct (p_mut p); split.
  - intros F; inversion F as [|? ? ? F']; subst; inversion F'; subst; auto.
  - intros [? ?]; repeat constructor; assumption.
  - intros F; inversion F; subst; auto.
  - intros [? _]; repeat constructor; assumption.
Qed.
Lemma wf_oparam_iff : forall p, Forall P (types_of_oparam p) <-> wf_oparam p.
Proof.
  intros [p|]; simpl; [apply wf_param_iff | split; [intros; exact I | constructor]].
Qed.
Lemma wf_sig_iff : forall s, Forall P (types_of_sig s) <-> wf_sig s.
Proof.
  intros s. unfold types_of_sig, wf_sig. rewrite !Forall_app, Forall_flat_map, !wf_oparam_iff.
  assert (E : Forall (fun d => Forall P (types_of_param d)) (s_params s) <-> Forall (wf_param) (s_params s)).
  { split; intros F; eapply Forall_impl; try exact F; intros a; apply wf_param_iff. }
  rewrite E. split.
  - intros [? [? [? [F ?]]]]. inversion F; subst. tauto.
  - intros [? [? [? [? ?]]]]. repeat split; try assumption. constructor; [assumption | constructor].
Qed.
Lemma wf_func_iff : forall f, Forall P (types_of_func f) <-> wf_func f.
Proof.
  intros f. unfold types_of_func, wf_func. rewrite Forall_flat_map.
  split; intros F; eapply Forall_impl; try exact F; intros a; apply wf_sig_iff.
Qed.
Lemma wf_unit_iff : forall u,
  Forall P (types_of_unit u) <-> Forall (wf_const) (u_consts u) /\ Forall (wf_class) (u_classes u) /\
                  Forall (wf_func) (u_funcs u).
Proof.
  intros u. unfold types_of_unit. rewrite !Forall_app, !Forall_flat_map, Forall_map.
  assert (E1 : Forall (fun d => Forall P (types_of_func d)) (u_funcs u) <-> Forall (wf_func) (u_funcs u)).
  { split; intros F; eapply Forall_impl; try exact F; intros a; apply wf_func_iff. }
  assert (E2 : Forall (fun d => Forall P (flat_map types_of_func (cl_methods d) ++ map k_ty (cl_consts d)))
                      (u_classes u) <-> Forall (wf_class) (u_classes u)).
  { split; intros F; eapply Forall_impl; try exact F; intros a; unfold wf_class;
      rewrite Forall_app, Forall_flat_map, Forall_map.
    - intros [F1 F2]. split; [|exact F2]. eapply Forall_impl; [|exact F1]. intros b; apply wf_func_iff.
    - intros [F1 F2]. split; [|exact F2]. eapply Forall_impl; [|exact F1]. intros b; apply wf_func_iff. }
  rewrite E1, E2. unfold wf_const. tauto.
Qed.

(* the shape every unit-level pass has *)
Definition unit_map_t (gc : const -> const) (gm : cid -> func -> func) (gcc : const -> const)
           (gf : func -> func) (ft : ty -> ty) (u : unit_) : unit_ :=
  mkUnit (map gc (u_consts u)) (map (map_class_t gm gcc ft) (u_classes u)) (map gf (u_funcs u)).
Definition unit_map (gc : const -> const) (gm : cid -> func -> func) (gcc : const -> const)
           (gf : func -> func) : unit_ -> unit_ := unit_map_t gc gm gcc gf same_ty.

Lemma Forall_map_pres : forall {A} (Q : A -> Prop) (g : A -> A) l,
  (forall x, Q x -> Q (g x)) -> Forall Q l -> Forall Q (map g l).
Proof. intros A Q g l Hg F. induction F; simpl; constructor; auto. Qed.

Lemma unit_map_wf : forall gc gm gcc gf ft u,
  (forall c, wf_const c -> wf_const (gc c)) ->
  (forall n f, wf_func f -> wf_func (gm n f)) ->
  (forall c, wf_const c -> wf_const (gcc c)) ->
  (forall f, wf_func f -> wf_func (gf f)) ->
  Forall P (types_of_unit u) -> Forall P (types_of_unit (unit_map_t gc gm gcc gf ft u)).
Proof.
  intros gc gm gcc gf ft u Hc Hm Hcc Hf W. apply wf_unit_iff in W. destruct W as [W1 [W2 W3]].
  apply wf_unit_iff. simpl. repeat split.
  - apply Forall_map_pres; assumption.
  - apply Forall_map_pres; [|assumption]. intros cl [M C]. unfold wf_class; simpl. split.
    + apply Forall_map_pres; [apply Hm | assumption].
    + apply Forall_map_pres; assumption.
  - apply Forall_map_pres; assumption.
Qed.

Lemma unit_map_wider : forall H gc gm gcc gf ft u,
  (forall c, wf_const c -> const_wider H c (gc c)) ->
  (forall n f, wf_func f -> func_wider H f (gm n f)) ->
  (forall c, wf_const c -> const_wider H c (gcc c)) ->
  (forall f, wf_func f -> func_wider H f (gf f)) ->
  Forall P (types_of_unit u) -> unit_wider H u (unit_map_t gc gm gcc gf ft u).
Proof.
  intros H gc gm gcc gf ft u Hc Hm Hcc Hf W. apply wf_unit_iff in W. destruct W as [W1 [W2 W3]].
  rewrite Forall_forall in W1, W2, W3. unfold unit_wider; simpl. repeat split.
  - apply Forall2_map_r. intros; apply Hc; auto.
  - apply Forall2_map_r. intros cl Hcl. destruct (W2 cl Hcl) as [M C]. rewrite Forall_forall in M, C.
    unfold class_wider; simpl. repeat split.
    + apply Forall2_map_r. intros; apply Hm; auto.
    + apply Forall2_map_r. intros; apply Hcc; auto.
  - apply Forall2_map_r. intros; apply Hf; auto.
Qed.

Lemma unit_map_hier : forall gc gm gcc gf ft u, hier_of (unit_map_t gc gm gcc gf ft u) = hier_of u.
Proof.
  intros. unfold hier_of, unit_map_t; simpl. rewrite map_map. reflexivity.
Qed.

(* --- signature-level building blocks *)
Lemma map_param_wf : forall f p, (forall t, P t -> P (f t)) -> wf_param p -> wf_param (map_param f p).
Proof.
  intros f p Hf [W M]. unfold wf_param, map_param; simpl. split; [auto|].
  destruct (p_mut p); simpl; auto.
Qed.
Lemma map_param_wider : forall H f p, (forall t, P t -> wider H t (f t)) -> wf_param p ->
  param_wider H p (map_param f p).
Proof.
  intros H f p Hf [W M]. unfold param_wider, map_param; simpl. repeat split; [auto|].
  destruct (p_mut p); simpl; auto.
Qed.

Lemma map_sig3_wf : forall fp fr fe ft s,
  (forall t, P t -> P (fp t)) -> (forall t, P t -> P (fr t)) -> (forall t, P t -> P (fe t)) ->
  wf_sig s -> wf_sig (map_sig4 fp fr fe ft s).
Proof.
  intros fp fr fe ft s Hp Hr He [Pp [S [SS [R E]]]]. unfold wf_sig, map_sig4; simpl. repeat split.
  - apply Forall_forall. intros x Hx. apply in_map_iff in Hx. destruct Hx as [p [<- Hin]].
    apply map_param_wf; [assumption|]. rewrite Forall_forall in Pp; auto.
  - destruct (s_star s); simpl; [apply map_param_wf; assumption | exact I].
  - destruct (s_starstar s); simpl; [apply map_param_wf; assumption | exact I].
  - auto.
  - apply Forall_forall. intros x Hx. apply in_map_iff in Hx. destruct Hx as [p [<- Hin]].
    rewrite Forall_forall in E; auto.
Qed.
Lemma map_sig3_wider : forall H fp fr fe ft s,
  (forall t, P t -> wider H t (fp t)) -> (forall t, P t -> wider H t (fr t)) ->
  wf_sig s -> sig_wider H s (map_sig4 fp fr fe ft s).
Proof.
  intros H fp fr fe ft s Hp Hr [Pp [S [SS [R E]]]]. unfold sig_wider, map_sig4; simpl. repeat split.
  - apply Forall2_map_r. intros p Hin. eapply map_param_wider; [eassumption|]. rewrite Forall_forall in Pp; auto.
  - destruct (s_star s); simpl; [eapply map_param_wider; eassumption | exact I].
  - destruct (s_starstar s); simpl; [eapply map_param_wider; eassumption | exact I].
  - auto.
Qed.

Lemma map_func_wf : forall g f, (forall s, wf_sig s -> wf_sig (g s)) -> wf_func f -> wf_func (map_func g f).
Proof. intros g f Hg W. unfold wf_func, map_func; simpl. apply Forall_map_pres; assumption. Qed.
Lemma map_func_wider : forall H g f, (forall s, wf_sig s -> sig_wider H s (g s)) -> wf_func f ->
  func_wider H f (map_func g f).
Proof.
  intros H g f Hg W. unfold func_wider, map_func; simpl. repeat split. intros s Hs.
  exists (g s). split; [apply in_map; assumption|]. apply Hg. unfold wf_func in W. rewrite Forall_forall in W; auto.
Qed.

Lemma map_unit4_eq : forall fp fr fe fc ft u,
  map_unit5 fp fr fe fc ft u =
  unit_map_t (map_const fc) (fun _ => map_func (map_sig4 fp fr fe ft)) (map_const fc)
             (map_func (map_sig4 fp fr fe ft)) ft u.
Proof. reflexivity. Qed.

Lemma map_unit4_wf : forall fp fr fe fc ft u,
  (forall t, P t -> P (fp t)) -> (forall t, P t -> P (fr t)) ->
  (forall t, P t -> P (fe t)) -> (forall t, P t -> P (fc t)) ->
  Forall P (types_of_unit u) -> Forall P (types_of_unit (map_unit5 fp fr fe fc ft u)).
Proof.
  intros fp fr fe fc ft u Hp Hr He Hc W. rewrite map_unit4_eq. apply unit_map_wf; try assumption.
  - intros c Wc. apply Hc; assumption.
  - intros _ f Wf. apply map_func_wf; [|assumption]. intros; apply map_sig3_wf; assumption.
  - intros c Wc. apply Hc; assumption.
  - intros f Wf. apply map_func_wf; [|assumption]. intros; apply map_sig3_wf; assumption.
Qed.
Lemma map_unit4_wider : forall H fp fr fe fc ft u,
  (forall t, P t -> wider H t (fp t)) -> (forall t, P t -> wider H t (fr t)) ->
  (forall t, P t -> wider H t (fc t)) ->
  Forall P (types_of_unit u) -> unit_wider H u (map_unit5 fp fr fe fc ft u).
Proof.
  intros H fp fr fe fc ft u Hp Hr Hc W. rewrite map_unit4_eq. apply (unit_map_wider H); try assumption.
  - intros c Wc. split; [reflexivity | apply Hc; assumption].
  - intros _ f Wf. eapply map_func_wider; [|eassumption]. intros; eapply map_sig3_wider; eassumption.
  - intros c Wc. split; [reflexivity | apply Hc; assumption].
  - intros f Wf. eapply map_func_wider; [|eassumption]. intros; eapply map_sig3_wider; eassumption.
Qed.
End Decl.

(* ================================================================== signature equality, `==` *)
Lemma list_eqb_eq : forall {A} (eqb : A -> A -> bool), (forall a b, eqb a b = true <-> a = b) ->
  forall l l', list_eqb eqb l l' = true <-> l = l'.
Proof.
  intros A eqb He. induction l as [|x r IH]; destruct l' as [|y r']; simpl; split; try congruence; try reflexivity.
  - rewrite andb_true_iff, He, IH. intros [? ?]; congruence.
  - intros E; inversion E; subst. rewrite andb_true_iff, He, IH. auto.
Qed.
Lemma option_eqb_eq : forall {A} (eqb : A -> A -> bool), (forall a b, eqb a b = true <-> a = b) ->
  forall a b, option_eqb eqb a b = true <-> a = b.
Proof.
  intros A eqb He [a|] [b|]; simpl; split; try congruence; try reflexivity.
  - rewrite He; congruence.
  - intros E; inversion E; subst. apply He; reflexivity.
Qed.
Lemma param_eqb_eq : forall a b, param_eqb a b = true <-> a = b.
Proof.
  intros [n1 t1 k1 o1 m1] [n2 t2 k2 o2 m2]. unfold param_eqb; simpl.
  rewrite !andb_true_iff, !Nat.eqb_eq, ty_eqb_eq, eqb_true_iff, (option_eqb_eq ty_eqb ty_eqb_eq). split.
  - intros [[[[? ?] ?] ?] ?]; congruence.
  - intros E; inversion E; subst; auto.
Qed.
Lemma stripped_eqb_iff : forall a b, stripped_eqb a b = true <->
  s_params a = s_params b /\ s_star a = s_star b /\ s_starstar a = s_starstar b /\ s_template a = s_template b.
Proof.
  intros a b. unfold stripped_eqb.
  rewrite !andb_true_iff, (list_eqb_eq param_eqb param_eqb_eq), !(option_eqb_eq param_eqb param_eqb_eq),
    (list_eqb_eq ty_eqb ty_eqb_eq). tauto.
Qed.
Lemma sig_eqb_eq : forall a b, sig_eqb a b = true <-> a = b.
Proof.
  intros a b. unfold sig_eqb. rewrite !andb_true_iff, stripped_eqb_iff, ty_eqb_eq, (list_eqb_eq ty_eqb ty_eqb_eq).
  destruct a, b; simpl. split.
  - intros [[[? [? [? ?]]] ?] ?]; congruence.
  - intros E; inversion E; subst; repeat split; reflexivity.
Qed.

(* de-duplication keeps a representative of everything *)
Lemma dedup_from_cover : forall {A} (eqb : A -> A -> bool), (forall a, eqb a a = true) ->
  forall l seen x, In x l -> mem_by eqb x seen = true \/ mem_by eqb x (dedup_from eqb seen l) = true.
Proof.
  intros A eqb Hr. induction l as [|y r IH]; intros seen x Hin; simpl; [contradiction|].
  destruct (mem_by eqb y seen) eqn:E.
  - destruct Hin as [->|Hin]; [left; assumption | apply IH; assumption].
  - destruct Hin as [->|Hin].
    + right. unfold mem_by; simpl. rewrite Hr. reflexivity.
    + destruct (IH (y :: seen) x Hin) as [M|M].
      * unfold mem_by in M; simpl in M. apply orb_true_iff in M. destruct M as [M|M].
        -- right. unfold mem_by; simpl. rewrite M. reflexivity.
        -- left. exact M.
      * right. unfold mem_by in *; simpl. rewrite M. apply orb_true_r.
Qed.
Lemma dedup_by_cover : forall {A} (eqb : A -> A -> bool), (forall a, eqb a a = true) ->
  forall l x, In x l -> exists y, In y (dedup_by eqb l) /\ eqb x y = true.
Proof.
  intros A eqb Hr l x Hin. destruct (dedup_from_cover eqb Hr l [] x Hin) as [M|M]; [discriminate|].
  unfold mem_by in M. apply existsb_exists in M. exact M.
Qed.

Definition tys_py_eqb := fix go (l l' : list ty) : bool :=
  match l, l' with
  | [], [] => true
  | x :: r, y :: r' => py_eqb x y && go r r'
  | _, _ => false
  end.

Lemma tys_py_eqb_pw : forall H l, Forall (fun a => forall b, py_eqb a b = true -> wider H a b) l ->
  forall l', tys_py_eqb l l' = true -> pw H l l' /\ length l' = length l.
Proof.
  intros H l F. induction F as [|x r Hx _ IH]; destruct l' as [|y r']; simpl; intros E; try discriminate.
  - split; [constructor | reflexivity].
  - apply andb_true_iff in E. destruct E as [E1 E2]. destruct (IH _ E2) as [Pw L].
    split; [constructor; auto | lia].
Qed.

Lemma py_eqb_wider : forall H a b, py_eqb a b = true -> wider H a b.
Proof.
  intros H a; induction a using ty_ind'; intros b E;
    try (assert (E' : ty_eqb _ b = true) by (destruct b; exact E);
         apply ty_eqb_eq in E'; subst b; apply wider_refl);
    destruct b; simpl in E; try discriminate.
  - apply andb_true_iff in E. destruct E as [E _]. intros v A. apply admits_union in A.
    destruct A as [t [Hin A]]. apply admits_union. exists t. split; [|assumption].
    rewrite forallb_forall in E. apply memb_In. apply E. assumption.
  - change (kind_eqb k k0 && Nat.eqb c c0 && tys_py_eqb ps ps0 = true) in E.
    rewrite !andb_true_iff, kind_eqb_eq, Nat.eqb_eq in E. destruct E as [[-> ->] E].
    destruct (tys_py_eqb_pw H ps H0 _ E) as [Pw L]. apply wider_gen; assumption.
  - change (kind_eqb k k0 && Nat.eqb c c0 && tys_py_eqb ps ps0 = true) in E.
    rewrite !andb_true_iff, kind_eqb_eq, Nat.eqb_eq in E. destruct E as [[-> ->] E].
    destruct (tys_py_eqb_pw H ps H0 _ E) as [Pw L]. apply wider_tup; assumption.
  - change (kind_eqb k k0 && Nat.eqb c c0 && tys_py_eqb ps ps0 = true) in E.
    rewrite !andb_true_iff, kind_eqb_eq, Nat.eqb_eq in E. destruct E as [[-> ->] E].
    destruct (tys_py_eqb_pw H ps H0 _ E) as [Pw L]. apply wider_call; assumption.
  - change (Nat.eqb n n0 && Nat.eqb sc sc0 && Bool.eqb hb hb0 && tys_py_eqb ps ps0 = true) in E.
    rewrite !andb_true_iff, !Nat.eqb_eq, Bool.eqb_true_iff in E. destruct E as [[[-> ->] ->] E].
    destruct (tys_py_eqb_pw H ps H0 _ E) as [Pw L]. apply wider_var; assumption.
Qed.

Lemma tys_py_eqb_refl : forall l, Forall (fun a => py_eqb a a = true) l -> tys_py_eqb l l = true.
Proof. induction 1; simpl; [reflexivity | rewrite H, IHForall; reflexivity]. Qed.

Lemma py_eqb_refl : forall a, py_eqb a a = true.
Proof.
  induction a using ty_ind'; simpl; try apply Nat.eqb_refl; try reflexivity.
  - destruct k; simpl; apply Nat.eqb_refl.
  - assert (F : forallb (fun x => memb x ts) ts = true) by (apply forallb_forall; intros; apply memb_In; assumption).
    rewrite F. reflexivity.
  - change (kind_eqb k k && Nat.eqb c c && tys_py_eqb ps ps = true).
    rewrite (proj2 (kind_eqb_eq k k) eq_refl), Nat.eqb_refl, tys_py_eqb_refl; auto.
  - change (kind_eqb k k && Nat.eqb c c && tys_py_eqb ps ps = true).
    rewrite (proj2 (kind_eqb_eq k k) eq_refl), Nat.eqb_refl, tys_py_eqb_refl; auto.
  - change (kind_eqb k k && Nat.eqb c c && tys_py_eqb ps ps = true).
    rewrite (proj2 (kind_eqb_eq k k) eq_refl), Nat.eqb_refl, tys_py_eqb_refl; auto.
  - change (Nat.eqb n n && Nat.eqb sc sc && Bool.eqb hb hb && tys_py_eqb ps ps = true).
    rewrite !Nat.eqb_refl, Bool.eqb_reflx, tys_py_eqb_refl; auto.
Qed.

(* ================================================================== function-level passes *)
Lemma sig_eqb_refl : forall s, sig_eqb s s = true.
Proof. intros; apply sig_eqb_eq; reflexivity. Qed.
Lemma stripped_eqb_refl : forall s, stripped_eqb s s = true.
Proof. intros; apply stripped_eqb_iff; auto. Qed.

Lemma remove_duplicates_wider : forall H f, func_wider H f (remove_duplicates_f f).
Proof.
  intros H f. unfold func_wider, remove_duplicates_f; simpl. repeat split. intros s Hs.
  destruct (dedup_by_cover sig_eqb sig_eqb_refl _ _ Hs) as [y [Hy E]]. apply sig_eqb_eq in E. subst y.
  exists s. split; [assumption | apply sig_wider_refl].
Qed.
Lemma remove_duplicates_wf : forall P f, wf_func P f -> wf_func P (remove_duplicates_f f).
Proof.
  intros P f W. unfold wf_func, remove_duplicates_f in *; simpl. apply Forall_forall. intros s Hs.
  apply dedup_by_subset in Hs. rewrite Forall_forall in W; auto.
Qed.

(* signature_merge_sound, core: every original signature is covered by its group's signature *)
Lemma combine_returns_wider : forall H f, func_wider H f (combine_returns_f f).
Proof.
  intros H f. unfold func_wider, combine_returns_f; simpl. repeat split. intros s Hs.
  destruct (dedup_by_cover stripped_eqb stripped_eqb_refl _ _ Hs) as [s0 [H0 E]].
  exists (combine_group (f_sigs f) s0). split; [apply in_map; assumption|].
  apply stripped_eqb_iff in E. destruct E as [E1 [E2 [E3 E4]]].
  unfold sig_wider, combine_group; simpl. rewrite <- E1, <- E2, <- E3. repeat split.
  - apply Forall2_refl. apply param_wider_refl.
  - apply oparam_wider_refl.
  - apply oparam_wider_refl.
  - assert (Hm : In (s_ret s) (map s_ret (filter (stripped_eqb s0) (f_sigs f)))).
    { apply in_map. apply filter_In. split; [assumption|]. apply stripped_eqb_iff. auto. }
    destruct (dedup_by_cover py_eqb py_eqb_refl _ _ Hm) as [y [Hy Ey]].
    eapply wider_trans; [apply py_eqb_wider; exact Ey|]. apply join_widens. exact Hy.
Qed.
Lemma combine_returns_wf : forall k f, wf_func (wf k) f -> wf_func (wf k) (combine_returns_f f).
Proof.
  intros k f W. unfold wf_func, combine_returns_f in *; simpl. apply Forall_forall. intros s Hs.
  apply in_map_iff in Hs. destruct Hs as [s0 [<- H0]]. apply dedup_by_subset in H0.
  rewrite Forall_forall in W. destruct (W s0 H0) as [Pp [S [SS [R E]]]].
  unfold wf_sig, combine_group; simpl. repeat split; try assumption.
  - apply join_wf. apply Forall_forall. intros t Ht. apply dedup_by_subset in Ht.
    apply in_map_iff in Ht. destruct Ht as [s1 [<- H1]]. apply filter_In in H1. destruct H1 as [H1 _].
    apply (W s1 H1).
  - apply Forall_forall. intros t Ht. apply dedup_by_subset in Ht. apply in_flat_map in Ht.
    destruct Ht as [s1 [H1 Ht]]. apply filter_In in H1. destruct H1 as [H1 _].
    destruct (W s1 H1) as [_ [_ [_ [_ E1]]]]. rewrite Forall_forall in E1; auto.
Qed.

Lemma absorb_param_wider : forall H p, param_wider H p (absorb_param p).
Proof.
  intros H p. unfold absorb_param. destruct (p_mut p) as [m|] eqn:E; [|apply param_wider_refl].
  unfold param_wider; simpl. rewrite E. repeat split; apply join_widens; simpl; auto.
Qed.
Lemma absorb_param_wf : forall k p, wf_param (wf k) p -> wf_param (wf k) (absorb_param p).
Proof.
  intros k p [W M]. unfold absorb_param. destruct (p_mut p) as [m|] eqn:E; [|split; [assumption | rewrite E; exact I]].
  unfold wf_param; simpl. split; [|exact I]. apply join_wf. repeat constructor; assumption.
Qed.
Lemma absorb_sig_wider : forall H s, sig_wider H s (absorb_sig s).
Proof.
  intros H s. unfold sig_wider, absorb_sig; simpl. repeat split.
  - apply Forall2_map_r. intros; apply absorb_param_wider.
  - destruct (s_star s); simpl; [apply absorb_param_wider | exact I].
  - destruct (s_starstar s); simpl; [apply absorb_param_wider | exact I].
  - apply wider_refl.
Qed.
Lemma absorb_sig_wf : forall k s, wf_sig (wf k) s -> wf_sig (wf k) (absorb_sig s).
Proof.
  intros k s [Pp [S [SS [R E]]]]. unfold wf_sig, absorb_sig; simpl. repeat split; try assumption.
  - apply Forall_map_pres; [apply absorb_param_wf | assumption].
  - destruct (s_star s); simpl; [apply absorb_param_wf; assumption | exact I].
  - destruct (s_starstar s); simpl; [apply absorb_param_wf; assumption | exact I].
Qed.

Lemma normalize_self_sig_wider : forall H cls s, sig_wider H s (normalize_self_sig cls s).
Proof.
  intros H cls s. unfold normalize_self_sig. destruct (s_params s) as [|p rest] eqn:Ep; [apply sig_wider_refl|].
  destruct (Nat.eqb (p_name p) 0 && is_generic (p_ty p) && Nat.eqb (base_cid (p_ty p)) cls); [|apply sig_wider_refl].
  unfold sig_wider; simpl. rewrite Ep. repeat split; try apply oparam_wider_refl; try apply wider_refl.
  constructor; [|apply Forall2_refl; apply param_wider_refl].
  unfold param_wider; simpl. repeat split.
  - intros v A. destruct (p_ty p); try assumption.
    + apply admits_gen in A. simpl. tauto.
    + apply admits_tup in A. destruct A as [items [-> [S _]]]. exact S.
    + apply admits_call in A. destruct A as [a [r [-> [S _]]]]. exact S.
  - destruct (p_mut p); [apply wider_refl | reflexivity].
Qed.
Lemma normalize_self_sig_wf : forall k cls s, wf_sig (wf k) s -> wf_sig (wf k) (normalize_self_sig cls s).
Proof.
  intros k cls s W. unfold normalize_self_sig. destruct (s_params s) as [|p rest] eqn:Ep; [assumption|].
  destruct (Nat.eqb (p_name p) 0 && is_generic (p_ty p) && Nat.eqb (base_cid (p_ty p)) cls); [|assumption].
  destruct W as [Pp [S [SS [R E]]]]. unfold wf_sig; simpl. repeat split; try assumption.
  rewrite Ep in Pp. inversion Pp as [|? ? [Wt Wm] Pr]; subst. constructor; [|assumption].
  unfold wf_param; simpl. split; [|assumption].
  destruct (p_ty p); try assumption; inversion Wt; subst; constructor.
Qed.

Lemma map_funcs_unit_eq : forall g u,
  map_funcs_unit g u = unit_map (fun c => c) (fun _ => g) (fun c => c) g u.
Proof. intros g [cs cls fs]. unfold map_funcs_unit, unit_map, unit_map_t; simpl. rewrite map_id. reflexivity. Qed.
Lemma normalize_self_eq : forall u,
  normalize_self u = unit_map (fun c => c) (fun cls => map_func (normalize_self_sig cls)) (fun c => c) (fun f => f) u.
Proof. intros [cs cls fs]. unfold normalize_self, unit_map, unit_map_t; simpl. rewrite !map_id. reflexivity. Qed.

Lemma adjust_self_no_classes : forall u, u_classes u = [] -> adjust_self u = u.
Proof. intros [cs cls fs] E; simpl in E; subst. reflexivity. Qed.

Lemma Forall2_map_post : forall {A B} (R : A -> B -> Prop) (g : B -> B) l l',
  (forall x y, R x y -> R x (g y)) -> Forall2 R l l' -> Forall2 R l (map g l').
Proof. intros A B R g l l' Hg F. induction F; simpl; constructor; auto. Qed.

Lemma resolve_unit_wider : forall H u, unit_wider H u (resolve_unit u).
Proof.
  intros H u.
  assert (W : unit_wider H u (map_ty_unit resolve u)).
  { unfold map_ty_unit. apply (map_unit4_wider Itrue); try (intros; apply resolve_widens_lemma).
    apply Itrue_all. }
  destruct W as [C [L F]]. unfold unit_wider, resolve_unit; simpl. repeat split; try assumption.
  apply Forall2_map_post; [|exact L].
  intros x y [N [B [M K]]]. unfold class_wider; simpl. repeat split; try assumption.
  rewrite map_map. simpl. exact B.
Qed.

(* ================================================================== MergeTypeParameters *)
Lemma map_opt_s_Forall2 : forall {A B} (f : A -> option B) l l',
  map_opt_s f l = Some l' -> Forall2 (fun a b => f a = Some b) l l'.
Proof.
  intros A B f. induction l as [|x r IH]; intros l' E; simpl in E.
  - inversion E; constructor.
  - destruct (f x) eqn:Ex; [|discriminate]. destruct (map_opt_s f r) eqn:Er; [|discriminate].
    inversion E; subst. constructor; [assumption | apply IH; reflexivity].
Qed.
Lemma Forall2_pw : forall H (R : ty -> ty -> Prop) l l',
  Forall2 R l l' -> (forall x y, In x l -> R x y -> wider H x y) -> pw H l l' /\ length l' = length l.
Proof.
  intros H R l l' F. induction F; intros Hw; simpl.
  - split; [constructor | reflexivity].
  - destruct IHF as [P L]; [intros; apply Hw; [right|]; assumption|].
    split; [constructor; [apply Hw; [left; reflexivity | assumption] | assumption] | lia].
Qed.
Lemma assoc_ty_In : forall sg t v, assoc_ty sg t = Some v -> In (t, v) sg.
Proof.
  induction sg as [|[k w] r IH]; intros t v E; simpl in E; [discriminate|].
  destruct (ty_eqb k t) eqn:Ek.
  - apply ty_eqb_eq in Ek. inversion E; subst. left; reflexivity.
  - right. apply IH; assumption.
Qed.

Lemma Forall2_impl : forall {A B} (R R' : A -> B -> Prop) l l',
  (forall a b, R a b -> R' a b) -> Forall2 R l l' -> Forall2 R' l l'.
Proof. intros A B R R' l l' Hi F. induction F; constructor; auto. Qed.

Definition sg_ok (H : hier) (sg : list (ty * ty)) : Prop := forall k v, In (k, v) sg -> wider H k v.

Lemma subst_wider : forall H sg, sg_ok H sg -> forall t t', subst sg t = Some t' -> wider H t t'.
Proof.
  intros H sg OK. induction t using ty_ind'; intros t' E; simpl in E;
    try (inversion E; subst; apply wider_refl).
  - destruct (map_opt_s (subst sg) ts) as [l|] eqn:Em; [|discriminate]. simpl in E. inversion E; subst.
    apply map_opt_s_Forall2 in Em.
    destruct (Forall2_pw H _ _ _ Em) as [P L].
    { intros x y Hin Ex. rewrite Forall_forall in H0. apply H0; assumption. }
    intros v A. apply norm_union_admits. apply (union_pw H ts l P L). exact A.
  - destruct (map_opt_s (subst sg) ps) as [l|] eqn:Em; [|discriminate]. simpl in E. inversion E; subst.
    apply map_opt_s_Forall2 in Em.
    destruct (Forall2_pw H _ _ _ Em) as [P L].
    { intros x y Hin Ex. rewrite Forall_forall in H0. apply H0; assumption. }
    apply wider_gen; assumption.
  - destruct (map_opt_s (subst sg) ps) as [l|] eqn:Em; [|discriminate]. simpl in E. inversion E; subst.
    apply map_opt_s_Forall2 in Em.
    destruct (Forall2_pw H _ _ _ Em) as [P L].
    { intros x y Hin Ex. rewrite Forall_forall in H0. apply H0; assumption. }
    apply wider_tup; assumption.
  - destruct (map_opt_s (subst sg) ps) as [l|] eqn:Em; [|discriminate]. simpl in E. inversion E; subst.
    apply map_opt_s_Forall2 in Em.
    destruct (Forall2_pw H _ _ _ Em) as [P L].
    { intros x y Hin Ex. rewrite Forall_forall in H0. apply H0; assumption. }
    apply wider_call; assumption.
  - destruct (map_opt_s (subst sg) ps) as [l|] eqn:Em; [|discriminate].
    apply map_opt_s_Forall2 in Em.
    destruct (Forall2_pw H _ _ _ Em) as [P L].
    { intros x y Hin Ex. rewrite Forall_forall in H0. apply H0; assumption. }
    eapply wider_trans; [apply (wider_var H n sc hb ps l P L)|].
    apply OK. apply assoc_ty_In. exact E.
Qed.

Lemma subst_param_wider : forall H sg p p', sg_ok H sg -> subst_param sg p = Some p' -> param_wider H p p'.
Proof.
  intros H sg p p' OK E. unfold subst_param in E.
  destruct (subst sg (p_ty p)) as [t|] eqn:Et; [|discriminate].
  destruct (p_mut p) as [m|] eqn:Em.
  - destruct (subst sg m) as [m'|] eqn:Es; simpl in E; [|discriminate]. inversion E; subst.
    unfold param_wider; simpl. rewrite Em. repeat split; eapply subst_wider; eassumption.
  - inversion E; subst. unfold param_wider; simpl. rewrite Em. repeat split. eapply subst_wider; eassumption.
Qed.
Lemma subst_oparam_wider : forall H sg p p', sg_ok H sg -> subst_oparam sg p = Some p' -> oparam_wider H p p'.
Proof.
  intros H sg [p|] p' OK E; simpl in E.
  - destruct (subst_param sg p) eqn:Ep; simpl in E; [|discriminate]. inversion E; subst. simpl.
    eapply subst_param_wider; eassumption.
  - inversion E; subst. exact I.
Qed.
Lemma subst_sig_wider : forall H sg tmpl s s', sg_ok H sg -> subst_sig sg tmpl s = Some s' -> sig_wider H s s'.
Proof.
  intros H sg tmpl s s' OK E. unfold subst_sig in E.
  destruct (map_opt (subst_param sg) (s_params s)) as [ps|] eqn:E1; [|discriminate].
  destruct (subst_oparam sg (s_star s)) as [st|] eqn:E2; [|discriminate].
  destruct (subst_oparam sg (s_starstar s)) as [ss|] eqn:E3; [|discriminate].
  destruct (subst sg (s_ret s)) as [r|] eqn:E4; [|discriminate].
  destruct (map_opt (subst sg) (s_exc s)) as [ex|] eqn:E5; [|discriminate].
  destruct (map_opt (subst sg) tmpl) as [tm|] eqn:E6; [|discriminate].
  inversion E; subst. unfold sig_wider; simpl. repeat split.
  - apply map_opt_Forall2 in E1. eapply Forall2_impl; [|exact E1].
    intros a b Eab. eapply subst_param_wider; eassumption.
  - eapply subst_oparam_wider; eassumption.
  - eapply subst_oparam_wider; eassumption.
  - eapply subst_wider; eassumption.
Qed.

Lemma wf_param_Itrue : forall p, wf_param Itrue p.
Proof. intros p. split; [exact I | destruct (p_mut p); exact I]. Qed.
Lemma wf_sig_Itrue : forall s, wf_sig Itrue s.
Proof.
  intros s. unfold wf_sig. repeat split; try exact I.
  - apply Forall_forall. intros; apply wf_param_Itrue.
  - destruct (s_star s); simpl; [apply wf_param_Itrue | exact I].
  - destruct (s_starstar s); simpl; [apply wf_param_Itrue | exact I].
  - apply Itrue_all.
Qed.
Lemma unbounded_admits : forall H t v, unbounded_var t -> admits H t v.
Proof. intros H t v [n [sc [hb ->]]]. exact I. Qed.

Lemma mtp_item_ok : forall H fuel m ct st acc item acc',
  Forall unbounded_var ct ->
  (forall tm sg, acc = Some (tm, sg) -> sg_ok H sg) ->
  mtp_item fuel m (fun t => memb t ct && negb (memb t st)) acc item = acc' ->
  forall tm sg, acc' = Some (tm, sg) -> sg_ok H sg.
Proof.
  intros H fuel m ct st acc item acc' U OK E tm sg E'. subst acc'. unfold mtp_item in E'.
  destruct acc as [[tm0 sg0]|]; [|discriminate].
  destruct (all_containing fuel m item []) as [[cont seen]|]; [|discriminate].
  destruct (filter (fun t => memb t ct && negb (memb t st)) cont) as [|x cps] eqn:Ef.
  - inversion E'; subst. eapply OK; reflexivity.
  - inversion E'; subst. intros k v [Ekv|Hin].
    + inversion Ekv; subst. intros w _. apply (join_widens H (x :: cps) x); [left; reflexivity|].
      apply unbounded_admits.
      assert (Hx : In x (filter (fun t => memb t ct && negb (memb t st)) cont)) by (rewrite Ef; left; reflexivity).
      apply filter_In in Hx. destruct Hx as [_ Hx]. apply andb_true_iff in Hx. destruct Hx as [Hx _].
      apply memb_In in Hx. rewrite Forall_forall in U. apply U; assumption.
    + eapply OK; [reflexivity | eassumption].
Qed.

Lemma mtp_fold_ok : forall H fuel m ct st items acc tm sg,
  Forall unbounded_var ct ->
  (forall tm sg, acc = Some (tm, sg) -> sg_ok H sg) ->
  fold_left (mtp_item fuel m (fun t => memb t ct && negb (memb t st))) items acc = Some (tm, sg) ->
  sg_ok H sg.
Proof.
  intros H fuel m ct st items; induction items as [|it r IH]; intros acc tm sg U OK E; simpl in E.
  - eapply OK; eassumption.
  - eapply IH; [exact U | | exact E].
    intros tm' sg' E'. eapply (mtp_item_ok H fuel m ct st acc it); eauto.
Qed.

Lemma mtp_sig_wider : forall H ct s s', Forall unbounded_var ct -> mtp_sig ct s = Some s' -> sig_wider H s s'.
Proof.
  intros H ct s s' U E. unfold mtp_sig in E.
  match type of E with context [fold_left ?f ?l ?a] => destruct (fold_left f l a) as [[tm sg]|] eqn:Ef end;
    [|discriminate].
  destruct (subst_sig sg tm s) as [s1|] eqn:Es; simpl in E; [|discriminate]. inversion E; subst.
  assert (OK : sg_ok H sg).
  { eapply (mtp_fold_ok H _ _ ct (s_template s)); [exact U | | exact Ef].
    intros tm0 sg0 E0. inversion E0; subst. intros k v Hin. apply in_map_iff in Hin.
    destruct Hin as [x [Ex _]]. inversion Ex; subst. apply wider_refl. }
  eapply sig_wider_trans; [eapply subst_sig_wider; eassumption|].
  unfold map_sig. apply (map_sig3_wider Itrue); try (intros; apply simplify_unions_widens_lemma).
  apply wf_sig_Itrue.
Qed.

Lemma mtp_func_wider : forall H ct f f', Forall unbounded_var ct -> mtp_func ct f = Some f' -> func_wider H f f'.
Proof.
  intros H ct f f' U E. unfold mtp_func in E.
  destruct (map_opt (mtp_sig ct) (f_sigs f)) as [ss|] eqn:Em; simpl in E; [|discriminate]. inversion E; subst.
  unfold func_wider; simpl. repeat split. intros s Hs. apply map_opt_Forall2 in Em.
  clear E. induction Em; [contradiction|]. destruct Hs as [<-|Hs].
  - exists y. split; [left; reflexivity | eapply mtp_sig_wider; eassumption].
  - destruct (IHEm Hs) as [s' [Hin W]]. exists s'. split; [right; assumption | assumption].
Qed.

Lemma merge_type_parameters_wider : forall H u u',
  unb_classes u -> merge_type_parameters u = Some u' -> unit_wider H u u' /\ hier_of u' = hier_of u.
Proof.
  intros H u u' U E. unfold merge_type_parameters in E.
  destruct (map_opt mtp_class (u_classes u)) as [cs|] eqn:Ec; [|discriminate].
  destruct (map_opt (mtp_func []) (u_funcs u)) as [fs|] eqn:Ef; [|discriminate]. inversion E; subst.
  apply map_opt_Forall2 in Ec. apply map_opt_Forall2 in Ef.
  assert (C : Forall2 (class_wider H) (u_classes u) cs /\ map (fun c => (cl_name c, map snd (cl_bases c))) cs
              = map (fun c => (cl_name c, map snd (cl_bases c))) (u_classes u)).
  { unfold unb_classes in U. clear Ef E. induction Ec; [split; [constructor | reflexivity]|].
    inversion U as [|? ? Ux Ur]; subst. destruct (IHEc Ur) as [F M]. unfold mtp_class in H0.
    destruct (map_opt (mtp_func (cl_template x)) (cl_methods x)) as [ms|] eqn:Em; simpl in H0; [|discriminate].
    inversion H0; subst. split.
    - constructor; [|assumption]. unfold class_wider; simpl. repeat split.
      + apply map_opt_Forall2 in Em. eapply Forall2_impl; [|exact Em]. intros a b Eab.
        eapply mtp_func_wider; eassumption.
      + apply Forall2_refl. apply const_wider_refl.
    - simpl. rewrite M. reflexivity. }
  destruct C as [C M]. split.
  - unfold unit_wider; simpl. repeat split.
    + apply Forall2_refl. apply const_wider_refl.
    + exact C.
    + eapply Forall2_impl; [|exact Ef]. intros a b Eab. eapply mtp_func_wider; [constructor | eassumption].
  - unfold hier_of; simpl. exact M.
Qed.

(* ================================================================== one pass, then the pipeline *)
Lemma hier_of_classes_nil : forall u, hier_of u = [] -> u_classes u = [].
Proof. intros u E. unfold hier_of in E. destruct (u_classes u); [reflexivity | discriminate]. Qed.

Lemma run_pass_sound : forall k cs o Hd p u u',
  run_pass cs o Hd p u = Some u' ->
  ranked (hier_of u ++ Hd) ->
  (p = PAdjustSelf \/ p = PMergeTypeParameters -> hier_of u = []) ->
  (needs_wf p = true -> wf_unit k u) ->
  unit_wider (hier_of u ++ Hd) u u' /\ hier_of u' = hier_of u /\
  (wf_unit k u -> keeps_wf p = true -> wf_unit k u').
Proof.
  intros k cs o Hd p u u' E R NC NW. set (H := hier_of u ++ Hd) in *.
  destruct p; simpl in E; try discriminate; try (inversion E; subst u'; clear E).
  - (* NormalizeGenericSelfTypes *)
    rewrite normalize_self_eq. split; [|split].
    + apply (unit_map_wider Itrue); try (intros; apply const_wider_refl); try (intros; apply func_wider_refl);
        [|apply Itrue_all].
      intros n f Wf. apply (map_func_wider Itrue); [|exact Wf].
      intros; apply normalize_self_sig_wider.
    + apply unit_map_hier.
    + intros W _. apply unit_map_wf; auto. intros n f Wf. apply map_func_wf; [|assumption].
      intros; apply normalize_self_sig_wf; assumption.
  - (* RemoveDuplicates *)
    rewrite map_funcs_unit_eq. split; [|split].
    + apply (unit_map_wider Itrue); try (intros; apply const_wider_refl); try (intros; apply remove_duplicates_wider).
      apply Itrue_all.
    + apply unit_map_hier.
    + intros W _. apply unit_map_wf; auto; intros; apply remove_duplicates_wf; assumption.
  - (* SimplifyUnions *)
    split; [|split].
    + apply (map_unit4_wider Itrue); try (intros; apply simplify_unions_widens_lemma). apply Itrue_all.
    + apply unit_map_hier.
    + intros W _. apply map_unit4_wf; try assumption; intros; apply simplify_unions_wf; assumption.
  - (* CombineReturnsAndExceptions *)
    rewrite map_funcs_unit_eq. split; [|split].
    + apply (unit_map_wider Itrue); try (intros; apply const_wider_refl); try (intros; apply combine_returns_wider).
      apply Itrue_all.
    + apply unit_map_hier.
    + intros W _. apply unit_map_wf; auto; intros; apply combine_returns_wf; assumption.
  - (* CombineContainers *)
    destruct (forallb (fun t => is_some (cc_top t)) (types_of_unit u)); [|discriminate].
    inversion E; subst u'; clear E. specialize (NW eq_refl). split; [|split].
    + apply (map_unit4_wider (wf k)); try (intros; apply (combine_containers_widens_lemma H k); assumption).
      assumption.
    + apply unit_map_hier.
    + intros W _. apply map_unit4_wf; try assumption; intros; apply combine_containers_wf; assumption.
  - (* SimplifyContainers *)
    split; [|split].
    + apply (map_unit4_wider Itrue); try (intros; apply simplify_containers_widens_lemma). apply Itrue_all.
    + apply unit_map_hier.
    + intros W _. apply map_unit4_wf; try assumption; intros; apply simplify_containers_wf; assumption.
  - (* SimplifyUnionsWithSuperclasses *)
    specialize (NW eq_refl). split; [|split].
    + apply (map_unit4_wider (wf k));
        try (intros; apply (simplify_superclasses_widens_lemma H k); assumption). assumption.
    + apply unit_map_hier.
    + intros W _. apply map_unit4_wf; try assumption; intros; apply simplify_superclasses_wf; assumption.
  - (* CollapseLongUnions *)
    split; [|split].
    + apply (map_unit4_wider Itrue); try (intros; apply collapse_long_unions_widens_lemma). apply Itrue_all.
    + apply unit_map_hier.
    + intros W _. apply map_unit4_wf; try assumption; intros; apply collapse_long_unions_wf; assumption.
  - (* AdjustReturnAndConstantGenericType *)
    split; [|split].
    + apply (map_unit4_wider Itrue); try (intros; apply adjust_generic_type_widens_lemma);
        try (intros; apply wider_refl). apply Itrue_all.
    + apply unit_map_hier.
    + intros W _. apply map_unit4_wf; try assumption; try (intros; assumption);
        intros; apply adjust_generic_type_wf; assumption.
  - (* AbsorbMutableParameters *)
    rewrite map_funcs_unit_eq. split; [|split].
    + apply (unit_map_wider Itrue); try (intros; apply const_wider_refl); [| |apply Itrue_all].
      * intros n f Wf. apply (map_func_wider Itrue); [|exact Wf].
        intros; apply absorb_sig_wider.
      * intros f Wf. apply (map_func_wider Itrue); [|exact Wf].
        intros; apply absorb_sig_wider.
    + apply unit_map_hier.
    + intros W _. apply unit_map_wf; auto; intros; (apply map_func_wf; [|assumption]);
        intros; apply absorb_sig_wf; assumption.
  - (* MergeTypeParameters: guarded by remove_mutable, where the unit has no classes *)
    assert (U : unb_classes u).
    { unfold unb_classes. rewrite (hier_of_classes_nil u (NC (or_intror eq_refl))). constructor. }
    destruct (merge_type_parameters_wider H u u' U E) as [W Hh].
    split; [exact W | split; [exact Hh | intros _ D; discriminate]].
  - (* AdjustSelf: guarded by remove_mutable, where the unit has no classes *)
    rewrite adjust_self_no_classes by (apply hier_of_classes_nil; apply NC; left; reflexivity).
    split; [apply unit_wider_refl | split; [reflexivity | intros; assumption]].
  - (* LookupClasses *)
    split; [|split].
    + apply resolve_unit_wider.
    + unfold hier_of, resolve_unit; simpl. rewrite !map_map. simpl. apply map_ext. intros c.
      simpl. rewrite map_map. reflexivity.
    + intros _ D; discriminate.
Qed.

Lemma enabled_remove_mutable : forall o fl,
  forallb (enabled o) fl = true -> existsb is_remove_mutable fl = true -> o_remove_mutable o = true.
Proof.
  intros o fl F E. apply existsb_exists in E. destruct E as [f [Hf Ef]]. rewrite forallb_forall in F.
  specialize (F f Hf). destruct f; try discriminate. exact F.
Qed.

Lemma run_passes_sound : forall k cs o Hd ps wfok u u',
  pipeline_ok wfok ps = true ->
  run_passes cs o Hd ps u = Some u' ->
  ranked (hier_of u ++ Hd) ->
  (o_remove_mutable o = true -> hier_of u = []) ->
  (wfok = true -> wf_unit k u) ->
  unit_wider (hier_of u ++ Hd) u u'.
Proof.
  intros k cs o Hd ps; induction ps as [|[fl p] r IH]; intros wfok u u' OK E R RM W; simpl in E.
  - inversion E; subst. apply unit_wider_refl.
  - simpl in OK. apply andb_true_iff in OK. destruct OK as [OK OK3]. apply andb_true_iff in OK.
    destruct OK as [OK1 OK2].
    destruct (forallb (enabled o) fl) eqn:En.
    + destruct (run_pass cs o Hd p u) as [u1|] eqn:E1; [|discriminate].
      destruct (run_pass_sound k cs o Hd p u u1 E1 R) as [W1 [H1 K1]].
      * intros [-> | ->]; apply RM; (eapply enabled_remove_mutable; [exact En | exact OK2]).
      * intros Nw. apply W. rewrite Nw in OK1. simpl in OK1. exact OK1.
      * eapply unit_wider_trans; [exact W1|]. rewrite <- H1.
        apply (IH (wfok && keeps_wf p) u1 u'); try assumption.
        -- rewrite H1; assumption.
        -- rewrite H1; assumption.
        -- intros Ew. apply andb_true_iff in Ew. destruct Ew as [Ew Ek]. apply K1; auto.
    + apply (IH (wfok && keeps_wf p) u u'); try assumption.
      intros Ew. apply andb_true_iff in Ew. apply W. tauto.
Qed.

Lemma optimize_widens_lemma : forall k o Hd u u',
  pipeline_ok true passes = true ->
  ranked (hier_of u ++ Hd) ->
  wf_unit k u ->
  (o_remove_mutable o = true -> u_classes u = []) ->
  opt o Hd u = Some u' ->
  unit_wider (hier_of u ++ Hd) u u'.
Proof.
  intros k o Hd u u' OK R W RM E. unfold opt in E.
  eapply (run_passes_sound k sc_collapse_single o Hd passes true); try eassumption; [|auto].
  intros Er. unfold hier_of. rewrite (RM Er). reflexivity.
Qed.

(* --- Optimize on a bare type *)
Lemma run_pass_ty_sound : forall H k o p t t',
  wf k t -> run_pass_ty o p t = Some t' -> wider H t t' /\ wf k t'.
Proof.
  intros H k o p t t' W E.
  destruct p; simpl in E; try discriminate; try (inversion E; subst t'; clear E);
    try (split; [apply wider_refl | assumption]).
  - split; [apply simplify_unions_widens_lemma | apply simplify_unions_wf; assumption].
  - unfold cc_top in E. apply (cc_sound H k _ _ _ W E).
  - split; [apply simplify_containers_widens_lemma | apply simplify_containers_wf; assumption].
  - split; [apply collapse_long_unions_widens_lemma | apply collapse_long_unions_wf; assumption].
Qed.

Lemma optimize_ty_widens_lemma : forall H k o t t', wf k t -> opt_ty o t = Some t' -> wider H t t'.
Proof.
  intros H k o t t'. unfold opt_ty. generalize passes. intros ps; revert t.
  induction ps as [|[fl p] r IH]; intros t W E; simpl in E.
  - inversion E; subst. apply wider_refl.
  - destruct (forallb (enabled o) fl); [|apply IH; assumption].
    destruct (run_pass_ty o p t) as [t1|] eqn:E1; [|discriminate].
    destruct (run_pass_ty_sound H k o p t t1 W E1) as [W1 W2].
    eapply wider_trans; [exact W1 | apply IH; assumption].
Qed.

Lemma rankedb_ranked : forall H, rankedb H = true -> ranked H.
Proof.
  intros H R d s Hin. unfold rankedb in R. induction H as [|[k ss] r IH]; simpl in *; [contradiction|].
  apply andb_true_iff in R. destruct R as [R1 R2].
  destruct (Nat.eqb k d) eqn:E.
  - apply Nat.eqb_eq in E. subst k. rewrite forallb_forall in R1. apply Nat.ltb_lt. apply R1. assumption.
  - apply IH; assumption.
Qed.

Lemma passes_ok : pipeline_ok true passes = true.
Proof. vm_compute. reflexivity. Qed.

Lemma optimize_widens_thm : forall k o Hd u u',
  ranked (hier_of u ++ Hd) -> wf_unit k u -> (o_remove_mutable o = true -> u_classes u = []) ->
  opt o Hd u = Some u' -> unit_wider (hier_of u ++ Hd) u u'.
Proof. intros k o Hd u u'. apply optimize_widens_lemma. exact passes_ok. Qed.

Lemma absorb_mutable_widens_lemma : forall H p, param_wider H p (absorb_param p).
Proof. exact absorb_param_wider. Qed.
