(* C11 — idempotence: single-member unions, normal forms (lemmas). *)
From Coq Require Import List Arith Bool Lia.
From PV Require Import Opt.Syntax Generated.C11_Passes Opt.Model Opt.Spec Opt.Proofs.
Import ListNotations.

(* ================================================================== single-member unions *)
Lemma no_single_all : forall l,
  (fix all (l : list ty) : Prop := match l with [] => True | x :: r => no_single x /\ all r end) l
  <-> Forall no_single l.
Proof.
  induction l as [|x r IH]; simpl; split; auto.
  - intros [? ?]; constructor; [assumption | apply IH; assumption].
  - intros F; inversion F; subst; split; [assumption | apply IH; assumption].
Qed.
Lemma no_single_union : forall ts, no_single (TUnion ts) <-> length ts <> 1 /\ Forall no_single ts.
Proof. intros; simpl. rewrite no_single_all. tauto. Qed.
Lemma no_single_gen : forall k c ps, no_single (TGen k c ps) <-> Forall no_single ps.
Proof. intros; simpl. apply no_single_all. Qed.
Lemma no_single_tup : forall k c ps, no_single (TTup k c ps) <-> Forall no_single ps.
Proof. intros; simpl. apply no_single_all. Qed.
Lemma no_single_call : forall k c ps, no_single (TCall k c ps) <-> Forall no_single ps.
Proof. intros; simpl. apply no_single_all. Qed.
Lemma no_single_var : forall n sc hb ps, no_single (TVar n sc hb ps) <-> Forall no_single ps.
Proof. intros; simpl. apply no_single_all. Qed.

(* With the VisitUnionType that returns the sole member, SimplifyContainers never leaves (and removes
   every) one-member union. *)
Lemma simplify_containers_no_single_lemma : forall t, no_single (simplify_containers true t).
Proof.
  unfold simplify_containers. set (V := visit (sc_union true) sc_generic TName id_kind).
  assert (Ch : forall ps, Forall (fun t => no_single (V t)) ps -> Forall no_single (map V ps)).
  { intros ps F. apply Forall_forall. intros x Hx. apply in_map_iff in Hx. destruct Hx as [t [<- Hin]].
    rewrite Forall_forall in F. auto. }
  induction t using ty_ind'; try exact I.
  - change (no_single (sc_union true (norm_union (map V ts)))).
    assert (F : Forall no_single (norm_union (map V ts))).
    { apply norm_union_elems; [|apply Ch; assumption].
      intros l N. apply (proj1 (no_single_union _)) in N. tauto. }
    remember (norm_union (map V ts)) as l. clear Heql.
    unfold sc_union. destruct l as [|x [|y r]].
    + apply (proj2 (no_single_union _)). split; [simpl; lia | constructor].
    + inversion F; assumption.
    + apply (proj2 (no_single_union _)). split; [simpl; lia | assumption].
  - change (no_single (sc_generic k c (map V ps))). unfold sc_generic.
    destruct (forallb is_any (map V ps)); [exact I|]. apply (proj2 (no_single_gen _ _ _)). auto.
  - change (no_single (TTup k c (map V ps))). apply (proj2 (no_single_tup _ _ _)). auto.
  - change (no_single (TCall k c (map V ps))). apply (proj2 (no_single_call _ _ _)). auto.
  - change (no_single (TVar n sc hb (map V ps))). apply (proj2 (no_single_var _ _ _ _)). auto.
Qed.

(* Without it: Union[List[Any], list] -> UnionType((list,)) *)
Definition single_member_witness : ty := TUnion [TGen KClass 10 [TAny]; TName KClass 10].
Lemma simplify_containers_single_member_lemma :
  no_single single_member_witness /\ ~ no_single (simplify_containers false single_member_witness).
Proof.
  split.
  - simpl. repeat split; lia.
  - vm_compute. intros [N _]. apply N. reflexivity.
Qed.

(* ================================================================== idempotence fails: witnesses *)
(* deps: object, NoneType, int, typing.Sequence, list(Sequence) *)
Definition w_deps : hier := [(1, []); (2, [1]); (8, [1]); (9, [1]); (10, [9])].
Definition w_fn (ret : ty) : unit_ := mkUnit [] [] [mkFunc 0 0 [mkSig [] None None ret [] []]].
Definition w_const (t : ty) : unit_ := mkUnit [mkConst 0 t] [] [].

(* def f() -> Union[object, List[int]]: object becomes Any only after the unions were simplified *)
Definition w1 := w_fn (TUnion [TName KClass 1; TGen KClass 10 [TName KClass 8]]).
Definition w1_once := w_fn (TUnion [TAny; TGen KClass 10 [TName KClass 8]]).
Definition w1_twice := w_fn TAny.
(* def f() -> Union[List[object], Sequence]: the late SimplifyContainers exposes list next to its base *)
Definition w2 := w_fn (TUnion [TGen KClass 10 [TName KClass 1]; TName KClass 9]).
Definition w2_once := w_fn (TUnion [TName KClass 10; TName KClass 9]).
Definition w2_twice := w_fn (TName KClass 9).
(* x: Union[List[object], list]: one-member union left by the last SimplifyContainers *)
Definition w3 := w_const (TUnion [TGen KClass 10 [TName KClass 1]; TName KClass 10]).
Definition w3_once := w_const (TUnion [TName KClass 10]).
Definition w3_twice := w_const (TName KClass 10).

Lemma lossless_pytype_opts : lossless pytype_opts.
Proof. repeat split. Qed.

Lemma w_ranked : forall u, u_classes u = [] -> ranked (hier_of u ++ w_deps).
Proof. intros u E. unfold hier_of. rewrite E. apply rankedb_ranked. vm_compute. reflexivity. Qed.

Lemma optimize_idempotent_refuted_lemma : exists o Hd u u1 u2,
  lossless o /\ ranked (hier_of u ++ Hd) /\ wf_unit KClass u /\
  opt o Hd u = Some u1 /\ opt o Hd u1 = Some u2 /\ u1 <> u2.
Proof.
  exists pytype_opts, w_deps, w1, w1_once, w1_twice.
  split; [apply lossless_pytype_opts|]. split; [apply w_ranked; reflexivity|].
  split; [unfold wf_unit; vm_compute; repeat constructor|].
  split; [vm_compute; reflexivity|]. split; [vm_compute; reflexivity | discriminate].
Qed.

Lemma optimize_idempotent_refuted_subclass_lemma :
  ranked (hier_of w2 ++ w_deps) /\ wf_unit KClass w2 /\
  opt pytype_opts w_deps w2 = Some w2_once /\ opt pytype_opts w_deps w2_once = Some w2_twice /\
  w2_once <> w2_twice.
Proof.
  split; [apply w_ranked; reflexivity|].
  split; [unfold wf_unit; vm_compute; repeat constructor|].
  split; [vm_compute; reflexivity|]. split; [vm_compute; reflexivity | discriminate].
Qed.

(* the one-member union: present exactly in the variant without the collapsing VisitUnionType *)
Lemma single_member_union_unfixed_lemma :
  run_passes false pytype_opts w_deps passes w3 = Some w3_once /\
  run_passes false pytype_opts w_deps passes w3_once = Some w3_twice /\ w3_once <> w3_twice.
Proof. split; [vm_compute; reflexivity|]. split; [vm_compute; reflexivity | discriminate]. Qed.
Lemma single_member_union_fixed_lemma :
  run_passes true pytype_opts w_deps passes w3 = Some w3_twice /\
  run_passes true pytype_opts w_deps passes w3_twice = Some w3_twice.
Proof. split; vm_compute; reflexivity. Qed.
