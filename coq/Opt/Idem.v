(* C11 — idempotence: single-member unions, normal forms (lemmas). *)
From Coq Require Import List Arith Bool Lia.
From PV Require Import Opt.Syntax Generated.C11_Passes Opt.Model Opt.Spec Opt.Proofs.
Import ListNotations.

(* ================================================================== single-member unions *)
Lemma no_single_all : forall l,
  (fix all (l : list ty) : Prop := match l with [] => True | x :: r => no_single x /\ all r end) l
  <-> Forall no_single l.
Proof.
  induction l as [|x r IH]; simpl; split; auto.
  - intros [? ?]; constructor; [assumption | apply IH; assumption].
  - intros F; inversion F; subst; split; [assumption | apply IH; assumption].
Qed.
Lemma no_single_union : forall ts, no_single (TUnion ts) <-> length ts <> 1 /\ Forall no_single ts.
Proof. intros; simpl. rewrite no_single_all. tauto. Qed.
Lemma no_single_gen : forall k c ps, no_single (TGen k c ps) <-> Forall no_single ps.
Proof. intros; simpl. apply no_single_all. Qed.
Lemma no_single_tup : forall k c ps, no_single (TTup k c ps) <-> Forall no_single ps.
Proof. intros; simpl. apply no_single_all. Qed.
Lemma no_single_call : forall k c ps, no_single (TCall k c ps) <-> Forall no_single ps.
Proof. intros; simpl. apply no_single_all. Qed.

(* With the VisitUnionType that returns the sole member, SimplifyContainers never leaves (and removes
   every) one-member union. *)
Lemma simplify_containers_no_single_lemma : forall t, no_single (simplify_containers true t).
Proof.
  unfold simplify_containers. induction t using ty_ind'; simpl; try exact I.
  - assert (F : Forall no_single (norm_union (map (visit (sc_union true) sc_generic TName id_kind) ts))).
    { apply norm_union_elems.
      - intros l N. apply no_single_union in N. tauto.
      - apply Forall_forall. intros x Hx. apply in_map_iff in Hx. destruct Hx as [t [<- Hin]].
        rewrite Forall_forall in H. auto. }
    remember (norm_union (map (visit (sc_union true) sc_generic TName id_kind) ts)) as l. clear Heql.
    unfold sc_union. destruct l as [|x [|y r]].
    + apply no_single_union. split; [simpl; lia | constructor].
    + inversion F; assumption.
    + apply no_single_union. split; [simpl; lia | assumption].
  - unfold id_kind, sc_generic. destruct (forallb is_any _); [exact I|].
    apply no_single_gen. apply Forall_forall. intros x Hx. apply in_map_iff in Hx.
    destruct Hx as [t [<- Hin]]. rewrite Forall_forall in H. auto.
  - apply no_single_tup. apply Forall_forall. intros x Hx. apply in_map_iff in Hx.
    destruct Hx as [t [<- Hin]]. rewrite Forall_forall in H. auto.
  - apply no_single_call. apply Forall_forall. intros x Hx. apply in_map_iff in Hx.
    destruct Hx as [t [<- Hin]]. rewrite Forall_forall in H. auto.
Qed.

(* Without it: Union[List[Any], list] -> UnionType((list,)) *)
Definition single_member_witness : ty := TUnion [TGen KClass 10 [TAny]; TName KClass 10].
Lemma simplify_containers_single_member_lemma :
  no_single single_member_witness /\ ~ no_single (simplify_containers false single_member_witness).
Proof.
  split.
  - simpl. repeat split; lia.
  - vm_compute. intros [N _]. apply N. reflexivity.
Qed.
