(* C11 — when does a second Optimize run change something?  Definitions only (no proofs).
   [second_run_stable]: every enabled step of the pipeline, applied on its own to the unit, returns it unchanged
   (decidable; strictly weaker than Spec.stable_unit and meaningful for every option setting of the model).
   [second_run_changes]: the stepwise classification the check performs on the real passes — last changing step
   of run 1 against the first changing step of run 2 — as a function of the input unit. *)
From Coq Require Import List Arith Bool.
From PV Require Import Opt.Syntax Generated.C11_Passes Opt.Model Opt.Spec.
Import ListNotations.

Definition const_eqb (a b : const) : bool := Nat.eqb (k_name a) (k_name b) && ty_eqb (k_ty a) (k_ty b).
Definition func_eqb (a b : func) : bool :=
  Nat.eqb (f_name a) (f_name b) && Nat.eqb (f_kind a) (f_kind b) && list_eqb sig_eqb (f_sigs a) (f_sigs b).
Definition base_eqb (a b : kind * cid) : bool := kind_eqb (fst a) (fst b) && Nat.eqb (snd a) (snd b).
Definition class_eqb (a b : class) : bool :=
  Nat.eqb (cl_name a) (cl_name b) && list_eqb base_eqb (cl_bases a) (cl_bases b)
  && list_eqb func_eqb (cl_methods a) (cl_methods b) && list_eqb const_eqb (cl_consts a) (cl_consts b)
  && list_eqb ty_eqb (cl_template a) (cl_template b).
Definition unit_eqb (a b : unit_) : bool :=
  list_eqb const_eqb (u_consts a) (u_consts b) && list_eqb class_eqb (u_classes a) (u_classes b)
  && list_eqb func_eqb (u_funcs a) (u_funcs b).

(* the step leaves the unit alone *)
Definition pass_fixes (cs : bool) (o : opts) (Hd : hier) (p : pass) (u : unit_) : bool :=
  match run_pass cs o Hd p u with Some u' => unit_eqb u' u | None => false end.
Definition second_run_stable_in (cs : bool) (o : opts) (Hd : hier) (ps : list (list flag * pass)) (u : unit_) : bool :=
  forallb (fun s => negb (forallb (enabled o) (fst s)) || pass_fixes cs o Hd (snd s) u) ps.
Definition second_run_stable (o : opts) (Hd : hier) (u : unit_) : bool :=
  second_run_stable_in sc_collapse_single o Hd passes u.

(* index and name of the first step of a run that changes the unit (a step outside the model counts) *)
Fixpoint first_change (cs : bool) (o : opts) (Hd : hier) (ps : list (list flag * pass)) (u : unit_) (i : nat)
  : option (nat * pass) :=
  match ps with
  | [] => None
  | (fl, p) :: r =>
    if forallb (enabled o) fl then
      match run_pass cs o Hd p u with
      | None => Some (i, p)
      | Some u' => if unit_eqb u' u then first_change cs o Hd r u' (S i) else Some (i, p)
      end
    else first_change cs o Hd r u (S i)
  end.
(* index of the last step that changes the unit; LookupClasses' re-spelling is not counted (as in the check) *)
Definition is_lookup (p : pass) : bool := match p with PLookupClasses => true | _ => false end.
Fixpoint last_change (cs : bool) (o : opts) (Hd : hier) (ps : list (list flag * pass)) (u : unit_) (i : nat)
         (acc : option nat) : option nat :=
  match ps with
  | [] => acc
  | (fl, p) :: r =>
    if forallb (enabled o) fl then
      match run_pass cs o Hd p u with
      | None => acc
      | Some u' => last_change cs o Hd r u' (S i) (if unit_eqb u' u || is_lookup p then acc else Some i)
      end
    else last_change cs o Hd r u (S i) acc
  end.

Inductive clause :=
| CStable                              (* the second run changes nothing *)
| CSingleSweep (p : pass)              (* an EARLIER step p gets new work from a later step of run 1 *)
| CPassNotIdempotent (p : pass)        (* the last changing step of run 1 changes its own output *)
| CLatePass (p : pass)                 (* a step after the last changing step of run 1 *)
| COutside.                            (* a run left the model *)

Definition second_run_changes_in (cs : bool) (o : opts) (Hd : hier) (ps : list (list flag * pass)) (u : unit_)
  : clause :=
  match run_passes cs o Hd ps u with
  | None => COutside
  | Some u1 =>
    match run_passes cs o Hd ps u1 with
    | None => COutside
    | Some u2 =>
      if unit_eqb u2 u1 then CStable
      else match first_change cs o Hd ps u1 0 with
           | None => CStable      (* impossible, see first_change_none *)
           | Some (j, p) =>
             match last_change cs o Hd ps u 0 None with
             | Some i => if j <? i then CSingleSweep p else if Nat.eqb j i then CPassNotIdempotent p else CLatePass p
             | None => CLatePass p
             end
           end
    end
  end.
Definition second_run_changes (o : opts) (Hd : hier) (u : unit_) : clause :=
  second_run_changes_in sc_collapse_single o Hd passes u.

(* ------------------------------------------------------------------ Node.Visit's identity short-cut.
   _VisitNode re-instantiates a node only if a child changed identity; otherwise the callback gets the
   ORIGINAL node.  Semantically: if the visited children are (structurally) the old ones the union is not
   re-normalised.  [visit] (Model.v) always re-normalises. *)
Section VisitSC.
  Variable fU : list ty -> ty.
  Variable fG : kind -> cid -> list ty -> ty.
  Variable fN : kind -> cid -> ty.
  Variable fB : kind -> kind.
  Fixpoint visit_sc (t : ty) : ty :=
    match t with
    | TName k c => fN k c
    | TAny => TAny
    | TNothing => TNothing
    | TLit n => TLit n
    | TUnion ts => let ts' := map visit_sc ts in
                   if list_eqb ty_eqb ts' ts then fU ts else fU (norm_union ts')
    | TGen k c ps => fG (fB k) c (map visit_sc ps)
    | TTup k c ps => TTup (fB k) c (map visit_sc ps)
    | TCall k c ps => TCall (fB k) c (map visit_sc ps)
    | TVar n sc hb ps => TVar n sc hb (map visit_sc ps)
    end.
End VisitSC.
(* every UnionType was built by the constructor: its member list is a fixed point of _FlattenTypes *)
Fixpoint ctor_built (t : ty) : bool :=
  match t with
  | TUnion ts => list_eqb ty_eqb (norm_union ts) ts && forallb ctor_built ts
  | TGen _ _ ps | TTup _ _ ps | TCall _ _ ps | TVar _ _ _ ps => forallb ctor_built ps
  | _ => true
  end.

(* ------------------------------------------------------------------ msgspec `==` on Literal values.
   pytd.Literal(True) == pytd.Literal(1) (and hash alike) because Python's True == 1; the model's TLit carries
   a nat and compares structurally.  Literal values as Python sees them: *)
Inductive lv := LInt (n : nat) | LBool (b : bool).
Definition lv_num (a : lv) : nat := match a with LInt n => n | LBool true => 1 | LBool false => 0 end.
Definition lv_py_eqb (a b : lv) : bool := Nat.eqb (lv_num a) (lv_num b).           (* Python == / hash *)
Definition lv_eqb (a b : lv) : bool :=                                             (* structural *)
  match a, b with LInt n, LInt m => Nat.eqb n m | LBool x, LBool y => Bool.eqb x y | _, _ => false end.
Definition is_lint (a : lv) : bool := match a with LInt _ => true | _ => false end.
