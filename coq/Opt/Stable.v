(* C11 — normal forms: every enabled lossless pass is the identity on a stable stub (lemmas). *)
From Coq Require Import List Arith Bool Lia.
From PV Require Import Opt.Syntax Generated.C11_Passes Opt.Model Opt.Spec Opt.Proofs.
Import ListNotations.

(* ================================================================== list facts *)
Lemma filter_all : forall {A} (f : A -> bool) l, forallb f l = true -> filter f l = l.
Proof.
  induction l as [|x r IH]; simpl; intros E; [reflexivity|].
  apply andb_true_iff in E. destruct E as [E1 E2]. rewrite E1, IH; auto.
Qed.

Lemma map_id_in : forall {A} (f : A -> A) l, (forall x, In x l -> f x = x) -> map f l = l.
Proof.
  induction l as [|x r IH]; simpl; intros Hf; [reflexivity|].
  rewrite Hf, IH; auto.
Qed.

Lemma dedup_from_distinct : forall {A} (eqb eqb' : A -> A -> bool), (forall a b, eqb a b = eqb' b a) ->
  forall l seen, distinct_by eqb' l = true -> (forall x, In x l -> mem_by eqb x seen = false) ->
  dedup_from eqb seen l = l.
Proof.
  intros A eqb eqb' Sym. induction l as [|x r IH]; intros seen D Hs; simpl; [reflexivity|].
  simpl in D. apply andb_true_iff in D. destruct D as [D1 D2].
  rewrite (Hs x (or_introl eq_refl)). f_equal. apply IH; [assumption|].
  intros y Hy. pose proof (Hs y (or_intror Hy)) as Hy2. unfold mem_by in *; simpl. rewrite Hy2, orb_false_r.
  apply negb_true_iff in D1. rewrite Sym.
  destruct (eqb' x y) eqn:E; [|reflexivity].
  exfalso. assert (X : existsb (eqb' x) r = true) by (apply existsb_exists; exists y; auto). congruence.
Qed.
Lemma dedup_by_distinct : forall {A} (eqb : A -> A -> bool), (forall a b, eqb a b = eqb b a) ->
  forall l, distinct_by eqb l = true -> dedup_by eqb l = l.
Proof. intros A eqb Sym l D. apply (dedup_from_distinct eqb eqb); auto. Qed.

Lemma filter_distinct : forall {A} (eqb : A -> A -> bool),
  (forall a, eqb a a = true) -> (forall a b, eqb a b = eqb b a) ->
  forall l, distinct_by eqb l = true -> forall x, In x l -> filter (eqb x) l = [x].
Proof.
  intros A eqb Rf Sym. induction l as [|y r IH]; intros D x Hin; [contradiction|].
  simpl in D. apply andb_true_iff in D. destruct D as [D1 D2]. apply negb_true_iff in D1. simpl.
  destruct Hin as [->|Hin].
  - rewrite Rf. f_equal.
    assert (F : forall z, In z r -> eqb x z = false).
    { intros z Hz. destruct (eqb x z) eqn:E; [|reflexivity].
      exfalso. assert (X : existsb (eqb x) r = true) by (apply existsb_exists; exists z; auto). congruence. }
    clear - F. induction r as [|z r' IH]; simpl; [reflexivity|].
    rewrite (F z (or_introl eq_refl)). apply IH. intros; apply F; right; assumption.
  - assert (E : eqb x y = false).
    { rewrite Sym. destruct (eqb y x) eqn:E; [|reflexivity].
      exfalso. assert (X : existsb (eqb y) r = true) by (apply existsb_exists; exists x; auto). congruence. }
    rewrite E. apply IH; assumption.
Qed.

Lemma distinct_by_weaken : forall {A} (e1 e2 : A -> A -> bool),
  (forall a b, e2 a b = true -> e1 a b = true) ->
  forall l, distinct_by e1 l = true -> distinct_by e2 l = true.
Proof.
  intros A e1 e2 W. induction l as [|x r IH]; simpl; intros D; [reflexivity|].
  apply andb_true_iff in D. destruct D as [D1 D2]. rewrite IH by assumption. rewrite andb_true_r.
  apply negb_true_iff in D1. apply negb_true_iff.
  destruct (existsb (e2 x) r) eqn:E; [|reflexivity].
  apply existsb_exists in E. destruct E as [y [Hy E]].
  assert (X : existsb (e1 x) r = true) by (apply existsb_exists; exists y; auto). congruence.
Qed.

Lemma eqb_sym_of_eq : forall {A} (eqb : A -> A -> bool), (forall a b, eqb a b = true <-> a = b) ->
  forall a b, eqb a b = eqb b a.
Proof.
  intros A eqb He a b. destruct (eqb a b) eqn:E1; destruct (eqb b a) eqn:E2; try reflexivity.
  - apply He in E1. subst. assert (eqb b b = true) by (apply He; reflexivity). congruence.
  - apply He in E2. subst. assert (eqb a a = true) by (apply He; reflexivity). congruence.
Qed.
Lemma ty_eqb_sym : forall a b, ty_eqb a b = ty_eqb b a.
Proof. apply eqb_sym_of_eq. apply ty_eqb_eq. Qed.
Lemma ckey_eqb_sym : forall a b, ckey_eqb a b = ckey_eqb b a.
Proof. apply eqb_sym_of_eq. apply ckey_eqb_eq. Qed.

Lemma stripped_eqb_sym : forall a b, stripped_eqb a b = stripped_eqb b a.
Proof.
  intros a b. destruct (stripped_eqb a b) eqn:E1; destruct (stripped_eqb b a) eqn:E2; try reflexivity.
  - apply stripped_eqb_iff in E1. destruct E1 as [? [? [? ?]]].
    assert (stripped_eqb b a = true) by (apply stripped_eqb_iff; auto). congruence.
  - apply stripped_eqb_iff in E2. destruct E2 as [? [? [? ?]]].
    assert (stripped_eqb a b = true) by (apply stripped_eqb_iff; auto). congruence.
Qed.

(* ================================================================== stable unions *)
Section StableTy.
  Variable H : hier.
  Variable deps : bool.
  Variable maxu : nat.
  Variable kk : kind.
  Notation st := (stable_ty H deps maxu kk).

  Record union_facts (ts : list ty) : Prop := {
    uf_len : 2 <= length ts;
    uf_flat : forallb (fun x => negb (is_union x || is_nothing x || is_any x)) ts = true;
    uf_nodup : distinct_by ty_eqb ts = true;
    uf_mt : should_merge true None ts = false;
    uf_mc : should_merge false None ts = false;
    uf_keys : distinct_by ckey_eqb (filter_map key_of ts) = true;
    uf_sub : deps = true ->
             forallb (fun x => match name_of x with
                               | Some n => suws_count H (filter_map name_of ts) n <=? 1
                               | None => true end) ts = true;
    uf_long : maxu <> 0 -> (maxu <? length ts) && negb (existsb is_lit ts) = false;
    uf_members : forallb st ts = true }.

  Lemma stable_union : forall ts, st (TUnion ts) = true -> union_facts ts.
  Proof.
    intros ts E. simpl in E. rewrite !andb_true_iff in E.
    destruct E as [[[[[[[[E1 E2] E3] E4] E5] E6] E7] E8] E9].
    constructor; try assumption.
    - destruct (length ts) as [|[|n]]; [discriminate | discriminate | lia].
    - apply negb_true_iff; assumption.
    - apply negb_true_iff; assumption.
    - intros D. rewrite D in E7. simpl in E7. exact E7.
    - intros N. rewrite !orb_true_iff in E8. destruct E8 as [[E8|E8]|E8].
      + apply Nat.eqb_eq in E8. contradiction.
      + apply Nat.leb_le in E8. assert (X : (maxu <? length ts) = false) by (apply Nat.ltb_ge; exact E8).
        rewrite X. reflexivity.
      + rewrite E8. apply andb_false_r.
  Qed.

  Lemma flat1_id : forall ts, forallb (fun x => negb (is_union x || is_nothing x || is_any x)) ts = true ->
    flat_map flat1 ts = ts.
  Proof.
    induction ts as [|x r IH]; simpl; intros E; [reflexivity|].
    apply andb_true_iff in E. destruct E as [E1 E2]. rewrite IH by assumption.
    destruct x; simpl in *; try reflexivity; discriminate.
  Qed.
  Lemma flat_id : forall ts, forallb (fun x => negb (is_union x || is_nothing x || is_any x)) ts = true ->
    flat_map flat ts = ts.
  Proof.
    induction ts as [|x r IH]; simpl; intros E; [reflexivity|].
    apply andb_true_iff in E. destruct E as [E1 E2]. rewrite IH by assumption.
    destruct x; simpl in *; try reflexivity; discriminate.
  Qed.
  Lemma no_any : forall ts, forallb (fun x => negb (is_union x || is_nothing x || is_any x)) ts = true ->
    existsb is_any ts = false.
  Proof.
    induction ts as [|x r IH]; simpl; intros E; [reflexivity|].
    apply andb_true_iff in E. destruct E as [E1 E2]. rewrite IH by assumption.
    destruct x; simpl in *; try reflexivity; discriminate.
  Qed.

  Lemma uf_norm : forall ts, union_facts ts -> norm_union ts = ts.
  Proof.
    intros ts F. unfold norm_union. rewrite (flat1_id _ (uf_flat _ F)).
    apply dedup_by_distinct; [apply ty_eqb_sym | apply (uf_nodup _ F)].
  Qed.
  Lemma uf_join : forall ts, union_facts ts -> join ts = TUnion ts.
  Proof.
    intros ts F. unfold join. rewrite (flat_id _ (uf_flat _ F)).
    unfold dedup. rewrite (dedup_by_distinct ty_eqb ty_eqb_sym _ (uf_nodup _ F)).
    rewrite (no_any _ (uf_flat _ F)). pose proof (uf_len _ F) as L.
    destruct ts as [|x [|y r]]; simpl in L; try lia. reflexivity.
  Qed.
  Lemma uf_cc : forall rec ts, union_facts ts -> cc_union rec ts = Some (TUnion ts).
  Proof.
    intros rec ts F. unfold cc_union. destruct (negb (existsb is_generic ts)); [reflexivity|].
    rewrite (uf_join _ F), (uf_mt _ F), (uf_mc _ F). simpl.
    unfold has_redundant. rewrite (dedup_by_distinct ckey_eqb ckey_eqb_sym _ (uf_keys _ F)).
    rewrite Nat.eqb_refl. reflexivity.
  Qed.
  Lemma uf_sc : forall cs ts, union_facts ts -> sc_union cs ts = TUnion ts.
  Proof.
    intros cs ts F. unfold sc_union. destruct cs; [|reflexivity]. pose proof (uf_len _ F) as L.
    destruct ts as [|x [|y r]]; simpl in L; try lia; reflexivity.
  Qed.
  Lemma uf_suws : forall ts, deps = true -> union_facts ts -> suws_union H ts = TUnion ts.
  Proof.
    intros ts D F. unfold suws_union. unfold dedup.
    rewrite (dedup_by_distinct ty_eqb ty_eqb_sym _ (uf_nodup _ F)).
    rewrite (filter_all _ _ (uf_sub _ F D)). apply uf_join; assumption.
  Qed.
  Lemma uf_clu : forall ts, maxu <> 0 -> union_facts ts -> clu_union maxu ts = TUnion ts.
  Proof.
    intros ts N F. unfold clu_union. rewrite (uf_long _ F N), (no_any _ (uf_flat _ F)). reflexivity.
  Qed.

  (* --- the generic visitor is the identity when its callbacks are, on stable nodes *)
  Section VisitId.
    Variable fU : list ty -> ty.
    Variable fG : kind -> cid -> list ty -> ty.
    Variable fN : kind -> cid -> ty.
    Variable fB : kind -> kind.
    Variable extra : ty -> bool.   (* an additional subterm-closed requirement *)
    Hypothesis extra_sub : forall t, extra t = true ->
      match t with
      | TUnion ts | TGen _ _ ts | TTup _ _ ts | TCall _ _ ts | TVar _ _ _ ts => forallb extra ts = true
      | _ => True
      end.
    Hypothesis fU_id : forall ts, union_facts ts -> fU ts = TUnion ts.
    Hypothesis fG_id : forall c ps, negb (forallb is_any ps) = true -> fG kk c ps = TGen kk c ps.
    Hypothesis fN_id : forall c, extra (TName kk c) = true -> fN kk c = TName kk c.
    Hypothesis fB_id : fB kk = kk.

    Lemma visit_stable : forall t, st t = true -> extra t = true -> visit fU fG fN fB t = t.
    Proof.
      assert (Ch : forall ps, Forall (fun t => st t = true -> extra t = true -> visit fU fG fN fB t = t) ps ->
                   forallb st ps = true -> forallb extra ps = true -> map (visit fU fG fN fB) ps = ps).
      { intros ps F S X. apply map_id_in. intros x Hx. rewrite Forall_forall in F.
        rewrite forallb_forall in S, X. auto. }
      induction t using ty_ind'; intros S X; simpl; try reflexivity.
      - simpl in S. apply kind_eqb_eq in S. subst k. apply fN_id. assumption.
      - pose proof (stable_union _ S) as F. pose proof (extra_sub _ X) as Xs. simpl in Xs.
        rewrite (Ch ts H0 (uf_members _ F) Xs). rewrite (uf_norm _ F). apply fU_id. assumption.
      - simpl in S. rewrite !andb_true_iff in S. destruct S as [[S1 S2] S3]. apply kind_eqb_eq in S1. subst k.
        pose proof (extra_sub _ X) as Xs. simpl in Xs. rewrite (Ch ps H0 S3 Xs), fB_id. apply fG_id. assumption.
      - simpl in S. rewrite !andb_true_iff in S. destruct S as [S1 S3]. apply kind_eqb_eq in S1. subst k.
        pose proof (extra_sub _ X) as Xs. simpl in Xs. rewrite (Ch ps H0 S3 Xs), fB_id. reflexivity.
      - simpl in S. rewrite !andb_true_iff in S. destruct S as [S1 S3]. apply kind_eqb_eq in S1. subst k.
        pose proof (extra_sub _ X) as Xs. simpl in Xs. rewrite (Ch ps H0 S3 Xs), fB_id. reflexivity.
      - simpl in S. pose proof (extra_sub _ X) as Xs. simpl in Xs. rewrite (Ch ps H0 S Xs). reflexivity.
    Qed.
  End VisitId.

  Definition no_extra (t : ty) : bool := true.
  Lemma no_extra_sub : forall t, no_extra t = true ->
    match t with
    | TUnion ts | TGen _ _ ts | TTup _ _ ts | TCall _ _ ts | TVar _ _ _ ts => forallb no_extra ts = true
    | _ => True
    end.
  Proof. intros t _. destruct t; try exact I; apply forallb_forall; intros; reflexivity. Qed.
  Lemma nco_sub : forall t, no_class_object t = true ->
    match t with
    | TUnion ts | TGen _ _ ts | TTup _ _ ts | TCall _ _ ts | TVar _ _ _ ts => forallb no_class_object ts = true
    | _ => True
    end.
  Proof. intros t E. destruct t; try exact I; exact E. Qed.

  Lemma stable_simplify_unions : forall t, st t = true -> simplify_unions t = t.
  Proof.
    intros t S. unfold simplify_unions. apply (visit_stable join TGen TName id_kind no_extra no_extra_sub); auto.
    intros; apply uf_join; assumption.
  Qed.
  Lemma stable_simplify_containers : forall cs t, st t = true -> simplify_containers cs t = t.
  Proof.
    intros cs t S. unfold simplify_containers.
    apply (visit_stable (sc_union cs) sc_generic TName id_kind no_extra no_extra_sub); auto.
    - intros; apply uf_sc; assumption.
    - intros c ps E. unfold sc_generic. apply negb_true_iff in E. rewrite E. reflexivity.
  Qed.
  Lemma stable_simplify_superclasses : forall t, deps = true -> st t = true -> simplify_superclasses H t = t.
  Proof.
    intros t D S. unfold simplify_superclasses.
    apply (visit_stable (suws_union H) TGen TName id_kind no_extra no_extra_sub); auto.
    intros; apply uf_suws; assumption.
  Qed.
  Lemma stable_collapse_long_unions : forall t, maxu <> 0 -> st t = true -> collapse_long_unions maxu t = t.
  Proof.
    intros t N S. unfold collapse_long_unions.
    apply (visit_stable (clu_union maxu) TGen TName id_kind no_extra no_extra_sub); auto.
    intros; apply uf_clu; assumption.
  Qed.
  Lemma stable_adjust_generic_type : forall t, st t = true -> no_class_object t = true ->
    adjust_generic_type t = t.
  Proof.
    intros t S X. unfold adjust_generic_type.
    apply (visit_stable TUnion TGen agt_name id_kind no_class_object nco_sub); auto.
    intros c E. unfold agt_name. destruct kk; [reflexivity|]. simpl in E.
    apply negb_true_iff in E. rewrite E. reflexivity.
  Qed.
  Lemma stable_resolve : forall t, kk = KClass -> st t = true -> resolve t = t.
  Proof.
    intros t K S. unfold resolve.
    apply (visit_stable TUnion TGen (fun _ c => TName KClass c) to_class no_extra no_extra_sub); auto;
      intros; rewrite K; reflexivity.
  Qed.

  (* CombineContainers: enough fuel, nothing to do *)
  Lemma size_child : forall x l, In x l -> size x <= fold_right (fun y n => size y + n) 0 l.
  Proof.
    induction l as [|y r IH]; intros Hin; [contradiction|]. simpl. destruct Hin as [->|Hin]; [lia|].
    specialize (IH Hin). lia.
  Qed.
  Lemma map_opt_id : forall (f : ty -> option ty) l, (forall x, In x l -> f x = Some x) -> map_opt f l = Some l.
  Proof.
    induction l as [|x r IH]; intros Hf; simpl; [reflexivity|].
    rewrite (Hf x (or_introl eq_refl)), IH; [reflexivity|]. intros; apply Hf; right; assumption.
  Qed.
  Lemma stable_cc : forall t, st t = true -> forall n, size t <= n -> cc n t = Some t.
  Proof.
    assert (Ch : forall ps f, Forall (fun t => st t = true -> forall n, size t <= n -> cc n t = Some t) ps ->
                 forallb st ps = true -> fold_right (fun y n => size y + n) 0 ps <= f ->
                 map_opt (cc f) ps = Some ps).
    { intros ps f F S L. apply map_opt_id. intros x Hx. rewrite Forall_forall in F.
      rewrite forallb_forall in S. apply F; auto. pose proof (size_child x ps Hx). lia. }
    induction t using ty_ind'; intros S m L; (destruct m as [|f]; [simpl in L; lia|]); simpl; try reflexivity.
    - pose proof (stable_union _ S) as F. simpl in L.
      rewrite (Ch ts f H0 (uf_members _ F)) by lia. rewrite (uf_norm _ F). apply uf_cc. assumption.
    - simpl in S. rewrite !andb_true_iff in S. destruct S as [[S1 S2] S3]. simpl in L.
      rewrite (Ch ps f H0 S3) by lia. reflexivity.
    - simpl in S. rewrite !andb_true_iff in S. destruct S as [S1 S3]. simpl in L.
      rewrite (Ch ps f H0 S3) by lia. reflexivity.
    - simpl in S. rewrite !andb_true_iff in S. destruct S as [S1 S3]. simpl in L.
      rewrite (Ch ps f H0 S3) by lia. reflexivity.
    - simpl in S. simpl in L. rewrite (Ch ps f H0 S) by lia. reflexivity.
  Qed.
  Lemma stable_cc_top : forall t, st t = true -> cc_top t = Some t.
  Proof. intros t S. unfold cc_top. apply stable_cc; [assumption | lia]. Qed.
  Lemma stable_combine_containers : forall t, st t = true -> combine_containers t = t.
  Proof. intros t S. unfold combine_containers. rewrite (stable_cc_top t S). reflexivity. Qed.

  Lemma stable_join1 : forall t, st t = true -> join [t] = t.
  Proof.
    intros t S. destruct t; try reflexivity.
    pose proof (stable_union _ S) as F. unfold join. simpl flat_map. rewrite app_nil_r.
    change (flat (TUnion ts)) with (flat_map flat ts). rewrite (flat_id _ (uf_flat _ F)).
    unfold dedup. rewrite (dedup_by_distinct ty_eqb ty_eqb_sym _ (uf_nodup _ F)).
    rewrite (no_any _ (uf_flat _ F)). pose proof (uf_len _ F) as L.
    destruct ts as [|x [|y r]]; simpl in L; try lia. reflexivity.
  Qed.
End StableTy.

(* ================================================================== stable declarations *)
Section StableUnit.
  Variable H : hier.
  Variable deps : bool.
  Variable maxu : nat.
  Variable kk : kind.
  Notation st := (stable_ty H deps maxu kk).

  Lemma map_param_id : forall f p, stable_param st p = true -> (forall t, st t = true -> f t = t) ->
    map_param f p = p.
  Proof.
    intros f [n t k o m] S Hf. unfold stable_param in S; simpl in S. apply andb_true_iff in S.
    destruct S as [S1 S2]. unfold map_param; simpl. rewrite (Hf t S1).
    destruct m as [m|]; simpl; [rewrite (Hf m S2)|]; reflexivity.
  Qed.
  Lemma map_oparam_id : forall f p, stable_oparam st p = true -> (forall t, st t = true -> f t = t) ->
    option_map (map_param f) p = p.
  Proof. intros f [p|] S Hf; simpl; [rewrite map_param_id; auto | reflexivity]. Qed.

  Lemma map_sig3_id : forall fp fr fe ft s, stable_sig st s = true ->
    (forall t, st t = true -> fp t = t) ->
    (forall t, st t = true -> no_class_object t = true -> fr t = t) ->
    (forall t, st t = true -> fe t = t) ->
    (forall t, st t = true -> ft t = t) ->
    map_sig4 fp fr fe ft s = s.
  Proof.
    intros fp fr fe ft [ps sa ss r ex tm] S Hp Hr He Ht. unfold stable_sig in S; simpl in S.
    rewrite !andb_true_iff in S. destruct S as [[[[[[[S1 S2] S3] S4] S5] S6] S7] S8].
    unfold map_sig4; simpl. f_equal.
    - apply map_id_in. intros p Hin. apply map_param_id; [|assumption]. rewrite forallb_forall in S1; auto.
    - apply map_oparam_id; assumption.
    - apply map_oparam_id; assumption.
    - apply Hr; assumption.
    - apply map_id_in. intros t Hin. apply He. rewrite forallb_forall in S6; auto.
    - apply map_id_in. intros t Hin. apply Ht. rewrite forallb_forall in S8; auto.
  Qed.

  Lemma map_func_id : forall g f, (forall s, In s (f_sigs f) -> g s = s) -> map_func g f = f.
  Proof. intros g [n k sigs] Hg. unfold map_func; simpl in *. rewrite map_id_in; auto. Qed.
  Lemma map_const_id : forall f c, stable_const st c = true ->
    (forall t, st t = true -> no_class_object t = true -> f t = t) -> map_const f c = c.
  Proof.
    intros f [n t] S Hf. unfold stable_const in S; simpl in S. apply andb_true_iff in S. destruct S.
    unfold map_const; simpl. rewrite Hf; auto.
  Qed.
  Lemma map_class_id : forall gf gc ft c,
    (forall f, In f (cl_methods c) -> gf (cl_name c) f = f) ->
    (forall k, In k (cl_consts c) -> gc k = k) ->
    (forall t, In t (cl_template c) -> ft t = t) -> map_class_t gf gc ft c = c.
  Proof. intros gf gc ft [n b ms cs tm] Hf Hc Ht. unfold map_class_t; simpl in *. rewrite !map_id_in; auto. Qed.

  Definition stable_parts (u : unit_) : Prop :=
    forallb (stable_const st) (u_consts u) = true /\ forallb (stable_class kk st) (u_classes u) = true /\
    forallb (stable_func st) (u_funcs u) = true.

  Lemma stable_func_sigs : forall f, stable_func st f = true -> forall s, In s (f_sigs f) -> stable_sig st s = true.
  Proof.
    intros f S s Hin. unfold stable_func in S. apply andb_true_iff in S. destruct S as [S _].
    rewrite forallb_forall in S. auto.
  Qed.
  Lemma stable_class_parts : forall c, stable_class kk st c = true ->
    (forall f, In f (cl_methods c) -> stable_func st f = true /\ forallb (self_plain (cl_name c)) (f_sigs f) = true) /\
    (forall k, In k (cl_consts c) -> stable_const st k = true) /\
    forallb (fun b => kind_eqb (fst b) kk) (cl_bases c) = true.
  Proof.
    intros c S. unfold stable_class in S. rewrite !andb_true_iff in S. destruct S as [[[S1 S2] S3] S4].
    rewrite forallb_forall in S1, S2. split; [|split; [auto | assumption]].
    intros f Hf. specialize (S1 f Hf). apply andb_true_iff in S1. exact S1.
  Qed.

  Lemma stable_class_template : forall c, stable_class kk st c = true -> forallb st (cl_template c) = true.
  Proof. intros c S. unfold stable_class in S. rewrite !andb_true_iff in S. tauto. Qed.

  Lemma unit_map_id : forall gc gm gcc gf ft u, stable_parts u ->
    (forall c, stable_const st c = true -> gc c = c) ->
    (forall cls f, stable_func st f = true -> forallb (self_plain cls) (f_sigs f) = true -> gm cls f = f) ->
    (forall c, stable_const st c = true -> gcc c = c) ->
    (forall f, stable_func st f = true -> gf f = f) ->
    (forall t, st t = true -> ft t = t) ->
    unit_map_t gc gm gcc gf ft u = u.
  Proof.
    intros gc gm gcc gf ft [cs cls fs] [S1 [S2 S3]] Hc Hm Hcc Hf Ht. simpl in *.
    rewrite forallb_forall in S1, S2, S3. unfold unit_map_t; simpl. f_equal.
    - apply map_id_in. auto.
    - apply map_id_in. intros c Hin. destruct (stable_class_parts c (S2 c Hin)) as [M [K _]].
      apply map_class_id.
      + intros f Hf'. destruct (M f Hf'). apply Hm; assumption.
      + intros k Hk. apply Hcc. auto.
      + intros t Hin'. apply Ht. pose proof (stable_class_template c (S2 c Hin)) as T.
        rewrite forallb_forall in T. auto.
    - apply map_id_in. auto.
  Qed.

  Lemma map_unit4_id : forall fp fr fe fc ft u, stable_parts u ->
    (forall t, st t = true -> fp t = t) ->
    (forall t, st t = true -> no_class_object t = true -> fr t = t) ->
    (forall t, st t = true -> fe t = t) ->
    (forall t, st t = true -> no_class_object t = true -> fc t = t) ->
    (forall t, st t = true -> ft t = t) ->
    map_unit5 fp fr fe fc ft u = u.
  Proof.
    intros fp fr fe fc ft u S Hp Hr He Hc Ht. rewrite map_unit4_eq. apply unit_map_id; try assumption.
    - intros c Sc. apply map_const_id; assumption.
    - intros cls f Sf _. apply map_func_id. intros s Hs. apply map_sig3_id; try assumption.
      eapply stable_func_sigs; eassumption.
    - intros c Sc. apply map_const_id; assumption.
    - intros f Sf. apply map_func_id. intros s Hs. apply map_sig3_id; try assumption.
      eapply stable_func_sigs; eassumption.
  Qed.

  Lemma map_ty_unit_id : forall f u, stable_parts u -> (forall t, st t = true -> f t = t) -> map_ty_unit f u = u.
  Proof. intros f u S Hf. unfold map_ty_unit. apply map_unit4_id; auto. Qed.

  (* function-level passes *)
  Lemma stable_remove_duplicates : forall f, stable_func st f = true -> remove_duplicates_f f = f.
  Proof.
    intros [n k sigs] S. unfold stable_func in S; simpl in S. apply andb_true_iff in S. destruct S as [_ D].
    unfold remove_duplicates_f; simpl. f_equal.
    apply dedup_by_distinct; [apply eqb_sym_of_eq; apply sig_eqb_eq|].
    eapply distinct_by_weaken; [|exact D]. intros a b E. unfold sig_eqb in E.
    rewrite !andb_true_iff in E. tauto.
  Qed.

  Lemma stable_combine_returns : forall f, stable_func st f = true -> combine_returns_f f = f.
  Proof.
    intros [n k sigs] S. pose proof (stable_func_sigs _ S) as Ss. simpl in Ss.
    unfold stable_func in S; simpl in S. apply andb_true_iff in S. destruct S as [_ D].
    unfold combine_returns_f; simpl. f_equal.
    rewrite (dedup_by_distinct stripped_eqb stripped_eqb_sym _ D).
    apply map_id_in. intros s0 Hin. unfold combine_group.
    rewrite (filter_distinct stripped_eqb stripped_eqb_refl stripped_eqb_sym _ D s0 Hin). simpl.
    specialize (Ss s0 Hin). destruct s0 as [ps sa ss r ex tm]. unfold stable_sig in Ss; simpl in Ss.
    rewrite !andb_true_iff in Ss. destruct Ss as [[[[[[[S1 S2] S3] S4] S5] S6] S7] S8]. simpl.
    rewrite app_nil_r. f_equal.
    - unfold dedup_py, dedup_by; simpl. apply (stable_join1 H deps maxu kk). assumption.
    - unfold dedup_py, dedup_by. apply (dedup_from_distinct py_eqb (fun a b => py_eqb b a)); auto.
  Qed.

  Lemma stable_normalize_self_sig : forall cls s, self_plain cls s = true -> normalize_self_sig cls s = s.
  Proof.
    intros cls s E. unfold normalize_self_sig, self_plain in *. destruct (s_params s) as [|p r]; [reflexivity|].
    apply negb_true_iff in E. rewrite E. reflexivity.
  Qed.
End StableUnit.

Lemma stable_unit_parts : forall kk o Hd u, stable_unit kk o Hd u = true ->
  stable_parts (hier_of u ++ Hd) (o_deps o) (o_max_union o) kk u.
Proof.
  intros kk o Hd u S. unfold stable_unit in S. rewrite !andb_true_iff in S. unfold stable_parts. tauto.
Qed.

Lemma has_flag_enabled : forall o f fl, has_flag f fl = true -> forallb (enabled o) fl = true -> enabled o f = true.
Proof.
  intros o f fl Hf En. unfold has_flag in Hf. apply existsb_exists in Hf. destruct Hf as [g [Hg E]].
  rewrite forallb_forall in En. specialize (En g Hg). destruct f, g; try discriminate; assumption.
Qed.

Lemma run_pass_stable : forall kk cs o Hd fl p u,
  lossless o -> (o_deps o && o_can_do_lookup o = true -> kk = KClass) ->
  idem_guard_ok fl p = true -> forallb (enabled o) fl = true ->
  stable_unit kk o Hd u = true -> run_pass cs o Hd p u = Some u.
Proof.
  intros kk cs o Hd fl p u [L1 [L2 L3]] K G En S. pose proof (stable_unit_parts _ _ _ _ S) as P.
  set (H := hier_of u ++ Hd) in *.
  destruct p; simpl; simpl in G.
  - (* NormalizeGenericSelfTypes *)
    f_equal. rewrite normalize_self_eq. eapply unit_map_id; [exact P | auto | | auto | auto | reflexivity].
    intros cls f Sf Sp. apply map_func_id. intros s Hs. apply stable_normalize_self_sig.
    rewrite forallb_forall in Sp. auto.
  - f_equal. rewrite map_funcs_unit_eq. eapply unit_map_id; [exact P | auto | | auto | | reflexivity].
    + intros cls f Sf _. eapply stable_remove_duplicates; eassumption.
    + intros f Sf. eapply stable_remove_duplicates; eassumption.
  - f_equal. eapply map_ty_unit_id; [exact P|]. intros; eapply stable_simplify_unions; eassumption.
  - f_equal. rewrite map_funcs_unit_eq. eapply unit_map_id; [exact P | auto | | auto | | reflexivity].
    + intros cls f Sf _. eapply stable_combine_returns; eassumption.
    + intros f Sf. eapply stable_combine_returns; eassumption.
  - (* CombineContainers *)
    assert (A : forallb (fun t => is_some (cc_top t)) (types_of_unit u) = true).
    { apply forallb_forall. intros t Ht.
      assert (St : stable_ty H (o_deps o) (o_max_union o) kk t = true); [|rewrite (stable_cc_top _ _ _ _ _ St); reflexivity].
      clear - P Ht. destruct P as [P1 [P2 P3]]. rewrite forallb_forall in P1, P2, P3.
      assert (Fn : forall f, stable_func (stable_ty H (o_deps o) (o_max_union o) kk) f = true ->
                   In t (types_of_func f) -> stable_ty H (o_deps o) (o_max_union o) kk t = true).
      { intros f Sf Hf. unfold types_of_func in Hf. apply in_flat_map in Hf. destruct Hf as [s [Hs Hts]].
        pose proof (stable_func_sigs _ _ _ _ _ Sf s Hs) as Ss. unfold stable_sig in Ss.
        rewrite !andb_true_iff in Ss. destruct Ss as [[[[[[[S1 S2] S3] S4] S5] S6] S7] S8].
        assert (Pm : forall p, stable_param (stable_ty H (o_deps o) (o_max_union o) kk) p = true ->
                     In t (types_of_param p) -> stable_ty H (o_deps o) (o_max_union o) kk t = true).
        { intros p Sp Hp. unfold stable_param in Sp. apply andb_true_iff in Sp. destruct Sp as [Sp1 Sp2].
          unfold types_of_param in Hp. destruct Hp as [<-|Hp]; [assumption|].
          destruct (p_mut p); [destruct Hp as [<-|[]]; assumption | contradiction]. }
        unfold types_of_sig in Hts. rewrite !in_app_iff in Hts.
        destruct Hts as [Hts|[Hts|[Hts|[Hts|Hts]]]].
        - apply in_flat_map in Hts. destruct Hts as [p [Hp Htp]]. rewrite forallb_forall in S1. eauto.
        - destruct (s_star s); [eauto | contradiction].
        - destruct (s_starstar s); [eauto | contradiction].
        - destruct Hts as [<-|[]]. assumption.
        - rewrite forallb_forall in S6. auto. }
      unfold types_of_unit in Ht. rewrite !in_app_iff in Ht. destruct Ht as [Ht|[Ht|Ht]].
      - apply in_map_iff in Ht. destruct Ht as [c [<- Hc]]. specialize (P1 c Hc).
        unfold stable_const in P1. apply andb_true_iff in P1. tauto.
      - apply in_flat_map in Ht. destruct Ht as [c [Hc Ht]]. rewrite in_app_iff in Ht.
        destruct (stable_class_parts _ _ _ _ _ (P2 c Hc)) as [M [Kc _]]. destruct Ht as [Ht|Ht].
        + apply in_flat_map in Ht. destruct Ht as [f [Hf Ht]]. destruct (M f Hf). eauto.
        + apply in_map_iff in Ht. destruct Ht as [k0 [<- Hk]]. specialize (Kc k0 Hk).
          unfold stable_const in Kc. apply andb_true_iff in Kc. tauto.
      - apply in_flat_map in Ht. destruct Ht as [f [Hf Ht]]. eauto. }
    rewrite A. f_equal. eapply map_ty_unit_id; [exact P|]. intros; eapply stable_combine_containers; eassumption.
  - f_equal. eapply map_ty_unit_id; [exact P|]. intros; eapply stable_simplify_containers; eassumption.
  - (* SimplifyUnionsWithSuperclasses *)
    pose proof (has_flag_enabled o FDeps fl G En) as D. simpl in D.
    f_equal. eapply map_ty_unit_id; [exact P|]. intros; apply (stable_simplify_superclasses H (o_deps o) (o_max_union o) kk); assumption.
  - pose proof (has_flag_enabled o FLossy fl G En) as D. simpl in D. congruence.
  - pose proof (has_flag_enabled o FUseAbcs fl G En) as D. simpl in D. congruence.
  - (* CollapseLongUnions *)
    pose proof (has_flag_enabled o FMaxUnion fl G En) as D. simpl in D. apply negb_true_iff in D.
    apply Nat.eqb_neq in D.
    f_equal. eapply map_ty_unit_id; [exact P|]. intros; apply (stable_collapse_long_unions H (o_deps o) (o_max_union o) kk); assumption.
  - (* AdjustReturnAndConstantGenericType *)
    f_equal. unfold adjust_return_and_constant. eapply map_unit4_id; [exact P | | | | |]; try (intros; reflexivity);
      intros; eapply stable_adjust_generic_type; eassumption.
  - pose proof (has_flag_enabled o FRemoveMutable fl G En) as D. simpl in D. congruence.
  - pose proof (has_flag_enabled o FRemoveMutable fl G En) as D. simpl in D. congruence.
  - pose proof (has_flag_enabled o FRemoveMutable fl G En) as D. simpl in D. congruence.
  - (* LookupClasses *)
    apply andb_true_iff in G. destruct G as [G1 G2].
    pose proof (has_flag_enabled o FDeps fl G1 En) as D1. pose proof (has_flag_enabled o FCanDoLookup fl G2 En) as D2.
    simpl in D1, D2. assert (Kk : kk = KClass) by (apply K; rewrite D1, D2; reflexivity).
    f_equal. unfold resolve_unit.
    rewrite (map_ty_unit_id H (o_deps o) (o_max_union o) kk resolve u P)
      by (intros; eapply stable_resolve; eassumption).
    destruct u as [ucs cls fs]; simpl. f_equal.
    destruct P as [_ [P2 _]]. simpl in P2. rewrite forallb_forall in P2.
    apply map_id_in. intros c Hc. destruct (stable_class_parts _ _ _ _ _ (P2 c Hc)) as [_ [_ B]].
    destruct c as [n bs ms ks tm]; simpl in *. f_equal. apply map_id_in. intros [bk bc] Hb.
    rewrite forallb_forall in B. specialize (B _ Hb). simpl in B. apply kind_eqb_eq in B. subst. reflexivity.
Qed.

Lemma run_passes_stable : forall kk cs o Hd ps u,
  lossless o -> (o_deps o && o_can_do_lookup o = true -> kk = KClass) ->
  idem_pipeline_ok ps = true -> stable_unit kk o Hd u = true -> run_passes cs o Hd ps u = Some u.
Proof.
  intros kk cs o Hd ps u L K. induction ps as [|[fl p] r IH]; intros G S; simpl; [reflexivity|].
  unfold idem_pipeline_ok in G. simpl in G. apply andb_true_iff in G. destruct G as [G1 G2].
  destruct (forallb (enabled o) fl) eqn:En; [|apply IH; assumption].
  rewrite (run_pass_stable kk cs o Hd fl p u L K G1 En S). apply IH; assumption.
Qed.

Lemma idem_passes_ok : idem_pipeline_ok passes = true.
Proof. vm_compute. reflexivity. Qed.

(* Optimising a stub that is in normal form changes nothing; hence optimisation is idempotent whenever
   its first result is in normal form. *)
Lemma optimize_stable_fixpoint : forall kk o Hd u,
  lossless o -> (o_deps o && o_can_do_lookup o = true -> kk = KClass) ->
  stable_unit kk o Hd u = true -> opt o Hd u = Some u.
Proof. intros kk o Hd u L K S. unfold opt. apply (run_passes_stable kk); try assumption. apply idem_passes_ok. Qed.

Lemma optimize_idempotent_partial_lemma : forall kk o Hd u u1,
  lossless o -> (o_deps o && o_can_do_lookup o = true -> kk = KClass) ->
  opt o Hd u = Some u1 -> stable_unit kk o Hd u1 = true -> opt o Hd u1 = Some u1.
Proof. intros kk o Hd u u1 L K _ S. apply (optimize_stable_fixpoint kk); assumption. Qed.
