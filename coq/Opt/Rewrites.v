(* C11 — the "justified rewrite" relation: the only changes the lossless optimiser may make
   (definitions only).  Each rule is a schema on types / signatures, stated without reference to the
   visitor implementations:
     (1) union housekeeping as JoinTypes does it: same flattened members (flattening, dropping `nothing`,
         removing duplicates), a one-member union is its member, Any absorbs (Optional[Any] exception);
     (2) container merging as CombineContainers does it: two containers of one shape in a union merge
         pointwise, heterogeneous tuples become homogeneous, callables degenerate to Callable[Any, ret];
     (3) union simplification justified by the hierarchy: a member is dropped when a superclass of it is
         listed; a union longer than max_union (without literals) collapses to Any;
     (4) signatures: an identical signature is removed; signatures with equal parameters merge, joining
         returns and exceptions;
     (5) one rule per remaining lossless pass: object -> Any (AdjustGenericType), C[Any, ...] -> C
         (SimplifyContainers), mutated parameter absorbed (AbsorbMutableParameters), self: C[...] -> C
         (NormalizeGenericSelfTypes), and — not in the property text — NamedType -> ClassType (LookupClasses). *)
From Coq Require Import List Arith Bool.
From PV Require Import Opt.Syntax Generated.C11_Passes Opt.Model Opt.Spec.
Import ListNotations.

(* x is a flattened member of t (looking through nested unions, skipping `nothing`) *)
Inductive Member : ty -> ty -> Prop :=
| mem_self : forall t, is_union t = false -> is_nothing t = false -> Member t t
| mem_union : forall x t ts, In t ts -> Member x t -> Member x (TUnion ts).
Definition same_members (ts ts' : list ty) : Prop :=
  forall x, (exists t, In t ts /\ Member x t) <-> (exists t, In t ts' /\ Member x t).

Fixpoint zip_union (ps qs : list ty) : list ty :=
  match ps, qs with
  | p :: ps', q :: qs' => TUnion [p; q] :: zip_union ps' qs'
  | _, _ => []
  end.

(* two containers of one shape: same base; tuples / callables also the same number of parameters *)
Inductive same_container : ty -> ty -> Prop :=
| sc_gen : forall k c ps qs, same_container (TGen k c ps) (TGen k c qs)
| sc_tup : forall k c ps qs, length ps = length qs -> same_container (TTup k c ps) (TTup k c qs)
| sc_call : forall k c ps qs, length ps = length qs -> same_container (TCall k c ps) (TCall k c qs).

Inductive jr_ty (H : hier) (mx : nat) : ty -> ty -> Prop :=
| jr_refl : forall t, jr_ty H mx t t
| jr_trans : forall a b c, jr_ty H mx a b -> jr_ty H mx b c -> jr_ty H mx a c
(* congruence: rewrite one component *)
| jr_in_union : forall a x y b, jr_ty H mx x y -> jr_ty H mx (TUnion (a ++ x :: b)) (TUnion (a ++ y :: b))
| jr_in_gen : forall k c a x y b, jr_ty H mx x y -> jr_ty H mx (TGen k c (a ++ x :: b)) (TGen k c (a ++ y :: b))
| jr_in_tup : forall k c a x y b, jr_ty H mx x y -> jr_ty H mx (TTup k c (a ++ x :: b)) (TTup k c (a ++ y :: b))
| jr_in_call : forall k c a x y b, jr_ty H mx x y -> jr_ty H mx (TCall k c (a ++ x :: b)) (TCall k c (a ++ y :: b))
| jr_in_var : forall n sc hb a x y b, jr_ty H mx x y ->
    jr_ty H mx (TVar n sc hb (a ++ x :: b)) (TVar n sc hb (a ++ y :: b))
(* (1) JoinTypes / UnionType() *)
| jr_same_members : forall ts ts', same_members ts ts' -> jr_ty H mx (TUnion ts) (TUnion ts')
| jr_one_member : forall x, jr_ty H mx (TUnion [x]) x
| jr_no_member : jr_ty H mx (TUnion []) TNothing
| jr_any_absorbs : forall ts, In TAny ts -> jr_ty H mx (TUnion ts) TAny
| jr_optional_any : forall ts c, In TAny ts -> In (TName KNamed c) ts ->
    c = c_none \/ c = c_none_unresolved -> jr_ty H mx (TUnion ts) (TUnion [TAny; TName KNamed c_none])
(* extra, not named in the property text: CombineContainers re-wraps a joined union that collapsed to one
   type as UnionType((x,)) (the one-member-union quirk behind finding single-member-union-after-combine-containers) *)
| jr_one_member_wrap : forall x, jr_ty H mx x (TUnion [x])
(* (2) CombineContainers *)
| jr_tuple_homogeneous : forall k c ps, jr_ty H mx (TTup k c ps) (TGen k c [TUnion ps])
| jr_callable_degenerate : forall k c ps, jr_ty H mx (TCall k c ps) (TGen k c [TAny; last_or TAny ps])
| jr_merge_containers : forall a t0 b t1 d, same_container t0 t1 ->
    jr_ty H mx (TUnion (a ++ t0 :: b ++ t1 :: d))
             (TUnion (a ++ with_params t0 (zip_union (params_of t0) (params_of t1)) :: b ++ d))
(* (3) hierarchy *)
| jr_subclass_absorbed : forall a k c b k' s, In (TName k' s) (a ++ b) -> Sub H c s ->
    jr_ty H mx (TUnion (a ++ TName k c :: b)) (TUnion (a ++ b))
| jr_long_union : forall ts, mx <> 0 -> mx < length ts -> existsb is_lit ts = false ->
    jr_ty H mx (TUnion ts) TAny
(* (5) the remaining passes *)
| jr_object_is_any : jr_ty H mx (TName KClass c_object) TAny
| jr_all_any_container : forall k c ps, forallb is_any ps = true -> jr_ty H mx (TGen k c ps) (TName k c)
(* extra, not named in the property text: LookupClasses re-spells NamedType as ClassType *)
| jr_lookup_name : forall k c, jr_ty H mx (TName k c) (TName KClass c)
| jr_lookup_gen : forall k c ps, jr_ty H mx (TGen k c ps) (TGen KClass c ps)
| jr_lookup_tup : forall k c ps, jr_ty H mx (TTup k c ps) (TTup KClass c ps)
| jr_lookup_call : forall k c ps, jr_ty H mx (TCall k c ps) (TCall KClass c ps)
(* (6) MergeTypeParameters (remove_mutable only): a function type parameter that occurs in a union with class
   type parameters is replaced by (the union of) unbounded class type parameters *)
| jr_tparam_merged : forall t cps, is_var t = true -> cps <> [] -> Forall unbounded_var cps ->
    jr_ty H mx t (TUnion cps).

Definition jr_omut (H : hier) (mx : nat) (a b : option ty) : Prop :=
  match a, b with
  | None, None => True
  | Some x, Some y => jr_ty H mx x y
  | _, _ => False
  end.

(* [cls]: the enclosing class, if any *)
Inductive jr_param (H : hier) (mx : nat) (cls : option cid) : param -> param -> Prop :=
| jp_trans : forall a b c, jr_param H mx cls a b -> jr_param H mx cls b c -> jr_param H mx cls a c
| jp_types : forall n t t' kd op m m', jr_ty H mx t t' -> jr_omut H mx m m' ->
    jr_param H mx cls (mkParam n t kd op m) (mkParam n t' kd op m')
(* (5) AbsorbMutableParameters *)
| jp_absorb_mutated : forall n t kd op m,
    jr_param H mx cls (mkParam n t kd op (Some m)) (mkParam n (TUnion [t; m]) kd op None)
(* (5) NormalizeGenericSelfTypes: self (name 0) annotated with the enclosing class, parameterised *)
| jp_self_unparameterised : forall c t kd op m, cls = Some c -> is_generic t = true -> base_cid t = c ->
    jr_param H mx cls (mkParam 0 t kd op m)
                      (mkParam 0 (match t with TGen k c' _ | TTup k c' _ | TCall k c' _ => TName k c' | _ => t end) kd op m).

Definition jr_oparam (H : hier) (mx : nat) (cls : option cid) (a b : option param) : Prop :=
  match a, b with
  | None, None => True
  | Some x, Some y => jr_param H mx cls x y
  | _, _ => False
  end.
(* exceptions: the same ones up to justified rewrites *)
Definition jr_exc (H : hier) (mx : nat) (es es' : list ty) : Prop :=
  (forall e, In e es -> exists e', In e' es' /\ jr_ty H mx e e') /\
  (forall e', In e' es' -> exists e, In e es /\ jr_ty H mx e e').
Definition jr_sig (H : hier) (mx : nat) (cls : option cid) (s s' : sig) : Prop :=
  Forall2 (jr_param H mx cls) (s_params s) (s_params s') /\
  jr_oparam H mx cls (s_star s) (s_star s') /\ jr_oparam H mx cls (s_starstar s) (s_starstar s') /\
  jr_ty H mx (s_ret s) (s_ret s') /\ jr_exc H mx (s_exc s) (s_exc s').

Definition same_parameters (s1 s2 : sig) : Prop :=
  s_params s1 = s_params s2 /\ s_star s1 = s_star s2 /\ s_starstar s1 = s_starstar s2 /\
  s_template s1 = s_template s2.

Inductive jr_sigs (H : hier) (mx : nat) (cls : option cid) : list sig -> list sig -> Prop :=
| js_trans : forall a b c, jr_sigs H mx cls a b -> jr_sigs H mx cls b c -> jr_sigs H mx cls a c
| js_each : forall l l', Forall2 (jr_sig H mx cls) l l' -> jr_sigs H mx cls l l'
(* (4) RemoveDuplicates *)
| js_identical_removed : forall a s b c, jr_sigs H mx cls (a ++ s :: b ++ s :: c) (a ++ s :: b ++ c)
(* (4) CombineReturnsAndExceptions *)
| js_merged : forall a s1 b s2 c, same_parameters s1 s2 ->
    jr_sigs H mx cls (a ++ s1 :: b ++ s2 :: c)
      (a ++ mkSig (s_params s1) (s_star s1) (s_starstar s1) (TUnion [s_ret s1; s_ret s2]) (s_exc s1 ++ s_exc s2)
                (s_template s1)
         :: b ++ c).

Definition jr_func (H : hier) (mx : nat) (cls : option cid) (f f' : func) : Prop :=
  f_name f = f_name f' /\ f_kind f = f_kind f' /\ jr_sigs H mx cls (f_sigs f) (f_sigs f').
Definition jr_const (H : hier) (mx : nat) (c c' : const) : Prop :=
  k_name c = k_name c' /\ jr_ty H mx (k_ty c) (k_ty c').
Definition jr_class (H : hier) (mx : nat) (c c' : class) : Prop :=
  cl_name c = cl_name c' /\ map snd (cl_bases c) = map snd (cl_bases c') /\
  Forall2 (jr_func H mx (Some (cl_name c))) (cl_methods c) (cl_methods c') /\
  Forall2 (jr_const H mx) (cl_consts c) (cl_consts c').
(* the hierarchy is the one Optimize uses: the unit's own classes shadow deps *)
Definition jr_unit (Hd : hier) (mx : nat) (u u' : unit_) : Prop :=
  let H := hier_of u ++ Hd in
  Forall2 (jr_const H mx) (u_consts u) (u_consts u') /\
  Forall2 (jr_class H mx) (u_classes u) (u_classes u') /\
  Forall2 (jr_func H mx None) (u_funcs u) (u_funcs u').

(* side condition on the regenerated pass list for lossless_changes_only: well-formedness is still
   available where needed, and everything outside the named rewrites runs only under its flag *)
Definition jr_guard_ok (fl : list flag) (p : pass) : bool :=
  match p with
  | PFindCommonSuperClasses => has_flag FLossy fl
  | PUseAbcs => has_flag FUseAbcs fl
  | PAbsorbMutableParameters | PMergeTypeParameters | PAdjustSelf => has_flag FRemoveMutable fl
  | PCollapseLongUnions => has_flag FMaxUnion fl
  | _ => true
  end.
Definition jr_pipeline_ok (ps : list (list flag * pass)) : bool :=
  pipeline_ok true ps && forallb (fun s => jr_guard_ok (fst s) (snd s)) ps.
