(* C11 — predicates the property theorems are stated with (definitions only, no proofs). *)
From Coq Require Import List Arith Bool.
From PV Require Import Opt.Syntax Generated.C11_Passes Opt.Model.
Import ListNotations.

(* t' admits every value t admits *)
Definition wider (H : hier) (t t' : ty) : Prop := forall v, admits H t v -> admits H t' v.

(* Well-formed input types:
   - one spelling of class references throughout (all NamedType, as the parser produces, or all
     ClassType, as the loader/VM produces) — SimplifyUnionsWithSuperclasses counts by *name* over a set
     of *nodes*, so NamedType("A") next to ClassType("A") makes it drop both;
   - TupleType is based on builtins.tuple/typing.Tuple and CallableType on typing.Callable
     (pytd_utils.MakeClassOrContainerType), so a tuple and a callable never share a merge key. *)
Inductive wf (k : kind) : ty -> Prop :=
| wf_name : forall c, wf k (TName k c)
| wf_any : wf k TAny
| wf_nothing : wf k TNothing
| wf_lit : forall n, wf k (TLit n)
| wf_union : forall ts, Forall (wf k) ts -> wf k (TUnion ts)
| wf_gen : forall c ps, Forall (wf k) ps -> wf k (TGen k c ps)
| wf_tup : forall c ps, memn c [c_tuple; c_typing_tuple] = true -> Forall (wf k) ps -> wf k (TTup k c ps)
| wf_call : forall ps, Forall (wf k) ps -> wf k (TCall k c_callable ps).

Definition wf_unit (k : kind) (u : unit_) : Prop := Forall (wf k) (types_of_unit u).

(* the superclass table lists bases before subclasses (any acyclic hierarchy can be numbered so) *)
Definition ranked (H : hier) : Prop := forall d s, In s (supers H d) -> s < d.

(* --- "never stricter" on declarations *)
Definition param_wider (H : hier) (p p' : param) : Prop :=
  p_name p = p_name p' /\ p_kind p = p_kind p' /\ p_opt p = p_opt p' /\
  wider H (p_ty p) (p_ty p') /\
  match p_mut p with
  | None => p_mut p' = None
  | Some m => match p_mut p' with
              | Some m' => wider H m m'          (* what the parameter holds after the call *)
              | None => wider H m (p_ty p')      (* absorbed into the parameter type *)
              end
  end.
Definition oparam_wider (H : hier) (p p' : option param) : Prop :=
  match p, p' with
  | None, None => True
  | Some a, Some b => param_wider H a b
  | _, _ => False
  end.
Definition sig_wider (H : hier) (s s' : sig) : Prop :=
  Forall2 (param_wider H) (s_params s) (s_params s') /\
  oparam_wider H (s_star s) (s_star s') /\ oparam_wider H (s_starstar s) (s_starstar s') /\
  wider H (s_ret s) (s_ret s').
(* every original signature is covered by a signature of the optimised function *)
Definition func_wider (H : hier) (f f' : func) : Prop :=
  f_name f = f_name f' /\ f_kind f = f_kind f' /\
  forall s, In s (f_sigs f) -> exists s', In s' (f_sigs f') /\ sig_wider H s s'.
Definition const_wider (H : hier) (c c' : const) : Prop :=
  k_name c = k_name c' /\ wider H (k_ty c) (k_ty c').
Definition class_wider (H : hier) (c c' : class) : Prop :=
  cl_name c = cl_name c' /\ map snd (cl_bases c) = map snd (cl_bases c') /\
  Forall2 (func_wider H) (cl_methods c) (cl_methods c') /\
  Forall2 (const_wider H) (cl_consts c) (cl_consts c').
Definition unit_wider (H : hier) (u u' : unit_) : Prop :=
  Forall2 (const_wider H) (u_consts u) (u_consts u') /\
  Forall2 (class_wider H) (u_classes u) (u_classes u') /\
  Forall2 (func_wider H) (u_funcs u) (u_funcs u').

(* --- which passes need / keep the well-formedness invariant; checked on the regenerated list *)
Definition needs_wf (p : pass) : bool :=
  match p with PCombineContainers | PSimplifyUnionsWithSuperclasses => true | _ => false end.
Definition keeps_wf (p : pass) : bool :=
  match p with PAdjustSelf | PLookupClasses => false | _ => true end.
Fixpoint pipeline_ok (wfok : bool) (ps : list (list flag * pass)) : bool :=
  match ps with
  | [] => true
  | (_, p) :: r => (negb (needs_wf p) || wfok) && pipeline_ok (wfok && keeps_wf p) r
  end.

(* --- single-member unions *)
Fixpoint no_single (t : ty) : Prop :=
  match t with
  | TUnion ts =>
      length ts <> 1 /\ (fix all l := match l with [] => True | x :: r => no_single x /\ all r end) ts
  | TGen _ _ ps | TTup _ _ ps | TCall _ _ ps =>
      (fix all l := match l with [] => True | x :: r => no_single x /\ all r end) ps
  | _ => True
  end.
