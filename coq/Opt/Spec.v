(* C11 — predicates the property theorems are stated with (definitions only, no proofs). *)
From Coq Require Import List Arith Bool.
From PV Require Import Opt.Syntax Generated.C11_Passes Opt.Model.
Import ListNotations.

(* t' admits every value t admits *)
Definition wider (H : hier) (t t' : ty) : Prop := forall v, admits H t v -> admits H t' v.

(* Well-formed input types:
   - one spelling of class references throughout (all NamedType, as the parser produces, or all
     ClassType, as the loader/VM produces) — SimplifyUnionsWithSuperclasses counts by *name* over a set
     of *nodes*, so NamedType("A") next to ClassType("A") makes it drop both;
   - TupleType is based on builtins.tuple/typing.Tuple and CallableType on typing.Callable
     (pytd_utils.MakeClassOrContainerType), so a tuple and a callable never share a merge key. *)
Inductive wf (k : kind) : ty -> Prop :=
| wf_name : forall c, wf k (TName k c)
| wf_any : wf k TAny
| wf_nothing : wf k TNothing
| wf_lit : forall n, wf k (TLit n)
| wf_union : forall ts, Forall (wf k) ts -> wf k (TUnion ts)
| wf_gen : forall c ps, Forall (wf k) ps -> wf k (TGen k c ps)
| wf_tup : forall c ps, memn c [c_tuple; c_typing_tuple] = true -> Forall (wf k) ps -> wf k (TTup k c ps)
| wf_call : forall ps, Forall (wf k) ps -> wf k (TCall k c_callable ps)
| wf_var : forall n sc hb ps, Forall (wf k) ps -> wf k (TVar n sc hb ps).

Definition wf_unit (k : kind) (u : unit_) : Prop := Forall (wf k) (types_of_unit u).

(* the superclass table lists bases before subclasses (any acyclic hierarchy can be numbered so) *)
Definition ranked (H : hier) : Prop := forall d s, In s (supers H d) -> s < d.

(* --- "never stricter" on declarations *)
Definition param_wider (H : hier) (p p' : param) : Prop :=
  p_name p = p_name p' /\ p_kind p = p_kind p' /\ p_opt p = p_opt p' /\
  wider H (p_ty p) (p_ty p') /\
  match p_mut p with
  | None => p_mut p' = None
  | Some m => match p_mut p' with
              | Some m' => wider H m m'          (* what the parameter holds after the call *)
              | None => wider H m (p_ty p')      (* absorbed into the parameter type *)
              end
  end.
Definition oparam_wider (H : hier) (p p' : option param) : Prop :=
  match p, p' with
  | None, None => True
  | Some a, Some b => param_wider H a b
  | _, _ => False
  end.
Definition sig_wider (H : hier) (s s' : sig) : Prop :=
  Forall2 (param_wider H) (s_params s) (s_params s') /\
  oparam_wider H (s_star s) (s_star s') /\ oparam_wider H (s_starstar s) (s_starstar s') /\
  wider H (s_ret s) (s_ret s').
(* every original signature is covered by a signature of the optimised function *)
Definition func_wider (H : hier) (f f' : func) : Prop :=
  f_name f = f_name f' /\ f_kind f = f_kind f' /\
  forall s, In s (f_sigs f) -> exists s', In s' (f_sigs f') /\ sig_wider H s s'.
Definition const_wider (H : hier) (c c' : const) : Prop :=
  k_name c = k_name c' /\ wider H (k_ty c) (k_ty c').
Definition class_wider (H : hier) (c c' : class) : Prop :=
  cl_name c = cl_name c' /\ map snd (cl_bases c) = map snd (cl_bases c') /\
  Forall2 (func_wider H) (cl_methods c) (cl_methods c') /\
  Forall2 (const_wider H) (cl_consts c) (cl_consts c').
Definition unit_wider (H : hier) (u u' : unit_) : Prop :=
  Forall2 (const_wider H) (u_consts u) (u_consts u') /\
  Forall2 (class_wider H) (u_classes u) (u_classes u') /\
  Forall2 (func_wider H) (u_funcs u) (u_funcs u').

(* --- MergeTypeParameters: a class type parameter without bound and without constraints *)
Definition unbounded_var (t : ty) : Prop := exists n sc hb, t = TVar n sc hb [].
Definition unb_classes (u : unit_) : Prop :=
  Forall (fun c => Forall unbounded_var (cl_template c)) (u_classes u).

(* --- which passes need / keep the well-formedness invariant; checked on the regenerated list *)
Definition needs_wf (p : pass) : bool :=
  match p with PCombineContainers | PSimplifyUnionsWithSuperclasses => true | _ => false end.
Definition keeps_wf (p : pass) : bool :=
  match p with PAdjustSelf | PLookupClasses | PMergeTypeParameters => false | _ => true end.
(* AdjustSelf rewrites `self: Any` to the class (not a widening); Optimize only runs it under
   remove_mutable, and the theorem then assumes a unit without classes *)
Definition is_remove_mutable (f : flag) : bool := match f with FRemoveMutable => true | _ => false end.
Definition guard_ok (fl : list flag) (p : pass) : bool :=
  match p with PAdjustSelf | PMergeTypeParameters => existsb is_remove_mutable fl | _ => true end.
Fixpoint pipeline_ok (wfok : bool) (ps : list (list flag * pass)) : bool :=
  match ps with
  | [] => true
  | (fl, p) :: r =>
      (negb (needs_wf p) || wfok) && guard_ok fl p && pipeline_ok (wfok && keeps_wf p) r
  end.

(* --- single-member unions *)
Fixpoint no_single (t : ty) : Prop :=
  match t with
  | TUnion ts =>
      length ts <> 1 /\ (fix all l := match l with [] => True | x :: r => no_single x /\ all r end) ts
  | TGen _ _ ps | TTup _ _ ps | TCall _ _ ps | TVar _ _ _ ps =>
      (fix all l := match l with [] => True | x :: r => no_single x /\ all r end) ps
  | _ => True
  end.

(* --- optimiser normal forms: declarations every enabled lossless pass leaves alone.
   (Used by optimize_idempotent_partial; every clause is a syntactic condition on the stub.) *)
Fixpoint no_class_object (t : ty) : bool :=
  match t with
  | TName KClass c => negb (Nat.eqb c c_object)
  | TUnion ts | TGen _ _ ts | TTup _ _ ts | TCall _ _ ts | TVar _ _ _ ts => forallb no_class_object ts
  | _ => true
  end.

Definition is_union (t : ty) : bool := match t with TUnion _ => true | _ => false end.
Definition is_nothing (t : ty) : bool := match t with TNothing => true | _ => false end.

Fixpoint distinct_by {A} (eqb : A -> A -> bool) (l : list A) : bool :=
  match l with
  | [] => true
  | x :: r => negb (existsb (eqb x) r) && distinct_by eqb r
  end.

(* [H]: effective superclass table; [deps]: SimplifyUnionsWithSuperclasses runs; [maxu]: max_union (0 = off);
   [kk]: the one spelling of class references (ClassType if LookupClasses runs at the end) *)
Fixpoint stable_ty (H : hier) (deps : bool) (maxu : nat) (kk : kind) (t : ty) : bool :=
  match t with
  | TName k _ => kind_eqb k kk
  | TAny | TNothing | TLit _ => true
  | TUnion ts =>
      (2 <=? length ts)
      && forallb (fun x => negb (is_union x || is_nothing x || is_any x)) ts     (* flat, no Any / nothing *)
      && distinct_by ty_eqb ts                                                    (* no duplicate member *)
      && negb (should_merge true None ts) && negb (should_merge false None ts)    (* nothing to degenerate *)
      && distinct_by ckey_eqb (filter_map key_of ts)                              (* no two containers to merge *)
      && (negb deps ||
          forallb (fun x => match name_of x with                                  (* no member below another *)
                            | Some n => suws_count H (filter_map name_of ts) n <=? 1
                            | None => true end) ts)
      && (Nat.eqb maxu 0 || (length ts <=? maxu) || existsb is_lit ts)            (* not over-long *)
      && forallb (stable_ty H deps maxu kk) ts
  | TGen k _ ps => kind_eqb k kk && negb (forallb is_any ps) && forallb (stable_ty H deps maxu kk) ps
  | TTup k _ ps | TCall k _ ps => kind_eqb k kk && forallb (stable_ty H deps maxu kk) ps
  | TVar _ _ _ ps => forallb (stable_ty H deps maxu kk) ps
  end.

Definition stable_param (st : ty -> bool) (p : param) : bool :=
  st (p_ty p) && match p_mut p with Some m => st m | None => true end.
Definition stable_oparam (st : ty -> bool) (p : option param) : bool :=
  match p with Some p => stable_param st p | None => true end.
(* return types (and constants) additionally must not mention ClassType(builtins.object) *)
Definition stable_sig (st : ty -> bool) (s : sig) : bool :=
  forallb (stable_param st) (s_params s) && stable_oparam st (s_star s) && stable_oparam st (s_starstar s)
  && st (s_ret s) && no_class_object (s_ret s)
  && forallb st (s_exc s) && distinct_by (fun a b => py_eqb b a) (s_exc s)
  && forallb st (s_template s).
(* no two signatures with the same parameters *)
Definition stable_func (st : ty -> bool) (f : func) : bool :=
  forallb (stable_sig st) (f_sigs f) && distinct_by stripped_eqb (f_sigs f).
Definition stable_const (st : ty -> bool) (c : const) : bool := st (k_ty c) && no_class_object (k_ty c).
(* no method whose self is annotated with the class itself, parameterised *)
Definition self_plain (cls : cid) (s : sig) : bool :=
  match s_params s with
  | p :: _ => negb (Nat.eqb (p_name p) 0 && is_generic (p_ty p) && Nat.eqb (base_cid (p_ty p)) cls)
  | [] => true
  end.
Definition stable_class (kk : kind) (st : ty -> bool) (c : class) : bool :=
  forallb (fun f => stable_func st f && forallb (self_plain (cl_name c)) (f_sigs f)) (cl_methods c)
  && forallb (stable_const st) (cl_consts c)
  && forallb (fun b => kind_eqb (fst b) kk) (cl_bases c)
  && forallb st (cl_template c).
(* [kk]: the spelling of class references in the stub; must be ClassType when LookupClasses runs *)
Definition stable_unit (kk : kind) (o : opts) (Hd : hier) (u : unit_) : bool :=
  let st := stable_ty (hier_of u ++ Hd) (o_deps o) (o_max_union o) kk in
  forallb (stable_const st) (u_consts u) && forallb (stable_class kk st) (u_classes u)
  && forallb (stable_func st) (u_funcs u).

(* the lossless option settings without remove_mutable (what pytype itself uses is one of them) *)
Definition lossless (o : opts) : Prop :=
  o_lossy o = false /\ o_use_abcs o = false /\ o_remove_mutable o = false.

(* the regenerated pass list only runs the passes outside this theorem under their flags *)
Definition has_flag (f : flag) (fl : list flag) : bool :=
  existsb (fun g => match f, g with
                    | FDeps, FDeps | FLossy, FLossy | FUseAbcs, FUseAbcs | FMaxUnion, FMaxUnion
                    | FRemoveMutable, FRemoveMutable | FCanDoLookup, FCanDoLookup => true
                    | _, _ => false end) fl.
Definition idem_guard_ok (fl : list flag) (p : pass) : bool :=
  match p with
  | PFindCommonSuperClasses => has_flag FLossy fl
  | PUseAbcs => has_flag FUseAbcs fl
  | PAbsorbMutableParameters | PMergeTypeParameters | PAdjustSelf => has_flag FRemoveMutable fl
  | PSimplifyUnionsWithSuperclasses => has_flag FDeps fl
  | PCollapseLongUnions => has_flag FMaxUnion fl
  | PLookupClasses => has_flag FDeps fl && has_flag FCanDoLookup fl
  | _ => true
  end.
Definition idem_pipeline_ok (ps : list (list flag * pass)) : bool :=
  forallb (fun s => idem_guard_ok (fst s) (snd s)) ps.

(* decidable version of [ranked] for concrete tables *)
Definition rankedb (H : hier) : bool :=
  forallb (fun e => forallb (fun s => s <? fst e) (snd e)) H.
