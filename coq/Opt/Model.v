(* C11 — executable model of pytype/pytd/optimize.py (lossless pipeline) and of the pieces of
   pytd_utils.py / visitors.py / pytd.py it relies on.  NO PROOFS in this file.

   Conventions
   * A visitor pass is a bottom-up structural function, exactly as base node `_VisitNode` applies it:
     children first, then the node is re-instantiated (for UnionType this runs `__post_init__`, i.e.
     `_FlattenTypes`: one-level flatten + order-preserving de-duplication), then Visit<Class> is called.
     `_VisitNode` skips the re-instantiation when no child changed identity; on ASTs whose unions were
     all built by the constructor that is the same thing (re-normalising a normalised list is the identity).
   * set / dict membership (`t not in seen`, `dict.fromkeys`, `groups.get`) is hash-then-eq, which for pytd
     nodes is strict structural equality [ty_eqb] (UnionType hashes its ordered tuple); list/tuple
     membership (`x not in self.return_types`) is `==`, where UnionType compares as a frozenset [py_eqb].
   * NamedType and ClassType are distinct node classes ([kind]); `str(t)` is the class name for both. *)
From Coq Require Import List Arith Bool.
From PV Require Import Opt.Syntax Generated.C11_Passes.
Import ListNotations.

(* ------------------------------------------------------------------ generic helpers *)
Definition mem_by {A} (eqb : A -> A -> bool) (x : A) (l : list A) : bool := existsb (eqb x) l.

(* order-preserving de-duplication keeping first occurrences (dict.fromkeys / OrderedSet / `not in`) *)
Fixpoint dedup_from {A} (eqb : A -> A -> bool) (seen l : list A) : list A :=
  match l with
  | [] => []
  | x :: r => if mem_by eqb x seen then dedup_from eqb seen r
              else x :: dedup_from eqb (x :: seen) r
  end.
Definition dedup_by {A} (eqb : A -> A -> bool) (l : list A) : list A := dedup_from eqb [] l.

Definition memn (x : nat) (l : list nat) : bool := existsb (Nat.eqb x) l.

Fixpoint filter_map {A B} (f : A -> option B) (l : list A) : list B :=
  match l with
  | [] => []
  | x :: r => match f x with Some y => y :: filter_map f r | None => filter_map f r end
  end.

Fixpoint map_opt {A B} (f : A -> option B) (l : list A) : option (list B) :=
  match l with
  | [] => Some []
  | x :: r => match f x, map_opt f r with Some y, Some r' => Some (y :: r') | _, _ => None end
  end.

Definition is_some {A} (o : option A) : bool := match o with Some _ => true | None => false end.

Fixpoint list_eqb {A} (eqb : A -> A -> bool) (l l' : list A) : bool :=
  match l, l' with
  | [], [] => true
  | x :: r, y :: r' => eqb x y && list_eqb eqb r r'
  | _, _ => false
  end.

Definition option_eqb {A} (eqb : A -> A -> bool) (a b : option A) : bool :=
  match a, b with
  | None, None => true
  | Some x, Some y => eqb x y
  | _, _ => false
  end.

(* ------------------------------------------------------------------ equality on types *)
Definition kind_eqb (a b : kind) : bool :=
  match a, b with KNamed, KNamed | KClass, KClass => true | _, _ => false end.

(* hash-and-eq equality: strict, ordered *)
Fixpoint ty_eqb (a b : ty) {struct a} : bool :=
  match a, b with
  | TName k c, TName k' c' => kind_eqb k k' && Nat.eqb c c'
  | TAny, TAny => true
  | TNothing, TNothing => true
  | TLit n, TLit m => Nat.eqb n m
  | TUnion l, TUnion l' =>
      (fix go l l' := match l, l' with
                      | [], [] => true
                      | x :: r, y :: r' => ty_eqb x y && go r r'
                      | _, _ => false end) l l'
  | TGen k c l, TGen k' c' l' =>
      kind_eqb k k' && Nat.eqb c c' &&
      (fix go l l' := match l, l' with
                      | [], [] => true
                      | x :: r, y :: r' => ty_eqb x y && go r r'
                      | _, _ => false end) l l'
  | TTup k c l, TTup k' c' l' =>
      kind_eqb k k' && Nat.eqb c c' &&
      (fix go l l' := match l, l' with
                      | [], [] => true
                      | x :: r, y :: r' => ty_eqb x y && go r r'
                      | _, _ => false end) l l'
  | TCall k c l, TCall k' c' l' =>
      kind_eqb k k' && Nat.eqb c c' &&
      (fix go l l' := match l, l' with
                      | [], [] => true
                      | x :: r, y :: r' => ty_eqb x y && go r r'
                      | _, _ => false end) l l'
  | TVar n sc hb l, TVar n' sc' hb' l' =>
      Nat.eqb n n' && Nat.eqb sc sc' && Bool.eqb hb hb' &&
      (fix go l l' := match l, l' with
                      | [], [] => true
                      | x :: r, y :: r' => ty_eqb x y && go r r'
                      | _, _ => false end) l l'
  | _, _ => false
  end.

Definition memb (x : ty) (l : list ty) : bool := mem_by ty_eqb x l.
Definition dedup (l : list ty) : list ty := dedup_by ty_eqb l.

(* `==`: UnionType.__eq__ is frozenset equality (whose element lookup is hash-then-eq, i.e. strict);
   msgspec structs compare field-wise with `==`; different node classes are never equal. *)
Fixpoint py_eqb (a b : ty) {struct a} : bool :=
  match a, b with
  | TUnion l, TUnion l' => forallb (fun x => memb x l') l && forallb (fun y => memb y l) l'
  | TGen k c l, TGen k' c' l' =>
      kind_eqb k k' && Nat.eqb c c' &&
      (fix go l l' := match l, l' with
                      | [], [] => true
                      | x :: r, y :: r' => py_eqb x y && go r r'
                      | _, _ => false end) l l'
  | TTup k c l, TTup k' c' l' =>
      kind_eqb k k' && Nat.eqb c c' &&
      (fix go l l' := match l, l' with
                      | [], [] => true
                      | x :: r, y :: r' => py_eqb x y && go r r'
                      | _, _ => false end) l l'
  | TCall k c l, TCall k' c' l' =>
      kind_eqb k k' && Nat.eqb c c' &&
      (fix go l l' := match l, l' with
                      | [], [] => true
                      | x :: r, y :: r' => py_eqb x y && go r r'
                      | _, _ => false end) l l'
  | TVar n sc hb l, TVar n' sc' hb' l' =>
      Nat.eqb n n' && Nat.eqb sc sc' && Bool.eqb hb hb' &&
      (fix go l l' := match l, l' with
                      | [], [] => true
                      | x :: r, y :: r' => py_eqb x y && go r r'
                      | _, _ => false end) l l'
  | TUnion _, _ | TGen _ _ _, _ | TTup _ _ _, _ | TCall _ _ _, _ | TVar _ _ _ _, _ => false
  | _, _ => ty_eqb a b
  end.

Definition dedup_py (l : list ty) : list ty := dedup_by py_eqb l.

(* ------------------------------------------------------------------ pytd.UnionType / JoinTypes *)
Definition is_any (t : ty) : bool := match t with TAny => true | _ => false end.
Definition is_lit (t : ty) : bool := match t with TLit _ => true | _ => false end.

(* pytd._FlattenTypes (UnionType.__post_init__): one level, order-preserving, no duplicates.
   It neither drops NothingType nor collapses a single member. *)
Definition flat1 (t : ty) : list ty := match t with TUnion ts => ts | _ => [t] end.
Definition norm_union (ts : list ty) : list ty := dedup (flat_map flat1 ts).

(* the deque loop of JoinTypes: unions are expanded in place (recursively), NothingType dropped *)
Fixpoint flat (t : ty) : list ty :=
  match t with
  | TUnion ts => flat_map flat ts
  | TNothing => []
  | _ => [t]
  end.

(* `t in (NamedType("builtins.NoneType"), NamedType("NoneType"))`: a ClassType never compares equal *)
Definition is_named_none (t : ty) : bool :=
  match t with
  | TName KNamed c => Nat.eqb c c_none || Nat.eqb c c_none_unresolved
  | _ => false
  end.

Definition join (ts : list ty) : ty :=
  let l := dedup (flat_map flat ts) in
  match l with
  | [x] => x
  | _ =>
    if existsb is_any l then
      if existsb is_named_none l then TUnion [TAny; TName KNamed c_none] else TAny
    else match l with [] => TNothing | _ => TUnion l end
  end.

(* ------------------------------------------------------------------ the generic bottom-up visitor *)
Section Visit.
  Variable fU : list ty -> ty.                   (* VisitUnionType, given the rebuilt type_list *)
  Variable fG : kind -> cid -> list ty -> ty.    (* VisitGenericType (exact class only) *)
  Variable fN : kind -> cid -> ty.               (* VisitNamedType / VisitClassType on a type leaf *)
  Variable fB : kind -> kind.                    (* the same callbacks on a generic's base_type *)
  Fixpoint visit (t : ty) : ty :=
    match t with
    | TName k c => fN k c
    | TAny => TAny
    | TNothing => TNothing
    | TLit n => TLit n
    | TUnion ts => fU (norm_union (map visit ts))
    | TGen k c ps => fG (fB k) c (map visit ps)
    | TTup k c ps => TTup (fB k) c (map visit ps)
    | TCall k c ps => TCall (fB k) c (map visit ps)
    | TVar n sc hb ps => TVar n sc hb (map visit ps)      (* bound / constraints are child nodes *)
    end.
End Visit.
Definition id_kind (k : kind) : kind := k.

(* optimize.SimplifyUnions *)
Definition simplify_unions : ty -> ty := visit join TGen TName id_kind.

(* optimize.SimplifyContainers; [collapse] = the class also has the VisitUnionType that returns the
   sole member of a one-member union (fix C11-single-member-union; regenerated flag) *)
Definition sc_generic (k : kind) (c : cid) (ps : list ty) : ty :=
  if forallb is_any ps then TName k c else TGen k c ps.
Definition sc_union (collapse : bool) (l : list ty) : ty :=
  if collapse then match l with [x] => x | _ => TUnion l end else TUnion l.
Definition simplify_containers (collapse : bool) : ty -> ty :=
  visit (sc_union collapse) sc_generic TName id_kind.

(* optimize.CollapseLongUnions(max_length) *)
Definition clu_union (max : nat) (l : list ty) : ty :=
  if (max <? length l) && negb (existsb is_lit l) then TAny
  else if existsb is_any l then join l
  else TUnion l.
Definition collapse_long_unions (max : nat) : ty -> ty := visit (clu_union max) TGen TName id_kind.

(* optimize.AdjustGenericType: VisitClassType only; ClassType("builtins.object") -> Any.
   (A GenericType whose base_type is ClassType(builtins.object) is outside the modelled domain.) *)
Definition agt_name (k : kind) (c : cid) : ty :=
  match k with
  | KClass => if Nat.eqb c c_object then TAny else TName k c
  | KNamed => TName k c
  end.
Definition adjust_generic_type : ty -> ty := visit TUnion TGen agt_name id_kind.

(* visitors.NamedTypeToClassType (the structural part of LookupClasses) *)
Definition to_class (_ : kind) : kind := KClass.
Definition resolve : ty -> ty := visit TUnion TGen (fun _ c => TName KClass c) to_class.

(* ------------------------------------------------------------------ class hierarchy *)
Fixpoint supers (H : hier) (d : cid) : list cid :=
  match H with
  | [] => []
  | (k, ss) :: r => if Nat.eqb k d then ss else supers r d
  end.
Definition hkeys (H : hier) : list cid := dedup_by Nat.eqb (map fst H).

(* SuperClassHierarchy.ExpandSubClasses: everything reachable through the inverted table *)
Definition subs_step (H : hier) (S : list cid) : list cid :=
  S ++ filter (fun d => negb (memn d S) && existsb (fun s => memn s S) (supers H d)) (hkeys H).
Fixpoint iter {A} (n : nat) (f : A -> A) (x : A) : A :=
  match n with O => x | S n' => iter n' f (f x) end.
Definition expand_sub (H : hier) (m : cid) : list cid := iter (length H) (subs_step H) [m].

(* optimize.SimplifyUnionsWithSuperclasses.VisitUnionType *)
Definition name_of (t : ty) : option cid := match t with TName _ c => Some c | _ => None end.
Definition suws_count (H : hier) (members : list cid) (n : cid) : nat :=
  length (filter (fun m => memn n (expand_sub H m)) members).
Definition suws_union (H : hier) (l : list ty) : ty :=
  let members := filter_map name_of (dedup l) in
  join (filter (fun t => match name_of t with
                         | Some n => suws_count H members n <=? 1
                         | None => true end) l).
Definition simplify_superclasses (H : hier) : ty -> ty := visit (suws_union H) TGen TName id_kind.

(* ------------------------------------------------------------------ optimize.CombineContainers *)
Inductive ckey := K1 (k : kind) (c : cid) | KN (k : kind) (c : cid) (n : nat).
Definition ckey_eqb (a b : ckey) : bool :=
  match a, b with
  | K1 k c, K1 k' c' => kind_eqb k k' && Nat.eqb c c'
  | KN k c n, KN k' c' n' => kind_eqb k k' && Nat.eqb c c' && Nat.eqb n n'
  | _, _ => false
  end.
(* CombineContainers._key, for isinstance(t, GenericType) *)
Definition key_of (t : ty) : option ckey :=
  match t with
  | TGen k c _ => Some (K1 k c)
  | TTup k c ps => Some (KN k c (length ps))
  | TCall k c ps => Some (KN k c (length ps))
  | _ => None
  end.
Definition is_generic (t : ty) : bool := is_some (key_of t).
Definition params_of (t : ty) : list ty :=
  match t with TGen _ _ ps | TTup _ _ ps | TCall _ _ ps => ps | _ => [] end.
Definition with_params (t : ty) (ps : list ty) : ty :=
  match t with
  | TGen k c _ => TGen k c ps
  | TTup k c _ => TTup k c ps
  | TCall k c _ => TCall k c ps
  | _ => t
  end.
Definition base_cid (t : ty) : cid :=
  match t with TGen _ c _ | TTup _ c _ | TCall _ c _ | TName _ c => c | _ => 0 end.
Definition is_tup (t : ty) : bool := match t with TTup _ _ _ => true | _ => false end.
Definition is_call (t : ty) : bool := match t with TCall _ _ _ => true | _ => false end.
Definition container_names (tup : bool) : list cid :=
  if tup then [c_tuple; c_typing_tuple] else [c_callable].

(* CombineContainers._should_merge(pytd_type, union); [tup] selects TupleType / CallableType *)
Fixpoint should_merge (tup : bool) (len : option nat) (l : list ty) : bool :=
  match l with
  | [] => false
  | t :: r =>
    if (if tup then is_tup t else is_call t) then
      match len with
      | None => should_merge tup (Some (length (params_of t))) r
      | Some n => if Nat.eqb n (length (params_of t)) then should_merge tup len r else true
      end
    else if is_generic t && memn (base_cid t) (container_names tup) then true
    else should_merge tup len r
  end.

Fixpoint last_or (d : ty) (l : list ty) : ty :=
  match l with [] => d | [x] => x | _ :: r => last_or d r end.

Definition cc_conv (mt mc : bool) (t : ty) : ty :=
  match t with
  | TTup k c ps => if mt then TGen k c [join ps] else t
  | TCall k c ps => if mc then TGen k c [TAny; last_or TAny ps] else t
  | _ => t
  end.

Fixpoint zip_join (ps qs : list ty) : list ty :=
  match ps, qs with
  | p :: ps', q :: qs' => join [p; q] :: zip_join ps' qs'
  | _, _ => []
  end.

Definition has_key (k : ckey) (t : ty) : bool :=
  match key_of t with Some k' => ckey_eqb k' k | None => false end.
(* collect[key] after the collecting loop *)
Definition merged (k : ckey) (l : list ty) : list ty :=
  match filter (has_key k) l with
  | [] => []
  | t0 :: rest => fold_left (fun acc t => zip_join acc (params_of t)) rest (params_of t0)
  end.
Definition has_redundant (l : list ty) : bool :=
  let ks := filter_map key_of l in
  negb (Nat.eqb (length (dedup_by ckey_eqb ks)) (length ks)).

(* the final loop: result = JoinTypes([result, add]) *)
Fixpoint cc_emit (rec : ty -> option ty) (whole : list ty) (done : list ckey) (result : ty)
         (l : list ty) : option ty :=
  match l with
  | [] => Some result
  | t :: r =>
    match key_of t with
    | None => cc_emit rec whole done (join [result; t]) r
    | Some k =>
      if mem_by ckey_eqb k done then cc_emit rec whole done result r
      else match map_opt rec (merged k whole) with
           | None => None
           | Some ps' => cc_emit rec whole (k :: done) (join [result; with_params t ps']) r
           end
    end
  end.

(* CombineContainers.VisitUnionType on the rebuilt type_list; [rec] = p.Visit(CombineContainers()) *)
Definition cc_union (rec : ty -> option ty) (l0 : list ty) : option ty :=
  if negb (existsb is_generic l0) then Some (TUnion l0)
  else
    let u := join l0 in
    let l := match u with TUnion l' => l' | _ => [u] end in
    let mt := should_merge true None l in
    let mc := should_merge false None l in
    let l2 := if mt || mc then map (cc_conv mt mc) l else l in
    if negb (has_redundant l2) then Some (TUnion l2)
    else cc_emit rec l2 [] TNothing l2.

(* fuel bounds the nesting of Visit calls (the re-visit of merged parameters is not structural);
   exhaustion is reported as None and monitored by the check *)
Fixpoint cc (fuel : nat) (t : ty) {struct fuel} : option ty :=
  match fuel with
  | O => None
  | S f =>
    match t with
    | TUnion ts =>
      match map_opt (cc f) ts with
      | None => None
      | Some ts' => cc_union (cc f) (norm_union ts')
      end
    | TGen k c ps => option_map (TGen k c) (map_opt (cc f) ps)
    | TTup k c ps => option_map (TTup k c) (map_opt (cc f) ps)
    | TCall k c ps => option_map (TCall k c) (map_opt (cc f) ps)
    | TVar n sc hb ps => option_map (TVar n sc hb) (map_opt (cc f) ps)
    | _ => Some t
    end
  end.

Fixpoint size (t : ty) : nat :=
  match t with
  | TUnion ts | TGen _ _ ts | TTup _ _ ts | TCall _ _ ts | TVar _ _ _ ts =>
      S (fold_right (fun x n => size x + n) 0 ts)
  | _ => 1
  end.
Definition cc_top (t : ty) : option ty := cc (2 * size t + 2) t.
Definition combine_containers (t : ty) : ty := match cc_top t with Some t' => t' | None => t end.

(* ------------------------------------------------------------------ declarations *)
Definition map_param (f : ty -> ty) (p : param) : param :=
  mkParam (p_name p) (f (p_ty p)) (p_kind p) (p_opt p) (option_map f (p_mut p)).
(* position-wise: parameters (type and mutated type), return type, exceptions *)
(* [ft]: the TypeParameters of the template items *)
Definition map_sig4 (fp fr fe ft : ty -> ty) (s : sig) : sig :=
  mkSig (map (map_param fp) (s_params s)) (option_map (map_param fp) (s_star s))
        (option_map (map_param fp) (s_starstar s)) (fr (s_ret s)) (map fe (s_exc s)) (map ft (s_template s)).
Definition same_ty (t : ty) : ty := t.
Definition map_sig3 (fp fr fe : ty -> ty) : sig -> sig := map_sig4 fp fr fe same_ty.
Definition map_sig (f : ty -> ty) : sig -> sig := map_sig4 f f f f.
Definition map_func (g : sig -> sig) (fn : func) : func :=
  mkFunc (f_name fn) (f_kind fn) (map g (f_sigs fn)).
Definition map_const (f : ty -> ty) (c : const) : const := mkConst (k_name c) (f (k_ty c)).
Definition map_class_t (gf : cid -> func -> func) (gc : const -> const) (ft : ty -> ty) (c : class) : class :=
  mkClass (cl_name c) (cl_bases c) (map (gf (cl_name c)) (cl_methods c)) (map gc (cl_consts c))
          (map ft (cl_template c)).
Definition map_class (gf : cid -> func -> func) (gc : const -> const) : class -> class :=
  map_class_t gf gc same_ty.
(* position-wise over a unit: parameters, returns, exceptions, constants *)
Definition map_unit5 (fp fr fe fc ft : ty -> ty) (u : unit_) : unit_ :=
  mkUnit (map (map_const fc) (u_consts u))
         (map (map_class_t (fun _ => map_func (map_sig4 fp fr fe ft)) (map_const fc) ft) (u_classes u))
         (map (map_func (map_sig4 fp fr fe ft)) (u_funcs u)).
Definition map_unit4 (fp fr fe fc : ty -> ty) : unit_ -> unit_ := map_unit5 fp fr fe fc same_ty.
(* a pass acting on every type position of the unit (templates of signatures and classes included) *)
Definition map_ty_unit (f : ty -> ty) : unit_ -> unit_ := map_unit5 f f f f f.
(* a pass acting on whole functions (methods included) *)
Definition map_funcs_unit (g : func -> func) (u : unit_) : unit_ :=
  mkUnit (u_consts u)
         (map (map_class (fun _ => g) (fun c => c)) (u_classes u))
         (map g (u_funcs u)).

Definition types_of_param (p : param) : list ty :=
  p_ty p :: match p_mut p with Some m => [m] | None => [] end.
Definition types_of_oparam (p : option param) : list ty :=
  match p with Some p => types_of_param p | None => [] end.
Definition types_of_sig (s : sig) : list ty :=
  flat_map types_of_param (s_params s) ++ types_of_oparam (s_star s)
  ++ types_of_oparam (s_starstar s) ++ [s_ret s] ++ s_exc s.
Definition types_of_func (f : func) : list ty := flat_map types_of_sig (f_sigs f).
Definition types_of_unit (u : unit_) : list ty :=
  map k_ty (u_consts u)
  ++ flat_map (fun c => flat_map types_of_func (cl_methods c) ++ map k_ty (cl_consts c)) (u_classes u)
  ++ flat_map types_of_func (u_funcs u).

(* strict equality of parameters / signatures (dict keys) *)
Definition param_eqb (a b : param) : bool :=
  Nat.eqb (p_name a) (p_name b) && ty_eqb (p_ty a) (p_ty b) && Nat.eqb (p_kind a) (p_kind b)
  && Bool.eqb (p_opt a) (p_opt b) && option_eqb ty_eqb (p_mut a) (p_mut b).
Definition stripped_eqb (a b : sig) : bool :=
  list_eqb param_eqb (s_params a) (s_params b) && option_eqb param_eqb (s_star a) (s_star b)
  && option_eqb param_eqb (s_starstar a) (s_starstar b) && list_eqb ty_eqb (s_template a) (s_template b).
Definition sig_eqb (a b : sig) : bool :=
  stripped_eqb a b && ty_eqb (s_ret a) (s_ret b) && list_eqb ty_eqb (s_exc a) (s_exc b).

(* optimize.RemoveDuplicates.VisitFunction *)
Definition remove_duplicates_f (fn : func) : func :=
  mkFunc (f_name fn) (f_kind fn) (dedup_by sig_eqb (f_sigs fn)).

(* optimize.CombineReturnsAndExceptions.VisitFunction: groups in first-occurrence order *)
Definition combine_group (sigs : list sig) (s0 : sig) : sig :=
  let ms := filter (stripped_eqb s0) sigs in
  mkSig (s_params s0) (s_star s0) (s_starstar s0)
        (join (dedup_py (map s_ret ms))) (dedup_py (flat_map s_exc ms)) (s_template s0).
Definition combine_returns_f (fn : func) : func :=
  mkFunc (f_name fn) (f_kind fn)
         (map (combine_group (f_sigs fn)) (dedup_by stripped_eqb (f_sigs fn))).

(* optimize.NormalizeGenericSelfTypes.VisitFunction inside class [cls] *)
Definition normalize_self_sig (cls : cid) (s : sig) : sig :=
  match s_params s with
  | p :: rest =>
    if Nat.eqb (p_name p) 0 && is_generic (p_ty p) && Nat.eqb (base_cid (p_ty p)) cls then
      let base := match p_ty p with
                  | TGen k c _ | TTup k c _ | TCall k c _ => TName k c
                  | t => t end in
      mkSig (mkParam (p_name p) base (p_kind p) (p_opt p) (p_mut p) :: rest)
            (s_star s) (s_starstar s) (s_ret s) (s_exc s) (s_template s)
    else s
  | [] => s
  end.
Definition normalize_self (u : unit_) : unit_ :=
  mkUnit (u_consts u)
         (map (map_class (fun cls => map_func (normalize_self_sig cls)) (fun c => c)) (u_classes u))
         (u_funcs u).

(* optimize.AdjustReturnAndConstantGenericType: return types and constants only *)
Definition adjust_return_and_constant : unit_ -> unit_ :=
  map_unit4 same_ty adjust_generic_type same_ty adjust_generic_type.

(* optimize.AbsorbMutableParameters.VisitParameter *)
Definition absorb_param (p : param) : param :=
  match p_mut p with
  | None => p
  | Some m => mkParam (p_name p) (join [p_ty p; m]) (p_kind p) (p_opt p) None
  end.
Definition absorb_sig (s : sig) : sig :=
  mkSig (map absorb_param (s_params s)) (option_map absorb_param (s_star s))
        (option_map absorb_param (s_starstar s)) (s_ret s) (s_exc s) (s_template s).

(* ------------------------------------------------------------------ optimize.MergeTypeParameters
   TypeParameterScope.type_params_stack[-1] inside a method: a dict TypeParameter -> Class | Signature; the
   signature's template items shadow the class's (dict.update), keys compare structurally. *)
Definition is_var (t : ty) : bool := match t with TVar _ _ _ _ => true | _ => false end.
Definition var_name (t : ty) : nat := match t with TVar n _ _ _ => n | _ => 0 end.

(* the UnionType nodes below t in the order VisitUnionType is called (post-order; a TypeParameter's
   fields are visited constraints first, then bound) *)
Fixpoint unions_in (t : ty) : list (list ty) :=
  match t with
  | TUnion ts => flat_map unions_in ts ++ [ts]
  | TGen _ _ ps | TTup _ _ ps | TCall _ _ ps => flat_map unions_in ps
  | TVar _ _ hb ps =>
      match ps with
      | [] => []
      | b :: cs => if hb then flat_map unions_in cs ++ unions_in b else unions_in b ++ flat_map unions_in cs
      end
  | _ => []
  end.
Definition unions_param (p : param) : list (list ty) :=
  unions_in (p_ty p) ++ match p_mut p with Some m => unions_in m | None => [] end.
Definition unions_oparam (p : option param) : list (list ty) :=
  match p with Some p => unions_param p | None => [] end.
(* Signature fields in order: params, starargs, starstarargs, return_type, exceptions, template *)
Definition unions_sig (s : sig) : list (list ty) :=
  flat_map unions_param (s_params s) ++ unions_oparam (s_star s) ++ unions_oparam (s_starstar s)
  ++ unions_in (s_ret s) ++ flat_map unions_in (s_exc s) ++ flat_map unions_in (s_template s).

(* self.type_param_union: defaultdict(list) keyed by the parameter NAME *)
Definition tpu := list (nat * list ty).
Fixpoint tpu_get (m : tpu) (n : nat) : list ty :=
  match m with [] => [] | (k, l) :: r => if Nat.eqb k n then l else tpu_get r n end.
Fixpoint tpu_set (m : tpu) (n : nat) (l : list ty) : tpu :=
  match m with
  | [] => [(n, l)]
  | (k, l0) :: r => if Nat.eqb k n then (k, l) :: r else (k, l0) :: tpu_set r n l
  end.
(* _AppendNew(l1, l2).  The code tests `e1 is e2`; the model tests structural equality.  The two lists then
   differ only by later structural duplicates, which neither the `seen` set of _AllContaining nor the final
   JoinTypes can observe. *)
Definition append_new (l1 l2 : list ty) : list ty :=
  fold_left (fun acc e => if memb e acc then acc else acc ++ [e]) l2 l1.
(* MergeTypeParameters.VisitUnionType(u); [ftp] = IsFunctionTypeParameter *)
Definition tpu_step (ftp : ty -> bool) (m : tpu) (ts : list ty) : tpu :=
  let tps := filter is_var ts in
  fold_left (fun m t => if ftp t then tpu_set m (var_name t) (append_new (tpu_get m (var_name t)) tps) else m)
            tps m.
Definition tpu_of (ftp : ty -> bool) (s : sig) : tpu := fold_left (tpu_step ftp) (unions_sig s) [].

(* _AllContaining(type_param, seen): returns (result, seen afterwards); the set is shared by the recursion.
   fuel bounds the recursion depth (every nested call has added a new member to `seen`). *)
Fixpoint all_containing (fuel : nat) (m : tpu) (tp : ty) (seen : list ty) : option (list ty * list ty) :=
  match fuel with
  | O => None
  | S f =>
    fold_left (fun st other =>
      match st with
      | None => None
      | Some (result, seen) =>
        if memb other seen then Some (result, seen)
        else match all_containing f m other (other :: seen) with
             | None => None
             | Some (sub, seen') => Some (append_new result sub, seen')
             end
      end) (tpu_get m (var_name tp)) (Some ([tp], seen))
  end.

(* visitors.ReplaceTypeParameters(mapping): mapping[p] on the re-built parameter; KeyError = None *)
Fixpoint assoc_ty (sg : list (ty * ty)) (t : ty) : option ty :=
  match sg with [] => None | (k, v) :: r => if ty_eqb k t then Some v else assoc_ty r t end.
(* [map_opt] with the function outside the fixpoint, so that it can be used on the children of a type *)
Section MapOptS.
  Context {A B : Type}.
  Variable f : A -> option B.
  Fixpoint map_opt_s (l : list A) : option (list B) :=
    match l with
    | [] => Some []
    | x :: r => match f x, map_opt_s r with Some y, Some r' => Some (y :: r') | _, _ => None end
    end.
End MapOptS.
Fixpoint subst (sg : list (ty * ty)) (t : ty) : option ty :=
  match t with
  | TUnion ts => option_map (fun l => TUnion (norm_union l)) (map_opt_s (subst sg) ts)
  | TGen k c ps => option_map (TGen k c) (map_opt_s (subst sg) ps)
  | TTup k c ps => option_map (TTup k c) (map_opt_s (subst sg) ps)
  | TCall k c ps => option_map (TCall k c) (map_opt_s (subst sg) ps)
  | TVar n sc hb ps =>
      match map_opt_s (subst sg) ps with
      | None => None
      | Some ps' => assoc_ty sg (TVar n sc hb ps')
      end
  | _ => Some t
  end.
Definition subst_param (sg : list (ty * ty)) (p : param) : option param :=
  match subst sg (p_ty p), match p_mut p with None => Some None | Some m => option_map Some (subst sg m) end with
  | Some t, Some m => Some (mkParam (p_name p) t (p_kind p) (p_opt p) m)
  | _, _ => None
  end.
Definition subst_oparam (sg : list (ty * ty)) (p : option param) : option (option param) :=
  match p with None => Some None | Some p => option_map Some (subst_param sg p) end.
Definition subst_sig (sg : list (ty * ty)) (tmpl : list ty) (s : sig) : option sig :=
  match map_opt (subst_param sg) (s_params s), subst_oparam sg (s_star s), subst_oparam sg (s_starstar s),
        subst sg (s_ret s), map_opt (subst sg) (s_exc s), map_opt (subst sg) tmpl with
  | Some ps, Some st, Some ss, Some r, Some ex, Some tm => Some (mkSig ps st ss r ex tm)
  | _, _, _, _, _, _ => None
  end.

(* the loop of VisitSignature over sig.template with _ReplaceByOuterIfNecessary; state = (new_template,
   substitutions), newest substitution first *)
Definition mtp_item (fuel : nat) (m : tpu) (ctp : ty -> bool)
           (acc : option (list ty * list (ty * ty))) (item : ty) : option (list ty * list (ty * ty)) :=
  match acc with
  | None => None
  | Some (tmpl, sg) =>
    match all_containing fuel m item [] with
    | None => None
    | Some (cont, _) =>
      match filter ctp cont with
      | [] => Some (tmpl ++ [item], sg)
      | cps => Some (tmpl, (item, join cps) :: sg)
      end
    end
  end.
Definition mtp_fuel (m : tpu) : nat := S (S (length (flat_map snd m))).
(* MergeTypeParameters.VisitSignature inside a class with template [ct] ([] at module level).
   `sig.template == new_template` compares a tuple with a list, so the "nothing changed" exit is never
   taken: every signature is re-built, substituted and sent through SimplifyUnions. *)
Definition mtp_sig (ct : list ty) (s : sig) : option sig :=
  let st := s_template s in
  let ftp := fun t => memb t st in
  let ctp := fun t => memb t ct && negb (memb t st) in
  let m := tpu_of ftp s in
  match fold_left (mtp_item (mtp_fuel m) m ctp) st (Some ([], map (fun k => (k, k)) (st ++ ct))) with
  | None => None
  | Some (tmpl, sg) => option_map (map_sig simplify_unions) (subst_sig sg tmpl s)
  end.
Definition mtp_func (ct : list ty) (f : func) : option func :=
  option_map (mkFunc (f_name f) (f_kind f)) (map_opt (mtp_sig ct) (f_sigs f)).
Definition mtp_class (c : class) : option class :=
  option_map (fun ms => mkClass (cl_name c) (cl_bases c) ms (cl_consts c) (cl_template c))
             (map_opt (mtp_func (cl_template c)) (cl_methods c)).
(* None: a TypeParameter outside every enclosing template (KeyError in the code) or fuel exhaustion *)
Definition merge_type_parameters (u : unit_) : option unit_ :=
  match map_opt mtp_class (u_classes u), map_opt (mtp_func []) (u_funcs u) with
  | Some cs, Some fs => Some (mkUnit (u_consts u) cs fs)
  | _, _ => None
  end.

(* visitors.ClassAsType: the class itself, parameterised with its template if it has one *)
Definition class_as_type (c : class) : ty :=
  match cl_template c with [] => TName KNamed (cl_name c) | ps => TGen KNamed (cl_name c) ps end.
(* visitors.AdjustSelf (force=False) inside the class whose type is [ct], method kind [mk] *)
Definition adjust_self_param (ct : ty) (mk : nat) (p : param) : param :=
  if negb (is_any (p_ty p)) then p
  else if Nat.eqb (p_name p) 0 && (Nat.eqb mk 0 || Nat.eqb mk 3) then
    mkParam (p_name p) ct (p_kind p) (p_opt p) (p_mut p)
  else if Nat.eqb (p_name p) 1 && Nat.eqb mk 2 then
    mkParam (p_name p) (TGen KNamed c_type [ct]) (p_kind p) (p_opt p) (p_mut p)
  else p.
Definition adjust_self_func (ct : ty) (fn : func) : func :=
  let g := adjust_self_param ct (f_kind fn) in
  map_func (fun s => mkSig (map g (s_params s)) (option_map g (s_star s))
                           (option_map g (s_starstar s)) (s_ret s) (s_exc s) (s_template s)) fn.
Definition adjust_self (u : unit_) : unit_ :=
  mkUnit (u_consts u)
         (map (fun c => mkClass (cl_name c) (cl_bases c) (map (adjust_self_func (class_as_type c)) (cl_methods c))
                                (cl_consts c) (cl_template c)) (u_classes u))
         (u_funcs u).

(* visitors.LookupClasses: every NamedType becomes a ClassType (class bases included) *)
Definition resolve_unit (u : unit_) : unit_ :=
  let u' := map_ty_unit resolve u in
  mkUnit (u_consts u')
         (map (fun c => mkClass (cl_name c) (map (fun b => (KClass, snd b)) (cl_bases c))
                                (cl_methods c) (cl_consts c) (cl_template c)) (u_classes u'))
         (u_funcs u').

(* visitors.ExtractSuperClassesByName on the node; `superclasses.update(node...)` lets it shadow deps *)
Definition hier_of (u : unit_) : hier := map (fun c => (cl_name c, map snd (cl_bases c))) (u_classes u).

(* ------------------------------------------------------------------ optimize.Optimize *)
Definition enabled (o : opts) (f : flag) : bool :=
  match f with
  | FDeps => o_deps o
  | FLossy => o_lossy o
  | FUseAbcs => o_use_abcs o
  | FMaxUnion => negb (Nat.eqb (o_max_union o) 0)
  | FRemoveMutable => o_remove_mutable o
  | FCanDoLookup => o_can_do_lookup o
  end.

(* None: a pass outside the model (lossy ones) or CombineContainers fuel exhaustion.
   [cs] selects the SimplifyContainers variant. *)
Definition run_pass (cs : bool) (o : opts) (Hd : hier) (p : pass) (u : unit_) : option unit_ :=
  match p with
  | PNormalizeGenericSelfTypes => Some (normalize_self u)
  | PRemoveDuplicates => Some (map_funcs_unit remove_duplicates_f u)
  | PSimplifyUnions => Some (map_ty_unit simplify_unions u)
  | PCombineReturnsAndExceptions => Some (map_funcs_unit combine_returns_f u)
  | PCombineContainers =>
      if forallb (fun t => is_some (cc_top t)) (types_of_unit u)
      then Some (map_ty_unit combine_containers u) else None
  | PSimplifyContainers => Some (map_ty_unit (simplify_containers cs) u)
  | PSimplifyUnionsWithSuperclasses => Some (map_ty_unit (simplify_superclasses (hier_of u ++ Hd)) u)
  | PFindCommonSuperClasses => None
  | PUseAbcs => None
  | PCollapseLongUnions => Some (map_ty_unit (collapse_long_unions (o_max_union o)) u)
  | PAdjustReturnAndConstantGenericType => Some (adjust_return_and_constant u)
  | PAbsorbMutableParameters => Some (map_funcs_unit (map_func absorb_sig) u)
  | PMergeTypeParameters => merge_type_parameters u
  | PAdjustSelf => Some (adjust_self u)
  | PLookupClasses => Some (resolve_unit u)
  end.

Fixpoint run_passes (cs : bool) (o : opts) (Hd : hier) (ps : list (list flag * pass)) (u : unit_)
  : option unit_ :=
  match ps with
  | [] => Some u
  | (fl, p) :: r =>
    if forallb (enabled o) fl then
      match run_pass cs o Hd p u with
      | Some u' => run_passes cs o Hd r u'
      | None => None
      end
    else run_passes cs o Hd r u
  end.

(* [cs]: SimplifyContainers also collapses one-member unions (regenerated from the class body) *)
Definition opt (o : opts) (Hd : hier) (u : unit_) : option unit_ :=
  run_passes sc_collapse_single o Hd passes u.

(* Optimize applied to a bare type (pretty_printer_base.print_pytd, PyTDFunction return joining):
   the declaration-level visitors find nothing to act on; deps is None there. *)
Definition run_pass_ty (o : opts) (p : pass) (t : ty) : option ty :=
  match p with
  | PSimplifyUnions => Some (simplify_unions t)
  | PCombineContainers => cc_top t
  | PSimplifyContainers => Some (simplify_containers sc_collapse_single t)
  | PCollapseLongUnions => Some (collapse_long_unions (o_max_union o) t)
  | PFindCommonSuperClasses | PUseAbcs | PSimplifyUnionsWithSuperclasses | PLookupClasses => None
  | _ => Some t
  end.
Fixpoint run_passes_ty (o : opts) (ps : list (list flag * pass)) (t : ty) : option ty :=
  match ps with
  | [] => Some t
  | (fl, p) :: r =>
    if forallb (enabled o) fl then
      match run_pass_ty o p t with
      | Some t' => run_passes_ty o r t'
      | None => None
      end
    else run_passes_ty o r t
  end.
Definition opt_ty (o : opts) (t : ty) : option ty := run_passes_ty o passes t.

(* the settings pytype itself uses (io.generate_pyi_ast) *)
Definition pytype_opts : opts := mkOpts true false false default_max_union false true.

(* ------------------------------------------------------------------ semantics *)
Inductive value :=
| Obj (c : cid) (contents : list (list value))   (* instance of class c; i-th list = what it holds for the i-th type parameter *)
| Tup (items : list value)                       (* a tuple of exactly these items *)
| Fn (arity : nat) (res : value)                 (* a function of that arity returning res *)
| LitV (n : nat).                                (* the int n *)

Definition cls_of (v : value) : cid :=
  match v with Obj c _ => c | Tup _ => c_tuple | Fn _ _ => c_callable | LitV _ => c_int end.
Definition contents_of (v : value) : list (list value) :=
  match v with Obj _ cs => cs | Tup items => [items] | Fn _ r => [[]; [r]] | LitV _ => [] end.

(* nominal subclassing through the table, reflexive and transitive *)
Inductive Sub (H : hier) : cid -> cid -> Prop :=
| sub_refl : forall d, Sub H d d
| sub_step : forall d s c, In s (supers H d) -> Sub H s c -> Sub H d c.

(* Callable parameter positions are not constrained (DESIGN, stated limitation). *)
Fixpoint admits (H : hier) (t : ty) (v : value) {struct t} : Prop :=
  match t with
  | TName _ c => Sub H (cls_of v) c
  | TAny => True
  | TNothing => False
  | TLit n => v = LitV n
  | TUnion ts => (fix ex l := match l with [] => False | t' :: r => admits H t' v \/ ex r end) ts
  | TGen _ c ps =>
      Sub H (cls_of v) c /\
      (fix go ps cs := match ps with
                       | [] => True
                       | p :: ps' =>
                         match cs with
                         | [] => True
                         | c0 :: cs' =>
                           (fix all vs := match vs with [] => True | x :: r => admits H p x /\ all r end) c0
                           /\ go ps' cs'
                         end
                       end) ps (contents_of v)
  | TTup _ c ps =>
      match v with
      | Tup items =>
        Sub H c_tuple c /\
        (fix f2 ps items := match ps, items with
                            | [], [] => True
                            | p :: ps', x :: items' => admits H p x /\ f2 ps' items'
                            | _, _ => False end) ps items
      | _ => False
      end
  | TCall _ c ps =>
      match v with
      | Fn a r =>
        Sub H c_callable c /\ length ps = S a /\
        (fix lst ps := match ps with
                       | [] => False
                       | p :: r' => match r' with [] => admits H p r | _ => lst r' end
                       end) ps
      | _ => False
      end
  (* a type parameter is read as its upper value (pytd.TypeParameter.upper_value): the union of its
     constraints, else its bound, else Any *)
  | TVar _ _ hb ps =>
      match ps with
      | [] => True
      | b :: cs =>
        if hb then match cs with
                   | [] => admits H b v
                   | _ => (fix ex l := match l with [] => False | t' :: r => admits H t' v \/ ex r end) cs
                   end
        else admits H b v \/ (fix ex l := match l with [] => False | t' :: r => admits H t' v \/ ex r end) cs
      end
  end.
