(* C11 — the fuel of the CombineContainers model is always sufficient: [cc_top t] is never [None].
   No well-formedness hypothesis.

   Idea.  After one union step every union is "alternating" (no UnionType directly inside a UnionType),
   and the re-visit of merged parameters only sees such types, one generic level below the union that is
   being rebuilt.  For alternating types the fuel need is 2 * (generic depth) + 1 or 2. *)
From Coq Require Import List Arith Bool Lia.
From PV Require Import Opt.Syntax Generated.C11_Passes Opt.Model Opt.Spec Opt.Proofs.
Import ListNotations.

(* ------------------------------------------------------------------ measures *)
(* nesting depth counting only the non-union nodes that have children *)
Fixpoint gd (t : ty) : nat :=
  match t with
  | TUnion ts => fold_right (fun x n => Nat.max (gd x) n) 0 ts
  | TGen _ _ ps | TTup _ _ ps | TCall _ _ ps | TVar _ _ _ ps =>
      S (fold_right (fun x n => Nat.max (gd x) n) 0 ps)
  | _ => 0
  end.
(* full depth *)
Fixpoint dp (t : ty) : nat :=
  match t with
  | TUnion ts | TGen _ _ ts | TTup _ _ ts | TCall _ _ ts | TVar _ _ _ ts =>
      S (fold_right (fun x n => Nat.max (dp x) n) 0 ts)
  | _ => 1
  end.
(* no UnionType directly inside a UnionType, anywhere *)
Fixpoint altb (t : ty) : bool :=
  match t with
  | TUnion ts => forallb (fun x => negb (is_union x)) ts && forallb altb ts
  | TGen _ _ ps | TTup _ _ ps | TCall _ _ ps | TVar _ _ _ ps => forallb altb ps
  | _ => true
  end.

Notation mxg l := (fold_right (fun x n => Nat.max (gd x) n) 0 l).
Notation mxd l := (fold_right (fun x n => Nat.max (dp x) n) 0 l).

Definition Q (g : nat) (t : ty) : Prop := altb t = true /\ gd t <= g.
Definition NU (g : nat) (t : ty) : Prop := is_union t = false /\ Q g t.
Definition bnd (t : ty) : nat := 2 * gd t + (if is_union t then 2 else 1).

(* ------------------------------------------------------------------ arithmetic of the measures *)
Lemma mxg_In : forall l x, In x l -> gd x <= mxg l.
Proof.
  induction l as [|a r IH]; simpl; intros x Hx; [contradiction|].
  destruct Hx as [<-|Hx]; [lia|]. specialize (IH x Hx). lia.
Qed.
Lemma mxg_le : forall l g, (forall x, In x l -> gd x <= g) -> mxg l <= g.
Proof.
  induction l as [|a r IH]; simpl; intros g H; [lia|].
  assert (gd a <= g) by (apply H; left; reflexivity).
  assert (mxg r <= g) by (apply IH; intros; apply H; right; assumption). lia.
Qed.
Lemma mxd_In : forall l x, In x l -> dp x <= mxd l.
Proof.
  induction l as [|a r IH]; simpl; intros x Hx; [contradiction|].
  destruct Hx as [<-|Hx]; [lia|]. specialize (IH x Hx). lia.
Qed.
Lemma mxg_le_mxd : forall l, Forall (fun x => gd x <= dp x) l -> mxg l <= mxd l.
Proof. induction 1; simpl; lia. Qed.

Lemma gd_le_dp : forall t, gd t <= dp t.
Proof.
  induction t using ty_ind'; simpl; try lia;
    pose proof (mxg_le_mxd _ H); lia.
Qed.

Lemma dp_pos : forall t, 1 <= dp t.
Proof. destruct t; simpl; lia. Qed.

Lemma mxd_le_sum : forall l, Forall (fun x => dp x <= size x) l ->
  mxd l <= fold_right (fun x n => size x + n) 0 l.
Proof. induction 1; simpl; lia. Qed.

Lemma dp_le_size : forall t, dp t <= size t.
Proof.
  induction t using ty_ind'; simpl; try lia;
    pose proof (mxd_le_sum _ H); lia.
Qed.

Lemma bnd_le : forall t, bnd t <= 2 * gd t + 2.
Proof. intros t. unfold bnd. destruct (is_union t); lia. Qed.
Lemma bnd_nu : forall t, is_union t = false -> bnd t = 2 * gd t + 1.
Proof. intros t U. unfold bnd. rewrite U. reflexivity. Qed.

(* ------------------------------------------------------------------ the invariant, constructor by constructor *)
Lemma Q_mono : forall g g' t, g <= g' -> Q g t -> Q g' t.
Proof. intros g g' t L [A B]. split; [assumption | lia]. Qed.

Lemma NU_Q : forall g l, Forall (NU g) l -> Forall (Q g) l.
Proof. intros g l F. eapply Forall_impl; [|exact F]. intros a [_ W]; exact W. Qed.

Lemma Q_union : forall g ts, Q g (TUnion ts) <-> Forall (NU g) ts.
Proof.
  intros g ts. unfold NU, Q. simpl. rewrite andb_true_iff, !forallb_forall, Forall_forall. split.
  - intros [[A B] C] x Hx. split; [|split].
    + specialize (A x Hx). destruct (is_union x); [discriminate | reflexivity].
    + auto.
    + pose proof (mxg_In ts x Hx). lia.
  - intros H. split; [split|].
    + intros x Hx. destruct (H x Hx) as [U _]. rewrite U. reflexivity.
    + intros x Hx. apply (H x Hx).
    + apply mxg_le. intros x Hx. apply (H x Hx).
Qed.

Lemma Q_params : forall g ps,
  (forallb altb ps = true /\ S (mxg ps) <= g) <-> exists g', g = S g' /\ Forall (Q g') ps.
Proof.
  intros g ps. split.
  - intros [A B]. destruct g as [|g']; [lia|]. exists g'. split; [reflexivity|].
    apply Forall_forall. intros x Hx. split.
    + rewrite forallb_forall in A. auto.
    + pose proof (mxg_In ps x Hx). lia.
  - intros [g' [-> F]]. rewrite Forall_forall in F. split.
    + apply forallb_forall. intros x Hx. apply (F x Hx).
    + assert (mxg ps <= g') by (apply mxg_le; intros x Hx; apply (F x Hx)). lia.
Qed.

Lemma Q_gen : forall g k c ps, Q g (TGen k c ps) <-> exists g', g = S g' /\ Forall (Q g') ps.
Proof. intros. unfold Q. simpl. apply Q_params. Qed.
Lemma Q_tup : forall g k c ps, Q g (TTup k c ps) <-> exists g', g = S g' /\ Forall (Q g') ps.
Proof. intros. unfold Q. simpl. apply Q_params. Qed.
Lemma Q_call : forall g k c ps, Q g (TCall k c ps) <-> exists g', g = S g' /\ Forall (Q g') ps.
Proof. intros. unfold Q. simpl. apply Q_params. Qed.
Lemma Q_var : forall g n sc hb ps, Q g (TVar n sc hb ps) <-> exists g', g = S g' /\ Forall (Q g') ps.
Proof. intros. unfold Q. simpl. apply Q_params. Qed.

(* ------------------------------------------------------------------ JoinTypes / _FlattenTypes *)
Lemma flat_Q : forall g t, Q g t -> Forall (NU g) (flat t).
Proof.
  intros g t; induction t using ty_ind'; intros W; simpl;
    try (constructor; [split; [reflexivity | assumption] | constructor]).
  - constructor.
  - apply Q_union in W. apply Forall_forall. intros x Hx. apply in_flat_map in Hx.
    destruct Hx as [t [Hin Hx]]. rewrite Forall_forall in H, W. destruct (W t Hin) as [_ Wt].
    specialize (H t Hin Wt). rewrite Forall_forall in H. auto.
Qed.

Lemma join_Q : forall g ts, Forall (Q g) ts -> Q g (join ts).
Proof.
  intros g ts F. unfold join.
  assert (Fl : Forall (NU g) (dedup (flat_map flat ts))).
  { apply Forall_forall. intros x Hx. rewrite dedup_In in Hx. apply in_flat_map in Hx.
    destruct Hx as [t [Hin Hx]]. rewrite Forall_forall in F. pose proof (flat_Q g t (F t Hin)) as G.
    rewrite Forall_forall in G. auto. }
  remember (dedup (flat_map flat ts)) as l eqn:El. clear El.
  assert (G : Q g (if existsb is_any l
                   then if existsb is_named_none l then TUnion [TAny; TName KNamed c_none] else TAny
                   else match l with [] => TNothing | _ => TUnion l end)).
  { destruct (existsb is_any l).
    - destruct (existsb is_named_none l); split; simpl; try reflexivity; lia.
    - destruct l; [split; simpl; [reflexivity | lia] | apply Q_union; assumption]. }
  destruct l as [|y [|z r]]; try exact G. inversion Fl; subst. apply H1.
Qed.

Lemma norm_union_NU : forall g l, Forall (Q g) l -> Forall (NU g) (norm_union l).
Proof.
  intros g l F. apply Forall_forall. intros x Hx. unfold norm_union in Hx. rewrite dedup_In in Hx.
  apply in_flat_map in Hx. destruct Hx as [t [Hin Hx]]. rewrite Forall_forall in F. specialize (F t Hin).
  destruct t; simpl in Hx; try (destruct Hx as [<-|[]]; split; [reflexivity | exact F]).
  apply Q_union in F. rewrite Forall_forall in F. apply F; assumption.
Qed.

(* ------------------------------------------------------------------ the pieces of VisitUnionType *)
Lemma cc_conv_NU : forall g mt mc t, NU g t -> NU g (cc_conv mt mc t).
Proof.
  intros g mt mc t [U W]. destruct t; simpl; try (split; assumption).
  - destruct mt; [|split; assumption]. split; [reflexivity|].
    apply Q_tup in W. destruct W as [g' [-> F]]. apply Q_gen. exists g'. split; [reflexivity|].
    constructor; [apply join_Q; assumption | constructor].
  - destruct mc; [|split; assumption]. split; [reflexivity|].
    apply Q_call in W. destruct W as [g' [-> F]]. apply Q_gen. exists g'. split; [reflexivity|].
    constructor; [split; simpl; [reflexivity | lia]|]. constructor; [|constructor].
    destruct ps as [|p r]; [split; simpl; [reflexivity | lia]|].
    rewrite Forall_forall in F. apply F. apply last_or_In. discriminate.
Qed.

Lemma zip_join_Q : forall g a b, Forall (Q g) a -> Forall (Q g) b -> Forall (Q g) (zip_join a b).
Proof.
  intros g a; induction a as [|x r IH]; intros b Fa Fb; simpl; [constructor|].
  destruct b as [|y b']; [constructor|]. inversion Fa; inversion Fb; subst.
  constructor; [apply join_Q; constructor; [assumption|]; constructor; [assumption | constructor] | apply IH; assumption].
Qed.

Lemma fold_zip_Q : forall g rest init, Forall (Q g) init ->
  (forall m, In m rest -> Forall (Q g) (params_of m)) ->
  Forall (Q g) (fold_left (fun acc t => zip_join acc (params_of t)) rest init).
Proof.
  intros g rest; induction rest as [|a r IH]; intros init Fi Fr; simpl; [assumption|].
  apply IH; [apply zip_join_Q; [assumption | apply Fr; left; reflexivity]
            | intros m Hm; apply Fr; right; assumption].
Qed.

(* a generic member sits one level above its parameters *)
Lemma params_of_Q : forall g t key, key_of t = Some key -> Q g t ->
  exists g', g = S g' /\ Forall (Q g') (params_of t).
Proof.
  intros g t key K W. destruct t; simpl in K; try discriminate; simpl.
  - apply Q_gen in W; exact W.
  - apply Q_tup in W; exact W.
  - apply Q_call in W; exact W.
Qed.

Lemma merged_Q : forall g' key whole, Forall (Q (S g')) whole -> Forall (Q g') (merged key whole).
Proof.
  intros g' key whole F. unfold merged.
  pose proof (fun m => proj1 (filter_In (has_key key) m whole)) as Fi.
  destruct (filter (has_key key) whole) as [|t0 rest]; [constructor|].
  rewrite Forall_forall in F.
  assert (P : forall m, In m (t0 :: rest) -> Forall (Q g') (params_of m)).
  { intros m Hm. destruct (Fi m Hm) as [Hin Hk]. apply has_key_iff in Hk.
    destruct (params_of_Q _ _ _ Hk (F m Hin)) as [g2 [E F2]]. inversion E; subst. exact F2. }
  apply fold_zip_Q.
  - apply P. left; reflexivity.
  - intros m Hm. apply P. right; assumption.
Qed.

Lemma with_params_Q : forall g' t key ps, key_of t = Some key -> Forall (Q g') ps ->
  Q (S g') (with_params t ps).
Proof.
  intros g' t key ps K F. destruct t; simpl in K; try discriminate; simpl.
  - apply Q_gen. exists g'; auto.
  - apply Q_tup. exists g'; auto.
  - apply Q_call. exists g'; auto.
Qed.

(* ------------------------------------------------------------------ map_opt succeeds when every element does *)
Lemma map_opt_exists : forall {A B} (f : A -> option B) (R : B -> Prop) l,
  Forall (fun x => exists y, f x = Some y /\ R y) l ->
  exists l', map_opt f l = Some l' /\ Forall R l'.
Proof.
  intros A B f R l F. induction F as [|x r [y [Ey Ry]] _ [r' [Er Rr]]]; simpl.
  - exists []. split; [reflexivity | constructor].
  - rewrite Ey, Er. exists (y :: r'). split; [reflexivity | constructor; assumption].
Qed.

(* ------------------------------------------------------------------ the final loop *)
Lemma cc_emit_Q : forall g rec whole,
  (forall g', g = S g' -> forall m, Q g' m -> exists m', rec m = Some m' /\ Q g' m') ->
  Forall (Q g) whole ->
  forall l done result, Forall (Q g) l -> Q g result ->
  exists r, cc_emit rec whole done result l = Some r /\ Q g r.
Proof.
  intros g rec whole Hrec Fw. induction l as [|t r IH]; intros done result Fl Wr; simpl.
  - exists result. split; [reflexivity | assumption].
  - inversion Fl as [|? ? Wt Fr]; subst.
    destruct (key_of t) as [key|] eqn:Kt.
    + destruct (mem_by ckey_eqb key done).
      * apply IH; assumption.
      * destruct (params_of_Q _ _ _ Kt Wt) as [g' [Eg _]].
        assert (Fm : Forall (Q g') (merged key whole)).
        { apply merged_Q. rewrite <- Eg. exact Fw. }
        assert (Ex : exists ps', map_opt rec (merged key whole) = Some ps' /\ Forall (Q g') ps').
        { apply map_opt_exists. eapply Forall_impl; [|exact Fm]. intros m Wm. apply (Hrec g' Eg m Wm). }
        destruct Ex as [ps' [Em Fp]]. rewrite Em.
        apply IH; [assumption|]. apply join_Q. constructor; [assumption|]. constructor; [|constructor].
        rewrite Eg. eapply with_params_Q; eassumption.
    + apply IH; [assumption|]. apply join_Q. constructor; [assumption|]. constructor; [assumption | constructor].
Qed.

(* one VisitUnionType step *)
Lemma cc_union_spec : forall g rec l0,
  Forall (NU g) l0 ->
  (forall g', g = S g' -> forall m, Q g' m -> exists m', rec m = Some m' /\ Q g' m') ->
  exists t', cc_union rec l0 = Some t' /\ Q g t'.
Proof.
  intros g rec l0 F0 Hrec. unfold cc_union.
  destruct (negb (existsb is_generic l0)).
  { exists (TUnion l0). split; [reflexivity | apply Q_union; assumption]. }
  set (u := join l0).
  set (l := match u with TUnion l' => l' | _ => [u] end).
  assert (Wu : Q g u) by (apply join_Q; apply NU_Q; assumption).
  assert (Fl : Forall (NU g) l).
  { unfold l. destruct u; try (constructor; [split; [reflexivity | assumption] | constructor]).
    apply Q_union; assumption. }
  set (mt := should_merge true None l). set (mc := should_merge false None l).
  set (l2 := if mt || mc then map (cc_conv mt mc) l else l).
  assert (Fl2 : Forall (NU g) l2).
  { unfold l2. destruct (mt || mc); [|assumption]. apply Forall_forall. intros x Hx.
    apply in_map_iff in Hx. destruct Hx as [t [<- Hin]]. apply cc_conv_NU. rewrite Forall_forall in Fl; auto. }
  destruct (negb (has_redundant l2)).
  { exists (TUnion l2). split; [reflexivity | apply Q_union; assumption]. }
  apply cc_emit_Q with (g := g); try assumption; try (apply NU_Q; assumption).
  split; simpl; [reflexivity | lia].
Qed.

(* ------------------------------------------------------------------ children *)
Lemma children_ok : forall f ps,
  Forall (fun x => exists x', cc f x = Some x' /\ Q (gd x) x') ps ->
  exists ps', map_opt (cc f) ps = Some ps' /\ Forall (Q (mxg ps)) ps'.
Proof.
  intros f ps F. apply map_opt_exists. apply Forall_forall. intros x Hx.
  rewrite Forall_forall in F. destruct (F x Hx) as [x' [E W]]. exists x'. split; [assumption|].
  eapply Q_mono; [|exact W]. apply mxg_In; assumption.
Qed.

(* ------------------------------------------------------------------ alternating types: 2 * gd + 1 or 2 *)
Lemma cc_alt_total : forall n t, altb t = true -> bnd t <= n ->
  exists t', cc n t = Some t' /\ Q (gd t) t'.
Proof.
  induction n as [|f IH]; intros t A B.
  { pose proof (bnd_le t). unfold bnd in B. destruct (is_union t); lia. }
  assert (Ch : forall ps, forallb altb ps = true -> (forall x, In x ps -> bnd x <= f) ->
               exists ps', map_opt (cc f) ps = Some ps' /\ Forall (Q (mxg ps)) ps').
  { intros ps Ap Bp. apply children_ok. apply Forall_forall. intros x Hx. apply IH.
    - rewrite forallb_forall in Ap. auto.
    - auto. }
  assert (Bp : forall ps, 2 * S (mxg ps) + 1 <= S f -> forall x, In x ps -> bnd x <= f).
  { intros ps L x Hx. pose proof (bnd_le x). pose proof (mxg_In ps x Hx). lia. }
  destruct t; try (eexists; split; [reflexivity | split; [exact A | apply le_n]]).
  - (* union *)
    simpl in A. apply andb_true_iff in A. destruct A as [A1 A2].
    assert (B' : 2 * mxg ts + 2 <= S f) by exact B.
    destruct (Ch ts A2) as [ts' [Em Fs]].
    { intros x Hx. rewrite forallb_forall in A1. specialize (A1 x Hx).
      rewrite bnd_nu by (destruct (is_union x); [discriminate | reflexivity]).
      pose proof (mxg_In ts x Hx). lia. }
    destruct (cc_union_spec (mxg ts) (cc f) (norm_union ts')) as [t' [E W]].
    + apply norm_union_NU; assumption.
    + intros g' Eg m [Am Gm]. destruct (IH m Am) as [m' [Em' Wm']].
      * pose proof (bnd_le m). lia.
      * exists m'. split; [assumption|]. eapply Q_mono; [|exact Wm']. assumption.
    + exists t'. simpl. rewrite Em. split; assumption.
  - assert (B' : 2 * S (mxg ps) + 1 <= S f) by exact B.
    destruct (Ch ps A (Bp ps B')) as [ps' [Em Fs]]. simpl. rewrite Em. simpl.
    eexists; split; [reflexivity|]. apply Q_gen. exists (mxg ps); split; [reflexivity | assumption].
  - assert (B' : 2 * S (mxg ps) + 1 <= S f) by exact B.
    destruct (Ch ps A (Bp ps B')) as [ps' [Em Fs]]. simpl. rewrite Em. simpl.
    eexists; split; [reflexivity|]. apply Q_tup. exists (mxg ps); split; [reflexivity | assumption].
  - assert (B' : 2 * S (mxg ps) + 1 <= S f) by exact B.
    destruct (Ch ps A (Bp ps B')) as [ps' [Em Fs]]. simpl. rewrite Em. simpl.
    eexists; split; [reflexivity|]. apply Q_call. exists (mxg ps); split; [reflexivity | assumption].
  - assert (B' : 2 * S (mxg ps) + 1 <= S f) by exact B.
    destruct (Ch ps A (Bp ps B')) as [ps' [Em Fs]]. simpl. rewrite Em. simpl.
    eexists; split; [reflexivity|]. apply Q_var. exists (mxg ps); split; [reflexivity | assumption].
Qed.

(* ------------------------------------------------------------------ arbitrary types: 2 * depth *)
Lemma cc_total : forall n t, 2 * dp t <= n -> exists t', cc n t = Some t' /\ Q (gd t) t'.
Proof.
  induction n as [|f IH]; intros t B.
  { pose proof (dp_pos t). lia. }
  assert (Ch : forall ps, 2 * S (mxd ps) <= S f ->
               exists ps', map_opt (cc f) ps = Some ps' /\ Forall (Q (mxg ps)) ps').
  { intros ps L. apply children_ok. apply Forall_forall. intros x Hx. apply IH.
    pose proof (mxd_In ps x Hx). lia. }
  destruct t; try (eexists; split; [reflexivity | split; [reflexivity | apply le_n]]).
  - (* union *)
    assert (B' : 2 * S (mxd ts) <= S f) by exact B.
    destruct (Ch ts B') as [ts' [Em Fs]].
    assert (GD : mxg ts <= mxd ts).
    { apply mxg_le_mxd. apply Forall_forall. intros; apply gd_le_dp. }
    destruct (cc_union_spec (mxg ts) (cc f) (norm_union ts')) as [t' [E W]].
    + apply norm_union_NU; assumption.
    + intros g' Eg m [Am Gm]. destruct (cc_alt_total f m Am) as [m' [Em' Wm']].
      * pose proof (bnd_le m). lia.
      * exists m'. split; [assumption|]. eapply Q_mono; [|exact Wm']. assumption.
    + exists t'. simpl. rewrite Em. split; assumption.
  - assert (B' : 2 * S (mxd ps) <= S f) by exact B.
    destruct (Ch ps B') as [ps' [Em Fs]]. simpl. rewrite Em. simpl.
    eexists; split; [reflexivity|]. apply Q_gen. exists (mxg ps); split; [reflexivity | assumption].
  - assert (B' : 2 * S (mxd ps) <= S f) by exact B.
    destruct (Ch ps B') as [ps' [Em Fs]]. simpl. rewrite Em. simpl.
    eexists; split; [reflexivity|]. apply Q_tup. exists (mxg ps); split; [reflexivity | assumption].
  - assert (B' : 2 * S (mxd ps) <= S f) by exact B.
    destruct (Ch ps B') as [ps' [Em Fs]]. simpl. rewrite Em. simpl.
    eexists; split; [reflexivity|]. apply Q_call. exists (mxg ps); split; [reflexivity | assumption].
  - assert (B' : 2 * S (mxd ps) <= S f) by exact B.
    destruct (Ch ps B') as [ps' [Em Fs]]. simpl. rewrite Em. simpl.
    eexists; split; [reflexivity|]. apply Q_var. exists (mxg ps); split; [reflexivity | assumption].
Qed.

(* ------------------------------------------------------------------ the results *)
Theorem cc_top_total : forall t, cc_top t <> None.
Proof.
  intros t. unfold cc_top. destruct (cc_total (2 * size t + 2) t) as [t' [E _]].
  - pose proof (dp_le_size t). lia.
  - rewrite E. discriminate.
Qed.

Lemma combine_containers_spec : forall t, cc_top t = Some (combine_containers t).
Proof.
  intros t. unfold combine_containers. destruct (cc_top t) eqn:E; [reflexivity|].
  exfalso. exact (cc_top_total t E).
Qed.

Lemma cc_pass_total : forall u, forallb (fun t => is_some (cc_top t)) (types_of_unit u) = true.
Proof.
  intros u. apply forallb_forall. intros t _. destruct (cc_top t) eqn:E; [reflexivity|].
  exfalso. exact (cc_top_total t E).
Qed.

