(* C11 — pytd type AST, declarations, pass names and option flags (no proofs).
   Mirrors pytype/pytd/pytd.py for the node kinds the lossless optimiser touches.

   Class names are numbers (the harness owns the name <-> id map).  Ids with a fixed meaning, because
   the optimiser's code mentions these names literally:
     1 builtins.object      (AdjustGenericType)
     2 builtins.NoneType    (pytd_utils.JoinTypes)
     3 builtins.tuple       (CombineContainers._CONTAINER_NAMES)
     4 typing.Tuple         (CombineContainers._CONTAINER_NAMES)
     5 typing.Callable      (CombineContainers._CONTAINER_NAMES)
     6 NoneType             (JoinTypes, the unresolved spelling)
     7 builtins.type        (visitors.AdjustSelf, cls parameter)
     8 builtins.int         (class of Literal[n] values; semantics only)
   The translator (harness/props/c11.py) checks these literals against /repo on every run. *)
From Coq Require Import List Arith Bool.
Import ListNotations.

Definition cid := nat.
Definition c_object : cid := 1.
Definition c_none : cid := 2.
Definition c_tuple : cid := 3.
Definition c_typing_tuple : cid := 4.
Definition c_callable : cid := 5.
Definition c_none_unresolved : cid := 6.
Definition c_type : cid := 7.
Definition c_int : cid := 8.

(* pytd.NamedType vs pytd.ClassType: different node classes, never equal to each other. *)
Inductive kind := KNamed | KClass.

Inductive ty :=
| TName (k : kind) (c : cid)                    (* NamedType(name) / ClassType(name) *)
| TAny                                          (* AnythingType *)
| TNothing                                      (* NothingType *)
| TLit (n : nat)                                (* Literal(value=n) *)
| TUnion (ts : list ty)                         (* UnionType(type_list) *)
| TGen (k : kind) (c : cid) (ps : list ty)      (* GenericType(base_type, parameters) *)
| TTup (k : kind) (c : cid) (ps : list ty)      (* TupleType(base_type, parameters) *)
| TCall (k : kind) (c : cid) (ps : list ty)     (* CallableType(base_type, args + [ret]) *)
(* TypeParameter(name, constraints, bound, default=None, scope): name id [n], scope id [sc] (0 = None);
   [ps] = the child types in one list: the bound first when [hb], then the constraints *)
| TVar (n : nat) (sc : nat) (hb : bool) (ps : list ty).

(* pytd.Parameter: name (0 = "self", 1 = "cls"), type, kind, optional, mutated_type *)
Record param := mkParam {
  p_name : nat; p_ty : ty; p_kind : nat; p_opt : bool; p_mut : option ty }.

(* pytd.Signature; [s_template]: the TypeParameter of each TemplateItem (last field, as in pytd.py) *)
Record sig := mkSig {
  s_params : list param; s_star : option param; s_starstar : option param;
  s_ret : ty; s_exc : list ty; s_template : list ty }.

(* pytd.Function: kind 0 METHOD, 1 STATICMETHOD, 2 CLASSMETHOD, 3 PROPERTY *)
Record func := mkFunc { f_name : nat; f_kind : nat; f_sigs : list sig }.

Record const := mkConst { k_name : nat; k_ty : ty }.

(* pytd.Class: bases are plain class references *)
Record class := mkClass {
  cl_name : cid; cl_bases : list (kind * cid); cl_methods : list func; cl_consts : list const;
  cl_template : list ty }.

(* pytd.TypeDeclUnit *)
Record unit_ := mkUnit { u_consts : list const; u_classes : list class; u_funcs : list func }.

(* The visitors Optimize may run, by class name. *)
Inductive pass :=
| PNormalizeGenericSelfTypes | PRemoveDuplicates | PSimplifyUnions | PCombineReturnsAndExceptions
| PCombineContainers | PSimplifyContainers | PSimplifyUnionsWithSuperclasses
| PFindCommonSuperClasses | PUseAbcs | PCollapseLongUnions | PAdjustReturnAndConstantGenericType
| PAbsorbMutableParameters | PMergeTypeParameters | PAdjustSelf | PLookupClasses.

(* Truthiness tests guarding a step in Optimize. *)
Inductive flag := FDeps | FLossy | FUseAbcs | FMaxUnion | FRemoveMutable | FCanDoLookup.

Record opts := mkOpts {
  o_deps : bool; o_lossy : bool; o_use_abcs : bool; o_max_union : nat;
  o_remove_mutable : bool; o_can_do_lookup : bool }.

(* superclass table: class -> direct bases; first entry for a key wins (dict.update order) *)
Definition hier := list (cid * list cid).
