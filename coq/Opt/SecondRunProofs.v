(* C11 — second-run characterisation, Visit short-cut, Literal equality (lemmas). *)
From Coq Require Import List Arith Bool Lia.
From PV Require Import Opt.Syntax Generated.C11_Passes Opt.Model Opt.Spec Opt.Proofs Opt.Idem Opt.Stable Opt.SecondRun.
Import ListNotations.

Lemma const_eqb_eq : forall a b, const_eqb a b = true <-> a = b.
Proof.
  intros [n t] [n' t']. unfold const_eqb; simpl. rewrite andb_true_iff, Nat.eqb_eq, ty_eqb_eq. split.
  - intros [? ?]; congruence.
  - intros E; inversion E; auto.
Qed.
Lemma func_eqb_eq : forall a b, func_eqb a b = true <-> a = b.
Proof.
  intros [n k s] [n' k' s']. unfold func_eqb; simpl.
  rewrite !andb_true_iff, !Nat.eqb_eq, (list_eqb_eq sig_eqb sig_eqb_eq). split.
  - intros [[? ?] ?]; congruence.
  - intros E; inversion E; auto.
Qed.
Lemma base_eqb_eq : forall a b, base_eqb a b = true <-> a = b.
Proof.
  intros [k c] [k' c']. unfold base_eqb; simpl. rewrite andb_true_iff, kind_eqb_eq, Nat.eqb_eq. split.
  - intros [? ?]; congruence.
  - intros E; inversion E; auto.
Qed.
Lemma class_eqb_eq : forall a b, class_eqb a b = true <-> a = b.
Proof.
  intros [n b m c t] [n' b' m' c' t']. unfold class_eqb; simpl.
  rewrite !andb_true_iff, Nat.eqb_eq, (list_eqb_eq base_eqb base_eqb_eq), (list_eqb_eq func_eqb func_eqb_eq),
    (list_eqb_eq const_eqb const_eqb_eq), (list_eqb_eq ty_eqb ty_eqb_eq). split.
  - intros [[[[? ?] ?] ?] ?]; congruence.
  - intros E; inversion E; repeat split; reflexivity.
Qed.
Lemma unit_eqb_eq : forall a b, unit_eqb a b = true <-> a = b.
Proof.
  intros [c l f] [c' l' f']. unfold unit_eqb; simpl.
  rewrite !andb_true_iff, (list_eqb_eq const_eqb const_eqb_eq), (list_eqb_eq class_eqb class_eqb_eq),
    (list_eqb_eq func_eqb func_eqb_eq). split.
  - intros [[? ?] ?]; congruence.
  - intros E; inversion E; auto.
Qed.

(* ---- sufficient: every enabled step fixes the unit => Optimize fixes it; for EVERY option setting *)
Lemma second_run_stable_in_fixpoint : forall cs o Hd ps u,
  second_run_stable_in cs o Hd ps u = true -> run_passes cs o Hd ps u = Some u.
Proof.
  intros cs o Hd ps u. induction ps as [|[fl p] r IH]; intros S; simpl; [reflexivity|].
  unfold second_run_stable_in in S. simpl in S. apply andb_true_iff in S. destruct S as [S1 S2].
  destruct (forallb (enabled o) fl); simpl in S1; [|apply IH; exact S2].
  unfold pass_fixes in S1. destruct (run_pass cs o Hd p u) as [u'|]; [|discriminate].
  apply unit_eqb_eq in S1. subst u'. apply IH; exact S2.
Qed.
Lemma second_run_stable_fixpoint_lemma : forall o Hd u, second_run_stable o Hd u = true -> opt o Hd u = Some u.
Proof. intros; apply second_run_stable_in_fixpoint; assumption. Qed.

(* ---- it is implied by the normal form of Spec.stable_unit *)
Lemma stable_unit_second_run_stable_in : forall kk cs o Hd ps u,
  lossless o -> (o_deps o && o_can_do_lookup o = true -> kk = KClass) ->
  idem_pipeline_ok ps = true -> stable_unit kk o Hd u = true -> second_run_stable_in cs o Hd ps u = true.
Proof.
  intros kk cs o Hd ps u L K G S. unfold second_run_stable_in. apply forallb_forall. intros [fl p] Hin.
  unfold idem_pipeline_ok in G. rewrite forallb_forall in G. specialize (G _ Hin). simpl in *.
  destruct (forallb (enabled o) fl) eqn:En; [|reflexivity]. simpl.
  unfold pass_fixes. rewrite (run_pass_stable kk cs o Hd fl p u L K G En S). apply unit_eqb_eq. reflexivity.
Qed.
Lemma stable_unit_second_run_stable_lemma : forall kk o Hd u,
  lossless o -> (o_deps o && o_can_do_lookup o = true -> kk = KClass) ->
  stable_unit kk o Hd u = true -> second_run_stable o Hd u = true.
Proof. intros. eapply stable_unit_second_run_stable_in; try eassumption. apply idem_passes_ok. Qed.

(* ---- exact: the classification says CStable iff the second run returns its input *)
Lemma first_change_none : forall cs o Hd ps u i,
  first_change cs o Hd ps u i = None -> run_passes cs o Hd ps u = Some u.
Proof.
  intros cs o Hd ps. induction ps as [|[fl p] r IH]; intros u i E; simpl in *; [reflexivity|].
  destruct (forallb (enabled o) fl); [|eapply IH; exact E].
  destruct (run_pass cs o Hd p u) as [u'|]; [|discriminate].
  destruct (unit_eqb u' u) eqn:Eu; [|discriminate]. apply unit_eqb_eq in Eu. subst u'. eapply IH; exact E.
Qed.
Lemma first_change_step : forall cs o Hd ps u i j p,
  first_change cs o Hd ps u i = Some (j, p) ->
  i <= j /\ exists fl, nth_error ps (j - i) = Some (fl, p) /\ forallb (enabled o) fl = true /\
  run_pass cs o Hd p u <> Some u.
Proof.
  intros cs o Hd ps. induction ps as [|[fl q] r IH]; intros u i j p E; simpl in E; [discriminate|].
  destruct (forallb (enabled o) fl) eqn:En.
  - destruct (run_pass cs o Hd q u) as [u'|] eqn:Er.
    + destruct (unit_eqb u' u) eqn:Eu.
      * apply unit_eqb_eq in Eu. subst u'. destruct (IH _ _ _ _ E) as [Le [fl' [N [En' Ne]]]].
        split; [lia|]. exists fl'. replace (j - i) with (S (j - S i)) by lia. simpl. auto.
      * inversion E; subst. split; [lia|]. exists fl. rewrite Nat.sub_diag. simpl. repeat split; auto.
        rewrite Er. intros X. inversion X; subst. rewrite (proj2 (unit_eqb_eq u u) eq_refl) in Eu. discriminate.
    + inversion E; subst. split; [lia|]. exists fl. rewrite Nat.sub_diag. simpl. repeat split; auto.
      rewrite Er. discriminate.
  - destruct (IH _ _ _ _ E) as [Le [fl' [N [En' Ne]]]].
    split; [lia|]. exists fl'. replace (j - i) with (S (j - S i)) by lia. simpl. auto.
Qed.

Lemma second_run_iff_in : forall cs o Hd ps u u1 u2,
  run_passes cs o Hd ps u = Some u1 -> run_passes cs o Hd ps u1 = Some u2 ->
  (u2 = u1 <-> second_run_changes_in cs o Hd ps u = CStable).
Proof.
  intros cs o Hd ps u u1 u2 E1 E2. unfold second_run_changes_in. rewrite E1, E2.
  destruct (unit_eqb u2 u1) eqn:Eu.
  - apply unit_eqb_eq in Eu. tauto.
  - assert (N : u2 <> u1) by (intros X; subst; rewrite (proj2 (unit_eqb_eq u1 u1) eq_refl) in Eu; discriminate).
    destruct (first_change cs o Hd ps u1 0) as [[j p]|] eqn:Ef.
    + split; [intros X; contradiction|].
      destruct (last_change cs o Hd ps u 0 None) as [i|];
        [destruct (j <? i); [|destruct (Nat.eqb j i)]|]; discriminate.
    + apply first_change_none in Ef. rewrite E2 in Ef. inversion Ef; subst. contradiction.
Qed.
Lemma optimize_idempotent_iff_lemma : forall o Hd u u1 u2,
  opt o Hd u = Some u1 -> opt o Hd u1 = Some u2 -> (u2 = u1 <-> second_run_changes o Hd u = CStable).
Proof. intros; eapply second_run_iff_in; eassumption. Qed.

(* a named clause always names a step that is enabled and, applied to the first run's result, changes it *)
Lemma second_run_clause_in : forall cs o Hd ps u u1 p,
  run_passes cs o Hd ps u = Some u1 ->
  (second_run_changes_in cs o Hd ps u = CSingleSweep p \/ second_run_changes_in cs o Hd ps u = CPassNotIdempotent p
   \/ second_run_changes_in cs o Hd ps u = CLatePass p) ->
  exists j fl, nth_error ps j = Some (fl, p) /\ forallb (enabled o) fl = true /\
               run_pass cs o Hd p u1 <> Some u1.
Proof.
  intros cs o Hd ps u u1 p E1 C. unfold second_run_changes_in in C. rewrite E1 in C.
  destruct (run_passes cs o Hd ps u1) as [u2|]; [|destruct C as [C|[C|C]]; discriminate].
  destruct (unit_eqb u2 u1); [destruct C as [C|[C|C]]; discriminate|].
  destruct (first_change cs o Hd ps u1 0) as [[j q]|] eqn:Ef; [|destruct C as [C|[C|C]]; discriminate].
  assert (q = p).
  { destruct (last_change cs o Hd ps u 0 None) as [i|];
      [destruct (j <? i); [|destruct (Nat.eqb j i)]|]; destruct C as [C|[C|C]]; inversion C; reflexivity. }
  subst q. destruct (first_change_step _ _ _ _ _ _ _ _ Ef) as [_ [fl [N [En Ne]]]]. rewrite Nat.sub_0_r in N.
  exists j, fl. repeat split; assumption.
Qed.
Lemma second_run_clause_lemma : forall o Hd u u1 p,
  opt o Hd u = Some u1 ->
  (second_run_changes o Hd u = CSingleSweep p \/ second_run_changes o Hd u = CPassNotIdempotent p
   \/ second_run_changes o Hd u = CLatePass p) ->
  exists j fl, nth_error passes j = Some (fl, p) /\ forallb (enabled o) fl = true /\
               run_pass sc_collapse_single o Hd p u1 <> Some u1.
Proof. intros; eapply second_run_clause_in; eassumption. Qed.

(* ================================================================== Node.Visit identity short-cut *)
Lemma visit_sc_eq : forall fU fG fN fB t, ctor_built t = true -> visit_sc fU fG fN fB t = visit fU fG fN fB t.
Proof.
  intros fU fG fN fB.
  assert (Ch : forall ps, Forall (fun t => ctor_built t = true -> visit_sc fU fG fN fB t = visit fU fG fN fB t) ps ->
               forallb ctor_built ps = true -> map (visit_sc fU fG fN fB) ps = map (visit fU fG fN fB) ps).
  { intros ps F C. apply map_ext_in. intros x Hx. rewrite Forall_forall in F. rewrite forallb_forall in C. auto. }
  induction t using ty_ind'; intros C; simpl in *; try reflexivity.
  - apply andb_true_iff in C. destruct C as [C1 C2]. rewrite (Ch ts H C2).
    destruct (list_eqb ty_eqb (map (visit fU fG fN fB) ts) ts) eqn:E; [|reflexivity].
    apply (list_eqb_eq ty_eqb ty_eqb_eq) in E. rewrite E.
    apply (list_eqb_eq ty_eqb ty_eqb_eq) in C1. rewrite C1. reflexivity.
  - rewrite (Ch ps H C). reflexivity.
  - rewrite (Ch ps H C). reflexivity.
  - rewrite (Ch ps H C). reflexivity.
  - rewrite (Ch ps H C). reflexivity.
Qed.
(* without the hypothesis the two differ: a union nested in a union that no constructor would have left *)
Lemma visit_sc_needs_ctor_built :
  let t := TUnion [TUnion [TName KClass 8; TName KClass 2]] in
  ctor_built t = false /\ visit_sc TUnion TGen TName id_kind t <> visit TUnion TGen TName id_kind t.
Proof. split; [reflexivity | vm_compute; discriminate]. Qed.

(* ================================================================== `==` on Literal values *)
Lemma literal_eq_conflation : exists l v, In v l /\ ~ In v (dedup_by lv_py_eqb l).
Proof.
  exists [LBool true; LInt 1], (LInt 1). split; [right; left; reflexivity|].
  vm_compute. intros [X|[]]. discriminate.
Qed.
Lemma lv_eqb_eq : forall a b, lv_eqb a b = true <-> a = b.
Proof.
  intros [n|x] [m|y]; simpl; split; try congruence.
  - rewrite Nat.eqb_eq; congruence.
  - intros E; inversion E; apply Nat.eqb_refl.
  - intros E; apply Bool.eqb_prop in E; congruence.
  - intros E; inversion E; apply Bool.eqb_reflx.
Qed.
Lemma dedup_from_ext_in : forall {A} (e1 e2 : A -> A -> bool) (Pd : A -> Prop),
  (forall a b, Pd a -> Pd b -> e1 a b = e2 a b) ->
  forall l seen, Forall Pd l -> Forall Pd seen -> dedup_from e1 seen l = dedup_from e2 seen l.
Proof.
  intros A e1 e2 Pd He. induction l as [|x r IH]; intros seen Fl Fs; simpl; [reflexivity|].
  inversion Fl; subst.
  assert (M : mem_by e1 x seen = mem_by e2 x seen).
  { unfold mem_by. clear - He Fs H1. induction Fs; simpl; [reflexivity|]. rewrite IHFs, (He x x0); auto. }
  rewrite M. destruct (mem_by e2 x seen); [apply IH; assumption|]. f_equal. apply IH; [assumption | constructor; assumption].
Qed.
Lemma literal_eq_no_bool : forall l, forallb is_lint l = true -> dedup_by lv_py_eqb l = dedup_by lv_eqb l.
Proof.
  intros l F. unfold dedup_by.
  apply (dedup_from_ext_in lv_py_eqb lv_eqb (fun a => is_lint a = true)); [| |constructor].
  - intros [n|x] [m|y] Ha Hb; try discriminate. reflexivity.
  - apply Forall_forall. rewrite forallb_forall in F. exact F.
Qed.
