(* C20, FILE level: pytype/tools/merge_pyi/merge_pyi.py merge_files / merge_files_src / merge_tree, with the
   posixpath functions (join, normpath, abspath, relpath) and os.walk as merge_tree uses them.
   Model only, no proofs (FilesProofs.v).

   A path STRING is [mkP k comps]: k leading '/' characters followed by '/'.join(comps); comps is what
   str.split('/') gives for the rest (so "" components stand for doubled / trailing separators, "." and ".." are
   ordinary list elements).  A NAME is the list of its character codes.
   The file system is a finite directory tree [node] (ordered children: the order os.scandir lists them) that
   never changes shape during a merge, plus an overlay of the files written so far (merge_tree only ever
   rewrites existing .py files and creates backup files next to them).
   Path resolution is lexical ([lexloc]: walk the components from the root / the working directory, "" and "."
   stay, ".." pops and stays at the root).  That is the kernel's resolution when there are no symbolic links
   and every intermediate component exists - the domain of the correspondence (recorded as an assumption).
   The per-file merge (merge_sources) and the text codec are parameters of the section: the correspondence
   instantiates them with a table of the real merge_sources and Python's text-mode codec (utf-8 + universal
   newlines), the lifting theorems with the tree-level model of Merge/Model.v. *)
From Coq Require Import List NArith Bool Arith.
From PV Require Import Merge.Model.
Import ListNotations.
Open Scope N_scope.

Definition name := list N.
Definition name_eqb : name -> name -> bool := list_eqb N.eqb.
Definition loc := list name.               (* canonical absolute location: components from the root *)
Definition loc_eqb : loc -> loc -> bool := list_eqb name_eqb.

Definition n_dot : name := [46].
Definition n_dotdot : name := [46; 46].
Definition is_empty (c : name) : bool := match c with [] => true | _ => false end.
Definition is_dot (c : name) : bool := name_eqb c n_dot.
Definition is_dotdot (c : name) : bool := name_eqb c n_dotdot.
Definition is_nil {A} (l : list A) : bool := match l with [] => true | _ => false end.

(* an entry name as a directory listing gives it: not "", ".", "..", no '/' *)
Definition ordinary (c : name) : bool :=
  negb (is_empty c) && negb (is_dot c) && negb (is_dotdot c) && negb (existsb (N.eqb 47) c).

Record pth := mkP { p_abs : nat; p_comps : list name }.
Definition isabs (p : pth) : bool := negb (Nat.eqb (p_abs p) 0).
Definition p_empty (p : pth) : bool := Nat.eqb (p_abs p) 0 && is_nil (p_comps p).     (* not path *)
Definition ends_sep (p : pth) : bool :=                                                (* path.endswith('/') *)
  match p_comps p with [] => isabs p | cs => is_empty (last cs [0]) end.

(* posixpath.join(a, b) *)
Definition join (a b : pth) : pth :=
  if isabs b then b
  else if p_empty a then b
  else if ends_sep a then (if is_nil (p_comps b) then a else mkP (p_abs a) (removelast (p_comps a) ++ p_comps b))
  else mkP (p_abs a) (p_comps a ++ (if is_nil (p_comps b) then [[]] else p_comps b)).
Definition join1 (a : pth) (n : name) : pth := join a (mkP 0 [n]).

(* posixpath.normpath: the loop over path.split('/') *)
Definition np_step (ab : bool) (st : list name) (c : name) : list name :=
  if is_empty c || is_dot c then st
  else if is_dotdot c then
    if (negb ab && is_nil st) || (negb (is_nil st) && is_dotdot (last st [])) then st ++ [c]
    else removelast st                    (* elif new_comps: new_comps.pop() *)
  else st ++ [c].
Definition np_loop (ab : bool) (cs : list name) : list name := fold_left (np_step ab) cs [].
Definition norm_abs (k : nat) : nat := match k with O => O | 2%nat => 2%nat | _ => 1%nat end.
Definition normpath (p : pth) : pth :=
  if p_empty p then mkP 0 [n_dot]
  else let cs := np_loop (isabs p) (p_comps p) in
       if negb (isabs p) && is_nil cs then mkP 0 [n_dot] else mkP (norm_abs (p_abs p)) cs.

(* posixpath.abspath; cwd = os.getcwd() as a location *)
Definition abspath (cwd : loc) (p : pth) : pth :=
  normpath (if isabs p then p else join (mkP 1 cwd) p).
Definition abs_list (cwd : loc) (p : pth) : list name :=       (* [x for x in abspath(p).split('/') if x] *)
  filter (fun c => negb (is_empty c)) (p_comps (abspath cwd p)).

(* os.path.commonprefix of two lists = their longest common prefix *)
Fixpoint lcp (a b : list name) : list name :=
  match a, b with
  | x :: a', y :: b' => if name_eqb x y then x :: lcp a' b' else []
  | _, _ => []
  end.

(* posixpath.relpath(path, start); None = ValueError("no path specified") *)
Definition relpath (cwd : loc) (path start : pth) : option pth :=
  if p_empty path then None
  else
    let sl := abs_list cwd start in
    let pl := abs_list cwd path in
    let i := length (lcp sl pl) in
    let rel := repeat n_dotdot (length sl - i) ++ skipn i pl in
    Some (if is_nil rel then mkP 0 [n_dot] else mkP 0 rel).          (* join of the rel_list elements *)

(* where a path string leads: lexical resolution from the root / the working directory *)
Definition lex_step (st : loc) (c : name) : loc :=
  if is_empty c || is_dot c then st
  else if is_dotdot c then removelast st
  else st ++ [c].
Definition lexwalk (st : loc) (cs : list name) : loc := fold_left lex_step cs st.
Definition lexloc (cwd : loc) (p : pth) : loc := lexwalk (if isabs p then [] else cwd) (p_comps p).

(* f.endswith(".py"), f + "i", f"{py_path}.{backup}" *)
Definition ends_py (f : name) : bool :=
  match rev f with 121 :: 112 :: 46 :: _ => true | _ => false end.
Definition stub_name (f : name) : name := f ++ [105].
Definition add_suffix (p : pth) (suf : name) : pth :=
  mkP (p_abs p) (removelast (p_comps p) ++ [last (p_comps p) [] ++ suf]).
Definition backup_path (py : pth) (bk : name) : pth := add_suffix py (46 :: bk).

Section FILES.
Variable B : Type.                              (* file contents (bytes) *)
Variable T : Type.                              (* text *)
Variable read : B -> option T.                  (* open(p).read(): decode + universal newlines; None = UnicodeDecodeError *)
Variable write : T -> B.                        (* open(p, "w").write(t) *)
Variable teqb : T -> T -> bool.                 (* annotated_src == py_src *)
Variable msrc : T -> T -> option T.             (* merge_sources(py=, pyi=); None = MergeError *)

Inductive node := File (b : B) | Dir (es : list (name * node)).

Fixpoint assoc (n : name) (es : list (name * node)) : option node :=
  match es with
  | [] => None
  | (k, c) :: r => if name_eqb k n then Some c else assoc n r
  end.
Fixpoint lookup (t : node) (l : loc) : option node :=
  match l with
  | [] => Some t
  | n :: r => match t with
              | Dir es => match assoc n es with Some c => lookup c r | None => None end
              | File _ => None
              end
  end.

(* os.walk(top), topdown, no symlinks: one (dirnames from top, non-directory names) entry per directory, parents
   before children, children in listing order.  The root string of an entry is join(...join(top, d1)..., dk). *)
Definition files_of (es : list (name * node)) : list name :=
  flat_map (fun e => match snd e with File _ => [fst e] | Dir _ => [] end) es.
Fixpoint walk_dirs (t : node) (ds : list name) : list (list name * list name) :=
  match t with
  | File _ => []
  | Dir es => (ds, files_of es) ::
              (fix go (l : list (name * node)) : list (list name * list name) :=
                 match l with
                 | [] => []
                 | (n, c) :: r => walk_dirs c (ds ++ [n]) ++ go r
                 end) es
  end.
Definition walk_root (top : pth) (ds : list name) : pth := fold_left join1 ds top.

(* the files written so far: most recent first *)
Definition overlay := list (loc * B).
Fixpoint ov_get (l : loc) (ov : overlay) : option B :=
  match ov with
  | [] => None
  | (k, b) :: r => if loc_eqb k l then Some b else ov_get l r
  end.
Inductive rd := RFile (b : B) | RDir | RNone.
Definition st_read (tree : node) (ov : overlay) (l : loc) : rd :=
  match ov_get l ov with
  | Some b => RFile b
  | None => match lookup tree l with Some (File b) => RFile b | Some (Dir _) => RDir | None => RNone end
  end.
Definition st_exists (tree : node) (ov : overlay) (l : loc) : bool :=          (* os.path.exists *)
  match st_read tree ov l with RNone => false | _ => true end.

Inductive mode := PRINT | DIFF | OVERWRITE.
Inductive fres :=
| FOk (changed : bool)
| FMergeError
| FRaised.             (* any other exception: UnicodeDecodeError, IsADirectoryError, FileNotFoundError *)
Inductive printed := PNothing | PText (t : T) | PDiff (a b : T).
Record fout := mkF { f_ov : overlay; f_res : fres; f_out : printed }.

Definition truthy (backup : option name) : option name :=          (* `if backup:` *)
  match backup with Some [] => None | x => x end.

(* merge_files_src(py_path, pyi_src, mode, backup) *)
Definition merge_files_src (cwd : loc) (tree : node) (ov : overlay) (py : pth) (s : T) (m : mode)
           (backup : option name) : fout :=
  let lpy := lexloc cwd py in
  match st_read tree ov lpy with
  | RFile pb =>
      match read pb with
      | None => mkF ov FRaised PNothing
      | Some p =>
          match msrc p s with
          | None => mkF ov FMergeError PNothing
          | Some a =>
              let changed := negb (teqb a p) in
              match m with
              | PRINT => mkF ov (FOk changed) (PText a)
              | DIFF => mkF ov (FOk changed) (if changed then PDiff p a else PNothing)
              | OVERWRITE =>
                  if changed then
                    match truthy backup with
                    | Some bk =>
                        let lbk := lexloc cwd (backup_path py bk) in
                        match lookup tree lbk with
                        | Some (Dir _) => mkF ov FRaised PNothing          (* shutil.copyfile onto a directory *)
                        | _ => mkF ((lpy, write a) :: (lbk, pb) :: ov) (FOk true) PNothing
                        end
                    | None => mkF ((lpy, write a) :: ov) (FOk true) PNothing
                    end
                  else mkF ov (FOk false) PNothing
              end
          end
      end
  | _ => mkF ov FRaised PNothing
  end.

(* merge_files(py_path=, pyi_path=, mode=, backup=); the pickled-pytd branch is outside the model *)
Definition merge_files (cwd : loc) (tree : node) (ov : overlay) (py pyi : pth) (m : mode)
           (backup : option name) : fout :=
  match st_read tree ov (lexloc cwd pyi) with
  | RFile sb => match read sb with
                | Some s => merge_files_src cwd tree ov py s m backup
                | None => mkF ov FRaised PNothing
                end
  | _ => mkF ov FRaised PNothing
  end.

(* merge_tree: the (py, pyi) path strings of the loop, in order.  fixed = true: rel = relpath(root, py_path)
   (after b7143da); fixed = false: rel = relpath(py_path, root) (before). *)
Definition dir_jobs (fixed : bool) (cwd : loc) (top P : pth) (e : list name * list name) : list (pth * pth) :=
  let root := walk_root top (fst e) in
  match (if fixed then relpath cwd root top else relpath cwd top root) with
  | None => []
  | Some rel =>
      let pyi_dir := normpath (join P rel) in
      flat_map (fun f => if ends_py f then [(join1 root f, join1 pyi_dir (stub_name f))] else []) (snd e)
  end.
Definition jobs (fixed : bool) (cwd : loc) (tree : node) (top P : pth) : list (pth * pth) :=
  if p_empty top then []                                  (* os.walk(''): scandir fails, nothing is yielded *)
  else match lookup tree (lexloc cwd top) with
       | Some (Dir es) => flat_map (dir_jobs fixed cwd top P) (walk_dirs (Dir es) [])
       | _ => []                                          (* not a directory: nothing is yielded *)
       end.

Record tstate := mkTS { t_ov : overlay; t_changed : list pth; t_errors : list pth; t_raised : bool }.
Definition tree_step (cwd : loc) (tree : node) (backup : option name) (s : tstate) (j : pth * pth) : tstate :=
  if t_raised s then s
  else if st_exists tree (t_ov s) (lexloc cwd (snd j)) then
    let r := merge_files cwd tree (t_ov s) (fst j) (snd j) OVERWRITE backup in
    match f_res r with
    | FOk true => mkTS (f_ov r) (t_changed s ++ [fst j]) (t_errors s) false
    | FOk false => mkTS (f_ov r) (t_changed s) (t_errors s) false
    | FMergeError => mkTS (f_ov r) (t_changed s) (t_errors s ++ [fst j]) false
    | FRaised => mkTS (f_ov r) (t_changed s) (t_errors s) true
    end
  else s.
Definition run_jobs (cwd : loc) (tree : node) (backup : option name) (js : list (pth * pth)) (s : tstate) : tstate :=
  fold_left (tree_step cwd tree backup) js s.
Definition merge_tree (fixed : bool) (cwd : loc) (tree : node) (top P : pth) (backup : option name) : tstate :=
  run_jobs cwd tree backup (jobs fixed cwd tree top P) (mkTS [] [] [] false).

(* the distinct locations written, with their final contents *)
Fixpoint ov_final (ov : overlay) (seen : list loc) : list (loc * B) :=
  match ov with
  | [] => []
  | (k, b) :: r => if existsb (loc_eqb k) seen then ov_final r seen else (k, b) :: ov_final r (k :: seen)
  end.
End FILES.

Arguments File {B}. Arguments Dir {B}. Arguments RFile {B}. Arguments RDir {B}. Arguments RNone {B}.

(* ---------------------------------------------------------------------------------------------------------- *)
(* Python's text mode on Linux (utf-8, newline=None): reading decodes and maps "\r\n" and "\r" to "\n"; writing
   encodes and leaves "\n" alone (os.linesep).  Contents are byte lists, texts code point lists. *)
Fixpoint universal_newlines (t : list N) : list N :=
  match t with
  | [] => []
  | 13 :: r => 10 :: match r with 10 :: r' => universal_newlines r' | _ => universal_newlines r end
  | c :: r => c :: universal_newlines r
  end.

(* utf-8 decoding (strict): None on an invalid sequence *)
Definition cont (b : N) : bool := (128 <=? b) && (b <? 192).
Fixpoint utf8_decode (fuel : nat) (bs : list N) : option (list N) :=
  match fuel with
  | O => match bs with [] => Some [] | _ => None end
  | S k =>
      match bs with
      | [] => Some []
      | b0 :: r =>
          if b0 <? 128 then option_map (cons b0) (utf8_decode k r)
          else if (194 <=? b0) && (b0 <? 224) then
            match r with
            | b1 :: r1 => if cont b1 then option_map (cons ((b0 - 192) * 64 + (b1 - 128))) (utf8_decode k r1) else None
            | _ => None
            end
          else if (224 <=? b0) && (b0 <? 240) then
            match r with
            | b1 :: b2 :: r2 =>
                let cp := (b0 - 224) * 4096 + (b1 - 128) * 64 + (b2 - 128) in
                if cont b1 && cont b2 && (2048 <=? cp) && negb ((55296 <=? cp) && (cp <? 57344))
                then option_map (cons cp) (utf8_decode k r2) else None
            | _ => None
            end
          else if (240 <=? b0) && (b0 <? 245) then
            match r with
            | b1 :: b2 :: b3 :: r3 =>
                let cp := (b0 - 240) * 262144 + (b1 - 128) * 4096 + (b2 - 128) * 64 + (b3 - 128) in
                if cont b1 && cont b2 && cont b3 && (65536 <=? cp) && (cp <? 1114112)
                then option_map (cons cp) (utf8_decode k r3) else None
            | _ => None
            end
          else None
      end
  end.
Definition utf8_encode1 (c : N) : list N :=
  if c <? 128 then [c]
  else if c <? 2048 then [192 + c / 64; 128 + c mod 64]
  else if c <? 65536 then [224 + c / 4096; 128 + (c / 64) mod 64; 128 + c mod 64]
  else [240 + c / 262144; 128 + (c / 4096) mod 64; 128 + (c / 64) mod 64; 128 + c mod 64].
Definition read_text (b : list N) : option (list N) :=
  option_map universal_newlines (utf8_decode (length b) b).
Definition write_text (t : list N) : list N := flat_map utf8_encode1 t.
Definition text_eqb : list N -> list N -> bool := list_eqb N.eqb.

(* merge_sources as a finite table of the real function's answers (correspondence runs); a pair missing from the
   table yields the text "MISS", which no real run produces *)
Definition tbl_msrc (tbl : list ((list N * list N) * option (list N))) (p s : list N) : option (list N) :=
  match find (fun e => text_eqb (fst (fst e)) p && text_eqb (snd (fst e)) s) tbl with
  | Some e => snd e
  | None => Some [77; 73; 83; 83]
  end.

(* ---------------------------------------------------------------------------------------------------------- *)
(* runners for the correspondence: everything is flattened to one list of numbers *)
Definition ser_list {A} (f : A -> list N) (l : list A) : list N := N.of_nat (length l) :: flat_map f l.
Definition ser_name (n : name) : list N := ser_list (fun c => [c]) n.
Definition ser_loc (l : loc) : list N := ser_list ser_name l.
Definition ser_pth (p : pth) : list N := N.of_nat (p_abs p) :: ser_loc (p_comps p).
Definition ser_opt {A} (f : A -> list N) (o : option A) : list N :=
  match o with None => [0] | Some a => 1 :: f a end.
Definition ser_files (ov : overlay (list N)) : list N :=
  ser_list (fun kb => ser_loc (fst kb) ++ ser_name (snd kb)) (ov_final _ ov []).
Definition ser_fres (r : fres) : N :=
  match r with FOk false => 0 | FOk true => 1 | FMergeError => 2 | FRaised => 3 end.
Definition ser_printed (p : printed (list N)) : list N :=
  match p with PNothing _ => [0] | PText _ t => 1 :: ser_name t | PDiff _ a b => 2 :: ser_name a ++ ser_name b end.

Definition tnode := node (list N).
Definition table := list ((list N * list N) * option (list N)).
Definition run_tree (tbl : table) (fixed : bool) (cwd : loc) (tree : tnode) (top P : pth) (backup : option name)
  : list N :=
  let r := merge_tree _ _ read_text write_text text_eqb (tbl_msrc tbl) fixed cwd tree top P backup in
  ser_files (t_ov _ r) ++ ser_list ser_pth (t_changed _ r) ++ ser_list ser_pth (t_errors _ r)
  ++ [if t_raised _ r then 1 else 0].
Definition run_jobs_only (fixed : bool) (cwd : loc) (tree : tnode) (top P : pth) : list N :=
  ser_list (fun j => ser_pth (fst j) ++ ser_pth (snd j)) (jobs _ fixed cwd tree top P).
Definition mode_of (k : N) : mode := match k with 1 => PRINT | 2 => DIFF | _ => OVERWRITE end.
Definition run_file (tbl : table) (cwd : loc) (tree : tnode) (py pyi : pth) (m : N) (backup : option name) : list N :=
  let r := merge_files _ _ read_text write_text text_eqb (tbl_msrc tbl) cwd tree [] py pyi (mode_of m) backup in
  ser_files (f_ov _ _ r) ++ [ser_fres (f_res _ _ r)] ++ ser_printed (f_out _ _ r).
