(* C20, PROCESS level: what outlives one call of merge_sources / merge_files inside one Python process, and how
   merge_tree / a sequence of calls threads it.  Model only, no proofs (CtxProofs.v).

   1. The libcst CodemodContext.  pytype's _merge_csts builds `codemod.CodemodContext()` on EVERY call.  The only
      part of a context that survives one ApplyTypeAnnotationsVisitor run is scratch["AddImportsVisitor"]: the list
      of pending import requests (module, object) that TypeCollector appends to while it reads the stub
      (AddImportsVisitor.add_needed_import) and that AddImportsVisitor(context) reads - the whole list, never
      cleared.  (scratch["ApplyTypeAnnotationsVisitor"], the stub, is overwritten by store_stub_in_context.)
      [merge_in v cx p s] is Merge/Model.v's [merge v p s] run in a context whose pending list is [cx]; it returns
      the context afterwards.  [merge_seq share] merges a sequence of (source, stub) pairs, with a fresh context per
      pair (share = false: the code as written) or one context for the whole sequence (share = true).
   2. The file level with a context: merge_files_src / merge_files / merge_tree of Merge/Files.v, generic in the
      context type [C], the fresh context [fresh] and the context-passing merge [msrcC].  [share] as above: false =
      the code as written (each merge_sources call builds its own context), true = one context per merge_tree call.
   3. Histories: a process performs a sequence of operations - merge_files calls, merge_tree calls, main() calls and
      writes to the file system from outside (the user edits / regenerates a stub between two merges).  [memo]
      selects whether the text of a stub is remembered per pyi_path STRING (false = the code as written: every
      merge_files call opens the file). *)
From Coq Require Import List NArith Bool Arith.
From PV Require Import Merge.Model Merge.Files.
Import ListNotations.
Open Scope N_scope.

(* ---------------------------------------------------------------------------------------------------------- *)
(* 1. the context at the level of the mini syntax trees *)
Definition ctx := list (path * N).             (* scratch["AddImportsVisitor"]: (module, object), request order *)
Definition ctx0 : ctx := [].                   (* codemod.CodemodContext() *)

Definition merge_in (v : variant) (cx : ctx) (p s : list item) : merged * ctx :=
  let s' := filter_stub v s in
  let imp := stub_imports s' in
  let c := collect_items imp s' c0 in
  let pending := cx ++ cneeds c in
  let tvs := filter (fun kv => tv_used (cnames c) (fst kv)) (ctvs c) in
  let e := mkE (cfuns c) (cattrs c) (cclasses c) (global_names p) in
  let '(core, st) := apply_items e p a0 in
  let fresh := filter (fun kd => negb (memN (fst kd) (visited st))) (cclasses c) in
  let new_tvs := filter (fun kv => negb (mem_path (fst kv) (stv st))) tvs in
  let decl_items := map (fun kd => Added (AnnAssign (TName (hd 0 (fst kd)))
                                                    (quote (global_names p) (visited st) (snd kd)) None))
                        (decls st) in
  let top := decl_items ++ map (fun kv => Added (snd kv)) new_tvs
                        ++ map (fun kd => Added (snd kd)) fresh in
  let any_change := changed st || negb (Nat.eqb (length top) 0) in
  let with_imports := add_imports pending p core in
  let k := split_loc with_imports in
  let out := firstn k with_imports ++ top ++ skipn k with_imports in
  (mkM (if any_change then out else p)
       (cerr c || negb (forallb (fun kd => single (fst kd)) (decls st)))
       (leak st) (clsdecl st) pending (map fst fresh)
       (genadd st),
   pending).

Fixpoint merge_seq (v : variant) (share : bool) (cx : ctx) (l : list (list item * list item)) : list merged :=
  match l with
  | [] => []
  | (p, s) :: r =>
      let '(m, cx') := merge_in v (if share then cx else ctx0) p s in
      m :: merge_seq v share cx' r
  end.

(* the `from M import ...` lines a merge added / extended: (module, added objects) *)
Fixpoint added_imports (l : list item) : list (path * list N) :=
  match l with
  | [] => []
  | Added (Import true m _ ad _) :: r => (m, ad) :: added_imports r
  | Import true m _ ad _ :: r => (match ad with [] => [] | _ => [(m, ad)] end) ++ added_imports r
  | _ :: r => added_imports r
  end.
(* every added object was requested by the file's own stub *)
Definition imports_own (needs : list (path * N)) (out : list item) : bool :=
  forallb (fun mo => forallb (fun o => existsb (fun mn => path_eqb (fst mn) (fst mo) && (snd mn =? o)) needs) (snd mo))
          (added_imports out).

(* runner for the correspondence: per file (hash fresh, hash shared), then whether the two differ anywhere *)
Definition run_seq (v : variant) (l : list (list item * list item)) : list (N * N) :=
  combine (map (fun m => hash_tokens (ser_merged m)) (merge_seq v false ctx0 l))
          (map (fun m => hash_tokens (ser_merged m)) (merge_seq v true ctx0 l)).

(* ---------------------------------------------------------------------------------------------------------- *)
(* 2. the file level with a context *)
Section PROC.
Variable B : Type.
Variable T : Type.
Variable C : Type.                              (* what a CodemodContext holds *)
Variable read : B -> option T.
Variable write : T -> B.
Variable teqb : T -> T -> bool.
Variable fresh : C.                             (* codemod.CodemodContext() *)
Variable msrcC : C -> T -> T -> option T * C.   (* merge_sources run in a given context; None = MergeError *)

(* merge_sources(py=, pyi=) as written: `context = codemod.CodemodContext()` inside *)
Definition msrc_fresh (p s : T) : option T := fst (msrcC fresh p s).

(* merge_files_src / merge_files handed a context (None = build a fresh one inside, as the code does) *)
Definition merge_files_src_c (cwd : loc) (tree : node B) (ov : overlay B) (cx : option C) (py : pth) (s : T) (m : mode)
           (backup : option name) : fout B T * option C :=
  let lpy := lexloc cwd py in
  match st_read B tree ov lpy with
  | RFile pb =>
      match read pb with
      | None => (mkF B T ov FRaised (PNothing T), cx)
      | Some p =>
          let '(r, c') := msrcC (match cx with Some c => c | None => fresh end) p s in
          let cx' := match cx with Some _ => Some c' | None => None end in
          match r with
          | None => (mkF B T ov FMergeError (PNothing T), cx')
          | Some a =>
              let changed := negb (teqb a p) in
              match m with
              | PRINT => (mkF B T ov (FOk changed) (PText T a), cx')
              | DIFF => (mkF B T ov (FOk changed) (if changed then PDiff T p a else PNothing T), cx')
              | OVERWRITE =>
                  if changed then
                    match truthy backup with
                    | Some bk =>
                        let lbk := lexloc cwd (backup_path py bk) in
                        match lookup B tree lbk with
                        | Some (Dir _) => (mkF B T ov FRaised (PNothing T), cx')
                        | _ => (mkF B T ((lpy, write a) :: (lbk, pb) :: ov) (FOk true) (PNothing T), cx')
                        end
                    | None => (mkF B T ((lpy, write a) :: ov) (FOk true) (PNothing T), cx')
                    end
                  else (mkF B T ov (FOk false) (PNothing T), cx')
              end
          end
      end
  | _ => (mkF B T ov FRaised (PNothing T), cx)
  end.

(* the stub text merge_files works with: the memo (keyed by the pyi_path string, as functools.lru_cache keys by
   argument) is consulted only when [memo] *)
Definition pth_eqb (a b : pth) : bool := Nat.eqb (p_abs a) (p_abs b) && list_eqb name_eqb (p_comps a) (p_comps b).
Fixpoint memo_get (k : pth) (mm : list (pth * T)) : option T :=
  match mm with
  | [] => None
  | (k', t) :: r => if pth_eqb k' k then Some t else memo_get k r
  end.

Definition merge_files_c (memo : bool) (cwd : loc) (tree : node B) (ov : overlay B) (mm : list (pth * T))
           (cx : option C) (py pyi : pth) (m : mode) (backup : option name) : fout B T * option C * list (pth * T) :=
  match (if memo then memo_get pyi mm else None) with
  | Some s => let '(r, cx') := merge_files_src_c cwd tree ov cx py s m backup in (r, cx', mm)
  | None =>
      match st_read B tree ov (lexloc cwd pyi) with
      | RFile sb => match read sb with
                    | Some s => let '(r, cx') := merge_files_src_c cwd tree ov cx py s m backup in
                                (r, cx', if memo then (pyi, s) :: mm else mm)
                    | None => (mkF B T ov FRaised (PNothing T), cx, mm)
                    end
      | _ => (mkF B T ov FRaised (PNothing T), cx, mm)
      end
  end.

(* merge_tree: share = false - no context is handed down (the code as written); share = true - one context built
   before the loop and handed to every merge_files call *)
Record tstate_c := mkTC { tc_st : tstate B; tc_ctx : option C; tc_memo : list (pth * T) }.
Definition tree_step_c (memo : bool) (cwd : loc) (tree : node B) (backup : option name) (s : tstate_c) (j : pth * pth)
  : tstate_c :=
  let ts := tc_st s in
  if t_raised B ts then s
  else if st_exists B tree (t_ov B ts) (lexloc cwd (snd j)) then
    let '(r, cx', mm') := merge_files_c memo cwd tree (t_ov B ts) (tc_memo s) (tc_ctx s) (fst j) (snd j) OVERWRITE backup in
    mkTC (match f_res B T r with
          | FOk true => mkTS B (f_ov B T r) (t_changed B ts ++ [fst j]) (t_errors B ts) false
          | FOk false => mkTS B (f_ov B T r) (t_changed B ts) (t_errors B ts) false
          | FMergeError => mkTS B (f_ov B T r) (t_changed B ts) (t_errors B ts ++ [fst j]) false
          | FRaised => mkTS B (f_ov B T r) (t_changed B ts) (t_errors B ts) true
          end) cx' mm'
  else s.
Definition merge_tree_c (share memo : bool) (fixed : bool) (cwd : loc) (tree : node B) (ov : overlay B)
           (mm : list (pth * T)) (top P : pth) (backup : option name) : tstate_c :=
  fold_left (tree_step_c memo cwd tree backup) (jobs B fixed cwd tree top P)
            (mkTC (mkTS B ov [] [] false) (if share then Some fresh else None) mm).

(* ---- 3. histories ---- *)
(* main(argv) after argparse: the two mutually exclusive flags, the -b value, the two positionals.  A -b value
   without -i is rejected by parser.error (SystemExit 2) before anything is read. *)
Inductive op :=
| OpFiles (py pyi : pth) (m : mode) (backup : option name)            (* merge_pyi.merge_files(...) *)
| OpTree (top P : pth) (backup : option name)                         (* merge_pyi.merge_tree(...) *)
| OpMain (in_place diff : bool) (backup : option name) (py pyi : pth) (* main.main([...]) *)
| OpWrite (l : loc) (b : B).                                          (* somebody else writes a file *)

Inductive outcome :=
| OFiles (r : fres) (pr : printed T)
| OTree (changed errors : list pth) (raised : bool)
| OMain (r : fres) (pr : printed T) (msg : option bool)      (* msg: Some true "Merged types to", Some false "No new types" *)
| OUsage                                                     (* parser.error: exit status 2 *)
| OWritten.

Definition main_mode (in_place diff : bool) : mode := if diff then DIFF else if in_place then OVERWRITE else PRINT.

Record hstate := mkH { h_ov : overlay B; h_memo : list (pth * T) }.

Definition h_step (share memo fixed : bool) (cwd : loc) (tree : node B) (h : hstate) (o : op) : hstate * outcome :=
  match o with
  | OpFiles py pyi m bk =>
      let '(r, _, mm) := merge_files_c memo cwd tree (h_ov h) (h_memo h) None py pyi m bk in
      (mkH (f_ov B T r) mm, OFiles (f_res B T r) (f_out B T r))
  | OpTree top P bk =>
      let r := merge_tree_c share memo fixed cwd tree (h_ov h) (h_memo h) top P bk in
      (mkH (t_ov B (tc_st r)) (tc_memo r),
       OTree (t_changed B (tc_st r)) (t_errors B (tc_st r)) (t_raised B (tc_st r)))
  | OpMain ip df bk py pyi =>
      match truthy bk, ip with
      | Some _, false => (h, OUsage)                 (* `if args.backup and not args.in_place: parser.error(...)` *)
      | _, _ =>
          let m := main_mode ip df in
          let '(r, _, mm) := merge_files_c memo cwd tree (h_ov h) (h_memo h) None py pyi m (truthy bk) in
          (mkH (f_ov B T r) mm,
           OMain (f_res B T r) (f_out B T r)
                 (match m, f_res B T r with OVERWRITE, FOk ch => Some ch | _, _ => None end))
      end
  | OpWrite l b => (mkH ((l, b) :: h_ov h) (h_memo h), OWritten)
  end.

Fixpoint run_history (share memo fixed : bool) (cwd : loc) (tree : node B) (h : hstate) (ops : list op)
  : hstate * list outcome :=
  match ops with
  | [] => (h, [])
  | o :: r => let '(h', x) := h_step share memo fixed cwd tree h o in
              let '(h'', xs) := run_history share memo fixed cwd tree h' r in (h'', x :: xs)
  end.

(* the same operation performed by a NEW process on the file system as it is now: the reference every step of a
   history must agree with *)
Definition fresh_step (fixed : bool) (cwd : loc) (tree : node B) (ov : overlay B) (o : op) : overlay B * outcome :=
  let msrc := msrc_fresh in
  match o with
  | OpFiles py pyi m bk =>
      let r := merge_files B T read write teqb msrc cwd tree ov py pyi m bk in (f_ov B T r, OFiles (f_res B T r) (f_out B T r))
  | OpTree top P bk =>
      let r := fold_left (tree_step B T read write teqb msrc cwd tree bk) (jobs B fixed cwd tree top P) (mkTS B ov [] [] false) in
      (t_ov B r, OTree (t_changed B r) (t_errors B r) (t_raised B r))
  | OpMain ip df bk py pyi =>
      match truthy bk, ip with
      | Some _, false => (ov, OUsage)
      | _, _ =>
          let m := main_mode ip df in
          let r := merge_files B T read write teqb msrc cwd tree ov py pyi m (truthy bk) in
          (f_ov B T r, OMain (f_res B T r) (f_out B T r)
                             (match m, f_res B T r with OVERWRITE, FOk ch => Some ch | _, _ => None end))
      end
  | OpWrite l b => ((l, b) :: ov, OWritten)
  end.
Fixpoint fresh_history (fixed : bool) (cwd : loc) (tree : node B) (ov : overlay B) (ops : list op)
  : overlay B * list outcome :=
  match ops with
  | [] => (ov, [])
  | o :: r => let '(ov', x) := fresh_step fixed cwd tree ov o in
              let '(ov'', xs) := fresh_history fixed cwd tree ov' r in (ov'', x :: xs)
  end.
End PROC.

Arguments OpFiles {B}. Arguments OpTree {B}. Arguments OpMain {B}. Arguments OpWrite {B}.
Arguments OFiles {T}. Arguments OTree {T}. Arguments OMain {T}. Arguments OUsage {T}. Arguments OWritten {T}.

(* ---------------------------------------------------------------------------------------------------------- *)
(* runners for the correspondence (flattened to numbers; merge_sources enters as the table of the real answers) *)
Definition ser_outcome (x : outcome (list N)) : list N :=
  match x with
  | OFiles r pr => 1 :: ser_fres r :: ser_printed pr
  | OTree ch er ra => 2 :: ser_list ser_pth ch ++ ser_list ser_pth er ++ [if ra then 1 else 0]
  | OMain r pr msg => 3 :: ser_fres r :: ser_printed pr ++ [match msg with None => 0 | Some false => 1 | Some true => 2 end]
  | OUsage => [4]
  | OWritten => [5]
  end.
Definition tbl_msrcC (tbl : table) (c : unit) (p s : list N) : option (list N) * unit := (tbl_msrc tbl p s, tt).
Definition run_hist (tbl : table) (memo fixed : bool) (cwd : loc) (tree : tnode) (ops : list (op (list N))) : list N :=
  let '(h, xs) := run_history (list N) (list N) unit read_text write_text text_eqb tt (tbl_msrcC tbl)
                              false memo fixed cwd tree (mkH _ _ [] []) ops in
  ser_files (h_ov _ _ h) ++ ser_list ser_outcome xs.
