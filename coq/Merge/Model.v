(* C20 model: pytype/tools/merge_pyi/merge_pyi.py (merge_sources, RemoveAnyNeverTransformer,
   RemoveTrivialTypesTransformer) and the parts of libcst 1.4.0 it drives with pytype's flags:
   codemod/visitors/_apply_type_annotations.py (TypeCollector, _TypeCollectorDequalifier,
   ApplyTypeAnnotationsVisitor with overwrite_existing_annotations=False,
   strict_posargs_matching=False, strict_annotation_matching=True) and _add_imports.py.
   Definitions only (no proofs), so that the file still evaluates when a proof breaks.

   Identifiers are interned by the harness as N, ORDER PRESERVING (id order = Python string order),
   with these fixed ids for the names the code tests for. *)
From Coq Require Import List NArith Bool.
Import ListNotations.
Open Scope N_scope.

Definition id_Any : N := 1000.
Definition id_Generic : N := 2000.
Definition id_Literal : N := 3000.
Definition id_Never : N := 4000.
Definition id_Type : N := 5000.
Definition id_TypeVar : N := 6000.
Definition id_underscore : N := 7000.     (* "_" *)
Definition id_strict : N := 8000.         (* "__strict__" *)
Definition id_bool : N := 9000.
Definition id_builtins : N := 10000.
Definition id_complex : N := 11000.
Definition id_float : N := 12000.
Definition id_int : N := 13000.
Definition id_str : N := 14000.
Definition id_typing : N := 15000.

(* ------------------------------------------------------------------------------------------ *)
(* generic helpers *)

Fixpoint list_eqb {A} (eq : A -> A -> bool) (a b : list A) : bool :=
  match a, b with
  | [], [] => true
  | x :: a', y :: b' => eq x y && list_eqb eq a' b'
  | _, _ => false
  end.

Definition path := list N.                 (* a dotted name, one component per identifier *)
Definition path_eqb : path -> path -> bool := list_eqb N.eqb.
Definition memN (n : N) (l : list N) : bool := existsb (N.eqb n) l.
Definition mem_path (p : path) (l : list path) : bool := existsb (path_eqb p) l.

(* Python dict assignment d[k] = v on an insertion-ordered dict *)
Fixpoint dict_set {K V} (eq : K -> K -> bool) (k : K) (v : V) (d : list (K * V)) : list (K * V) :=
  match d with
  | [] => [(k, v)]
  | (k', v') :: r => if eq k' k then (k, v) :: r else (k', v') :: dict_set eq k v r
  end.

Fixpoint dict_get {K V} (eq : K -> K -> bool) (k : K) (d : list (K * V)) : option V :=
  match d with
  | [] => None
  | (k', v') :: r => if eq k' k then Some v' else dict_get eq k r
  end.

(* sorted(), on ids (id order = string order) *)
Fixpoint insert_sorted (n : N) (l : list N) : list N :=
  match l with
  | [] => [n]
  | x :: r => if n <=? x then n :: l else x :: insert_sorted n r
  end.
Definition sortN (l : list N) : list N := fold_right insert_sorted [] l.

Fixpoint dedupN (l : list N) : list N :=
  match l with
  | [] => []
  | x :: r => if memN x r then dedupN r else x :: dedupN r
  end.

(* lexicographic order on dotted names = Python order of the "."-joined strings ('.' sorts below
   every identifier character) *)
Fixpoint path_leb (a b : path) : bool :=
  match a, b with
  | [], _ => true
  | _ :: _, [] => false
  | x :: a', y :: b' => if x <? y then true else if y <? x then false else path_leb a' b'
  end.

(* ------------------------------------------------------------------------------------------ *)
(* mini syntax *)

Inductive expr :=
| EName (n : N)                               (* cst.Name (also None/True/False) *)
| EAttr (q : path) (n : N)                    (* pure dotted cst.Attribute q.n, q non-empty *)
| ESub (h : expr) (args : list expr)          (* cst.Subscript h[args] *)
| EStr (n : N)                                (* cst.SimpleString whose content is interned as n *)
| EOther (id : N) (subs : list expr).         (* any other expression; subs = child expressions *)

Fixpoint expr_eqb (a b : expr) : bool :=
  match a, b with
  | EName x, EName y => x =? y
  | EAttr q x, EAttr r y => path_eqb q r && (x =? y)
  | ESub h xs, ESub k ys =>
      expr_eqb h k &&
      (fix go (l : list expr) (m : list expr) : bool :=
         match l, m with
         | [], [] => true
         | x :: l', y :: m' => expr_eqb x y && go l' m'
         | _, _ => false
         end) xs ys
  | EStr x, EStr y => x =? y
  | EOther i xs, EOther j ys =>
      (i =? j) &&
      (fix go (l : list expr) (m : list expr) : bool :=
         match l, m with
         | [], [] => true
         | x :: l', y :: m' => expr_eqb x y && go l' m'
         | _, _ => false
         end) xs ys
  | _, _ => false
  end.

Record param := mkParam { pname : N; pann : option expr; pdef : option N }.
Inductive starp := NoStar | BareStar | StarArg (p : param).
Record params := mkParams {
  posonly : list param; pos : list param; star : starp; kwonly : list param; kwstar : option param }.

(* right-hand side of an assignment: opaque id + "contains a call TypeVar(...)" *)
Record value := mkVal { vid : N; vtv : bool }.

Inductive okind :=
| KAttr | KSub
| KTuple (elts : list (option path)).   (* Tuple/List target: get_full_name_for_node of each element *)
(* a plain Name, or another target with nm = libcst.helpers.get_full_name_for_node(target) and an
   opaque id for the rest *)
Inductive target := TName (n : N) | TOther (k : okind) (nm : option path) (id : N).
Definition tname (t : target) : option path :=
  match t with TName n => Some [n] | TOther _ nm _ => nm end.

Inductive item :=
| Fun (name : N) (deco : N) (ps : params) (ret : option expr) (body : list item)
| Cls (name : N) (hdr : N) (bases : list expr) (body : list item)
| Assign (ts : list target) (v : value)
| AnnAssign (t : target) (a : expr) (v : option value)
| Block (id : N) (body : list item)          (* if/for/while/try/with/match (and their sub-bodies) *)
| Import (from : bool) (module : path) (names added : list N) (id : N)
| Doc (id : N)                               (* Expr(SimpleString) statement *)
| Other (id : N)
| Added (it : item).                         (* a statement inserted by the merge (outputs only) *)

(* ------------------------------------------------------------------------------------------ *)
(* merge_pyi.py: the two stub transformers, as written *)

Inductive variant := AsWritten | Fixed.      (* Fixed = with fixes/C20-annassign-any.patch *)

(* what a leave_* method hands to _is_any_or_never: an expression, or the Annotation wrapper *)
Inductive cstnode := NExpr (e : expr) | NAnnotation (e : expr).

(* annotation and isinstance(annotation, expression.Name) and annotation.value in ("Any","Never") *)
Definition is_any_or_never (x : option cstnode) : bool :=
  match x with
  | Some (NExpr (EName n)) => (n =? id_Any) || (n =? id_Never)
  | _ => false
  end.

(* RemoveAnyNeverTransformer.leave_AnnAssign *)
Definition an_leave_annassign (v : variant) (t : target) (a : expr) (val : option value) : list item :=
  match v with
  | AsWritten =>
      (* self._is_any_or_never(original_node.annotation)  -- the Annotation wrapper *)
      if is_any_or_never (Some (NAnnotation a))
      then [Assign [t] (match val with Some x => x | None => mkVal 0 false end)]
      else [AnnAssign t a val]
  | Fixed =>
      (* self._is_any_or_never(original_node.annotation.annotation); value-less -> REMOVE *)
      if is_any_or_never (Some (NExpr a))
      then match val with Some x => [Assign [t] x] | None => [] end
      else [AnnAssign t a val]
  end.

(* RemoveAnyNeverTransformer: leave_FunctionDef returns original_node (dropping any change made
   below it) unless its own return is Any/Never; no leave_ClassDef, so classes keep changes *)
Fixpoint strip_an (v : variant) (it : item) : list item :=
  match it with
  | Fun n d ps r b =>
      if is_any_or_never (option_map NExpr r)
      then [Fun n d ps None (flat_map (strip_an v) b)]
      else [Fun n d ps r b]
  | Cls n h bs b => [Cls n h bs (flat_map (strip_an v) b)]
  | Block i b => [Block i (flat_map (strip_an v) b)]
  | AnnAssign t a val => an_leave_annassign v t a val
  | x => [x]
  end.
Definition strip_any_never (v : variant) (s : list item) : list item := flat_map (strip_an v) s.

(* RemoveTrivialTypesTransformer._is_trivial_type *)
Definition is_trivial (a : expr) : bool :=
  match a with
  | EName n => memN n [id_int; id_str; id_float; id_bool; id_complex]
  | ESub (EName n) _ => n =? id_Literal
  | _ => false
  end.

(* leave_AnnAssign: REMOVE when trivial and value is None, else original_node; there is no
   leave_FunctionDef/leave_ClassDef, so every AnnAssign in the tree is reached *)
Fixpoint strip_tr (it : item) : list item :=
  match it with
  | Fun n d ps r b => [Fun n d ps r (flat_map strip_tr b)]
  | Cls n h bs b => [Cls n h bs (flat_map strip_tr b)]
  | Block i b => [Block i (flat_map strip_tr b)]
  | AnnAssign t a None => if is_trivial a then [] else [it]
  | x => [x]
  end.
Definition strip_trivial (s : list item) : list item := flat_map strip_tr s.

Definition filter_stub (v : variant) (s : list item) : list item :=
  strip_trivial (strip_any_never v s).

(* ------------------------------------------------------------------------------------------ *)
(* libcst TypeCollector + _TypeCollectorDequalifier on the filtered stub *)

(* statements reached without entering a function or class: if/try/... bodies are transparent *)
Fixpoint unblock (it : item) : list item :=
  match it with
  | Block _ b => flat_map unblock b
  | x => [x]
  end.

(* names bound by `from M import n` at the stub's module level *)
Definition stub_imports (s : list item) : list (N * path) :=
  flat_map (fun it => match it with
                      | Import true m ns _ _ => map (fun n => (n, m)) ns
                      | _ => []
                      end) (flat_map unblock s).

Definition is_builtins (m : path) : bool := path_eqb m [id_builtins].

(* _get_unique_qualified_name(node) in ("Type", "typing.Type") for a Subscript with this head *)
Definition is_type_head (h : expr) : bool :=
  match h with
  | EName n => n =? id_Type
  | EAttr q n => path_eqb q [id_typing] && (n =? id_Type)
  | _ => false
  end.

(* the rewritten annotation: leave_Attribute returns original_node.attr whenever should_qualify is
   False (no qualifying import exists in the modelled domain; module "builtins" also gives False);
   a Subscript of Type keeps its slice untouched *)
Fixpoint dq_expr (e : expr) : expr :=
  match e with
  | EName n => EName n
  | EAttr q n => EName n
  | ESub h args => if is_type_head h then ESub (dq_expr h) args else ESub (dq_expr h) (map dq_expr args)
  | EStr n => EStr n
  | EOther i subs => EOther i (map dq_expr subs)
  end.

(* AddImportsVisitor.add_needed_import(module, target) calls made while dequalifying *)
Fixpoint dq_needs (imp : list (N * path)) (e : expr) : list (path * N) :=
  match e with
  | EName n => match dict_get N.eqb n imp with
               | Some m => if is_builtins m then [] else [(m, n)]
               | None => []
               end
  | EAttr q n => if is_builtins q then [] else [(q, n)]
  | ESub h args => dq_needs imp h ++ (if is_type_head h then [] else flat_map (dq_needs imp) args)
  | EStr _ => []
  | EOther _ subs => flat_map (dq_needs imp) subs
  end.

(* annotations.names, restricted to undotted qualified names (the only ones a TypeVar name can
   equal): names of the stub's own definitions.  (leave_Index also adds string slice elements, but
   _get_string_value keeps the opening quote -- "'a" for 'a' -- so no identifier ever equals them.) *)
Fixpoint dq_names (imp : list (N * path)) (e : expr) : list N :=
  match e with
  | EName n => match dict_get N.eqb n imp with Some _ => [] | None => [n] end
  | EAttr _ _ => []
  | ESub h args => dq_names imp h ++ (if is_type_head h then [] else flat_map (dq_names imp) args)
  | EStr _ => []
  | EOther _ subs => flat_map (dq_names imp) subs
  end.

(* FunctionKey: (qualified name, len(params), sorted kwonly names, len(posonly), star_arg?, star_kwarg?) *)
Record shape := mkShape { sh_pos : nat; sh_kw : list N; sh_posonly : nat; sh_star : bool; sh_kwstar : bool }.
Definition shape_of (ps : params) : shape :=
  mkShape (length (pos ps)) (sortN (map pname (kwonly ps))) (length (posonly ps))
          (match star ps with NoStar => false | _ => true end)
          (match kwstar ps with None => false | Some _ => true end).
Definition shape_eqb (a b : shape) : bool :=
  Nat.eqb (sh_pos a) (sh_pos b) && list_eqb N.eqb (sh_kw a) (sh_kw b) &&
  Nat.eqb (sh_posonly a) (sh_posonly b) && Bool.eqb (sh_star a) (sh_star b) &&
  Bool.eqb (sh_kwstar a) (sh_kwstar b).
Definition fkey := (path * shape)%type.
Definition fkey_eqb (a b : fkey) : bool := path_eqb (fst a) (fst b) && shape_eqb (snd a) (snd b).

(* FunctionAnnotation(parameters, returns) *)
Definition fann := (params * option expr)%type.

Record cstate := mkC {
  cq : list path;                       (* TypeCollector.qualifier (one entry per append) *)
  cfuns : list (fkey * fann);           (* annotations.functions, newest first *)
  cattrs : list (path * expr);          (* annotations.attributes, newest first *)
  cclasses : list (N * item);           (* annotations.class_definitions (insertion ordered) *)
  ctvs : list (path * item);            (* annotations.typevars (insertion ordered) *)
  cnames : list N;                      (* annotations.names (undotted ones) *)
  cneeds : list (path * N);             (* add_needed_import requests *)
  cerr : bool }.                        (* unsupported: AnnAssign whose target has no full name *)

Definition c0 : cstate := mkC [] [] [] [] [] [] [] false.
Definition qname (q : list path) : path := concat q.     (* ".".join(self.qualifier) *)

Definition c_push (p : path) (c : cstate) : cstate :=
  mkC (cq c ++ [p]) (cfuns c) (cattrs c) (cclasses c) (ctvs c) (cnames c) (cneeds c) (cerr c).
Definition c_pop (c : cstate) : cstate :=
  mkC (removelast (cq c)) (cfuns c) (cattrs c) (cclasses c) (ctvs c) (cnames c) (cneeds c) (cerr c).
Definition c_use (imp : list (N * path)) (es : list expr) (c : cstate) : cstate :=
  mkC (cq c) (cfuns c) (cattrs c) (cclasses c) (ctvs c)
      (cnames c ++ flat_map (dq_names imp) es) (cneeds c ++ flat_map (dq_needs imp) es) (cerr c).

Definition opt_list {A} (o : option A) : list A := match o with Some a => [a] | None => [] end.
Definition dq_param (p : param) : param := mkParam (pname p) (option_map dq_expr (pann p)) (pdef p).
(* _handle_Parameters: only parameters.params is rewritten *)
Definition dq_params (ps : params) : params :=
  mkParams (posonly ps) (map dq_param (pos ps)) (star ps) (kwonly ps) (kwstar ps).

Fixpoint collect_item (imp : list (N * path)) (it : item) (c : cstate) : cstate :=
  match it with
  | Cls n h bs b =>
      let c1 := c_push [n] c in
      let c2 := c_use imp bs c1 in
      (* a base that is not a Name/Attribute/Subscript raises ValueError *)
      let c3 := mkC (cq c2) (cfuns c2) (cattrs c2)
                    (dict_set N.eqb n (Cls n h (map dq_expr bs) b) (cclasses c2))
                    (ctvs c2) (cnames c2) (cneeds c2)
                    (cerr c2 || existsb (fun b => match b with EStr _ | EOther _ _ => true | _ => false end) bs) in
      c_pop ((fix go (l : list item) (c : cstate) : cstate :=
                match l with [] => c | x :: r => go r (collect_item imp x c) end) b c3)
  | Fun n d ps r b =>
      let c1 := c_push [n] c in
      let c2 := c_use imp (opt_list r ++ flat_map (fun p => opt_list (pann p)) (pos ps)) c1 in
      let key := (qname (cq c2), shape_of ps) in
      c_pop (mkC (cq c2) ((key, (dq_params ps, option_map dq_expr r)) :: cfuns c2) (cattrs c2)
                 (cclasses c2) (ctvs c2) (cnames c2) (cneeds c2) (cerr c2))
  | AnnAssign t a v =>
      match tname t with
      | Some nm =>
          let c1 := c_push nm c in
          let c2 := c_use imp [a] c1 in
          c_pop (mkC (cq c2) (cfuns c2) ((qname (cq c2), dq_expr a) :: cattrs c2)
                     (cclasses c2) (ctvs c2) (cnames c2) (cneeds c2) (cerr c2))
      | None => mkC (cq c) (cfuns c) (cattrs c) (cclasses c) (ctvs c) (cnames c) (cneeds c) true
      end
  | Assign ts v =>
      if vtv v then
        match ts with
        | t :: _ =>
            match tname t with
            | Some nm => mkC (cq c) (cfuns c) (cattrs c) (cclasses c)
                             (dict_set path_eqb nm it (ctvs c)) (cnames c)
                             (cneeds c ++ [([id_typing], id_TypeVar)]) (cerr c)
            | None => c
            end
        | [] => c
        end
      else c
  | Block _ b =>
      (fix go (l : list item) (c : cstate) : cstate :=
         match l with [] => c | x :: r => go r (collect_item imp x c) end) b c
  | _ => c
  end.

Fixpoint collect_items (imp : list (N * path)) (l : list item) (c : cstate) : cstate :=
  match l with [] => c | x :: r => collect_items imp r (collect_item imp x c) end.

(* Annotations.finish(): typevars whose name is used *)
Definition tv_used (names : list N) (k : path) : bool :=
  match k with [n] => memN n names | _ => false end.

(* ------------------------------------------------------------------------------------------ *)
(* ApplyTypeAnnotationsVisitor on the source *)

(* GatherGlobalNamesVisitor: module-scope Name targets of Assign/AnnAssign and module-scope classes *)
Definition target_global (t : target) : list N :=
  match t with TName n => [n] | _ => [] end.
Definition global_names (l : list item) : list N :=
  flat_map (fun it => match it with
                      | Cls n _ _ _ => [n]
                      | Assign ts _ => flat_map target_global ts
                      | AnnAssign t _ _ => target_global t
                      | _ => []
                      end) (flat_map unblock l).

Record env := mkE {
  efuns : list (fkey * fann);
  eattrs : list (path * expr);
  eclasses : list (N * item);
  egnames : list N }.

Record astate := mkA {
  qual : list path;          (* self.qualifier *)
  done : list path;          (* self.already_annotated *)
  visited : list N;          (* self.visited_classes *)
  decls : list (path * expr);(* self.toplevel_annotations (insertion ordered) *)
  stv : list path;           (* self.typevars keys *)
  changed : bool;            (* annotation_counts.any_changes_applied() so far *)
  leak : bool;               (* monitor: _annotate_single_target returned without popping *)
  clsdecl : bool;            (* monitor: a toplevel declaration was recorded under a non-empty qualifier *)
  genadd : bool }.           (* monitor: a Generic[...] base was appended to a class *)

Definition a0 : astate := mkA [] [] [] [] [] false false false false.

Definition a_push (p : path) (s : astate) : astate :=
  mkA (qual s ++ [p]) (done s) (visited s) (decls s) (stv s) (changed s) (leak s) (clsdecl s) (genadd s).
Definition a_pop (s : astate) : astate :=
  mkA (removelast (qual s)) (done s) (visited s) (decls s) (stv s) (changed s) (leak s) (clsdecl s) (genadd s).
Definition a_changed (s : astate) : astate :=
  mkA (qual s) (done s) (visited s) (decls s) (stv s) true (leak s) (clsdecl s) (genadd s).

(* _quote_future_annotations *)
Definition quote (gn vis : list N) (a : expr) : expr :=
  match a with
  | EName n => if memN n gn && negb (memN n vis) then EStr n else a
  | _ => a
  end.

(* _match_signatures.compatible with overwrite=False, strict_annotation_matching=True *)
Definition compatible (p q : option expr) : bool :=
  match p, q with
  | Some x, Some y => expr_eqb x y
  | _, _ => true
  end.

Fixpoint match_posargs (ps qs : list param) : bool :=
  match ps, qs with
  | [], [] => true
  | p :: ps', q :: qs' => compatible (pann p) (pann q) && match_posargs ps' qs'
  | _, _ => false
  end.

(* dict {name: param}: the last parameter of that name *)
Fixpoint last_param (n : N) (l : list param) : option param :=
  match l with
  | [] => None
  | p :: r => match last_param n r with
              | Some q => Some q
              | None => if pname p =? n then Some p else None
              end
  end.

Definition match_kwargs (ps qs : list param) : bool :=
  list_eqb N.eqb (sortN (dedupN (map pname ps))) (sortN (dedupN (map pname qs))) &&
  forallb (fun p => match last_param (pname p) ps, last_param (pname p) qs with
                    | Some p', Some q' => compatible (pann p') (pann q')
                    | _, _ => true
                    end) ps.

Definition star_present (s : starp) : bool := match s with NoStar => false | _ => true end.
Definition opt_present {A} (o : option A) : bool := match o with None => false | Some _ => true end.

Definition match_signatures (ps : params) (r : option expr) (fa : fann) : bool :=
  let qs := fst fa in
  match_posargs (pos ps) (pos qs) && match_posargs (posonly ps) (posonly qs) &&
  match_kwargs (kwonly ps) (kwonly qs) &&
  Bool.eqb (star_present (star ps)) (star_present (star qs)) &&
  Bool.eqb (opt_present (kwstar ps)) (opt_present (kwstar qs)) &&
  compatible r (snd fa).

(* _update_parameters.update_annotation, positional (key = index): lists walked in lockstep *)
Definition upd_param (gn vis : list N) (p : param) (a : option expr) : param :=
  match pann p, a with
  | None, Some x => mkParam (pname p) (Some (quote gn vis x)) (pdef p)
  | _, _ => p
  end.
Fixpoint upd_positional (gn vis : list N) (ps qs : list param) : list param :=
  match ps, qs with
  | p :: ps', q :: qs' => upd_param gn vis p (pann q) :: upd_positional gn vis ps' qs'
  | _, _ => ps
  end.
(* by name: parameter_annotations[name] = annotation of the last stub parameter of that name that has one *)
Fixpoint last_ann (n : N) (l : list param) : option expr :=
  match l with
  | [] => None
  | p :: r => match last_ann n r with
              | Some a => Some a
              | None => if pname p =? n then pann p else None
              end
  end.
Definition upd_named (gn vis : list N) (ps qs : list param) : list param :=
  map (fun p => upd_param gn vis p (last_ann (pname p) qs)) ps.

Definition param_gain (ps qs : list param) : bool :=
  negb (list_eqb (fun p q => Bool.eqb (opt_present (pann p)) (opt_present (pann q))) ps qs).

Definition update_parameters (gn vis : list N) (ps : params) (qs : params) : params :=
  mkParams (upd_positional gn vis (posonly ps) (posonly qs))
           (upd_positional gn vis (pos ps) (pos qs))
           (star ps)
           (upd_named gn vis (kwonly ps) (kwonly qs))
           (kwstar ps).

(* m.matches(b.value, m.Subscript(value=m.Name("Generic"))) *)
Definition is_generic_base (b : expr) : bool :=
  match b with ESub (EName n) _ => n =? id_Generic | _ => false end.
Definition find_generic_base (bs : list expr) : option expr := find is_generic_base bs.

(* _add_to_toplevel_annotations(name) *)
Definition add_toplevel (e : env) (nm : path) (s : astate) : astate :=
  match dict_get path_eqb (qname (qual s ++ [nm])) (eattrs e) with
  | Some a => mkA (qual s) (done s) (visited s) (dict_set path_eqb nm a (decls s)) (stv s)
                  (changed s) (leak s)
                  (clsdecl s || negb (match qname (qual s) with [] => true | _ => false end))
                  (genadd s)
  | None => s
  end.

Definition not_underscore (nm : path) : bool := negb (path_eqb nm [id_underscore]).

Definition add_toplevels (e : env) (nms : list (option path)) (s : astate) : astate :=
  fold_left (fun s o => match o with
                        | Some nm => if not_underscore nm then add_toplevel e nm s else s
                        | None => s
                        end) nms s.

(* visit_Assign/record_typevar + leave_Assign *)
Definition apply_assign (e : env) (ts : list target) (v : value) (s : astate) : item * astate :=
  let s := if vtv v then
             match ts with
             | t :: _ => match tname t with
                         | Some nm => mkA (qual s) (done s) (visited s) (decls s) (nm :: stv s)
                                          (changed s) (leak s) (clsdecl s) (genadd s)
                         | None => s
                         end
             | [] => s
             end
           else s in
  match ts with
  | [t] =>
      (* _annotate_single_target *)
      match t with
      | TOther (KTuple elts) _ _ => (Assign ts v, add_toplevels e elts s)
      | TOther KSub _ _ => (Assign ts v, s)
      | TOther KAttr None _ => (Assign ts v, s)
      | TOther KAttr (Some nm) _ => (Assign ts v, a_pop (a_push nm s))     (* the `else: pop()` branch *)
      | TName n =>
          let s1 := a_push [n] s in
          let qn := qname (qual s1) in
          match dict_get path_eqb qn (eattrs e) with
          | Some a =>
              if mem_path qn (done s1) then
                (* falls through to `return updated_node` WITHOUT self.qualifier.pop() *)
                (Assign ts v,
                 mkA (qual s1) (done s1) (visited s1) (decls s1) (stv s1) (changed s1) true (clsdecl s1) (genadd s1))
              else
                let s2 := a_pop (mkA (qual s1) (qn :: done s1) (visited s1) (decls s1) (stv s1)
                                     true (leak s1) (clsdecl s1) (genadd s1)) in
                (* cst.AnnAssign(cst.Name(name), ...) *)
                (AnnAssign (TName n) (quote (egnames e) (visited s2) a) (Some v), s2)
          | None => (Assign ts v, a_pop s1)
          end
      end
  | _ =>
      (Assign ts v,
       add_toplevels e (flat_map (fun t => match t with
                                           | TName n => [Some [n]]
                                           | TOther KAttr nm _ => [nm]
                                           | _ => []
                                           end) ts) s)
  end.

Definition apply_fun (e : env) (n d : N) (ps : params) (r : option expr) (b : list item)
                     (s : astate) : item * astate :=
  let key := (qname (qual s ++ [[n]]), shape_of ps) in
  match dict_get fkey_eqb key (efuns e) with
  | Some fa =>
      if match_signatures ps r fa then
        let r' := match r, snd fa with
                  | None, Some a => Some (quote (egnames e) (visited s) a)
                  | _, _ => r
                  end in
        let ps' := update_parameters (egnames e) (visited s) ps (fst fa) in
        let gained := (negb (opt_present r) && opt_present r')
                      || param_gain (posonly ps) (posonly ps') || param_gain (pos ps) (pos ps')
                      || param_gain (kwonly ps) (kwonly ps') in
        (Fun n d ps' r' b, if gained then a_changed s else s)
      else (Fun n d ps r b, s)
  | None => (Fun n d ps r b, s)
  end.

Fixpoint apply_item (e : env) (it : item) (s : astate) : item * astate :=
  match it with
  | Cls n h bs b =>
      let s1 := a_push [n] s in
      let '(b', s2) :=
        (fix go (l : list item) (s : astate) : list item * astate :=
           match l with
           | [] => ([], s)
           | x :: r => let '(x', s') := apply_item e x s in
                       let '(r', s'') := go r s' in (x' :: r', s'')
           end) b s1 in
      let cls_name := qname (qual s2) in
      let s3 := a_pop (mkA (qual s2) (done s2) (n :: visited s2) (decls s2) (stv s2)
                           (changed s2) (leak s2) (clsdecl s2) (genadd s2)) in
      match cls_name with
      | [k] =>
          match dict_get N.eqb k (eclasses e) with
          | Some (Cls _ _ sbs _) =>
              match find_generic_base sbs, find_generic_base bs with
              | Some b1, None =>
                  (Cls n h (bs ++ [b1]) b',
                   mkA (qual s3) (done s3) (visited s3) (decls s3) (stv s3) true (leak s3) (clsdecl s3) true)
              | _, _ => (Cls n h bs b', s3)
              end
          | _ => (Cls n h bs b', s3)
          end
      | _ => (Cls n h bs b', s3)
      end
  | Fun n d ps r b => apply_fun e n d ps r b s      (* visit_FunctionDef returns False *)
  | Assign ts v => apply_assign e ts v s
  | Block i b =>
      let '(b', s') :=
        (fix go (l : list item) (s : astate) : list item * astate :=
           match l with
           | [] => ([], s)
           | x :: r => let '(x', s') := apply_item e x s in
                       let '(r', s'') := go r s' in (x' :: r', s'')
           end) b s in
      (Block i b', s')
  | x => (x, s)
  end.

Fixpoint apply_items (e : env) (l : list item) (s : astate) : list item * astate :=
  match l with
  | [] => ([], s)
  | x :: r => let '(x', s') := apply_item e x s in
              let '(r', s'') := apply_items e r s' in (x' :: r', s'')
  end.

(* ------------------------------------------------------------------------------------------ *)
(* AddImportsVisitor *)

Definition is_import (it : item) : bool := match it with Import _ _ _ _ _ => true | _ => false end.
Definition is_from_import (it : item) : bool :=
  match it with Import true _ _ _ _ => true | Added (Import true _ _ _ _) => true | _ => false end.

(* _skip_first: leading docstring or `__strict__ = ...` *)
Definition skip_first (p : list item) : nat :=
  match p with
  | Doc _ :: _ => 1
  | Assign [TName n] _ :: _ => if n =? id_strict then 1 else 0
  | _ => 0
  end%nat.

Fixpoint take_imports (l : list item) : list item :=
  match l with
  | x :: r => if is_import x then x :: take_imports r else []
  | [] => []
  end.

Definition top_block (p : list item) : list item := take_imports (skipn (skip_first p) p).
Definition import_add_location (p : list item) : nat := (skip_first p + length (top_block p))%nat.

(* objects already imported from module m in the top block (gatherer.object_mapping) *)
Definition top_imported (m : path) (blk : list item) : list N :=
  flat_map (fun it => match it with
                      | Import true m' ns _ _ => if path_eqb m m' then ns else []
                      | _ => []
                      end) blk.

Fixpoint insert_path (m : path) (l : list path) : list path :=
  match l with
  | [] => [m]
  | x :: r => if path_eqb m x then l else if path_leb m x then m :: l else x :: insert_path m r
  end.

(* module_mapping after visit_Module: sorted modules, each with the sorted objects still to add *)
Definition import_work (needs : list (path * N)) (p : list item) : list (path * list N) :=
  let mods := fold_right insert_path [] (map fst needs) in
  flat_map (fun m =>
     let objs := dedupN (map snd (filter (fun mn => path_eqb (fst mn) m) needs)) in
     let left := filter (fun o => negb (memN o (top_imported m (top_block p)))) objs in
     match left with [] => [] | _ => [(m, sortN left)] end) mods.

(* leave_ImportFrom over the top block (first statement of a module takes all of its work) *)
Fixpoint merge_into_block (blk : list item) (work : list (path * list N))
  : list item * list (path * list N) :=
  match blk with
  | [] => ([], work)
  | Import true m ns ad i :: r =>
      match dict_get path_eqb m work with
      | Some objs =>
          let '(r', w') := merge_into_block r (filter (fun mw => negb (path_eqb (fst mw) m)) work) in
          (Import true m ns (ad ++ objs) i :: r', w')
      | None => let '(r', w') := merge_into_block r work in (Import true m ns ad i :: r', w')
      end
  | x :: r => let '(r', w') := merge_into_block r work in (x :: r', w')
  end.

Definition add_imports (needs : list (path * N)) (orig core : list item) : list item :=
  let k := skip_first orig in
  let n := length (top_block orig) in
  let '(blk', rest) := merge_into_block (firstn n (skipn k core)) (import_work needs orig) in
  firstn k core ++ blk' ++
  map (fun mw => Added (Import true (fst mw) [] (snd mw) 0)) rest ++
  skipn (k + n) core.

(* ------------------------------------------------------------------------------------------ *)
(* leave_Module + transform_module_impl *)

(* _split_module: after the last module-level `from ... import` line *)
Fixpoint split_loc_aux (l : list item) (i : nat) (acc : nat) : nat :=
  match l with
  | [] => acc
  | x :: r => split_loc_aux r (S i) (if is_from_import x then S i else acc)
  end.
Definition split_loc (l : list item) : nat := split_loc_aux l 0 0.

Record merged := mkM {
  m_out : list item;       (* the module merge_sources returns *)
  m_err : bool;            (* merge_sources raises MergeError (or the stub is outside the model) *)
  m_leak : bool;
  m_clsdecl : bool;
  m_needs : list (path * N);
  m_fresh : list N;        (* classes of the stub injected into the source *)
  m_generic : bool }.      (* some class got a Generic[...] base appended *)

Definition single (nm : path) : bool := match nm with [_] => true | _ => false end.

Definition merge (v : variant) (p s : list item) : merged :=
  let s' := filter_stub v s in
  let imp := stub_imports s' in
  let c := collect_items imp s' c0 in
  let tvs := filter (fun kv => tv_used (cnames c) (fst kv)) (ctvs c) in
  let e := mkE (cfuns c) (cattrs c) (cclasses c) (global_names p) in
  let '(core, st) := apply_items e p a0 in
  let fresh := filter (fun kd => negb (memN (fst kd) (visited st))) (cclasses c) in
  let new_tvs := filter (fun kv => negb (mem_path (fst kv) (stv st))) tvs in
  let decl_items := map (fun kd => Added (AnnAssign (TName (hd 0 (fst kd)))
                                                    (quote (global_names p) (visited st) (snd kd)) None))
                        (decls st) in
  let top := decl_items ++ map (fun kv => Added (snd kv)) new_tvs
                        ++ map (fun kd => Added (snd kd)) fresh in
  let any_change := changed st || negb (Nat.eqb (length top) 0) in
  let with_imports := add_imports (cneeds c) p core in
  let k := split_loc with_imports in
  let out := firstn k with_imports ++ top ++ skipn k with_imports in
  mkM (if any_change then out else p)
      (cerr c || negb (forallb (fun kd => single (fst kd)) (decls st)))
      (leak st) (clsdecl st) (cneeds c) (map fst fresh)
      (genadd st).

(* ------------------------------------------------------------------------------------------ *)
(* erase: remove every annotation, annotation-only statements, and the typing imports / TypeVar
   definitions the merge added *)

Definition erase_param (p : param) : param := mkParam (pname p) None (pdef p).
Definition erase_params (ps : params) : params :=
  mkParams (map erase_param (posonly ps)) (map erase_param (pos ps))
           (match star ps with StarArg p => StarArg (erase_param p) | s => s end)
           (map erase_param (kwonly ps)) (option_map erase_param (kwstar ps)).

Definition is_typing (m : path) : bool := path_eqb m [id_typing].

Fixpoint erase_item (it : item) : list item :=
  match it with
  | Fun n d ps r b => [Fun n d (erase_params ps) None (flat_map erase_item b)]
  | Cls n h bs b => [Cls n h bs (flat_map erase_item b)]
  | Assign ts v => [Assign ts v]
  | AnnAssign t a (Some v) => [Assign [t] v]
  | AnnAssign t a None => []
  | Block i b => [Block i (flat_map erase_item b)]
  | Import f m ns ad i => [Import f m ns (if is_typing m then [] else ad) i]
  | Added (Import true m _ _ _) => if is_typing m then [] else [it]
  | Added (Assign _ v) => if vtv v then [] else [it]
  | Added (AnnAssign _ _ None) => []
  | x => [x]
  end.
Definition erase (l : list item) : list item := flat_map erase_item l.

(* ------------------------------------------------------------------------------------------ *)
(* annotation slots, in document order, with the TRUE qualified name of the definition
   (class chain + name; None inside function bodies, which no stub can address) *)

Inductive which := WRet | WPosOnly (i : nat) | WPos (i : nat) | WStar | WKw (n : N) | WKwStar | WVar.
Record slot := mkSlot { s_qn : option path; s_shape : option shape; s_which : which; s_ann : option expr }.

Fixpoint pslots (qn : option path) (sh : shape) (mk : nat -> which) (i : nat) (l : list param) : list slot :=
  match l with
  | [] => []
  | p :: r => mkSlot qn (Some sh) (mk i) (pann p) :: pslots qn sh mk (S i) r
  end.

Definition fun_slots (qn : option path) (ps : params) (r : option expr) : list slot :=
  let sh := shape_of ps in
  mkSlot qn (Some sh) WRet r ::
  pslots qn sh WPosOnly 0 (posonly ps) ++ pslots qn sh WPos 0 (pos ps) ++
  (match star ps with StarArg p => [mkSlot qn (Some sh) WStar (pann p)] | _ => [] end) ++
  map (fun p => mkSlot qn (Some sh) (WKw (pname p)) (pann p)) (kwonly ps) ++
  (match kwstar ps with Some p => [mkSlot qn (Some sh) WKwStar (pann p)] | None => [] end).

Definition ext (chain : option path) (nm : path) : option path := option_map (fun c => c ++ nm) chain.

Fixpoint slots (chain : option path) (it : item) : list slot :=
  match it with
  | Fun n d ps r b => fun_slots (ext chain [n]) ps r ++ flat_map (slots None) b
  | Cls n h bs b => flat_map (slots (ext chain [n])) b
  | Assign [TName n] v => [mkSlot (ext chain [n]) None WVar None]
  | AnnAssign t a v =>
      [mkSlot (match tname t with Some nm => ext chain nm | None => None end) None WVar (Some a)]
  | Block i b => flat_map (slots chain) b
  | _ => []
  end.
Definition mslots (l : list item) : list slot := flat_map (slots (Some [])) l.
Definition ann_at (l : list item) (i : nat) : option slot := nth_error (mslots l) i.

(* module-level declarations inserted by the merge *)
Definition added_decls (l : list item) : list (path * expr) :=
  flat_map (fun it => match it with
                      | Added (AnnAssign t a None) =>
                          match tname t with Some nm => [(nm, a)] | None => [] end
                      | _ => []
                      end) l.

(* the stub's definitions with their true qualified names *)
Inductive sdef := SFun (qn : path) (ps : params) (r : option expr) | SVar (qn : path) (a : expr).
Fixpoint stub_defs (chain : path) (it : item) : list sdef :=
  match it with
  | Fun n d ps r b => [SFun (chain ++ [n]) ps r]
  | Cls n h bs b => flat_map (stub_defs (chain ++ [n])) b
  | AnnAssign t a v => match tname t with Some nm => [SVar (chain ++ nm) a] | None => [] end
  | Block i b => flat_map (stub_defs chain) b
  | _ => []
  end.
Definition stub_all (s : list item) : list sdef := flat_map (stub_defs []) s.

Definition ann_in (ps : params) (r : option expr) (w : which) : option expr :=
  match w with
  | WRet => r
  | WPosOnly i => match nth_error (posonly ps) i with Some q => pann q | None => None end
  | WPos i => match nth_error (pos ps) i with Some q => pann q | None => None end
  | WKw n => last_ann n (kwonly ps)
  | _ => None
  end.

(* "the annotation the stub gives for that definition" *)
Definition stub_gives (sd : list sdef) (sl : slot) (a0 : expr) : Prop :=
  match s_qn sl with
  | None => False
  | Some qn =>
      match s_which sl with
      | WVar => In (SVar qn a0) sd
      | w => exists ps r, In (SFun qn ps r) sd /\ Some (shape_of ps) = s_shape sl /\ ann_in ps r w = Some a0
      end
  end.

(* equal up to the forward-reference quoting of a bare name *)
Definition same_ann (a a0 : expr) : Prop := a = a0 \/ exists n, a0 = EName n /\ a = EStr n.

Definition bare_any_never (a : expr) : bool :=
  match a with EName n => (n =? id_Any) || (n =? id_Never) | _ => false end.

(* hypotheses used by the partial theorems (all decidable; monitored by the harness) *)
Fixpoint expr_dotted (e : expr) : bool :=
  match e with
  | EAttr _ _ => true
  | ESub h args => expr_dotted h || existsb expr_dotted args
  | EOther _ subs => existsb expr_dotted subs
  | _ => false
  end.
Definition param_dotted (p : param) : bool := match pann p with Some a => expr_dotted a | None => false end.
Definition params_dotted (ps : params) : bool :=
  existsb param_dotted (posonly ps) || existsb param_dotted (pos ps) || existsb param_dotted (kwonly ps).
Fixpoint item_dotted (it : item) : bool :=
  match it with
  | Fun n d ps r b => params_dotted ps || match r with Some a => expr_dotted a | None => false end
  | Cls n h bs b => existsb expr_dotted bs || existsb item_dotted b
  | AnnAssign t a v => expr_dotted a
  | Block i b => existsb item_dotted b
  | _ => false
  end.
(* no dotted name (a.b) in any annotation or base class the collector reads *)
Definition dotted_free (s : list item) : bool := negb (existsb item_dotted s).

(* a property of every return annotation / variable annotation the collector reads (function bodies
   are not read) *)
Fixpoint rets_ok (f : expr -> bool) (it : item) : bool :=
  match it with
  | Fun _ _ _ r _ => match r with Some a => f a | None => true end
  | Cls _ _ _ b => forallb (rets_ok f) b
  | Block _ b => forallb (rets_ok f) b
  | _ => true
  end.
Fixpoint vars_ok (f : expr -> bool) (it : item) : bool :=
  match it with
  | AnnAssign _ a _ => f a
  | Cls _ _ _ b => forallb (vars_ok f) b
  | Block _ b => forallb (vars_ok f) b
  | _ => true
  end.
(* `typing.Any` / `x.Never` written as a dotted name (dequalified to a bare Any/Never by libcst) *)
Definition not_dotted_any (a : expr) : bool :=
  match a with EAttr _ n => negb ((n =? id_Any) || (n =? id_Never)) | _ => true end.
Definition dotted_any_free (s : list item) : bool :=
  forallb (rets_ok not_dotted_any) s && forallb (vars_ok not_dotted_any) s.

(* every import the stub asks for is `from typing import ...` *)
Definition needs_typing_only (m : merged) : bool := forallb (fun mn => is_typing (fst mn)) (m_needs m).

(* ------------------------------------------------------------------------------------------ *)
(* serialisation to a token stream, compared by the harness with the same serialisation of the
   `ast` projection of the real merge_sources output ([Added] marks are not observable) *)

Definition ser_list {A} (f : A -> list N) (l : list A) : list N := N.of_nat (length l) :: flat_map f l.
Definition ser_opt {A} (f : A -> list N) (o : option A) : list N :=
  match o with None => [0] | Some a => 1 :: f a end.
Definition ser_path (p : path) : list N := ser_list (fun x => [x]) p.
Definition b2n (b : bool) : N := if b then 1 else 0.

Fixpoint ser_expr (e : expr) : list N :=
  match e with
  | EName n => [1; n]
  | EAttr q n => 2 :: ser_path q ++ [n]
  | ESub h args => 3 :: ser_expr h ++ N.of_nat (length args) :: flat_map ser_expr args
  | EStr n => [4; n]
  | EOther i subs => 5 :: i :: N.of_nat (length subs) :: flat_map ser_expr subs
  end.

Definition ser_param (p : param) : list N :=
  pname p :: ser_opt ser_expr (pann p) ++ ser_opt (fun d => [d]) (pdef p).
Definition ser_params (ps : params) : list N :=
  ser_list ser_param (posonly ps) ++ ser_list ser_param (pos ps) ++
  (match star ps with NoStar => [0] | BareStar => [1] | StarArg p => 2 :: ser_param p end) ++
  ser_list ser_param (kwonly ps) ++ ser_opt ser_param (kwstar ps).
Definition ser_value (v : value) : list N := [vid v; b2n (vtv v)].
Definition ser_target (t : target) : list N :=
  match t with
  | TName n => [0; n]
  | TOther k nm i =>
      (match k with
       | KAttr => [1] | KSub => [2]
       | KTuple elts => 3 :: ser_list (ser_opt ser_path) elts
       end) ++ ser_opt ser_path nm ++ [i]
  end.

Fixpoint ser_item (it : item) : list N :=
  match it with
  | Fun n d ps r b =>
      10 :: n :: d :: ser_params ps ++ ser_opt ser_expr r ++ N.of_nat (length b) :: flat_map ser_item b
  | Cls n h bs b =>
      11 :: n :: h :: ser_list ser_expr bs ++ N.of_nat (length b) :: flat_map ser_item b
  | Assign ts v => 12 :: ser_list ser_target ts ++ ser_value v
  | AnnAssign t a v => 13 :: ser_target t ++ ser_expr a ++ ser_opt ser_value v
  | Block i b => 14 :: i :: N.of_nat (length b) :: flat_map ser_item b
  | Import f m ns ad i => 15 :: b2n f :: ser_path m ++ ser_list (fun x => [x]) (ad ++ ns) ++ [i]
  | Doc i => [16; i]
  | Other i => [17; i]
  | Added x => ser_item x
  end.

Definition ser_merged (m : merged) : list N :=
  if m_err m then [999] else N.of_nat (length (m_out m)) :: flat_map ser_item (m_out m).

(* polynomial hash of a token stream (mod the Mersenne prime 2^61-1); the harness hashes the
   implementation's token stream the same way, so a case file carries inputs only *)
Definition hash_p : N := 2305843009213693951.
Definition hash_b : N := 1000003.
Definition hash_tokens (l : list N) : N :=
  fold_left (fun h t => (h * hash_b + t + 1) mod hash_p) l 7.

(* one correspondence case: (hash of the as-written model's output, hash of the fixed model's output,
   monitor bits of the as-written run, monitor bits of the fixed run): 4 leak, 8 clsdecl,
   16 non-typing import requested, 32 fresh class injected, 64 Generic base added, 128 error *)
Definition bit (b : bool) (w : N) : N := if b then w else 0.
Definition monitor_bits (m : merged) : N :=
  bit (m_leak m) 4 + bit (m_clsdecl m) 8 + bit (negb (needs_typing_only m)) 16 +
  bit (negb (Nat.eqb (length (m_fresh m)) 0)) 32 + bit (m_generic m) 64 + bit (m_err m) 128.
Definition check_case (c : list item * list item) : N * N * N * N :=
  let '(p, s) := c in
  let ma := merge AsWritten p s in
  let mf := merge Fixed p s in
  (hash_tokens (ser_merged ma), hash_tokens (ser_merged mf), monitor_bits ma, monitor_bits mf).
