(* C20, PROCESS level: proofs about Merge/Ctx.v. *)
From Coq Require Import List NArith Bool Arith Lia.
From PV Require Import Merge.Model Merge.Proofs Merge.Files Merge.FilesProofs Merge.FilesLift Merge.Ctx.
Import ListNotations.
Open Scope N_scope.

(* ---------------------------------------------------------------------------------------------------------- *)
(* 1. mini syntax trees *)
Lemma merge_in_fresh v p s : merge_in v ctx0 p s = (merge v p s, m_needs (merge v p s)).
Proof.
  unfold merge_in, merge, ctx0. cbn [app].
  destruct (apply_items _ p a0) as [core st]. reflexivity.
Qed.

Lemma merge_seq_fresh v : forall l cx,
  merge_seq v false cx l = map (fun ps => merge v (fst ps) (snd ps)) l.
Proof.
  induction l as [|[p s] r IH]; intros cx; [reflexivity|].
  cbn [merge_seq map fst snd]. rewrite merge_in_fresh. rewrite IH. reflexivity.
Qed.

Lemma merge_seq_length v share : forall l cx, length (merge_seq v share cx l) = length l.
Proof.
  induction l as [|[p s] r IH]; intros cx; [reflexivity|].
  cbn [merge_seq]. destruct (merge_in v (if share then cx else ctx0) p s) as [m cx']. cbn [length]. now rewrite IH.
Qed.

(* the context after a merge: what it held before, then this stub's requests - it only grows *)
Lemma merge_in_ctx v cx p s : snd (merge_in v cx p s) = cx ++ m_needs (merge v p s).
Proof.
  unfold merge_in, merge. destruct (apply_items _ p a0) as [core st]. reflexivity.
Qed.

(* whatever the context holds, it reaches the output only through AddImportsVisitor: a merge that inserts
   nothing returns the source itself *)
Lemma merge_in_same_flags v cx p s :
  m_err (fst (merge_in v cx p s)) = m_err (merge v p s) /\
  m_leak (fst (merge_in v cx p s)) = m_leak (merge v p s) /\
  m_clsdecl (fst (merge_in v cx p s)) = m_clsdecl (merge v p s) /\
  m_fresh (fst (merge_in v cx p s)) = m_fresh (merge v p s) /\
  m_generic (fst (merge_in v cx p s)) = m_generic (merge v p s) /\
  m_needs (fst (merge_in v cx p s)) = cx ++ m_needs (merge v p s).
Proof.
  unfold merge_in, merge. destruct (apply_items _ p a0) as [core st]. cbn. repeat split; reflexivity.
Qed.

(* witness: geometry.py / counting.py of the seeded demo, reduced.
   a.py:  def price(x): ...        a.pyi: from fractions import Fraction ; def price(x: int) -> Fraction: ...
   b.py:  def count(n): ...        b.pyi: def count(n: int) -> int: ...
   identifiers: 101 price, 102 x, 103 count, 104 n, 110 fractions, 111 Fraction *)
Definition wa_p : list item := [Fun 101 0 (mkParams [] [mkParam 102 None None] NoStar [] None) None [Other 1]].
Definition wa_s : list item :=
  [Import true [110] [111] [] 0;
   Fun 101 0 (mkParams [] [mkParam 102 (Some (EName id_int)) None] NoStar [] None) (Some (EName 111)) [Other 2]].
Definition wb_p : list item := [Fun 103 0 (mkParams [] [mkParam 104 None None] NoStar [] None) None [Other 3]].
Definition wb_s : list item :=
  [Fun 103 0 (mkParams [] [mkParam 104 (Some (EName id_int)) None] NoStar [] None) (Some (EName id_int)) [Other 4]].
Definition w_seq := [(wa_p, wa_s); (wb_p, wb_s)].
Definition wb_out_fresh : list item :=
  [Fun 103 0 (mkParams [] [mkParam 104 (Some (EName id_int)) None] NoStar [] None) (Some (EName id_int)) [Other 3]].
Definition wb_out_shared : list item := Added (Import true [110] [] [111] 0) :: wb_out_fresh.

Lemma shared_context_witness :
  map m_out (merge_seq Fixed false ctx0 w_seq) = [m_out (merge Fixed wa_p wa_s); wb_out_fresh] /\
  map m_out (merge_seq Fixed true ctx0 w_seq) = [m_out (merge Fixed wa_p wa_s); wb_out_shared] /\
  m_needs (merge Fixed wb_p wb_s) = [] /\
  imports_own (m_needs (merge Fixed wb_p wb_s)) wb_out_fresh = true /\
  imports_own (m_needs (merge Fixed wb_p wb_s)) wb_out_shared = false /\
  erase wb_out_fresh = erase wb_p /\
  erase wb_out_shared <> erase wb_p.
Proof. vm_compute. repeat split; try reflexivity. discriminate. Qed.

(* ---------------------------------------------------------------------------------------------------------- *)
(* 2./3. file level *)
Section PP.
Variables (B T C : Type) (read : B -> option T) (write : T -> B) (teqb : T -> T -> bool).
Variables (fresh : C) (msrcC : C -> T -> T -> option T * C).
Variables (cwd : loc) (tree : node B).
Notation msrc := (msrc_fresh T C fresh msrcC).

Lemma mfsrc_c_none ov py s m bk :
  merge_files_src_c B T C read write teqb fresh msrcC cwd tree ov None py s m bk =
  (merge_files_src B T read write teqb msrc cwd tree ov py s m bk, None).
Proof.
  unfold merge_files_src_c, merge_files_src, msrc_fresh.
  destruct (st_read B tree ov (lexloc cwd py)); try reflexivity.
  destruct (read b); try reflexivity.
  destruct (msrcC fresh t s) as [r c']. cbn [fst].
  destruct r; try reflexivity.
  destruct m; try reflexivity.
  destruct (negb (teqb t0 t)); try reflexivity.
  destruct (truthy bk); try reflexivity.
  destruct (lookup B tree (lexloc cwd (backup_path py n))) as [[|]|]; reflexivity.
Qed.

Lemma mfiles_c_plain ov mm py pyi m bk :
  merge_files_c B T C read write teqb fresh msrcC false cwd tree ov mm None py pyi m bk =
  (merge_files B T read write teqb msrc cwd tree ov py pyi m bk, None, mm).
Proof.
  unfold merge_files_c, merge_files.
  destruct (st_read B tree ov (lexloc cwd pyi)); try reflexivity.
  destruct (read b); try reflexivity.
  rewrite mfsrc_c_none. reflexivity.
Qed.

Lemma tree_step_c_plain bk ts mm j :
  tree_step_c B T C read write teqb fresh msrcC false cwd tree bk (mkTC B T C ts None mm) j =
  mkTC B T C (tree_step B T read write teqb msrc cwd tree bk ts j) None mm.
Proof.
  unfold tree_step_c, tree_step. cbn [tc_st tc_ctx tc_memo].
  destruct (t_raised B ts); [reflexivity|].
  destruct (st_exists B tree (t_ov B ts) (lexloc cwd (snd j))); [|reflexivity].
  rewrite mfiles_c_plain.
  destruct (f_res B T (merge_files B T read write teqb msrc cwd tree (t_ov B ts) (fst j) (snd j) OVERWRITE bk)) as [[|]| |];
    reflexivity.
Qed.

Lemma fold_tree_c_plain bk mm : forall js ts,
  fold_left (tree_step_c B T C read write teqb fresh msrcC false cwd tree bk) js (mkTC B T C ts None mm) =
  mkTC B T C (fold_left (tree_step B T read write teqb msrc cwd tree bk) js ts) None mm.
Proof.
  induction js as [|j r IH]; intros ts; [reflexivity|].
  cbn [fold_left]. rewrite tree_step_c_plain. apply IH.
Qed.

(* merge_tree as written (no context handed down, no memo): the context-passing model collapses to Merge/Files.v's
   merge_tree over the pure function msrc_fresh - whatever msrcC does with its context *)
Lemma merge_tree_c_plain fixed ov mm top P bk :
  merge_tree_c B T C read write teqb fresh msrcC false false fixed cwd tree ov mm top P bk =
  mkTC B T C (fold_left (tree_step B T read write teqb msrc cwd tree bk) (jobs B fixed cwd tree top P) (mkTS B ov [] [] false))
       None mm.
Proof. unfold merge_tree_c. apply fold_tree_c_plain. Qed.

Lemma merge_tree_c_is_merge_tree fixed mm top P bk :
  tc_st B T C (merge_tree_c B T C read write teqb fresh msrcC false false fixed cwd tree [] mm top P bk) =
  merge_tree B T read write teqb msrc fixed cwd tree top P bk.
Proof. rewrite merge_tree_c_plain. reflexivity. Qed.

(* pointwise: every job's writes / changed flag / error flag are those of merge_files run alone on the ORIGINAL
   file system with a context of its own *)
Lemma merge_tree_pointwise fixed mm top P bk :
  let js := jobs B fixed cwd tree top P in
  let r := tc_st B T C (merge_tree_c B T C read write teqb fresh msrcC false false fixed cwd tree [] mm top P bk) in
  indep B T read write teqb msrc cwd tree bk [] js ->
  no_raise B T read teqb msrc cwd tree bk [] js ->
  t_ov B r = flat_map (jwrites B T read write teqb msrc cwd tree bk []) (rev js) /\
  t_changed B r = map fst (filter (fun j => is_changed B T (jo B T read teqb msrc cwd tree bk [] j)) js) /\
  t_errors B r = map fst (filter (fun j => is_err B T (jo B T read teqb msrc cwd tree bk [] j)) js) /\
  t_raised B r = false /\
  tc_memo B T C (merge_tree_c B T C read write teqb fresh msrcC false false fixed cwd tree [] mm top P bk) = mm.
Proof.
  cbv zeta. intros Hi Hn. rewrite merge_tree_c_is_merge_tree.
  destruct (merge_tree_spec B T read write teqb msrc cwd tree bk fixed top P Hi Hn) as (H1 & H2 & H3 & H4).
  repeat split; auto. rewrite merge_tree_c_plain. reflexivity.
Qed.

(* a history in one process = the same operations, each performed by a new process *)
Lemma h_step_plain fixed h o :
  let '(h', x) := h_step B T C read write teqb fresh msrcC false false fixed cwd tree h o in
  (h_ov B T h', x) = fresh_step B T C read write teqb fresh msrcC fixed cwd tree (h_ov B T h) o /\
  h_memo B T h' = h_memo B T h.
Proof.
  destruct o as [py pyi m bk|top P bk|ip df bk py pyi|l b]; cbn [h_step fresh_step].
  - rewrite mfiles_c_plain. split; reflexivity.
  - rewrite merge_tree_c_plain. cbn [tc_st tc_memo h_ov h_memo]. split; reflexivity.
  - destruct (truthy bk) eqn:Eb; destruct ip; try (split; reflexivity);
      rewrite mfiles_c_plain; split; reflexivity.
  - split; reflexivity.
Qed.

Lemma run_history_plain fixed : forall ops h,
  let '(h', xs) := run_history B T C read write teqb fresh msrcC false false fixed cwd tree h ops in
  (h_ov B T h', xs) = fresh_history B T C read write teqb fresh msrcC fixed cwd tree (h_ov B T h) ops.
Proof.
  induction ops as [|o r IH]; intros h; [reflexivity|].
  cbn [run_history fresh_history].
  pose proof (h_step_plain fixed h o) as Hs.
  destruct (h_step B T C read write teqb fresh msrcC false false fixed cwd tree h o) as [h1 x].
  destruct Hs as [Hs _]. rewrite <- Hs.
  specialize (IH h1).
  destruct (run_history B T C read write teqb fresh msrcC false false fixed cwd tree h1 r) as [h2 xs].
  rewrite <- IH. reflexivity.
Qed.

(* main(): without -i nothing is ever written; -b without -i is a usage error that touches nothing *)
Lemma main_no_inplace_never_writes share memo fixed h df bk py pyi :
  h_ov B T (fst (h_step B T C read write teqb fresh msrcC share memo fixed cwd tree h (OpMain false df bk py pyi))) = h_ov B T h.
Proof.
  cbn [h_step]. destruct (truthy bk) eqn:Eb; [reflexivity|].
  unfold merge_files_c.
  assert (Hsrc : forall s cx, f_ov B T (fst (merge_files_src_c B T C read write teqb fresh msrcC cwd tree (h_ov B T h) cx py s
                                             (main_mode false df) None)) = h_ov B T h).
  { intros s cx. unfold merge_files_src_c.
    destruct (st_read B tree (h_ov B T h) (lexloc cwd py)); try reflexivity.
    destruct (read b); try reflexivity.
    destruct (msrcC _ t s) as [r c']. destruct r; try reflexivity.
    destruct df; cbn [main_mode]; reflexivity. }
  destruct (if memo then memo_get T pyi (h_memo B T h) else None) as [s|].
  - specialize (Hsrc s None). destruct (merge_files_src_c _ _ _ _ _ _ _ _ _ _ _ _ _ s _ _) as [r cx']. exact Hsrc.
  - destruct (st_read B tree (h_ov B T h) (lexloc cwd pyi)); try reflexivity.
    destruct (read b); try reflexivity.
    specialize (Hsrc t None). destruct (merge_files_src_c _ _ _ _ _ _ _ _ _ _ _ _ _ t _ _) as [r cx']. exact Hsrc.
Qed.

Lemma main_backup_needs_inplace share memo fixed h df bk n py pyi :
  truthy bk = Some n ->
  h_step B T C read write teqb fresh msrcC share memo fixed cwd tree h (OpMain false df bk py pyi) = (h, OUsage).
Proof. intros E. cbn [h_step]. rewrite E. reflexivity. Qed.
End PP.

(* ---------------------------------------------------------------------------------------------------------- *)
(* witnesses at the file level *)
(* (a) one context for the whole tree: contents are mini syntax trees, the context is [ctx] *)
Definition msrcC_model (v : variant) (cx : ctx) (p s : list item) : option (list item) * ctx :=
  let '(m, cx') := merge_in v cx p s in ((if m_err m then None else Some (m_out m)), cx').

Lemma msrc_fresh_model v p s : msrc_fresh _ _ ctx0 (msrcC_model v) p s = msrc_model v p s.
Proof. unfold msrc_fresh, msrcC_model, msrc_model. rewrite merge_in_fresh. reflexivity. Qed.

Definition s_tree : node (list item) :=
  Dir [(nm_src, Dir [(nm_a_py, File wa_p); (nm_b_py, File wb_p)]);
       (nm_s, Dir [(stub_name nm_a_py, File wa_s); (stub_name nm_b_py, File wb_s)])].
Definition it_eqb (a b : list item) : bool := list_eqb N.eqb (flat_map ser_item a) (flat_map ser_item b).
Definition s_run (share : bool) :=
  merge_tree_c (list item) (list item) ctx (@Some _) (fun t => t) it_eqb ctx0 (msrcC_model Fixed)
               share false true [] s_tree [] [] w_top w_P None.

Lemma shared_context_tree_witness :
  st_read _ s_tree (t_ov _ (tc_st _ _ _ (s_run false))) [nm_src; nm_b_py] = RFile wb_out_fresh /\
  st_read _ s_tree (t_ov _ (tc_st _ _ _ (s_run true))) [nm_src; nm_b_py] = RFile wb_out_shared /\
  msrc_model Fixed wb_p wb_s = Some wb_out_fresh /\
  st_read _ s_tree (t_ov _ (tc_st _ _ _ (s_run true))) [nm_src; nm_a_py] =
  st_read _ s_tree (t_ov _ (tc_st _ _ _ (s_run false))) [nm_src; nm_a_py].
Proof. vm_compute. repeat split; reflexivity. Qed.

(* (b) stub text remembered per path string: merge, put the source back, rewrite the stub, merge again *)
Definition m_tree : tnode := Dir [(nm_d, Dir [(nm_a_py, File [120; 10]); (stub_name nm_a_py, File [49])])].
Definition m_py : pth := mkP 0 [nm_d; nm_a_py].
Definition m_pyi : pth := mkP 0 [nm_d; stub_name nm_a_py].
Definition m_ops : list (op (list N)) :=
  [OpFiles m_py m_pyi OVERWRITE None;
   OpWrite [nm_d; nm_a_py] [120; 10];
   OpWrite [nm_d; stub_name nm_a_py] [50];
   OpFiles m_py m_pyi OVERWRITE None].
Definition toy_msrcC (c : unit) (p s : list N) : option (list N) * unit := (toy_msrc p s, tt).
Definition m_run (memo : bool) :=
  run_history (list N) (list N) unit read_text write_text text_eqb tt toy_msrcC false memo true [] m_tree
              (mkH _ _ [] []) m_ops.

Lemma memo_witness :
  st_read _ m_tree (h_ov _ _ (fst (m_run false))) [nm_d; nm_a_py] = RFile [50; 120; 10] /\
  st_read _ m_tree (h_ov _ _ (fst (m_run true))) [nm_d; nm_a_py] = RFile [49; 120; 10] /\
  st_read _ m_tree (h_ov _ _ (fst (m_run true))) [nm_d; stub_name nm_a_py] = RFile [50] /\
  fst (fresh_history (list N) (list N) unit read_text write_text text_eqb tt toy_msrcC true [] m_tree [] m_ops) =
  h_ov _ _ (fst (m_run false)).
Proof. vm_compute. repeat split; reflexivity. Qed.

(* ---------------------------------------------------------------------------------------------------------- *)
(* merge_tree depends on merge_sources only through its values: the context-passing model instantiated with the
   mini-tree model of the context IS Merge/Files.v's merge_tree over [msrc_model v] - so every tree_* theorem of
   FilesLift.v (own merges, existing kept, inserted from the own stub, no bare Any/Never) holds for it verbatim *)
Section EXT.
Variables (B T : Type) (read : B -> option T) (write : T -> B) (teqb : T -> T -> bool).
Variables (m1 m2 : T -> T -> option T) (cwd : loc) (tree : node B).
Hypothesis Hm : forall p s, m1 p s = m2 p s.

Lemma merge_files_src_ext ov py s m bk :
  merge_files_src B T read write teqb m1 cwd tree ov py s m bk = merge_files_src B T read write teqb m2 cwd tree ov py s m bk.
Proof.
  unfold merge_files_src. destruct (st_read B tree ov (lexloc cwd py)); try reflexivity.
  destruct (read b); try reflexivity. rewrite Hm. reflexivity.
Qed.
Lemma merge_files_ext ov py pyi m bk :
  merge_files B T read write teqb m1 cwd tree ov py pyi m bk = merge_files B T read write teqb m2 cwd tree ov py pyi m bk.
Proof.
  unfold merge_files. destruct (st_read B tree ov (lexloc cwd pyi)); try reflexivity.
  destruct (read b); try reflexivity. apply merge_files_src_ext.
Qed.
Lemma tree_step_ext bk s j :
  tree_step B T read write teqb m1 cwd tree bk s j = tree_step B T read write teqb m2 cwd tree bk s j.
Proof. unfold tree_step. rewrite merge_files_ext. reflexivity. Qed.
Lemma merge_tree_ext fixed top P bk :
  merge_tree B T read write teqb m1 fixed cwd tree top P bk = merge_tree B T read write teqb m2 fixed cwd tree top P bk.
Proof.
  unfold merge_tree, run_jobs. generalize (mkTS B [] [] [] false).
  induction (jobs B fixed cwd tree top P) as [|j r IH]; intros s; [reflexivity|].
  cbn [fold_left]. rewrite tree_step_ext. apply IH.
Qed.
End EXT.

Lemma merge_tree_ctx_model v teqb cwd (tree : node (list item)) fixed mm top P bk :
  tc_st _ _ _ (merge_tree_c (list item) (list item) ctx (@Some _) (fun t => t) teqb ctx0 (msrcC_model v)
                            false false fixed cwd tree [] mm top P bk) =
  merge_tree (list item) (list item) (@Some _) (fun t => t) teqb (msrc_model v) fixed cwd tree top P bk.
Proof.
  rewrite merge_tree_c_is_merge_tree. apply merge_tree_ext. apply msrc_fresh_model.
Qed.
