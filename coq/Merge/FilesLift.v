(* C20, FILE level: the merge_sources theorems lifted to whole trees, the refutation witnesses, text mode. *)
From Coq Require Import List NArith Bool Arith Lia.
From PV Require Import Merge.Model Merge.Proofs Merge.Files Merge.FilesProofs.
Import ListNotations.
Open Scope N_scope.

(* ---------------------------------------------------------------------------------------------------------- *)
(* text mode *)
Lemma un_cons c r : universal_newlines (c :: r) =
  if c =? 13 then 10 :: match r with
                        | d :: r' => if d =? 10 then universal_newlines r' else universal_newlines r
                        | [] => universal_newlines r
                        end
  else c :: universal_newlines r.
Proof.
  destruct c as [|p]; [reflexivity|].
  destruct p as [p|p|]; try reflexivity; destruct p as [p|p|]; try reflexivity;
    destruct p as [p|p|]; try reflexivity; destruct p as [p|p|]; try reflexivity.
  destruct r as [|d r']; [reflexivity|].
  destruct d as [|q]; [reflexivity|].
  destruct q as [q|q|]; try reflexivity; destruct q as [q|q|]; try reflexivity;
    destruct q as [q|q|]; try reflexivity; destruct q as [q|q|]; try reflexivity.
Qed.
Lemma universal_newlines_no_cr_len : forall n t, (length t <= n)%nat -> ~ In 13 (universal_newlines t).
Proof.
  induction n as [|n IH]; intros t Hl.
  - destruct t; [intros []|cbn in Hl; lia].
  - destruct t as [|c r]; [intros []|]. cbn [length] in Hl. rewrite un_cons.
    destruct (c =? 13) eqn:Ec.
    + intros [H|H]; [discriminate|]. revert H.
      destruct r as [|d r']; [apply IH; cbn; lia|].
      destruct (d =? 10); apply IH; cbn [length] in *; lia.
    + intros [H|H]; [subst c; discriminate|]. revert H. apply IH. lia.
Qed.
Lemma universal_newlines_no_cr t : ~ In 13 (universal_newlines t).
Proof. apply (universal_newlines_no_cr_len (length t)). lia. Qed.
Lemma read_text_no_cr b t : read_text b = Some t -> ~ In 13 t.
Proof.
  unfold read_text. destruct (utf8_decode (length b) b); [|discriminate]. cbn [option_map].
  intros E. inversion E. apply universal_newlines_no_cr.
Qed.

(* ---------------------------------------------------------------------------------------------------------- *)
(* lifting: contents are the mini syntax trees of Merge/Model.v, merge_sources is the model [merge v] *)
Definition msrc_model (v : variant) (p s : list item) : option (list item) :=
  let m := merge v p s in if m_err m then None else Some (m_out m).

Section LIFT.
Variables (v : variant) (teqb : list item -> list item -> bool).
Variables (cwd : loc) (tree : node (list item)) (backup : option name) (fixed : bool) (top P : pth).
Notation IT := (list item).
Notation rd0 := (st_read IT tree []).
Notation js := (jobs IT fixed cwd tree top P).
Notation final := (t_ov IT (merge_tree IT IT (@Some IT) (fun t => t) teqb (msrc_model v) fixed cwd tree top P backup)).
Notation indep0 := (indep IT IT (@Some IT) (fun t => t) teqb (msrc_model v) cwd tree backup [] js).
Notation no_raise0 := (no_raise IT IT (@Some IT) teqb (msrc_model v) cwd tree backup [] js).

(* every file after the tree merge is its original, or merge_sources of its original with the stub the loop
   paired it with, or (at a backup location) the original of the source next to it *)
Lemma tree_file_cases l c' :
  indep0 -> no_raise0 -> st_read IT tree final l = RFile c' ->
  rd0 l = RFile c' \/
  (exists j c s, In j js /\ l = lexloc cwd (fst j) /\ rd0 l = RFile c /\ rd0 (lexloc cwd (snd j)) = RFile s /\
                 m_err (merge v c s) = false /\ c' = m_out (merge v c s)) \/
  (exists j bk, In j js /\ truthy backup = Some bk /\ l = lexloc cwd (backup_path (fst j) bk) /\
                rd0 (lexloc cwd (fst j)) = RFile c').
Proof.
  intros Hi Hn H.
  destruct (merge_tree_final_read IT IT (@Some IT) (fun t => t) teqb (msrc_model v) cwd tree backup fixed top P l c' Hi Hn H)
    as [H0|(j & Hj & Hin)]; [left; exact H0|right].
  apply jwrites_inv in Hin. destruct Hin as (pb & a & Hjo & Hcase).
  apply jo_changed_inv in Hjo. destruct Hjo as (sb & s & p & R1 & R2 & R3 & R4 & R5 & R6).
  inversion R2; subst s. inversion R4; subst p.
  destruct Hcase as [[El Ec]|(bk & Hb & El & Ec)].
  - left. exists j, pb, sb. unfold msrc_model in R5.
    destruct (m_err (merge v pb sb)) eqn:Em; [discriminate|]. inversion R5; subst a.
    subst l. repeat split; auto.
  - right. exists j, bk. subst c'. repeat split; auto.
Qed.

Lemma tree_existing_kept_lemma l c c' :
  indep0 -> no_raise0 -> rd0 l = RFile c -> st_read IT tree final l = RFile c' ->
  (forall j bk, In j js -> truthy backup = Some bk -> l <> lexloc cwd (backup_path (fst j) bk)) ->
  forall i sl a, ann_at c i = Some sl -> s_ann sl = Some a ->
  exists sl', ann_at c' i = Some sl' /\ s_qn sl' = s_qn sl /\ s_shape sl' = s_shape sl /\
              s_which sl' = s_which sl /\ s_ann sl' = Some a.
Proof.
  intros Hi Hn H0 H1 Hbk i sl a Ha Hs.
  destruct (tree_file_cases l c' Hi Hn H1) as [E|[(j & c0 & s & Hj & El & Ec & Es & Em & Eo)|(j & bk & Hj & Hb & El & _)]].
  - rewrite H0 in E. inversion E; subst c'. exists sl. repeat split; auto.
  - rewrite H0 in Ec. inversion Ec; subst c0. subst c'. apply existing_kept_lemma; assumption.
  - exfalso. exact (Hbk j bk Hj Hb El).
Qed.

Lemma tree_no_bare_returns_lemma l c c' :
  indep0 -> no_raise0 -> rd0 l = RFile c -> st_read IT tree final l = RFile c' ->
  (forall j bk, In j js -> truthy backup = Some bk -> l <> lexloc cwd (backup_path (fst j) bk)) ->
  (forall j s, In j js -> rd0 (lexloc cwd (snd j)) = RFile s -> forallb (rets_ok not_dotted_any) s = true) ->
  forall i sl sl' a, ann_at c i = Some sl -> s_ann sl = None -> ann_at c' i = Some sl' -> s_ann sl' = Some a ->
  s_which sl = WRet -> bare_any_never a = false.
Proof.
  intros Hi Hn H0 H1 Hbk Hst i sl sl' a Ha Hs Ha' Hs' Hw.
  destruct (tree_file_cases l c' Hi Hn H1) as [E|[(j & c0 & s & Hj & El & Ec & Es & Em & Eo)|(j & bk & Hj & Hb & El & _)]].
  - rewrite H0 in E. inversion E; subst c'. rewrite Ha in Ha'. inversion Ha'; subst sl'. congruence.
  - rewrite H0 in Ec. inversion Ec; subst c0. subst c'.
    apply (no_bare_returns_lemma v c s i sl sl' a (Hst j s Hj Es) Ha Hs Ha' Hs' Hw).
  - exfalso. exact (Hbk j bk Hj Hb El).
Qed.

Lemma tree_inserted_from_stub_lemma l c c' :
  indep0 -> no_raise0 -> rd0 l = RFile c -> st_read IT tree final l = RFile c' ->
  (forall j bk, In j js -> truthy backup = Some bk -> l <> lexloc cwd (backup_path (fst j) bk)) ->
  (forall j s, In j js -> l = lexloc cwd (fst j) -> rd0 (lexloc cwd (snd j)) = RFile s ->
     dotted_free (filter_stub v s) = true /\ m_leak (merge v c s) = false /\ m_clsdecl (merge v c s) = false) ->
  forall i sl sl' a, ann_at c i = Some sl -> s_ann sl = None -> ann_at c' i = Some sl' -> s_ann sl' = Some a ->
  exists j s a0, In j js /\ l = lexloc cwd (fst j) /\ rd0 (lexloc cwd (snd j)) = RFile s /\
                 stub_gives (stub_all (filter_stub v s)) sl a0 /\ same_ann a a0.
Proof.
  intros Hi Hn H0 H1 Hbk Hmon i sl sl' a Ha Hs Ha' Hs'.
  destruct (tree_file_cases l c' Hi Hn H1) as [E|[(j & c0 & s & Hj & El & Ec & Es & Em & Eo)|(j & bk & Hj & Hb & El & _)]].
  - rewrite H0 in E. inversion E; subst c'. rewrite Ha in Ha'. inversion Ha'; subst sl'. congruence.
  - rewrite H0 in Ec. inversion Ec; subst c0. subst c'.
    destruct (Hmon j s Hj El Es) as (D1 & D2 & D3).
    destruct (inserted_from_stub_lemma v c s D1 D2 D3 Em) as [Hins _].
    destruct (Hins i sl sl' a Ha Hs Ha' Hs') as (a0 & G1 & G2).
    exists j, s, a0. repeat split; auto.
  - exfalso. exact (Hbk j bk Hj Hb El).
Qed.
End LIFT.

(* ---------------------------------------------------------------------------------------------------------- *)
(* witnesses (toy merge_sources: the stub text is put in front of the source text) *)
Definition toy_msrc (p s : list N) : option (list N) := Some (s ++ p).
Definition locs (cwd : loc) (j : pth * pth) : loc * loc := (lexloc cwd (fst j), lexloc cwd (snd j)).
Definition nm_src : name := [115; 114; 99].      Definition nm_s : name := [115].
Definition nm_sub : name := [115; 117; 98].      Definition nm_d : name := [100].
Definition nm_a_py : name := [97; 46; 112; 121]. Definition nm_b_py : name := [98; 46; 112; 121].

(* src/a.py, src/sub/a.py; stubs s/a.pyi, s/sub/a.pyi; a decoy a.pyi one directory above the stub root *)
Definition w_tree : tnode :=
  Dir [(nm_src, Dir [(nm_a_py, File [120; 10]); (nm_sub, Dir [(nm_a_py, File [121; 10])])]);
       (nm_s, Dir [(stub_name nm_a_py, File [49]); (nm_sub, Dir [(stub_name nm_a_py, File [50])])]);
       (stub_name nm_a_py, File [51])].
Definition w_top : pth := mkP 0 [nm_src].
Definition w_P : pth := mkP 0 [nm_s].

Lemma before_fix_witness :
  nsl [] /\ p_empty w_top = false /\
  (exists es, lookup _ w_tree (lexloc [] w_top) = Some (Dir es) /\ names_ok (walk_dirs _ (Dir es) [])) /\
  In (lexloc [] w_top ++ [nm_sub; nm_a_py], removelast (lexloc [] w_P) ++ [stub_name nm_a_py])
     (map (locs []) (jobs _ false [] w_tree w_top w_P)) /\
  ~ In (lexloc [] w_top ++ [nm_sub; nm_a_py], lexloc [] w_P ++ [nm_sub; stub_name nm_a_py])
       (map (locs []) (jobs _ false [] w_tree w_top w_P)) /\
  st_read _ w_tree (t_ov _ (merge_tree _ _ read_text write_text text_eqb toy_msrc false [] w_tree w_top w_P None))
          [nm_src; nm_sub; nm_a_py] = RFile [51; 121; 10] /\
  st_read _ w_tree (t_ov _ (merge_tree _ _ read_text write_text text_eqb toy_msrc true [] w_tree w_top w_P None))
          [nm_src; nm_sub; nm_a_py] = RFile [50; 121; 10].
Proof.
  split; [constructor|]. split; [reflexivity|]. split.
  { eexists. split; [vm_compute; reflexivity|]. unfold names_ok, nsl. vm_compute. repeat constructor. }
  split; [vm_compute; auto|]. split; [vm_compute; intuition discriminate|].
  split; vm_compute; reflexivity.
Qed.

(* stubs next to the sources, backup extension "pyi": the backup of a.py is a.py.pyi, which then is taken for the
   stub of a.py.py *)
Definition nm_a_py_py : name := nm_a_py ++ [46; 112; 121].
Definition c_tree : tnode :=
  Dir [(nm_d, Dir [(nm_a_py, File [120; 10]); (nm_a_py_py, File [121; 10]); (stub_name nm_a_py, File [49])])].
Definition c_top : pth := mkP 0 [nm_d].
Definition c_bk : option name := Some [112; 121; 105].

Lemma backup_collision_witness :
  let js := jobs _ false [] c_tree c_top c_top in
  let jsf := jobs _ true [] c_tree c_top c_top in
  js = jsf /\
  no_raise _ _ read_text text_eqb toy_msrc [] c_tree c_bk [] jsf /\
  (forall j, In j jsf -> ~ In [nm_d; nm_a_py_py] (map fst (jwrites _ _ read_text write_text text_eqb toy_msrc [] c_tree c_bk [] j))) /\
  st_read _ c_tree [] [nm_d; nm_a_py_py] = RFile [121; 10] /\
  st_read _ c_tree (t_ov _ (merge_tree _ _ read_text write_text text_eqb toy_msrc true [] c_tree c_top c_top c_bk))
          [nm_d; nm_a_py_py] = RFile [120; 10; 121; 10].
Proof.
  cbv zeta. split; [vm_compute; reflexivity|]. split.
  { intros j Hj. vm_compute in Hj. destruct Hj as [<-|[<-|[]]]; vm_compute; reflexivity. }
  split.
  { intros j Hj. vm_compute in Hj. destruct Hj as [<-|[<-|[]]]; vm_compute; intuition discriminate. }
  split; vm_compute; reflexivity.
Qed.

(* a source that is not valid utf-8: the UnicodeDecodeError is not a MergeError, merge_tree stops there *)
Definition u_tree : tnode :=
  Dir [(nm_d, Dir [(nm_a_py, File [255]); (stub_name nm_a_py, File [49]);
                   (nm_b_py, File [120; 10]); (stub_name nm_b_py, File [49])])].
Lemma undecodable_witness :
  let r := merge_tree _ _ read_text write_text text_eqb toy_msrc true [] u_tree c_top c_top None in
  t_raised _ r = true /\ t_ov _ r = [] /\ t_errors _ r = [] /\
  exists j, In j (jobs _ true [] u_tree c_top c_top) /\
            is_changed _ _ (jo _ _ read_text text_eqb toy_msrc [] u_tree None [] j) = true.
Proof.
  cbv zeta. split; [vm_compute; reflexivity|]. split; [vm_compute; reflexivity|]. split; [vm_compute; reflexivity|].
  exists (join1 c_top nm_b_py, join1 c_top (stub_name nm_b_py)). split; vm_compute; auto.
Qed.
