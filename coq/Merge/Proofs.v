(* C20 proofs over Merge/Model.v *)
From Coq Require Import List NArith Bool Arith Lia.
From PV Require Import Merge.Model.
Import ListNotations.
Open Scope N_scope.

(* ------------------------------------------------------------------------------------------ *)
(* induction on items (nested through list) *)

Section ItemInd.
  Variable P : item -> Prop.
  Hypothesis HFun : forall n d ps r b, Forall P b -> P (Fun n d ps r b).
  Hypothesis HCls : forall n h bs b, Forall P b -> P (Cls n h bs b).
  Hypothesis HAssign : forall ts v, P (Assign ts v).
  Hypothesis HAnn : forall t a v, P (AnnAssign t a v).
  Hypothesis HBlock : forall i b, Forall P b -> P (Block i b).
  Hypothesis HImport : forall f m ns ad i, P (Import f m ns ad i).
  Hypothesis HDoc : forall i, P (Doc i).
  Hypothesis HOther : forall i, P (Other i).
  Hypothesis HAdded : forall it, P it -> P (Added it).

  Fixpoint item_ind' (it : item) : P it :=
    match it with
    | Fun n d ps r b =>
        HFun n d ps r b ((fix go (l : list item) : Forall P l :=
                            match l with [] => Forall_nil P | x :: r => Forall_cons x (item_ind' x) (go r) end) b)
    | Cls n h bs b =>
        HCls n h bs b ((fix go (l : list item) : Forall P l :=
                          match l with [] => Forall_nil P | x :: r => Forall_cons x (item_ind' x) (go r) end) b)
    | Assign ts v => HAssign ts v
    | AnnAssign t a v => HAnn t a v
    | Block i b =>
        HBlock i b ((fix go (l : list item) : Forall P l :=
                       match l with [] => Forall_nil P | x :: r => Forall_cons x (item_ind' x) (go r) end) b)
    | Import f m ns ad i => HImport f m ns ad i
    | Doc i => HDoc i
    | Other i => HOther i
    | Added x => HAdded x (item_ind' x)
    end.
End ItemInd.

(* ------------------------------------------------------------------------------------------ *)
(* generic list facts *)

Lemma flat_map_firstn_skipn {A B} (f : A -> list B) (k : nat) (l : list A) :
  flat_map f (firstn k l) ++ flat_map f (skipn k l) = flat_map f l.
Proof. rewrite <- flat_map_app, firstn_skipn. reflexivity. Qed.

Lemma removelast_snoc {A} (l : list A) (x : A) : removelast (l ++ [x]) = l.
Proof. apply removelast_last. Qed.

Lemma dict_get_In {K V} (eq : K -> K -> bool) (k : K) (d : list (K * V)) (v : V) :
  dict_get eq k d = Some v -> exists k', In (k', v) d /\ eq k' k = true.
Proof.
  induction d as [|[k' v'] d IH]; simpl; [discriminate|].
  destruct (eq k' k) eqn:E.
  - intros H; inversion H; subst. exists k'. auto.
  - intros H. destruct (IH H) as (k'' & Hin & Hk). exists k''. auto.
Qed.

Lemma dict_set_In {K V} (eq : K -> K -> bool) (k : K) (v : V) (d : list (K * V)) (k0 : K) (v0 : V) :
  In (k0, v0) (dict_set eq k v d) -> (k0, v0) = (k, v) \/ In (k0, v0) d.
Proof.
  induction d as [|[k' v'] d IH]; simpl.
  - intros [H|[]]. left. congruence.
  - destruct (eq k' k); simpl.
    + intros [H|H]; [left; congruence|right; right; exact H].
    + intros [H|H]; [right; left; exact H|]. destruct (IH H); auto.
Qed.

Lemma list_eqb_N_eq (a b : list N) : list_eqb N.eqb a b = true -> a = b.
Proof.
  revert b. induction a as [|x a IH]; destruct b as [|y b]; cbn [list_eqb]; try discriminate; auto.
  intros H. apply andb_true_iff in H. destruct H as [H1 H2].
  apply N.eqb_eq in H1. subst. f_equal. auto.
Qed.

Lemma path_eqb_eq (a b : path) : path_eqb a b = true -> a = b.
Proof. apply list_eqb_N_eq. Qed.

Lemma path_eqb_refl (a : path) : path_eqb a a = true.
Proof. unfold path_eqb. induction a as [|x a IH]; cbn [list_eqb]; auto. rewrite N.eqb_refl. exact IH. Qed.

(* ------------------------------------------------------------------------------------------ *)
(* the nested traversals are apply_items / collect_items *)

Lemma apply_go_eq (e : env) (b : list item) (s : astate) :
  (fix go (l : list item) (s : astate) : list item * astate :=
     match l with
     | [] => ([], s)
     | x :: r => let '(x', s') := apply_item e x s in
                 let '(r', s'') := go r s' in (x' :: r', s'')
     end) b s = apply_items e b s.
Proof. revert s. induction b as [|x b IH]; intros s; simpl; [reflexivity|].
  destruct (apply_item e x s) as [x' s']. rewrite IH. reflexivity. Qed.

Lemma collect_go_eq (imp : list (N * path)) (b : list item) (c : cstate) :
  (fix go (l : list item) (c : cstate) : cstate :=
     match l with [] => c | x :: r => go r (collect_item imp x c) end) b c = collect_items imp b c.
Proof. revert c. induction b as [|x b IH]; intros c; simpl; [reflexivity|]. apply IH. Qed.

Lemma apply_item_Cls e n h bs b s :
  apply_item e (Cls n h bs b) s =
  let '(b', s2) := apply_items e b (a_push [n] s) in
  let cls_name := qname (qual s2) in
  let s3 := a_pop (mkA (qual s2) (done s2) (n :: visited s2) (decls s2) (stv s2)
                       (changed s2) (leak s2) (clsdecl s2) (genadd s2)) in
  match cls_name with
  | [k] =>
      match dict_get N.eqb k (eclasses e) with
      | Some (Cls _ _ sbs _) =>
          match find_generic_base sbs, find_generic_base bs with
          | Some b1, None =>
              (Cls n h (bs ++ [b1]) b',
               mkA (qual s3) (done s3) (visited s3) (decls s3) (stv s3) true (leak s3) (clsdecl s3) true)
          | _, _ => (Cls n h bs b', s3)
          end
      | _ => (Cls n h bs b', s3)
      end
  | _ => (Cls n h bs b', s3)
  end.
Proof. simpl. rewrite apply_go_eq. reflexivity. Qed.

Lemma apply_item_Block e i b s :
  apply_item e (Block i b) s = let '(b', s') := apply_items e b s in (Block i b', s').
Proof. simpl. rewrite apply_go_eq. reflexivity. Qed.

(* ------------------------------------------------------------------------------------------ *)
(* the monitors only ever go from false to true *)

Definition flags_le (s s' : astate) : Prop :=
  (leak s = true -> leak s' = true) /\ (clsdecl s = true -> clsdecl s' = true) /\
  (genadd s = true -> genadd s' = true).

Lemma flags_le_refl s : flags_le s s.
Proof. unfold flags_le; auto. Qed.

Lemma flags_le_trans a b c : flags_le a b -> flags_le b c -> flags_le a c.
Proof. unfold flags_le; intuition. Qed.

Ltac flags := unfold flags_le; cbn [leak clsdecl genadd a_push a_pop a_changed]; intuition;
              try (apply orb_true_iff; auto).

Lemma add_toplevel_flags e nm s : flags_le s (add_toplevel e nm s).
Proof. unfold add_toplevel. destruct (dict_get _ _ _); flags. Qed.

Lemma add_toplevels_flags e nms s : flags_le s (add_toplevels e nms s).
Proof.
  unfold add_toplevels. revert s. induction nms as [|o nms IH]; intros s; cbn [fold_left].
  - apply flags_le_refl.
  - eapply flags_le_trans; [|apply IH].
    destruct o as [nm|]; [|apply flags_le_refl].
    destruct (not_underscore nm); [apply add_toplevel_flags|apply flags_le_refl].
Qed.

Lemma apply_assign_flags e ts v s : flags_le s (snd (apply_assign e ts v s)).
Proof.
  unfold apply_assign.
  set (s0 := if vtv v then _ else s).
  assert (H0 : flags_le s s0).
  { subst s0. destruct (vtv v); [|apply flags_le_refl].
    destruct ts as [|t ?]; [apply flags_le_refl|]. destruct (tname t); flags. }
  eapply flags_le_trans; [exact H0|]. clearbody s0. clear H0.
  destruct ts as [|t [|t2 ts]].
  - cbn [snd]. apply add_toplevels_flags.
  - destruct t as [n|k nm i].
    + cbn zeta. destruct (dict_get _ _ _); [destruct (mem_path _ _)|]; cbn [snd]; flags.
    + destruct k as [| |elts]; [destruct nm| |]; cbn [snd]; try apply add_toplevels_flags; flags.
  - cbn [snd]. apply add_toplevels_flags.
Qed.

Lemma apply_fun_flags e n d ps r b s : flags_le s (snd (apply_fun e n d ps r b s)).
Proof.
  unfold apply_fun. destruct (dict_get _ _ _) as [fa|]; [|apply flags_le_refl].
  destruct (match_signatures ps r fa); [|apply flags_le_refl].
  cbn [snd]. match goal with |- context [if ?c then _ else _] => destruct c end; flags.
Qed.

Lemma apply_items_flags_from e b :
  Forall (fun it => forall s, flags_le s (snd (apply_item e it s))) b ->
  forall s, flags_le s (snd (apply_items e b s)).
Proof.
  induction 1 as [|x b Hx Hb IH]; intros s; cbn [apply_items snd]; [apply flags_le_refl|].
  specialize (Hx s). destruct (apply_item e x s) as [x' s'] eqn:E1.
  specialize (IH s'). destruct (apply_items e b s') as [b' s''] eqn:E2.
  cbn [snd] in *. eapply flags_le_trans; eauto.
Qed.

Lemma apply_item_flags e it : forall s, flags_le s (snd (apply_item e it s)).
Proof.
  induction it using item_ind'; intros s; try (cbn [apply_item snd]; apply flags_le_refl).
  - apply apply_fun_flags.
  - rewrite apply_item_Cls.
    pose proof (apply_items_flags_from e b H (a_push [n] s)) as Hb.
    destruct (apply_items e b (a_push [n] s)) as [b' s2]. cbn [snd] in Hb.
    eapply flags_le_trans with (b := s2); [revert Hb; flags|].
    cbn zeta.
    repeat match goal with |- context [match ?x with _ => _ end] => destruct x end; cbn [snd]; flags.
  - apply apply_assign_flags.
  - rewrite apply_item_Block.
    pose proof (apply_items_flags_from e b H s) as Hb.
    destruct (apply_items e b s) as [b' s']. exact Hb.
Qed.

Lemma apply_items_flags e b s : flags_le s (snd (apply_items e b s)).
Proof. apply apply_items_flags_from. apply Forall_forall. intros. apply apply_item_flags. Qed.

(* ------------------------------------------------------------------------------------------ *)
(* erase is invariant under the annotation pass (when no Generic base is appended) *)

Ltac dmatch := repeat match goal with |- context [match ?x with _ => _ end] => destruct x end.

Lemma erase_param_upd gn vis p a : erase_param (upd_param gn vis p a) = erase_param p.
Proof. unfold upd_param. destruct (pann p), a; reflexivity. Qed.

Lemma map_erase_upd_positional gn vis ps qs :
  map erase_param (upd_positional gn vis ps qs) = map erase_param ps.
Proof.
  revert qs. induction ps as [|p ps IH]; intros qs; destruct qs as [|q qs]; cbn [upd_positional map]; auto.
  rewrite erase_param_upd, IH. reflexivity.
Qed.

Lemma map_erase_upd_named gn vis ps qs : map erase_param (upd_named gn vis ps qs) = map erase_param ps.
Proof. unfold upd_named. rewrite map_map. apply map_ext. intros. apply erase_param_upd. Qed.

Lemma erase_params_update gn vis ps qs :
  erase_params (update_parameters gn vis ps qs) = erase_params ps.
Proof.
  unfold erase_params, update_parameters. cbn [posonly pos star kwonly kwstar].
  rewrite !map_erase_upd_positional, map_erase_upd_named. reflexivity.
Qed.

Lemma erase_apply_fun e n d ps r b s :
  erase_item (fst (apply_fun e n d ps r b s)) = erase_item (Fun n d ps r b).
Proof.
  unfold apply_fun. destruct (dict_get _ _ _) as [fa|]; [|reflexivity].
  destruct (match_signatures ps r fa); [|reflexivity].
  cbn [fst erase_item]. rewrite erase_params_update. reflexivity.
Qed.

Lemma erase_apply_assign e ts v s :
  erase_item (fst (apply_assign e ts v s)) = erase_item (Assign ts v).
Proof.
  unfold apply_assign. set (s0 := if vtv v then _ else s). clearbody s0.
  destruct ts as [|t [|t2 ts]]; try reflexivity.
  destruct t as [n|k nm i].
  - cbn zeta. destruct (dict_get _ _ _); [destruct (mem_path _ _)|]; reflexivity.
  - destruct k; [destruct nm| |]; reflexivity.
Qed.

Lemma genadd_false_back s s' : flags_le s s' -> genadd s' = false -> genadd s = false.
Proof. intros (_ & _ & H) H'. destruct (genadd s); auto. rewrite H in H'; auto. Qed.

Lemma erase_apply_items_from e b :
  Forall (fun it => forall s, genadd (snd (apply_item e it s)) = false ->
                              erase_item (fst (apply_item e it s)) = erase_item it) b ->
  forall s, genadd (snd (apply_items e b s)) = false ->
            erase (fst (apply_items e b s)) = erase b.
Proof.
  induction 1 as [|x b Hx Hb IH]; intros s; cbn [apply_items]; [reflexivity|].
  specialize (Hx s). destruct (apply_item e x s) as [x' s'] eqn:E1.
  specialize (IH s'). pose proof (apply_items_flags e b s') as Hf.
  destruct (apply_items e b s') as [b' s''] eqn:E2.
  cbn [fst snd] in *. intros Hg. unfold erase in *. cbn [flat_map].
  rewrite IH by exact Hg. rewrite Hx; [reflexivity|]. eapply genadd_false_back; eauto.
Qed.

Lemma erase_apply_item e it :
  forall s, genadd (snd (apply_item e it s)) = false ->
            erase_item (fst (apply_item e it s)) = erase_item it.
Proof.
  induction it using item_ind'; intros s; try (intros _; reflexivity).
  - intros _. apply erase_apply_fun.
  - rewrite apply_item_Cls.
    pose proof (erase_apply_items_from e b H (a_push [n] s)) as Hb.
    destruct (apply_items e b (a_push [n] s)) as [b' s2]. cbn [fst snd] in Hb. cbn zeta.
    dmatch; cbn [fst snd genadd a_pop]; intros Hg; try discriminate;
      unfold erase in Hb; cbn [erase_item]; rewrite Hb; auto.
  - intros _. apply erase_apply_assign.
  - rewrite apply_item_Block.
    pose proof (erase_apply_items_from e b H s) as Hb.
    destruct (apply_items e b s) as [b' s']. cbn [fst snd] in *. intros Hg.
    unfold erase in Hb. cbn [erase_item]. rewrite Hb; auto.
Qed.

Lemma erase_apply_items e b s :
  genadd (snd (apply_items e b s)) = false -> erase (fst (apply_items e b s)) = erase b.
Proof. apply erase_apply_items_from. apply Forall_forall. intros. apply erase_apply_item; auto. Qed.
