(* C20 proofs over Merge/Model.v *)
From Coq Require Import List NArith Bool PeanoNat.
From PV Require Import Merge.Model.
Import ListNotations.
Open Scope N_scope.

(* ------------------------------------------------------------------------------------------ *)
(* induction on items (nested through list) *)

Section ItemInd.
  Variable P : item -> Prop.
  Hypothesis HFun : forall n d ps r b, Forall P b -> P (Fun n d ps r b).
  Hypothesis HCls : forall n h bs b, Forall P b -> P (Cls n h bs b).
  Hypothesis HAssign : forall ts v, P (Assign ts v).
  Hypothesis HAnn : forall t a v, P (AnnAssign t a v).
  Hypothesis HBlock : forall i b, Forall P b -> P (Block i b).
  Hypothesis HImport : forall f m ns ad i, P (Import f m ns ad i).
  Hypothesis HDoc : forall i, P (Doc i).
  Hypothesis HOther : forall i, P (Other i).
  Hypothesis HAdded : forall it, P it -> P (Added it).

  Fixpoint item_ind' (it : item) : P it :=
    match it with
    | Fun n d ps r b =>
        HFun n d ps r b ((fix go (l : list item) : Forall P l :=
                            match l with [] => Forall_nil P | x :: r => Forall_cons x (item_ind' x) (go r) end) b)
    | Cls n h bs b =>
        HCls n h bs b ((fix go (l : list item) : Forall P l :=
                          match l with [] => Forall_nil P | x :: r => Forall_cons x (item_ind' x) (go r) end) b)
    | Assign ts v => HAssign ts v
    | AnnAssign t a v => HAnn t a v
    | Block i b =>
        HBlock i b ((fix go (l : list item) : Forall P l :=
                       match l with [] => Forall_nil P | x :: r => Forall_cons x (item_ind' x) (go r) end) b)
    | Import f m ns ad i => HImport f m ns ad i
    | Doc i => HDoc i
    | Other i => HOther i
    | Added x => HAdded x (item_ind' x)
    end.
End ItemInd.

(* ------------------------------------------------------------------------------------------ *)
(* generic list facts *)

Lemma flat_map_firstn_skipn {A B} (f : A -> list B) (k : nat) (l : list A) :
  flat_map f (firstn k l) ++ flat_map f (skipn k l) = flat_map f l.
Proof. rewrite <- flat_map_app, firstn_skipn. reflexivity. Qed.

Lemma skipn_add {A} (k n : nat) (l : list A) : skipn (k + n) l = skipn n (skipn k l).
Proof.
  revert l. induction k as [|k IH]; intros l; [reflexivity|].
  destruct l as [|x l]; cbn [Nat.add skipn]; [destruct n; reflexivity|apply IH].
Qed.

Lemma removelast_snoc {A} (l : list A) (x : A) : removelast (l ++ [x]) = l.
Proof. apply removelast_last. Qed.

Lemma dict_get_In {K V} (eq : K -> K -> bool) (k : K) (d : list (K * V)) (v : V) :
  dict_get eq k d = Some v -> exists k', In (k', v) d /\ eq k' k = true.
Proof.
  induction d as [|[k' v'] d IH]; simpl; [discriminate|].
  destruct (eq k' k) eqn:E.
  - intros H; inversion H; subst. exists k'. auto.
  - intros H. destruct (IH H) as (k'' & Hin & Hk). exists k''. auto.
Qed.

Lemma dict_set_In {K V} (eq : K -> K -> bool) (k : K) (v : V) (d : list (K * V)) (k0 : K) (v0 : V) :
  In (k0, v0) (dict_set eq k v d) -> (k0, v0) = (k, v) \/ In (k0, v0) d.
Proof.
  induction d as [|[k' v'] d IH]; simpl.
  - intros [H|[]]. left. congruence.
  - destruct (eq k' k); simpl.
    + intros [H|H]; [left; congruence|right; right; exact H].
    + intros [H|H]; [right; left; exact H|]. destruct (IH H); auto.
Qed.

Lemma list_eqb_N_eq (a b : list N) : list_eqb N.eqb a b = true -> a = b.
Proof.
  revert b. induction a as [|x a IH]; destruct b as [|y b]; cbn [list_eqb]; try discriminate; auto.
  intros H. apply andb_true_iff in H. destruct H as [H1 H2].
  apply N.eqb_eq in H1. subst. f_equal. auto.
Qed.

Lemma path_eqb_eq (a b : path) : path_eqb a b = true -> a = b.
Proof. apply list_eqb_N_eq. Qed.

Lemma path_eqb_refl (a : path) : path_eqb a a = true.
Proof. unfold path_eqb. induction a as [|x a IH]; cbn [list_eqb]; auto. rewrite N.eqb_refl. exact IH. Qed.

(* ------------------------------------------------------------------------------------------ *)
(* the nested traversals are apply_items / collect_items *)

Lemma apply_go_eq (e : env) (b : list item) (s : astate) :
  (fix go (l : list item) (s : astate) : list item * astate :=
     match l with
     | [] => ([], s)
     | x :: r => let '(x', s') := apply_item e x s in
                 let '(r', s'') := go r s' in (x' :: r', s'')
     end) b s = apply_items e b s.
Proof. revert s. induction b as [|x b IH]; intros s; simpl; [reflexivity|].
  destruct (apply_item e x s) as [x' s']. rewrite IH. reflexivity. Qed.

Lemma collect_go_eq (imp : list (N * path)) (b : list item) (c : cstate) :
  (fix go (l : list item) (c : cstate) : cstate :=
     match l with [] => c | x :: r => go r (collect_item imp x c) end) b c = collect_items imp b c.
Proof. revert c. induction b as [|x b IH]; intros c; simpl; [reflexivity|]. apply IH. Qed.

Lemma apply_item_Cls e n h bs b s :
  apply_item e (Cls n h bs b) s =
  let '(b', s2) := apply_items e b (a_push [n] s) in
  let cls_name := qname (qual s2) in
  let s3 := a_pop (mkA (qual s2) (done s2) (n :: visited s2) (decls s2) (stv s2)
                       (changed s2) (leak s2) (clsdecl s2) (genadd s2)) in
  match cls_name with
  | [k] =>
      match dict_get N.eqb k (eclasses e) with
      | Some (Cls _ _ sbs _) =>
          match find_generic_base sbs, find_generic_base bs with
          | Some b1, None =>
              (Cls n h (bs ++ [b1]) b',
               mkA (qual s3) (done s3) (visited s3) (decls s3) (stv s3) true (leak s3) (clsdecl s3) true)
          | _, _ => (Cls n h bs b', s3)
          end
      | _ => (Cls n h bs b', s3)
      end
  | _ => (Cls n h bs b', s3)
  end.
Proof. simpl. rewrite apply_go_eq. reflexivity. Qed.

Lemma apply_item_Block e i b s :
  apply_item e (Block i b) s = let '(b', s') := apply_items e b s in (Block i b', s').
Proof. simpl. rewrite apply_go_eq. reflexivity. Qed.

(* ------------------------------------------------------------------------------------------ *)
(* the monitors only ever go from false to true *)

Definition flags_le (s s' : astate) : Prop :=
  (leak s = true -> leak s' = true) /\ (clsdecl s = true -> clsdecl s' = true) /\
  (genadd s = true -> genadd s' = true).

Lemma flags_le_refl s : flags_le s s.
Proof. unfold flags_le; auto. Qed.

Lemma flags_le_trans a b c : flags_le a b -> flags_le b c -> flags_le a c.
Proof. unfold flags_le; intuition. Qed.

Ltac flags := unfold flags_le; cbn [leak clsdecl genadd a_push a_pop a_changed]; intuition;
              try (apply orb_true_iff; auto).

Lemma add_toplevel_flags e nm s : flags_le s (add_toplevel e nm s).
Proof. unfold add_toplevel. destruct (dict_get _ _ _); flags. Qed.

Lemma add_toplevels_flags e nms s : flags_le s (add_toplevels e nms s).
Proof.
  unfold add_toplevels. revert s. induction nms as [|o nms IH]; intros s; cbn [fold_left].
  - apply flags_le_refl.
  - eapply flags_le_trans; [|apply IH].
    destruct o as [nm|]; [|apply flags_le_refl].
    destruct (not_underscore nm); [apply add_toplevel_flags|apply flags_le_refl].
Qed.

Lemma apply_assign_flags e ts v s : flags_le s (snd (apply_assign e ts v s)).
Proof.
  unfold apply_assign.
  set (s0 := if vtv v then _ else s).
  assert (H0 : flags_le s s0).
  { subst s0. destruct (vtv v); [|apply flags_le_refl].
    destruct ts as [|t ?]; [apply flags_le_refl|]. destruct (tname t); flags. }
  eapply flags_le_trans; [exact H0|]. clearbody s0. clear H0.
  destruct ts as [|t [|t2 ts]].
  - cbn [snd]. apply add_toplevels_flags.
  - destruct t as [n|k nm i].
    + cbn zeta. destruct (dict_get _ _ _); [destruct (mem_path _ _)|]; cbn [snd]; flags.
    + destruct k as [| |elts]; [destruct nm| |]; cbn [snd]; try apply add_toplevels_flags; flags.
  - cbn [snd]. apply add_toplevels_flags.
Qed.

Lemma apply_fun_flags e n d ps r b s : flags_le s (snd (apply_fun e n d ps r b s)).
Proof.
  unfold apply_fun. destruct (dict_get _ _ _) as [fa|]; [|apply flags_le_refl].
  destruct (match_signatures ps r fa); [|apply flags_le_refl].
  cbn [snd]. match goal with |- context [if ?c then _ else _] => destruct c end; flags.
Qed.

Lemma apply_items_flags_from e b :
  Forall (fun it => forall s, flags_le s (snd (apply_item e it s))) b ->
  forall s, flags_le s (snd (apply_items e b s)).
Proof.
  induction 1 as [|x b Hx Hb IH]; intros s; cbn [apply_items snd]; [apply flags_le_refl|].
  specialize (Hx s). destruct (apply_item e x s) as [x' s'] eqn:E1.
  specialize (IH s'). destruct (apply_items e b s') as [b' s''] eqn:E2.
  cbn [snd] in *. eapply flags_le_trans; eauto.
Qed.

Lemma apply_item_flags e it : forall s, flags_le s (snd (apply_item e it s)).
Proof.
  induction it using item_ind'; intros s; try (cbn [apply_item snd]; apply flags_le_refl).
  - apply apply_fun_flags.
  - rewrite apply_item_Cls.
    pose proof (apply_items_flags_from e b H (a_push [n] s)) as Hb.
    destruct (apply_items e b (a_push [n] s)) as [b' s2]. cbn [snd] in Hb.
    eapply flags_le_trans with (b := s2); [revert Hb; flags|].
    cbn zeta.
    repeat match goal with |- context [match ?x with _ => _ end] => destruct x end; cbn [snd]; flags.
  - apply apply_assign_flags.
  - rewrite apply_item_Block.
    pose proof (apply_items_flags_from e b H s) as Hb.
    destruct (apply_items e b s) as [b' s']. exact Hb.
Qed.

Lemma apply_items_flags e b s : flags_le s (snd (apply_items e b s)).
Proof. apply apply_items_flags_from. apply Forall_forall. intros. apply apply_item_flags. Qed.

(* ------------------------------------------------------------------------------------------ *)
(* erase is invariant under the annotation pass (when no Generic base is appended) *)

Ltac dmatch := repeat match goal with |- context [match ?x with _ => _ end] => destruct x end.

Lemma erase_param_upd gn vis p a : erase_param (upd_param gn vis p a) = erase_param p.
Proof. unfold upd_param. destruct (pann p), a; reflexivity. Qed.

Lemma map_erase_upd_positional gn vis ps qs :
  map erase_param (upd_positional gn vis ps qs) = map erase_param ps.
Proof.
  revert qs. induction ps as [|p ps IH]; intros qs; destruct qs as [|q qs]; cbn [upd_positional map]; auto.
  rewrite erase_param_upd, IH. reflexivity.
Qed.

Lemma map_erase_upd_named gn vis ps qs : map erase_param (upd_named gn vis ps qs) = map erase_param ps.
Proof. unfold upd_named. rewrite map_map. apply map_ext. intros. apply erase_param_upd. Qed.

Lemma erase_params_update gn vis ps qs :
  erase_params (update_parameters gn vis ps qs) = erase_params ps.
Proof.
  unfold erase_params, update_parameters. cbn [posonly pos star kwonly kwstar].
  rewrite !map_erase_upd_positional, map_erase_upd_named. reflexivity.
Qed.

Lemma erase_apply_fun e n d ps r b s :
  erase_item (fst (apply_fun e n d ps r b s)) = erase_item (Fun n d ps r b).
Proof.
  unfold apply_fun. destruct (dict_get _ _ _) as [fa|]; [|reflexivity].
  destruct (match_signatures ps r fa); [|reflexivity].
  cbn [fst erase_item]. rewrite erase_params_update. reflexivity.
Qed.

Lemma erase_apply_assign e ts v s :
  erase_item (fst (apply_assign e ts v s)) = erase_item (Assign ts v).
Proof.
  unfold apply_assign. set (s0 := if vtv v then _ else s). clearbody s0.
  destruct ts as [|t [|t2 ts]]; try reflexivity.
  destruct t as [n|k nm i].
  - cbn zeta. destruct (dict_get _ _ _); [destruct (mem_path _ _)|]; reflexivity.
  - destruct k; [destruct nm| |]; reflexivity.
Qed.

Lemma genadd_false_back s s' : flags_le s s' -> genadd s' = false -> genadd s = false.
Proof. intros (_ & _ & H) H'. destruct (genadd s); auto. rewrite H in H'; auto. Qed.

Lemma erase_apply_items_from e b :
  Forall (fun it => forall s, genadd (snd (apply_item e it s)) = false ->
                              erase_item (fst (apply_item e it s)) = erase_item it) b ->
  forall s, genadd (snd (apply_items e b s)) = false ->
            erase (fst (apply_items e b s)) = erase b.
Proof.
  induction 1 as [|x b Hx Hb IH]; intros s; cbn [apply_items]; [reflexivity|].
  specialize (Hx s). destruct (apply_item e x s) as [x' s'] eqn:E1.
  specialize (IH s'). pose proof (apply_items_flags e b s') as Hf.
  destruct (apply_items e b s') as [b' s''] eqn:E2.
  cbn [fst snd] in *. intros Hg. unfold erase in *. cbn [flat_map].
  rewrite IH by exact Hg. rewrite Hx; [reflexivity|]. eapply genadd_false_back; eauto.
Qed.

Lemma erase_apply_item e it :
  forall s, genadd (snd (apply_item e it s)) = false ->
            erase_item (fst (apply_item e it s)) = erase_item it.
Proof.
  induction it using item_ind'; intros s; try (intros _; reflexivity).
  - intros _. apply erase_apply_fun.
  - rewrite apply_item_Cls.
    pose proof (erase_apply_items_from e b H (a_push [n] s)) as Hb.
    destruct (apply_items e b (a_push [n] s)) as [b' s2]. cbn [fst snd] in Hb. cbn zeta.
    dmatch; cbn [fst snd genadd a_pop]; intros Hg; try discriminate;
      unfold erase in Hb; cbn [erase_item]; rewrite Hb; auto.
  - intros _. apply erase_apply_assign.
  - rewrite apply_item_Block.
    pose proof (erase_apply_items_from e b H s) as Hb.
    destruct (apply_items e b s) as [b' s']. cbn [fst snd] in *. intros Hg.
    unfold erase in Hb. cbn [erase_item]. rewrite Hb; auto.
Qed.

Lemma erase_apply_items e b s :
  genadd (snd (apply_items e b s)) = false -> erase (fst (apply_items e b s)) = erase b.
Proof. apply erase_apply_items_from. apply Forall_forall. intros. apply erase_apply_item; auto. Qed.

(* ------------------------------------------------------------------------------------------ *)
(* the collector: TypeVar statements it keeps are `X = TypeVar(...)` assignments *)

Lemma collect_item_Cls imp n h bs b c :
  collect_item imp (Cls n h bs b) c =
  let c1 := c_push [n] c in
  let c2 := c_use imp bs c1 in
  let c3 := mkC (cq c2) (cfuns c2) (cattrs c2)
                (dict_set N.eqb n (Cls n h (map dq_expr bs) b) (cclasses c2))
                (ctvs c2) (cnames c2) (cneeds c2)
                (cerr c2 || existsb (fun b => match b with EStr _ | EOther _ _ => true | _ => false end) bs) in
  c_pop (collect_items imp b c3).
Proof. simpl. rewrite collect_go_eq. reflexivity. Qed.

Lemma collect_item_Block imp i b c : collect_item imp (Block i b) c = collect_items imp b c.
Proof. simpl. rewrite collect_go_eq. reflexivity. Qed.

(* a generic invariant principle for the collector: an invariant I of the state that is re-established
   at each recording step, for stubs all of whose visited items satisfy a hereditary predicate G *)
Section CollectInv.
  Variable imp : list (N * path).
  Variable I : cstate -> Prop.
  Variable G : item -> Prop.
  Hypothesis G_cls : forall n h bs b, G (Cls n h bs b) -> Forall G b.
  Hypothesis G_block : forall i b, G (Block i b) -> Forall G b.
  Hypothesis I_push : forall p c, I c -> I (c_push p c).
  Hypothesis I_pop : forall c, I c -> I (c_pop c).
  Hypothesis I_use : forall es c, I c -> I (c_use imp es c).
  Hypothesis I_cls : forall n h bs b c er, I c ->
    I (mkC (cq c) (cfuns c) (cattrs c) (dict_set N.eqb n (Cls n h (map dq_expr bs) b) (cclasses c))
           (ctvs c) (cnames c) (cneeds c) er).
  Hypothesis I_fun : forall n d ps r b c, G (Fun n d ps r b) -> I c ->
    I (mkC (cq c) (((qname (cq c), shape_of ps), (dq_params ps, option_map dq_expr r)) :: cfuns c) (cattrs c)
           (cclasses c) (ctvs c) (cnames c) (cneeds c) (cerr c)).
  Hypothesis I_ann : forall t a v c, G (AnnAssign t a v) -> I c ->
    I (mkC (cq c) (cfuns c) ((qname (cq c), dq_expr a) :: cattrs c)
           (cclasses c) (ctvs c) (cnames c) (cneeds c) (cerr c)).
  Hypothesis I_err : forall c, I c ->
    I (mkC (cq c) (cfuns c) (cattrs c) (cclasses c) (ctvs c) (cnames c) (cneeds c) true).
  Hypothesis I_tv : forall ts v nm c, vtv v = true -> I c ->
    I (mkC (cq c) (cfuns c) (cattrs c) (cclasses c) (dict_set path_eqb nm (Assign ts v) (ctvs c)) (cnames c)
           (cneeds c ++ [([id_typing], id_TypeVar)]) (cerr c)).

  Lemma collect_items_inv_from b :
    Forall (fun it => G it -> forall c, I c -> I (collect_item imp it c)) b ->
    Forall G b -> forall c, I c -> I (collect_items imp b c).
  Proof.
    induction 1 as [|x b Hx Hb IH]; intros HG c Hc; cbn [collect_items]; auto.
    inversion HG; subst. auto.
  Qed.

  Lemma collect_item_inv it : G it -> forall c, I c -> I (collect_item imp it c).
  Proof.
    induction it using item_ind'; intros HG c Hc; try exact Hc.
    - cbn [collect_item]. apply I_pop. apply (I_fun n d ps r b (c_use imp _ (c_push [n] c))); auto.
    - rewrite collect_item_Cls. cbn zeta. apply I_pop. apply collect_items_inv_from; [exact H|eauto|].
      apply I_cls with (c := c_use imp bs (c_push [n] c)). auto.
    - cbn [collect_item]. destruct (vtv v) eqn:Ev; [|exact Hc].
      destruct ts as [|t ts]; [exact Hc|]. destruct (tname t); [|exact Hc]. apply I_tv; auto.
    - cbn [collect_item]. destruct (tname t).
      + apply I_pop. apply (I_ann t a v (c_use imp [a] (c_push p c))); auto.
      + apply I_err; auto.
    - rewrite collect_item_Block. apply collect_items_inv_from; eauto.
  Qed.

  Lemma collect_items_inv b c : Forall G b -> I c -> I (collect_items imp b c).
  Proof.
    intros HG. apply collect_items_inv_from; auto. apply Forall_forall. intros. apply collect_item_inv; auto.
  Qed.
End CollectInv.

Lemma ctvs_assign imp s :
  Forall (fun kv => exists ts v, snd kv = Assign ts v /\ vtv v = true) (ctvs (collect_items imp s c0)).
Proof.
  apply collect_items_inv with
    (I := fun c => Forall (fun kv => exists ts v, snd kv = Assign ts v /\ vtv v = true) (ctvs c))
    (G := fun _ => True); try (intros; assumption).
  - intros. apply Forall_forall. auto.
  - intros. apply Forall_forall. auto.
  - intros ts v nm c Hv Hc. cbn [ctvs]. apply Forall_forall. intros [k it] Hin.
    apply dict_set_In in Hin. destruct Hin as [Heq|Hin].
    + inversion Heq; subst. cbn [snd]. eauto.
    + rewrite Forall_forall in Hc. apply (Hc _ Hin).
  - apply Forall_forall. auto.
  - constructor.
Qed.

Lemma ctvs_erased imp s :
  Forall (fun kv => erase_item (Added (snd kv)) = []) (ctvs (collect_items imp s c0)).
Proof.
  eapply Forall_impl; [|apply ctvs_assign]. intros kv (ts & v & -> & Hv). cbn [erase_item]. rewrite Hv. reflexivity.
Qed.

Lemma cclasses_cls imp s :
  Forall (fun kd => exists n h bs b, snd kd = Cls n h bs b) (cclasses (collect_items imp s c0)).
Proof.
  apply collect_items_inv with
    (I := fun c => Forall (fun kd => exists n h bs b, snd kd = Cls n h bs b) (cclasses c))
    (G := fun _ => True); try (intros; assumption).
  - intros. apply Forall_forall. auto.
  - intros. apply Forall_forall. auto.
  - intros n h bs b c er Hc. cbn [cclasses]. apply Forall_forall. intros [k it] Hin.
    apply dict_set_In in Hin. destruct Hin as [Heq|Hin].
    + inversion Heq; subst. cbn [snd]. eauto.
    + rewrite Forall_forall in Hc. apply (Hc _ Hin).
  - apply Forall_forall. auto.
  - constructor.
Qed.

(* ------------------------------------------------------------------------------------------ *)
(* imports: when every requested import is from typing, erase removes exactly what was added *)

Definition typing_mod {A} (mw : path * A) : Prop := is_typing (fst mw) = true.

Lemma erase_app a b : erase (a ++ b) = erase a ++ erase b.
Proof. apply flat_map_app. Qed.

Lemma merge_into_block_erase blk : forall work,
  Forall typing_mod work ->
  erase (fst (merge_into_block blk work)) = erase blk /\ Forall typing_mod (snd (merge_into_block blk work)).
Proof.
  induction blk as [|x blk IH]; intros work Hw; cbn [merge_into_block fst snd]; [split; auto|].
  assert (Hdef : forall w, Forall typing_mod w ->
            erase (x :: fst (merge_into_block blk w)) = erase (x :: blk) /\
            Forall typing_mod (snd (merge_into_block blk w))).
  { intros w Hw'. destruct (IH w Hw') as [H1 H2]. split; auto.
    unfold erase in *. cbn [flat_map]. rewrite H1. reflexivity. }
  destruct x; try (specialize (Hdef work Hw); destruct (merge_into_block blk work); exact Hdef).
  destruct from; [|specialize (Hdef work Hw); destruct (merge_into_block blk work); exact Hdef].
  destruct (dict_get path_eqb module work) as [objs|] eqn:Eg;
    [|specialize (Hdef work Hw); destruct (merge_into_block blk work); exact Hdef].
  apply dict_get_In in Eg. destruct Eg as (k' & Hin & Hk). apply path_eqb_eq in Hk. subst k'.
  assert (Ht : is_typing module = true).
  { rewrite Forall_forall in Hw. apply (Hw _ Hin). }
  set (w' := filter _ work).
  assert (Hw' : Forall typing_mod w').
  { subst w'. apply Forall_forall. intros y Hy. apply filter_In in Hy. destruct Hy as [Hy _].
    rewrite Forall_forall in Hw. auto. }
  destruct (IH w' Hw') as [H1 H2]. destruct (merge_into_block blk w') as [r' w''].
  cbn [fst snd] in *. split; auto.
  unfold erase in *. cbn [flat_map erase_item]. rewrite Ht, H1. reflexivity.
Qed.

Lemma insert_path_In m x l : In m (insert_path x l) -> m = x \/ In m l.
Proof.
  induction l as [|y l IH]; cbn [insert_path].
  - intros [H|[]]; auto.
  - destruct (path_eqb x y); [auto|]. destruct (path_leb x y).
    + intros [H|H]; auto.
    + intros [H|H]; [right; left; auto|]. destruct (IH H); auto. right; right; auto.
Qed.

Lemma import_work_typing needs p :
  Forall typing_mod needs -> Forall typing_mod (import_work needs p).
Proof.
  intros Hn. unfold import_work. apply Forall_forall. intros [m objs] Hin.
  apply in_flat_map in Hin. destruct Hin as (m' & Hm' & Hin).
  assert (Hmods : forall l, In m' (fold_right insert_path [] l) -> In m' l).
  { induction l as [|y l IHl]; cbn [fold_right]; auto. intros H.
    apply insert_path_In in H. destruct H; [left; auto|right; auto]. }
  apply Hmods in Hm'. apply in_map_iff in Hm'. destruct Hm' as ([m2 o2] & Heq & Hin2).
  cbn [fst] in Heq. subst m2.
  match type of Hin with In _ (match ?l with _ => _ end) => destruct l end; [destruct Hin|].
  destruct Hin as [Heq|[]]. inversion Heq; subst.
  rewrite Forall_forall in Hn. apply (Hn _ Hin2).
Qed.

Lemma erase_add_imports needs orig core :
  Forall typing_mod needs -> erase (add_imports needs orig core) = erase core.
Proof.
  intros Hn. unfold add_imports.
  set (k := skip_first orig). set (n := length (top_block orig)).
  pose proof (merge_into_block_erase (firstn n (skipn k core)) (import_work needs orig)
                                     (import_work_typing needs orig Hn)) as [H1 H2].
  destruct (merge_into_block (firstn n (skipn k core)) (import_work needs orig)) as [blk' rest].
  cbn [fst snd] in *.
  rewrite !erase_app, H1.
  assert (Ha : erase (map (fun mw : path * list N => Added (Import true (fst mw) [] (snd mw) 0)) rest) = []).
  { clear -H2. induction H2 as [|mw rest Hmw _ IH]; [reflexivity|].
    unfold erase in *. cbn [map flat_map erase_item]. unfold typing_mod in Hmw. rewrite Hmw, IH. reflexivity. }
  rewrite Ha. cbn [app].
  rewrite (skipn_add k n core).
  rewrite <- !erase_app. rewrite (firstn_skipn n (skipn k core)), (firstn_skipn k core). reflexivity.
Qed.

(* ------------------------------------------------------------------------------------------ *)
(* merge_erases_to_original (partial: no class injected, no Generic base appended, typing imports only) *)

Lemma forallb_typing needs :
  forallb (fun mn : path * N => is_typing (fst mn)) needs = true -> Forall typing_mod needs.
Proof. intros H. apply Forall_forall. intros x Hx. rewrite forallb_forall in H. apply (H _ Hx). Qed.

Lemma merge_erases_lemma v p s :
  m_generic (merge v p s) = false -> m_fresh (merge v p s) = [] ->
  needs_typing_only (merge v p s) = true ->
  erase (m_out (merge v p s)) = erase p.
Proof.
  unfold needs_typing_only, merge.
  set (s' := filter_stub v s). set (imp := stub_imports s'). set (c := collect_items imp s' c0).
  set (e := mkE _ _ _ _).
  pose proof (erase_apply_items e p a0) as Hcore.
  destruct (apply_items e p a0) as [core st]. cbn [fst snd] in Hcore.
  cbn [m_out m_generic m_fresh m_needs].
  intros Hg Hf Hn.
  match goal with |- context [if ?c then _ else _] => destruct c end; [|reflexivity].
  apply forallb_typing in Hn.
  rewrite !erase_app.
  set (wi := add_imports (cneeds c) p core).
  (* the inserted statements all vanish under erase *)
  match goal with |- context [erase (map ?f (decls st))] =>
    assert (H1 : erase (map f (decls st)) = [])
  end.
  { induction (decls st) as [|kd l IH]; [reflexivity|]. unfold erase in *. cbn [map flat_map erase_item].
    exact IH. }
  match goal with |- context [erase (map ?f (filter ?g1 (filter ?g2 (ctvs c))))] =>
    assert (H2 : erase (map f (filter g1 (filter g2 (ctvs c)))) = [])
  end.
  { pose proof (ctvs_erased imp s') as Ht. fold c in Ht.
    assert (Hsub : forall l, Forall (fun kv : path * item => erase_item (Added (snd kv)) = []) l ->
                             erase (map (fun kv : path * item => Added (snd kv)) l) = []).
    { induction 1 as [|kv l Hkv _ IH]; [reflexivity|]. unfold erase in *. cbn [map flat_map].
      rewrite Hkv, IH. reflexivity. }
    apply Hsub. apply Forall_forall. intros kv Hin.
    apply filter_In in Hin. destruct Hin as [Hin _]. apply filter_In in Hin. destruct Hin as [Hin _].
    rewrite Forall_forall in Ht. auto. }
  match type of Hf with map fst ?l = [] => assert (H3 : l = []) by (destruct l; [reflexivity|discriminate]) end.
  clear Hf.
  rewrite H3, H1, H2. cbn [map erase flat_map app].
  fold (erase (firstn (split_loc wi) wi)). fold (erase (skipn (split_loc wi) wi)).
  rewrite <- erase_app, firstn_skipn. subst wi.
  rewrite erase_add_imports by exact Hn. apply Hcore. exact Hg.
Qed.

(* ------------------------------------------------------------------------------------------ *)
(* slots: the annotation pass keeps every slot in place, keeps existing annotations, and fills an
   empty return / variable slot only with (a quoting of) some return / attribute of the stub table *)

Definition same_key (sl sl' : slot) : Prop :=
  s_qn sl = s_qn sl' /\ s_shape sl = s_shape sl' /\ s_which sl = s_which sl'.

Definition R (e : env) (sl sl' : slot) : Prop :=
  same_key sl sl' /\
  match s_ann sl with
  | Some a => s_ann sl' = Some a
  | None =>
      match s_ann sl' with
      | None => True
      | Some a =>
          (s_which sl = WRet -> exists key fa a0, In (key, fa) (efuns e) /\ snd fa = Some a0 /\ same_ann a a0) /\
          (s_which sl = WVar -> exists q a0, In (q, a0) (eattrs e) /\ same_ann a a0)
      end
  end.

Lemma R_refl e sl : R e sl sl.
Proof. unfold R, same_key. split; auto. destruct (s_ann sl); auto. Qed.

Lemma Forall2_refl {A} (Q : A -> A -> Prop) (l : list A) : (forall x, Q x x) -> Forall2 Q l l.
Proof. intros H. induction l; constructor; auto. Qed.

Lemma Forall2_flat_map {A B} (Q : B -> B -> Prop) (f g : A -> list B) (l l' : list A) :
  Forall2 (fun x y => Forall2 Q (f x) (g y)) l l' -> Forall2 Q (flat_map f l) (flat_map g l').
Proof. induction 1; cbn [flat_map]; [constructor|]. apply Forall2_app; auto. Qed.

Lemma quote_same gn vis a : same_ann (quote gn vis a) a.
Proof.
  unfold quote, same_ann. destruct a; auto.
  destruct (memN n gn && negb (memN n vis)); [right; eauto|left; auto].
Qed.

Lemma upd_param_name gn vis p a : pname (upd_param gn vis p a) = pname p.
Proof. unfold upd_param. destruct (pann p), a; reflexivity. Qed.

Lemma upd_positional_length gn vis ps qs : length (upd_positional gn vis ps qs) = length ps.
Proof.
  revert qs. induction ps as [|p ps IH]; intros [|q qs]; cbn [upd_positional length]; auto.
Qed.

Lemma shape_update gn vis ps qs : shape_of (update_parameters gn vis ps qs) = shape_of ps.
Proof.
  unfold shape_of, update_parameters. cbn [posonly pos star kwonly kwstar].
  rewrite !upd_positional_length. f_equal.
  unfold upd_named. rewrite map_map. f_equal. apply map_ext. intros. apply upd_param_name.
Qed.

Lemma R_param e qn sh w gn vis p a :
  w <> WRet -> w <> WVar ->
  R e (mkSlot qn (Some sh) w (pann p)) (mkSlot qn (Some sh) w (pann (upd_param gn vis p a))).
Proof.
  intros H1 H2. unfold R, same_key. cbn [s_qn s_shape s_which s_ann]. split; auto.
  unfold upd_param. destruct (pann p) eqn:E; [rewrite E; reflexivity|].
  destruct a; cbn [pann]; [|rewrite E; auto]. split; intros; congruence.
Qed.

Lemma pslots_R e qn sh mk gn vis : (forall i, mk i <> WRet /\ mk i <> WVar) ->
  forall ps qs i, Forall2 (R e) (pslots qn sh mk i ps) (pslots qn sh mk i (upd_positional gn vis ps qs)).
Proof.
  intros Hmk. induction ps as [|p ps IH]; intros [|q qs] i; cbn [upd_positional pslots];
    try (apply Forall2_refl; apply R_refl).
  constructor; [|apply IH]. apply R_param; apply Hmk.
Qed.

Lemma R_fun_slots e qn ps r gn vis qs r' :
  (match r with
   | Some a => r' = Some a
   | None => match r' with
             | None => True
             | Some a => exists key fa a0, In (key, fa) (efuns e) /\ snd fa = Some a0 /\ same_ann a a0
             end
   end) ->
  Forall2 (R e) (fun_slots qn ps r) (fun_slots qn (update_parameters gn vis ps qs) r').
Proof.
  intros Hr. unfold fun_slots. rewrite shape_update.
  cbn [update_parameters posonly pos star kwonly kwstar].
  constructor.
  { unfold R, same_key. cbn [s_qn s_shape s_which s_ann]. split; auto.
    destruct r; auto. destruct r'; auto. split; [auto|discriminate]. }
  repeat apply Forall2_app; try (apply Forall2_refl; apply R_refl).
  - apply pslots_R. intros; split; discriminate.
  - apply pslots_R. intros; split; discriminate.
  - unfold upd_named. rewrite map_map.
    induction (kwonly ps) as [|p l IH]; cbn [map]; constructor; auto.
    rewrite upd_param_name. apply R_param; discriminate.
Qed.

Lemma R_apply_fun e n d ps r b s ch :
  Forall2 (R e) (slots ch (Fun n d ps r b)) (slots ch (fst (apply_fun e n d ps r b s))).
Proof.
  unfold apply_fun. destruct (dict_get _ _ _) as [fa|] eqn:Eg; [|apply Forall2_refl; apply R_refl].
  destruct (match_signatures ps r fa); [|apply Forall2_refl; apply R_refl].
  cbn [fst slots]. apply Forall2_app; [|apply Forall2_refl; apply R_refl].
  apply R_fun_slots. destruct r; auto. destruct (snd fa) as [a0|] eqn:Ea; auto.
  apply dict_get_In in Eg. destruct Eg as (k' & Hin & _).
  exists k', fa, a0. repeat split; auto. apply quote_same.
Qed.

Lemma R_apply_assign e ts v s ch :
  Forall2 (R e) (slots ch (Assign ts v)) (slots ch (fst (apply_assign e ts v s))).
Proof.
  unfold apply_assign. set (s0 := if vtv v then _ else s). clearbody s0.
  destruct ts as [|t [|t2 ts]]; try (apply Forall2_refl; apply R_refl).
  destruct t as [n|k nm i].
  - cbn zeta. destruct (dict_get _ _ _) as [a|] eqn:Eg; [destruct (mem_path _ _)|];
      try (apply Forall2_refl; apply R_refl).
    cbn [fst slots tname]. constructor; [|constructor].
    unfold R, same_key. cbn [s_qn s_shape s_which s_ann]. split; auto. split; [discriminate|].
    intros _. apply dict_get_In in Eg. destruct Eg as (k' & Hin & _).
    exists k', a. split; auto. apply quote_same.
  - destruct k; [destruct nm| |]; apply Forall2_refl; apply R_refl.
Qed.

Lemma R_apply_items_from e b :
  Forall (fun it => forall s ch, Forall2 (R e) (slots ch it) (slots ch (fst (apply_item e it s)))) b ->
  forall s ch, Forall2 (R e) (flat_map (slots ch) b) (flat_map (slots ch) (fst (apply_items e b s))).
Proof.
  induction 1 as [|x b Hx Hb IH]; intros s ch; cbn [apply_items]; [constructor|].
  specialize (Hx s ch). destruct (apply_item e x s) as [x' s'].
  specialize (IH s' ch). destruct (apply_items e b s') as [b' s''].
  cbn [fst flat_map] in *. apply Forall2_app; auto.
Qed.

Lemma R_apply_item e it :
  forall s ch, Forall2 (R e) (slots ch it) (slots ch (fst (apply_item e it s))).
Proof.
  induction it using item_ind'; intros s ch; try (apply Forall2_refl; apply R_refl).
  - apply R_apply_fun.
  - rewrite apply_item_Cls.
    pose proof (R_apply_items_from e b H (a_push [n] s) (ext ch [n])) as Hb.
    destruct (apply_items e b (a_push [n] s)) as [b' s2]. cbn [fst] in Hb. cbn zeta.
    dmatch; cbn [fst slots]; exact Hb.
  - apply R_apply_assign.
  - rewrite apply_item_Block.
    pose proof (R_apply_items_from e b H s ch) as Hb.
    destruct (apply_items e b s) as [b' s']. exact Hb.
Qed.

Lemma R_apply_items e b s ch :
  Forall2 (R e) (flat_map (slots ch) b) (flat_map (slots ch) (fst (apply_items e b s))).
Proof. apply R_apply_items_from. apply Forall_forall. intros. apply R_apply_item. Qed.

(* inserted statements and import edits carry no slots *)
Lemma slots_merge_into_block ch blk : forall work,
  flat_map (slots ch) (fst (merge_into_block blk work)) = flat_map (slots ch) blk.
Proof.
  induction blk as [|x blk IH]; intros work; cbn [merge_into_block]; [reflexivity|].
  assert (Hdef : forall w, flat_map (slots ch) (x :: fst (merge_into_block blk w)) = flat_map (slots ch) (x :: blk)).
  { intros w. cbn [flat_map]. rewrite IH. reflexivity. }
  destruct x; try (specialize (Hdef work); destruct (merge_into_block blk work); exact Hdef).
  destruct from; [|specialize (Hdef work); destruct (merge_into_block blk work); exact Hdef].
  destruct (dict_get path_eqb module work);
    [|specialize (Hdef work); destruct (merge_into_block blk work); exact Hdef].
  specialize (IH (filter (fun mw : path * list N => negb (path_eqb (fst mw) module)) work)).
  destruct (merge_into_block blk _) as [r' w'']. cbn [fst flat_map slots app] in *. exact IH.
Qed.

Lemma slots_all_added {A} ch (f : A -> item) (l : list A) :
  flat_map (slots ch) (map (fun x => Added (f x)) l) = [].
Proof. induction l; cbn [map flat_map slots app]; auto. Qed.

Lemma slots_add_imports ch needs orig core :
  flat_map (slots ch) (add_imports needs orig core) = flat_map (slots ch) core.
Proof.
  unfold add_imports.
  set (k := skip_first orig). set (n := length (top_block orig)).
  pose proof (slots_merge_into_block ch (firstn n (skipn k core)) (import_work needs orig)) as H1.
  destruct (merge_into_block (firstn n (skipn k core)) (import_work needs orig)) as [blk' rest].
  cbn [fst] in H1. rewrite !flat_map_app, H1.
  rewrite (slots_all_added ch (fun mw : path * list N => Import true (fst mw) [] (snd mw) 0)).
  cbn [app]. rewrite (skipn_add k n core).
  rewrite <- !flat_map_app. rewrite (firstn_skipn n (skipn k core)), (firstn_skipn k core). reflexivity.
Qed.

(* the stub table the annotation pass works with *)
Definition merge_env (v : variant) (p s : list item) : env :=
  let s' := filter_stub v s in
  let c := collect_items (stub_imports s') s' c0 in
  mkE (cfuns c) (cattrs c) (cclasses c) (global_names p).

Lemma merge_slots v p s :
  Forall2 (R (merge_env v p s)) (mslots p) (mslots (m_out (merge v p s))).
Proof.
  unfold merge_env, merge.
  set (s' := filter_stub v s). set (imp := stub_imports s'). set (c := collect_items imp s' c0).
  set (e := mkE _ _ _ _).
  pose proof (R_apply_items e p a0 (Some [])) as Hcore.
  destruct (apply_items e p a0) as [core st]. cbn [fst] in Hcore. cbn [m_out].
  match goal with |- context [if ?c then _ else _] => destruct c end;
    [|apply Forall2_refl; apply R_refl].
  unfold mslots. rewrite !flat_map_app.
  rewrite (slots_all_added (Some []) (fun kd : path * expr =>
             AnnAssign (TName (hd 0 (fst kd))) (quote (global_names p) (visited st) (snd kd)) None)).
  rewrite (slots_all_added (Some []) (fun kv : path * item => snd kv)).
  rewrite (slots_all_added (Some []) (fun kd : N * item => snd kd)).
  cbn [app]. rewrite flat_map_firstn_skipn, slots_add_imports. exact Hcore.
Qed.

Lemma Forall2_nth {A} (Q : A -> A -> Prop) (l l' : list A) :
  Forall2 Q l l' -> forall i x, nth_error l i = Some x -> exists y, nth_error l' i = Some y /\ Q x y.
Proof.
  induction 1 as [|a b l l' Hab _ IH]; intros [|i] x; cbn [nth_error]; try discriminate.
  - intros H; inversion H; subst; eauto.
  - apply IH.
Qed.

Lemma Forall2_nth' {A} (Q : A -> A -> Prop) (l l' : list A) :
  Forall2 Q l l' -> forall i y, nth_error l' i = Some y -> exists x, nth_error l i = Some x /\ Q x y.
Proof.
  induction 1 as [|a b l l' Hab _ IH]; intros [|i] x; cbn [nth_error]; try discriminate.
  - intros H; inversion H; subst; eauto.
  - apply IH.
Qed.

(* existing_kept *)
Lemma existing_kept_lemma : forall v p s i sl a,
  ann_at p i = Some sl -> s_ann sl = Some a ->
  exists sl', ann_at (m_out (merge v p s)) i = Some sl' /\
              s_qn sl' = s_qn sl /\ s_shape sl' = s_shape sl /\ s_which sl' = s_which sl /\
              s_ann sl' = Some a.
Proof.
  intros v p s i sl a Hi Ha. unfold ann_at in *.
  destruct (Forall2_nth _ _ _ (merge_slots v p s) i sl Hi) as (sl' & Hi' & (Hq & Hs & Hw) & Hann).
  exists sl'. rewrite Ha in Hann. repeat split; auto.
Qed.

(* the merge neither creates nor removes nor moves an annotation slot *)
Lemma slots_aligned_lemma : forall v p s i,
  match ann_at p i, ann_at (m_out (merge v p s)) i with
  | Some sl, Some sl' => s_qn sl' = s_qn sl /\ s_shape sl' = s_shape sl /\ s_which sl' = s_which sl
  | None, None => True
  | _, _ => False
  end.
Proof.
  intros v p s i. unfold ann_at.
  pose proof (merge_slots v p s) as H.
  destruct (nth_error (mslots p) i) as [sl|] eqn:E1.
  - destruct (Forall2_nth _ _ _ H i sl E1) as (sl' & Hi' & (Hq & Hs & Hw) & _). rewrite Hi'. auto.
  - destruct (nth_error (mslots (m_out (merge v p s))) i) as [sl'|] eqn:E2; auto.
    destruct (Forall2_nth' _ _ _ H i sl' E2) as (x & Hx & _). congruence.
Qed.

(* ------------------------------------------------------------------------------------------ *)
(* no bare Any / Never: what the two stub transformers guarantee about the table *)

Definition ok_ann (a : expr) : bool := negb (bare_any_never a) && not_dotted_any a.

Lemma ok_dq a : ok_ann a = true -> bare_any_never (dq_expr a) = false.
Proof.
  unfold ok_ann. intros H. apply andb_true_iff in H. destruct H as [H1 H2].
  destruct a; cbn [dq_expr bare_any_never not_dotted_any] in *.
  - apply negb_true_iff in H1. exact H1.
  - apply negb_true_iff in H2. exact H2.
  - destruct (is_type_head a); reflexivity.
  - reflexivity.
  - reflexivity.
Qed.

Lemma forallb_flat_map {A B} (f : B -> bool) (g : A -> list B) (l : list A) :
  forallb f (flat_map g l) = forallb (fun x => forallb f (g x)) l.
Proof. induction l as [|x l IH]; cbn [flat_map forallb]; auto. rewrite forallb_app, IH. reflexivity. Qed.

Lemma forallb_Forall_impl {A} (f g : A -> bool) (l : list A) :
  Forall (fun x => f x = true -> g x = true) l -> forallb f l = true -> forallb g l = true.
Proof.
  induction 1 as [|x l Hx _ IH]; cbn [forallb]; auto. intros H. apply andb_true_iff in H.
  destruct H. apply andb_true_iff. auto.
Qed.

Lemma is_any_or_never_bare a : is_any_or_never (Some (NExpr a)) = bare_any_never a.
Proof. destruct a; reflexivity. Qed.

Lemma strip_an_rets v it :
  rets_ok not_dotted_any it = true -> forallb (rets_ok ok_ann) (strip_an v it) = true.
Proof.
  induction it using item_ind'; try (intros _; reflexivity).
  - cbn [rets_ok strip_an]. intros Hr. destruct r as [a|]; cbn [option_map].
    + rewrite is_any_or_never_bare. destruct (bare_any_never a) eqn:Eb; cbn [forallb rets_ok]; auto.
      unfold ok_ann. rewrite Eb, Hr. reflexivity.
    + reflexivity.
  - cbn [rets_ok strip_an forallb]. intros Hb. rewrite andb_true_r, forallb_flat_map.
    revert Hb. apply forallb_Forall_impl. exact H.
  - cbn [strip_an]. unfold an_leave_annassign. destruct v; dmatch; reflexivity.
  - cbn [rets_ok strip_an forallb]. intros Hb. rewrite andb_true_r, forallb_flat_map.
    revert Hb. apply forallb_Forall_impl. exact H.
Qed.

Lemma strip_an_vars_fixed it :
  vars_ok not_dotted_any it = true -> forallb (vars_ok ok_ann) (strip_an Fixed it) = true.
Proof.
  induction it using item_ind'; try (intros _; reflexivity).
  - cbn [strip_an]. intros _. destruct (is_any_or_never _); reflexivity.
  - cbn [vars_ok strip_an forallb]. intros Hb. rewrite andb_true_r, forallb_flat_map.
    revert Hb. apply forallb_Forall_impl. exact H.
  - cbn [vars_ok strip_an]. unfold an_leave_annassign. intros Ha.
    rewrite is_any_or_never_bare. destruct (bare_any_never a) eqn:Eb.
    + destruct v; reflexivity.
    + cbn [forallb vars_ok]. unfold ok_ann. rewrite Eb, Ha. reflexivity.
  - cbn [vars_ok strip_an forallb]. intros Hb. rewrite andb_true_r, forallb_flat_map.
    revert Hb. apply forallb_Forall_impl. exact H.
Qed.

Lemma strip_tr_rets f it : rets_ok f it = true -> forallb (rets_ok f) (strip_tr it) = true.
Proof.
  induction it using item_ind'; try (intros _; reflexivity).
  - cbn [rets_ok strip_tr forallb]. intros ->. reflexivity.
  - cbn [rets_ok strip_tr forallb]. intros Hb. rewrite andb_true_r, forallb_flat_map.
    revert Hb. apply forallb_Forall_impl. exact H.
  - cbn [strip_tr]. intros _. destruct v; [reflexivity|]. destruct (is_trivial a); reflexivity.
  - cbn [rets_ok strip_tr forallb]. intros Hb. rewrite andb_true_r, forallb_flat_map.
    revert Hb. apply forallb_Forall_impl. exact H.
Qed.

Lemma strip_tr_vars f it : vars_ok f it = true -> forallb (vars_ok f) (strip_tr it) = true.
Proof.
  induction it using item_ind'; try (intros _; reflexivity).
  - cbn [vars_ok strip_tr forallb]. intros Hb. rewrite andb_true_r, forallb_flat_map.
    revert Hb. apply forallb_Forall_impl. exact H.
  - cbn [vars_ok strip_tr]. intros Ha. destruct v; [cbn [forallb vars_ok]; rewrite Ha; reflexivity|].
    destruct (is_trivial a); [reflexivity|]. cbn [forallb vars_ok]. rewrite Ha. reflexivity.
  - cbn [vars_ok strip_tr forallb]. intros Hb. rewrite andb_true_r, forallb_flat_map.
    revert Hb. apply forallb_Forall_impl. exact H.
Qed.

Lemma filter_stub_rets v s :
  forallb (rets_ok not_dotted_any) s = true -> forallb (rets_ok ok_ann) (filter_stub v s) = true.
Proof.
  intros H. unfold filter_stub, strip_trivial, strip_any_never.
  rewrite forallb_flat_map.
  assert (H1 : forallb (rets_ok ok_ann) (flat_map (strip_an v) s) = true).
  { rewrite forallb_flat_map. revert H. apply forallb_Forall_impl. apply Forall_forall. intros.
    apply strip_an_rets; auto. }
  revert H1. apply forallb_Forall_impl. apply Forall_forall. intros. apply strip_tr_rets; auto.
Qed.

Lemma filter_stub_vars_fixed s :
  forallb (vars_ok not_dotted_any) s = true -> forallb (vars_ok ok_ann) (filter_stub Fixed s) = true.
Proof.
  intros H. unfold filter_stub, strip_trivial, strip_any_never.
  rewrite forallb_flat_map.
  assert (H1 : forallb (vars_ok ok_ann) (flat_map (strip_an Fixed) s) = true).
  { rewrite forallb_flat_map. revert H. apply forallb_Forall_impl. apply Forall_forall. intros.
    apply strip_an_vars_fixed; auto. }
  revert H1. apply forallb_Forall_impl. apply Forall_forall. intros. apply strip_tr_vars; auto.
Qed.

Lemma forallb_Forall_true {A} (f : A -> bool) l : forallb f l = true -> Forall (fun x => f x = true) l.
Proof. intros H. apply Forall_forall. intros x Hx. rewrite forallb_forall in H. auto. Qed.

(* the collected table: returns / attributes are not bare Any/Never *)
Lemma cfuns_clean imp s :
  forallb (rets_ok ok_ann) s = true ->
  forall key fa a0, In (key, fa) (cfuns (collect_items imp s c0)) -> snd fa = Some a0 ->
                    bare_any_never a0 = false.
Proof.
  intros Hs.
  apply collect_items_inv with
    (I := fun c => forall key fa a0, In (key, fa) (cfuns c) -> snd fa = Some a0 -> bare_any_never a0 = false)
    (G := fun it => rets_ok ok_ann it = true); try (intros; eauto; fail).
  - intros n h bs b Hb. cbn [rets_ok] in Hb. apply forallb_Forall_true. exact Hb.
  - intros i b Hb. cbn [rets_ok] in Hb. apply forallb_Forall_true. exact Hb.
  - intros n d ps r b c Hg Hc key fa a0 Hin Ha. cbn [cfuns] in Hin. destruct Hin as [Heq|Hin]; [|eauto].
    inversion Heq; subst. cbn [snd] in Ha. destruct r as [a|]; [|discriminate].
    cbn [option_map] in Ha. inversion Ha; subst. cbn [rets_ok] in Hg. apply ok_dq. exact Hg.
  - apply forallb_Forall_true. exact Hs.
  - intros ? ? ? [].
Qed.

Lemma cattrs_clean imp s :
  forallb (vars_ok ok_ann) s = true ->
  forall q a0, In (q, a0) (cattrs (collect_items imp s c0)) -> bare_any_never a0 = false.
Proof.
  intros Hs.
  apply collect_items_inv with
    (I := fun c => forall q a0, In (q, a0) (cattrs c) -> bare_any_never a0 = false)
    (G := fun it => vars_ok ok_ann it = true); try (intros; eauto; fail).
  - intros n h bs b Hb. cbn [vars_ok] in Hb. apply forallb_Forall_true. exact Hb.
  - intros i b Hb. cbn [vars_ok] in Hb. apply forallb_Forall_true. exact Hb.
  - intros t a v c Hg Hc q a0 Hin. cbn [cattrs] in Hin. destruct Hin as [Heq|Hin]; [|eauto].
    inversion Heq; subst. cbn [vars_ok] in Hg. apply ok_dq. exact Hg.
  - apply forallb_Forall_true. exact Hs.
  - intros ? ? [].
Qed.

Lemma same_ann_bare a a0 : same_ann a a0 -> bare_any_never a0 = false -> bare_any_never a = false.
Proof. intros [->|(n & -> & ->)]; auto. Qed.

(* ------------------------------------------------------------------------------------------ *)
(* invariants of the annotation pass that only concern the recorded toplevel declarations *)

Section ApplyInv.
  Variable e : env.
  Variable J : astate -> Prop.
  Hypothesis J_ext : forall s s', decls s = decls s' -> clsdecl s = clsdecl s' -> J s -> J s'.
  Hypothesis J_top : forall nm s, J s -> J (add_toplevel e nm s).

  Lemma J_add_toplevels nms : forall s, J s -> J (add_toplevels e nms s).
  Proof.
    unfold add_toplevels. induction nms as [|o nms IH]; intros s Hs; cbn [fold_left]; auto.
    apply IH. destruct o as [nm|]; auto. destruct (not_underscore nm); auto.
  Qed.

  Lemma J_apply_assign ts v s : J s -> J (snd (apply_assign e ts v s)).
  Proof.
    intros Hs. unfold apply_assign.
    set (s0 := if vtv v then _ else s).
    assert (H0 : J s0).
    { subst s0. destruct (vtv v); auto. destruct ts as [|t ?]; auto. destruct (tname t); auto.
      eapply J_ext; [| |exact Hs]; reflexivity. }
    clearbody s0. clear Hs.
    destruct ts as [|t [|t2 ts]]; cbn [snd]; try (apply J_add_toplevels; exact H0).
    destruct t as [n|k nm i].
    - cbn zeta. destruct (dict_get _ _ _); [destruct (mem_path _ _)|]; cbn [snd];
        (eapply J_ext; [| |exact H0]; reflexivity).
    - destruct k; [destruct nm| |]; cbn [snd]; try exact H0; try (apply J_add_toplevels; exact H0).
      eapply J_ext; [| |exact H0]; reflexivity.
  Qed.

  Lemma J_apply_fun n d ps r b s : J s -> J (snd (apply_fun e n d ps r b s)).
  Proof.
    intros Hs. unfold apply_fun. dmatch; cbn [snd]; auto; (eapply J_ext; [| |exact Hs]; reflexivity).
  Qed.

  Lemma J_apply_items_from b :
    Forall (fun it => forall s, J s -> J (snd (apply_item e it s))) b ->
    forall s, J s -> J (snd (apply_items e b s)).
  Proof.
    induction 1 as [|x b Hx Hb IH]; intros s Hs; cbn [apply_items snd]; auto.
    specialize (Hx s Hs). destruct (apply_item e x s) as [x' s'].
    specialize (IH s' Hx). destruct (apply_items e b s') as [b' s'']. exact IH.
  Qed.

  Lemma J_apply_item it : forall s, J s -> J (snd (apply_item e it s)).
  Proof.
    induction it using item_ind'; intros s Hs; try exact Hs.
    - apply J_apply_fun; auto.
    - rewrite apply_item_Cls.
      assert (H1 : J (a_push [n] s)) by (eapply J_ext; [| |exact Hs]; reflexivity).
      pose proof (J_apply_items_from b H _ H1) as Hb.
      destruct (apply_items e b (a_push [n] s)) as [b' s2]. cbn [snd] in Hb. cbn zeta.
      dmatch; cbn [snd]; (eapply J_ext; [| |exact Hb]; reflexivity).
    - apply J_apply_assign; auto.
    - rewrite apply_item_Block.
      pose proof (J_apply_items_from b H _ Hs) as Hb.
      destruct (apply_items e b s) as [b' s']. exact Hb.
  Qed.

  Lemma J_apply_items b s : J s -> J (snd (apply_items e b s)).
  Proof. apply J_apply_items_from. apply Forall_forall. intros. apply J_apply_item; auto. Qed.
End ApplyInv.

(* every recorded declaration carries an attribute annotation of the table *)
Lemma decls_from_attrs e b :
  forall nm a, In (nm, a) (decls (snd (apply_items e b a0))) -> exists q, In (q, a) (eattrs e).
Proof.
  apply J_apply_items with (J := fun s => forall nm a, In (nm, a) (decls s) -> exists q, In (q, a) (eattrs e)).
  - intros s s' Hd _ H. rewrite <- Hd. exact H.
  - intros nm s H. unfold add_toplevel. destruct (dict_get _ _ _) as [a|] eqn:Eg; auto.
    cbn [decls]. intros nm' a' Hin. apply dict_set_In in Hin. destruct Hin as [Heq|Hin]; eauto.
    inversion Heq; subst. apply dict_get_In in Eg. destruct Eg as (k' & Hk & _). eauto.
  - intros ? ? [].
Qed.

(* ------------------------------------------------------------------------------------------ *)
(* the module-level declarations of the output *)

Definition decl_of (it : item) : list (path * expr) :=
  match it with
  | Added (AnnAssign t a None) => match tname t with Some nm => [(nm, a)] | None => [] end
  | _ => []
  end.

Lemma added_decls_eq l : added_decls l = flat_map decl_of l.
Proof. reflexivity. Qed.

Lemma decl_of_apply_item e it s : decl_of (fst (apply_item e it s)) = decl_of it.
Proof.
  destruct it; try reflexivity.
  - cbn [apply_item]. unfold apply_fun. dmatch; reflexivity.
  - rewrite apply_item_Cls. destruct (apply_items e body (a_push [name] s)). cbn zeta. dmatch; reflexivity.
  - cbn [apply_item]. unfold apply_assign. dmatch; reflexivity.
  - rewrite apply_item_Block. destruct (apply_items e body s). reflexivity.
Qed.

Lemma added_decls_apply_items e b : forall s, added_decls (fst (apply_items e b s)) = added_decls b.
Proof.
  induction b as [|x b IH]; intros s; cbn [apply_items]; [reflexivity|].
  pose proof (decl_of_apply_item e x s) as Hx. destruct (apply_item e x s) as [x' s'].
  specialize (IH s'). destruct (apply_items e b s') as [b' s''].
  rewrite !added_decls_eq in *. cbn [fst flat_map] in *. rewrite Hx, IH. reflexivity.
Qed.

Lemma decls_merge_into_block blk : forall work,
  flat_map decl_of (fst (merge_into_block blk work)) = flat_map decl_of blk.
Proof.
  induction blk as [|x blk IH]; intros work; cbn [merge_into_block]; [reflexivity|].
  assert (Hdef : forall w, flat_map decl_of (x :: fst (merge_into_block blk w)) = flat_map decl_of (x :: blk)).
  { intros w. cbn [flat_map]. rewrite IH. reflexivity. }
  destruct x; try (specialize (Hdef work); destruct (merge_into_block blk work); exact Hdef).
  destruct from; [|specialize (Hdef work); destruct (merge_into_block blk work); exact Hdef].
  destruct (dict_get path_eqb module work);
    [|specialize (Hdef work); destruct (merge_into_block blk work); exact Hdef].
  specialize (IH (filter (fun mw : path * list N => negb (path_eqb (fst mw) module)) work)).
  destruct (merge_into_block blk _) as [r' w'']. cbn [fst flat_map decl_of app] in *. exact IH.
Qed.

Lemma added_decls_add_imports needs orig core : added_decls (add_imports needs orig core) = added_decls core.
Proof.
  rewrite !added_decls_eq. unfold add_imports.
  set (k := skip_first orig). set (n := length (top_block orig)).
  pose proof (decls_merge_into_block (firstn n (skipn k core)) (import_work needs orig)) as H1.
  destruct (merge_into_block (firstn n (skipn k core)) (import_work needs orig)) as [blk' rest].
  cbn [fst] in H1. rewrite !flat_map_app, H1.
  assert (Ha : flat_map decl_of (map (fun mw : path * list N => Added (Import true (fst mw) [] (snd mw) 0)) rest) = []).
  { induction rest; cbn [map flat_map decl_of app]; auto. }
  rewrite Ha. cbn [app]. rewrite (skipn_add k n core).
  rewrite <- !flat_map_app. rewrite (firstn_skipn n (skipn k core)), (firstn_skipn k core). reflexivity.
Qed.

Definition merge_state (v : variant) (p s : list item) : astate :=
  snd (apply_items (merge_env v p s) p a0).

Lemma added_decls_out v p s nm a :
  In (nm, a) (added_decls (m_out (merge v p s))) ->
  In (nm, a) (added_decls p) \/
  exists nm0 a0, In (nm0, a0) (decls (merge_state v p s)) /\ nm = [hd 0 nm0] /\
                 a = quote (global_names p) (visited (merge_state v p s)) a0.
Proof.
  unfold merge_state, merge_env, merge.
  set (s' := filter_stub v s). set (imp := stub_imports s'). set (c := collect_items imp s' c0).
  set (e := mkE _ _ _ _).
  pose proof (added_decls_apply_items e p a0) as Hcore.
  destruct (apply_items e p a0) as [core st]. cbn [fst snd] in *. cbn [m_out].
  match goal with |- context [if ?c then _ else _] => destruct c end; [|auto].
  rewrite added_decls_eq. rewrite !flat_map_app. rewrite !in_app_iff.
  intros [H|[[H|[H|H]]|H]].
  - left. rewrite <- Hcore, <- (added_decls_add_imports (cneeds c) p core), added_decls_eq.
    rewrite <- (firstn_skipn (split_loc (add_imports (cneeds c) p core)) (add_imports (cneeds c) p core)).
    rewrite flat_map_app. apply in_or_app. auto.
  - right. apply in_flat_map in H. destruct H as (x & Hx & Hin).
    apply in_map_iff in Hx. destruct Hx as ([nm0 a0'] & <- & Hd).
    cbn [decl_of tname fst snd] in Hin. destruct Hin as [Heq|[]]. inversion Heq; subst. eauto.
  - exfalso. apply in_flat_map in H. destruct H as (x & Hx & Hin).
    apply in_map_iff in Hx. destruct Hx as (kv & <- & Hd).
    apply filter_In in Hd. destruct Hd as [Hd _]. apply filter_In in Hd. destruct Hd as [Hd _].
    pose proof (ctvs_assign imp s') as Ht. fold c in Ht. rewrite Forall_forall in Ht.
    destruct (Ht _ Hd) as (ts & v0 & Heq & _). rewrite Heq in Hin. destruct Hin.
  - exfalso. apply in_flat_map in H. destruct H as (x & Hx & Hin).
    apply in_map_iff in Hx. destruct Hx as (kd & <- & Hd).
    apply filter_In in Hd. destruct Hd as [Hd _].
    pose proof (cclasses_cls imp s') as Ht. fold c in Ht. rewrite Forall_forall in Ht.
    destruct (Ht _ Hd) as (n & h & bs & b & Heq). rewrite Heq in Hin. destruct Hin.
  - left. rewrite <- Hcore, <- (added_decls_add_imports (cneeds c) p core), added_decls_eq.
    rewrite <- (firstn_skipn (split_loc (add_imports (cneeds c) p core)) (add_imports (cneeds c) p core)).
    rewrite flat_map_app. apply in_or_app. auto.
Qed.

(* ------------------------------------------------------------------------------------------ *)
(* no_bare_any_never *)

Lemma no_bare_returns_lemma : forall v p s i sl sl' a,
  forallb (rets_ok not_dotted_any) s = true ->
  ann_at p i = Some sl -> s_ann sl = None ->
  ann_at (m_out (merge v p s)) i = Some sl' -> s_ann sl' = Some a ->
  s_which sl = WRet -> bare_any_never a = false.
Proof.
  intros v p s i sl sl' a Hs Hi Hn Hi' Ha Hw. unfold ann_at in *.
  destruct (Forall2_nth _ _ _ (merge_slots v p s) i sl Hi) as (sl2 & Hi2 & _ & Hann).
  rewrite Hi' in Hi2. inversion Hi2; subst sl2. rewrite Hn, Ha in Hann.
  destruct Hann as [Hr _]. destruct (Hr Hw) as (key & fa & a0 & Hin & Hfa & Hsame).
  eapply same_ann_bare; [exact Hsame|].
  unfold merge_env in Hin. cbn [efuns] in Hin.
  eapply cfuns_clean; [|exact Hin|exact Hfa]. apply filter_stub_rets. exact Hs.
Qed.

Lemma no_bare_vars_fixed_lemma : forall p s i sl sl' a,
  forallb (vars_ok not_dotted_any) s = true ->
  ann_at p i = Some sl -> s_ann sl = None ->
  ann_at (m_out (merge Fixed p s)) i = Some sl' -> s_ann sl' = Some a ->
  s_which sl = WVar -> bare_any_never a = false.
Proof.
  intros p s i sl sl' a Hs Hi Hn Hi' Ha Hw. unfold ann_at in *.
  destruct (Forall2_nth _ _ _ (merge_slots Fixed p s) i sl Hi) as (sl2 & Hi2 & _ & Hann).
  rewrite Hi' in Hi2. inversion Hi2; subst sl2. rewrite Hn, Ha in Hann.
  destruct Hann as [_ Hr]. destruct (Hr Hw) as (q & a0 & Hin & Hsame).
  eapply same_ann_bare; [exact Hsame|].
  unfold merge_env in Hin. cbn [eattrs] in Hin.
  eapply cattrs_clean; [|exact Hin]. apply filter_stub_vars_fixed. exact Hs.
Qed.

Lemma no_bare_decls_fixed_lemma : forall p s nm a,
  forallb (vars_ok not_dotted_any) s = true ->
  In (nm, a) (added_decls (m_out (merge Fixed p s))) ->
  In (nm, a) (added_decls p) \/ bare_any_never a = false.
Proof.
  intros p s nm a Hs Hin. apply added_decls_out in Hin. destruct Hin as [Hin|(nm0 & a0' & Hd & _ & ->)]; auto.
  right. unfold merge_state in Hd. apply decls_from_attrs in Hd. destruct Hd as (q & Hq).
  eapply same_ann_bare; [apply quote_same|].
  unfold merge_env in Hq. cbn [eattrs] in Hq.
  eapply cattrs_clean; [|exact Hq]. apply filter_stub_vars_fixed. exact Hs.
Qed.

(* ------------------------------------------------------------------------------------------ *)
(* inserted_from_stub: without dotted names the dequalifier is the identity *)

Section ExprInd.
  Variable P : expr -> Prop.
  Hypothesis HName : forall n, P (EName n).
  Hypothesis HAttr : forall q n, P (EAttr q n).
  Hypothesis HSub : forall h args, P h -> Forall P args -> P (ESub h args).
  Hypothesis HStr : forall n, P (EStr n).
  Hypothesis HOther : forall i subs, Forall P subs -> P (EOther i subs).
  Fixpoint expr_ind' (e : expr) : P e :=
    match e with
    | EName n => HName n
    | EAttr q n => HAttr q n
    | ESub h args =>
        HSub h args (expr_ind' h)
             ((fix go (l : list expr) : Forall P l :=
                 match l with [] => Forall_nil P | x :: r => Forall_cons x (expr_ind' x) (go r) end) args)
    | EStr n => HStr n
    | EOther i subs =>
        HOther i subs
               ((fix go (l : list expr) : Forall P l :=
                   match l with [] => Forall_nil P | x :: r => Forall_cons x (expr_ind' x) (go r) end) subs)
    end.
End ExprInd.

Lemma map_id_Forall {A} (f : A -> A) (g : A -> bool) (l : list A) :
  Forall (fun x => g x = false -> f x = x) l -> existsb g l = false -> map f l = l.
Proof.
  induction 1 as [|x l Hx _ IH]; cbn [existsb map]; auto. intros H.
  apply orb_false_iff in H. destruct H. rewrite Hx, IH; auto.
Qed.

Lemma dq_id a : expr_dotted a = false -> dq_expr a = a.
Proof.
  induction a using expr_ind'; cbn [expr_dotted dq_expr]; auto; try discriminate.
  - intros H0. apply orb_false_iff in H0. destruct H0 as [H1 H2].
    rewrite IHa by exact H1. destruct (is_type_head a); [reflexivity|].
    rewrite (map_id_Forall dq_expr expr_dotted); auto.
  - intros H0. rewrite (map_id_Forall dq_expr expr_dotted); auto.
Qed.

Lemma dq_param_id p : param_dotted p = false -> dq_param p = p.
Proof.
  unfold param_dotted, dq_param. destruct p as [n [a|] d]; cbn [pname pann pdef option_map]; auto.
  intros H. rewrite dq_id; auto.
Qed.

Lemma dq_params_id ps : params_dotted ps = false -> dq_params ps = ps.
Proof.
  unfold params_dotted, dq_params. intros H.
  apply orb_false_iff in H. destruct H as [H _]. apply orb_false_iff in H. destruct H as [_ H].
  destruct ps as [po pp st kw ks]. cbn [posonly pos star kwonly kwstar] in *. f_equal.
  apply (map_id_Forall dq_param param_dotted); auto.
  apply Forall_forall. intros. apply dq_param_id; auto.
Qed.

Lemma concat_snoc {A} (l : list (list A)) (x : list A) : concat (l ++ [x]) = concat l ++ x.
Proof. rewrite concat_app. cbn [concat]. rewrite app_nil_r. reflexivity. Qed.

Lemma qname_snoc (l : list path) (x : path) : qname (l ++ [x]) = qname l ++ x.
Proof. apply concat_snoc. Qed.

(* the collected table only contains what the (filtered) stub says, under the true qualified names *)
Definition csound (SD : list sdef) (c : cstate) : Prop :=
  (forall key fa, In (key, fa) (cfuns c) ->
     exists ps r, In (SFun (fst key) ps r) SD /\ snd key = shape_of ps /\ fa = (ps, r)) /\
  (forall q a, In (q, a) (cattrs c) -> In (SVar q a) SD).

Lemma existsb_false_Forall {A} (f : A -> bool) l : existsb f l = false -> Forall (fun x => f x = false) l.
Proof.
  induction l as [|x l IH]; cbn [existsb]; [constructor|]. intros H. apply orb_false_iff in H.
  destruct H. constructor; auto.
Qed.

Lemma collect_items_sound_from imp SD b :
  Forall (fun it => item_dotted it = false -> forall chain c,
            qname (cq c) = chain -> incl (stub_defs chain it) SD -> csound SD c ->
            cq (collect_item imp it c) = cq c /\ csound SD (collect_item imp it c)) b ->
  existsb item_dotted b = false ->
  forall chain c, qname (cq c) = chain -> incl (flat_map (stub_defs chain) b) SD -> csound SD c ->
                  cq (collect_items imp b c) = cq c /\ csound SD (collect_items imp b c).
Proof.
  induction 1 as [|x b Hx _ IH]; intros Hd chain c Hq Hincl Hc; cbn [collect_items]; [auto|].
  cbn [existsb] in Hd. apply orb_false_iff in Hd. destruct Hd as [Hd1 Hd2].
  cbn [flat_map] in Hincl.
  destruct (Hx Hd1 chain c Hq) as [Hq1 Hc1]; auto.
  { intros y Hy. apply Hincl. apply in_or_app. auto. }
  destruct (IH Hd2 chain (collect_item imp x c)) as [Hq2 Hc2]; auto.
  { rewrite Hq1. exact Hq. }
  { intros y Hy. apply Hincl. apply in_or_app. auto. }
  split; auto. rewrite Hq2. exact Hq1.
Qed.

Lemma collect_item_sound imp SD it :
  item_dotted it = false -> forall chain c,
  qname (cq c) = chain -> incl (stub_defs chain it) SD -> csound SD c ->
  cq (collect_item imp it c) = cq c /\ csound SD (collect_item imp it c).
Proof.
  induction it using item_ind'; intros Hd chain c Hq Hincl Hc; try (split; [reflexivity|exact Hc]).
  - (* Fun *)
    cbn [collect_item c_pop c_push c_use cq cfuns cattrs]. split; [apply removelast_snoc|].
    cbn [item_dotted] in Hd. apply orb_false_iff in Hd. destruct Hd as [Hd1 Hd2].
    destruct Hc as [Hf Ha]. split; [|exact Ha].
    intros key fa [Heq|Hin]; [|auto]. inversion Heq; subst key fa. cbn [fst snd].
    exists ps, r. rewrite qname_snoc, Hq. repeat split.
    + apply Hincl. cbn [stub_defs]. left. reflexivity.
    + rewrite dq_params_id by exact Hd1. destruct r as [a|]; cbn [option_map]; [rewrite dq_id; auto|auto].
  - (* Cls *)
    rewrite collect_item_Cls. cbn zeta.
    cbn [item_dotted] in Hd. apply orb_false_iff in Hd. destruct Hd as [_ Hd2].
    match goal with |- context [collect_items imp b ?x] => set (c3 := x) end.
    destruct (collect_items_sound_from imp SD b H Hd2 (chain ++ [n]) c3) as [Hq2 Hc2].
    + subst c3. cbn [cq c_use c_push]. rewrite qname_snoc, Hq. reflexivity.
    + exact Hincl.
    + subst c3. exact Hc.
    + cbn [c_pop cq cfuns cattrs]. split; [|exact Hc2].
      rewrite Hq2. subst c3. cbn [cq c_use c_push]. apply removelast_snoc.
  - (* Assign *)
    cbn [collect_item]. dmatch; split; try reflexivity; exact Hc.
  - (* AnnAssign *)
    cbn [collect_item]. destruct (tname t) as [nm|] eqn:Et.
    + cbn [c_pop c_push c_use cq cfuns cattrs]. split; [apply removelast_snoc|].
      destruct Hc as [Hf Ha]. split; [exact Hf|].
      intros q a' [Heq|Hin]; [|auto]. inversion Heq; subst q a'.
      cbn [item_dotted] in Hd. rewrite dq_id by exact Hd.
      rewrite qname_snoc, Hq. apply Hincl. cbn [stub_defs]. rewrite Et. left. reflexivity.
    + split; [reflexivity|exact Hc].
  - (* Block *)
    rewrite collect_item_Block. cbn [item_dotted] in Hd.
    apply (collect_items_sound_from imp SD b H Hd chain c); auto.
Qed.

Lemma collect_sound imp s :
  dotted_free s = true -> csound (stub_all s) (collect_items imp s c0).
Proof.
  intros Hd. unfold dotted_free in Hd. apply negb_true_iff in Hd.
  destruct (collect_items_sound_from imp (stub_all s) s) with (chain := @nil N) (c := c0) as [_ H]; auto.
  - apply Forall_forall. intros it _ Hi. apply collect_item_sound; auto.
  - unfold stub_all. apply incl_refl.
  - split; intros ? ? [].
Qed.

Lemma shape_eqb_eq a b : shape_eqb a b = true -> a = b.
Proof.
  destruct a as [a1 a2 a3 a4 a5], b as [b1 b2 b3 b4 b5]. unfold shape_eqb.
  cbn [sh_pos sh_kw sh_posonly sh_star sh_kwstar].
  intros H. repeat (apply andb_true_iff in H; destruct H as [H ?]).
  apply Nat.eqb_eq in H. apply list_eqb_N_eq in H3. apply Nat.eqb_eq in H2.
  apply eqb_prop in H1. apply eqb_prop in H0. subst. reflexivity.
Qed.

Lemma fkey_eqb_eq (a b : fkey) : fkey_eqb a b = true -> a = b.
Proof.
  destruct a as [a1 a2], b as [b1 b2]. unfold fkey_eqb. cbn [fst snd]. intros H.
  apply andb_true_iff in H. destruct H as [H1 H2].
  apply path_eqb_eq in H1. apply shape_eqb_eq in H2. subst. reflexivity.
Qed.

Definition env_sound (e : env) (SD : list sdef) : Prop :=
  (forall key fa, dict_get fkey_eqb key (efuns e) = Some fa ->
     exists ps r, In (SFun (fst key) ps r) SD /\ snd key = shape_of ps /\ fa = (ps, r)) /\
  (forall q a, dict_get path_eqb q (eattrs e) = Some a -> In (SVar q a) SD).

Lemma env_sound_merge v p s :
  dotted_free (filter_stub v s) = true -> env_sound (merge_env v p s) (stub_all (filter_stub v s)).
Proof.
  intros Hd. unfold merge_env. cbn zeta.
  destruct (collect_sound (stub_imports (filter_stub v s)) (filter_stub v s) Hd) as [Hf Ha].
  split; cbn [efuns eattrs].
  - intros key fa Hg. apply dict_get_In in Hg. destruct Hg as (k' & Hin & Hk).
    apply fkey_eqb_eq in Hk. subst k'. auto.
  - intros q a Hg. apply dict_get_In in Hg. destruct Hg as (k' & Hin & Hk).
    apply path_eqb_eq in Hk. subst k'. auto.
Qed.

Definition RI (SD : list sdef) (sl sl' : slot) : Prop :=
  same_key sl sl' /\
  match s_ann sl with
  | Some a => s_ann sl' = Some a
  | None => match s_ann sl' with
            | None => True
            | Some a => exists a0, stub_gives SD sl a0 /\ same_ann a a0
            end
  end.

Lemma RI_refl SD sl : RI SD sl sl.
Proof. unfold RI, same_key. split; auto. destruct (s_ann sl); auto. Qed.

Lemma RI_param SD qn sh w gn vis p a :
  (forall a0, pann p = None -> a = Some a0 -> stub_gives SD (mkSlot qn (Some sh) w None) a0) ->
  RI SD (mkSlot qn (Some sh) w (pann p)) (mkSlot qn (Some sh) w (pann (upd_param gn vis p a))).
Proof.
  intros Hg. unfold RI, same_key. cbn [s_qn s_shape s_which s_ann]. split; auto.
  unfold upd_param. destruct (pann p) eqn:E; [rewrite E; reflexivity|].
  destruct a as [a0|]; cbn [pann]; [|rewrite E; auto].
  exists a0. split; [apply Hg; auto|apply quote_same].
Qed.

Lemma pslots_RI SD qn sh mk gn vis : forall ps qs i0,
  (forall j q a0, nth_error qs j = Some q -> pann q = Some a0 ->
                  stub_gives SD (mkSlot qn (Some sh) (mk (i0 + j)%nat) None) a0) ->
  Forall2 (RI SD) (pslots qn sh mk i0 ps) (pslots qn sh mk i0 (upd_positional gn vis ps qs)).
Proof.
  induction ps as [|p ps IH]; intros [|q qs] i0 Hg; cbn [upd_positional pslots];
    try (apply Forall2_refl; apply RI_refl).
  constructor.
  - apply RI_param. intros a0 _ Ha. specialize (Hg 0%nat q a0 eq_refl Ha).
    rewrite Nat.add_0_r in Hg. exact Hg.
  - apply IH. intros j q' a0 Hn Ha. specialize (Hg (S j) q' a0 Hn Ha).
    rewrite Nat.add_succ_r in Hg. exact Hg.
Qed.

Lemma RI_fun_slots SD Q ps r gn vis qs r0 :
  In (SFun Q qs r0) SD -> shape_of qs = shape_of ps ->
  Forall2 (RI SD) (fun_slots (Some Q) ps r)
          (fun_slots (Some Q) (update_parameters gn vis ps qs)
                     (match r, r0 with None, Some a => Some (quote gn vis a) | _, _ => r end)).
Proof.
  intros Hin Hsh. unfold fun_slots. rewrite shape_update.
  cbn [update_parameters posonly pos star kwonly kwstar].
  assert (Hgive : forall w a0, w <> WVar -> ann_in qs r0 w = Some a0 ->
                   stub_gives SD (mkSlot (Some Q) (Some (shape_of ps)) w None) a0).
  { intros w a0 Hw Ha. unfold stub_gives. cbn [s_qn s_which s_shape].
    destruct w; try congruence; exists qs, r0; rewrite Hsh; auto. }
  constructor.
  { unfold RI, same_key. cbn [s_qn s_shape s_which s_ann]. split; auto.
    destruct r; auto. destruct r0 as [a0|]; auto.
    exists a0. split; [|apply quote_same]. apply Hgive; [discriminate|reflexivity]. }
  repeat apply Forall2_app; try (apply Forall2_refl; apply RI_refl).
  - apply pslots_RI. intros j q a0 Hn Ha. apply Hgive; [discriminate|].
    cbn [ann_in Nat.add]. rewrite Hn. exact Ha.
  - apply pslots_RI. intros j q a0 Hn Ha. apply Hgive; [discriminate|].
    cbn [ann_in Nat.add]. rewrite Hn. exact Ha.
  - unfold upd_named. rewrite map_map.
    induction (kwonly ps) as [|p l IH]; cbn [map]; constructor; auto.
    rewrite upd_param_name. apply RI_param. intros a0 _ Ha. apply Hgive; [discriminate|exact Ha].
Qed.

Lemma qual_add_toplevel e nm s : qual (add_toplevel e nm s) = qual s.
Proof. unfold add_toplevel. destruct (dict_get _ _ _); reflexivity. Qed.

Lemma qual_add_toplevels e nms s : qual (add_toplevels e nms s) = qual s.
Proof.
  unfold add_toplevels. revert s. induction nms as [|o nms IH]; intros s; cbn [fold_left]; auto.
  rewrite IH. destruct o as [nm|]; auto. destruct (not_underscore nm); auto. apply qual_add_toplevel.
Qed.

Lemma leak_false_back s s' : flags_le s s' -> leak s' = false -> leak s = false.
Proof. intros (H & _) H'. destruct (leak s); auto. rewrite H in H'; auto. Qed.

Lemma ins_apply_fun e SD n d ps r b s chain :
  env_sound e SD -> qname (qual s) = chain ->
  qual (snd (apply_fun e n d ps r b s)) = qual s /\
  Forall2 (RI SD) (slots (Some chain) (Fun n d ps r b)) (slots (Some chain) (fst (apply_fun e n d ps r b s))).
Proof.
  intros [Hf _] Hq. unfold apply_fun.
  destruct (dict_get fkey_eqb _ (efuns e)) as [fa|] eqn:Eg;
    [|split; [reflexivity|apply Forall2_refl; apply RI_refl]].
  destruct (match_signatures ps r fa); [|split; [reflexivity|apply Forall2_refl; apply RI_refl]].
  cbn [fst snd]. split; [match goal with |- context [if ?c then _ else _] => destruct c end; reflexivity|].
  apply Hf in Eg. cbn [fst snd] in Eg. destruct Eg as (qs & r0 & Hin & Hsh & ->).
  rewrite qname_snoc, Hq in Hin. cbn [fst snd slots ext option_map].
  apply Forall2_app; [|apply Forall2_refl; apply RI_refl].
  apply RI_fun_slots; auto.
Qed.

Lemma ins_apply_assign e SD ts v s chain :
  env_sound e SD -> qname (qual s) = chain ->
  leak (snd (apply_assign e ts v s)) = false ->
  qual (snd (apply_assign e ts v s)) = qual s /\
  Forall2 (RI SD) (slots (Some chain) (Assign ts v)) (slots (Some chain) (fst (apply_assign e ts v s))).
Proof.
  intros [_ Ha] Hq. unfold apply_assign.
  set (s0 := if vtv v then _ else s).
  assert (H0 : qual s0 = qual s).
  { subst s0. destruct (vtv v); auto. destruct ts as [|t ?]; auto. destruct (tname t); auto. }
  rewrite <- H0. rewrite <- H0 in Hq. clearbody s0. clear H0.
  destruct ts as [|t [|t2 ts]]; cbn [fst snd];
    try (intros _; split; [apply qual_add_toplevels|apply Forall2_refl; apply RI_refl]).
  destruct t as [n|k nm i].
  - cbn zeta. destruct (dict_get path_eqb _ (eattrs e)) as [a|] eqn:Eg.
    + destruct (mem_path _ _); cbn [fst snd leak]; [discriminate|].
      intros _. cbn [a_pop a_push qual]. split; [apply removelast_snoc|].
      cbn [slots tname ext option_map]. constructor; [|constructor].
      unfold RI, same_key. cbn [s_qn s_shape s_which s_ann]. split; auto.
      exists a. split; [|apply quote_same].
      unfold stub_gives. cbn [s_qn s_which]. apply Ha in Eg. cbn [a_push qual] in Eg.
      rewrite qname_snoc, Hq in Eg. exact Eg.
    + cbn [fst snd]. intros _. cbn [a_pop a_push qual]. split; [apply removelast_snoc|].
      apply Forall2_refl; apply RI_refl.
  - destruct k; [destruct nm| |]; cbn [fst snd]; intros _;
      (split; [|apply Forall2_refl; apply RI_refl]); auto.
    + cbn [a_pop a_push qual]. apply removelast_snoc.
    + apply qual_add_toplevels.
Qed.

Lemma ins_apply_items_from e SD b :
  Forall (fun it => forall s chain, qname (qual s) = chain -> leak (snd (apply_item e it s)) = false ->
            qual (snd (apply_item e it s)) = qual s /\
            Forall2 (RI SD) (slots (Some chain) it) (slots (Some chain) (fst (apply_item e it s)))) b ->
  forall s chain, qname (qual s) = chain -> leak (snd (apply_items e b s)) = false ->
    qual (snd (apply_items e b s)) = qual s /\
    Forall2 (RI SD) (flat_map (slots (Some chain)) b) (flat_map (slots (Some chain)) (fst (apply_items e b s))).
Proof.
  induction 1 as [|x b Hx _ IH]; intros s chain Hq; cbn [apply_items]; [intros _; split; [reflexivity|constructor]|].
  specialize (Hx s chain Hq). destruct (apply_item e x s) as [x' s'] eqn:E1.
  pose proof (apply_items_flags e b s') as Hfl.
  specialize (IH s' chain). destruct (apply_items e b s') as [b' s''] eqn:E2.
  cbn [fst snd] in *. intros Hl.
  destruct Hx as [Hq1 Hs1]; [eapply leak_false_back; eauto|].
  destruct IH as [Hq2 Hs2]; [rewrite Hq1; exact Hq|exact Hl|].
  split; [rewrite Hq2; exact Hq1|]. cbn [flat_map]. apply Forall2_app; auto.
Qed.

Lemma ins_apply_item e SD : env_sound e SD -> forall it s chain,
  qname (qual s) = chain -> leak (snd (apply_item e it s)) = false ->
  qual (snd (apply_item e it s)) = qual s /\
  Forall2 (RI SD) (slots (Some chain) it) (slots (Some chain) (fst (apply_item e it s))).
Proof.
  intros He. induction it using item_ind'; intros s chain Hq;
    try (intros _; split; [reflexivity|apply Forall2_refl; apply RI_refl]).
  - intros _. apply ins_apply_fun; auto.
  - rewrite apply_item_Cls.
    pose proof (ins_apply_items_from e SD b H (a_push [n] s) (chain ++ [n])) as Hb.
    destruct (apply_items e b (a_push [n] s)) as [b' s2]. cbn [fst snd] in Hb. cbn zeta.
    assert (Hq1 : qname (qual (a_push [n] s)) = chain ++ [n]).
    { cbn [a_push qual]. rewrite qname_snoc, Hq. reflexivity. }
    dmatch; cbn [fst snd leak a_pop qual]; intros Hl; destruct (Hb Hq1 Hl) as [Hq2 Hs2];
      (split; [rewrite Hq2; cbn [a_push qual]; apply removelast_snoc|exact Hs2]).
  - apply ins_apply_assign; auto.
  - rewrite apply_item_Block.
    pose proof (ins_apply_items_from e SD b H s chain Hq) as Hb.
    destruct (apply_items e b s) as [b' s']. exact Hb.
Qed.

Lemma ins_apply_items e SD b s chain : env_sound e SD ->
  qname (qual s) = chain -> leak (snd (apply_items e b s)) = false ->
  qual (snd (apply_items e b s)) = qual s /\
  Forall2 (RI SD) (flat_map (slots (Some chain)) b) (flat_map (slots (Some chain)) (fst (apply_items e b s))).
Proof.
  intros He. apply ins_apply_items_from. apply Forall_forall. intros. apply ins_apply_item; auto.
Qed.

Lemma merge_out_cases v p s :
  m_out (merge v p s) = p \/
  mslots (m_out (merge v p s)) = mslots (fst (apply_items (merge_env v p s) p a0)).
Proof.
  unfold merge_env, merge.
  set (s' := filter_stub v s). set (imp := stub_imports s'). set (c := collect_items imp s' c0).
  set (e := mkE _ _ _ _).
  destruct (apply_items e p a0) as [core st]. cbn [fst m_out].
  match goal with |- context [if ?c then _ else _] => destruct c end; [right|left; reflexivity].
  unfold mslots. rewrite !flat_map_app.
  rewrite (slots_all_added (Some []) (fun kd : path * expr =>
             AnnAssign (TName (hd 0 (fst kd))) (quote (global_names p) (visited st) (snd kd)) None)).
  rewrite (slots_all_added (Some []) (fun kv : path * item => snd kv)).
  rewrite (slots_all_added (Some []) (fun kd : N * item => snd kd)).
  cbn [app]. rewrite flat_map_firstn_skipn, slots_add_imports. reflexivity.
Qed.

Lemma merge_flags v p s :
  m_leak (merge v p s) = leak (merge_state v p s) /\
  m_clsdecl (merge v p s) = clsdecl (merge_state v p s) /\
  (m_err (merge v p s) = false -> forallb (fun kd : path * expr => single (fst kd)) (decls (merge_state v p s)) = true).
Proof.
  unfold merge_state, merge_env, merge.
  set (s' := filter_stub v s). set (imp := stub_imports s'). set (c := collect_items imp s' c0).
  set (e := mkE _ _ _ _).
  destruct (apply_items e p a0) as [core st]. cbn [snd m_leak m_clsdecl m_err].
  repeat split; auto. intros H. apply orb_false_iff in H. destruct H as [_ H].
  apply negb_false_iff in H. exact H.
Qed.

Lemma decls_sound e SD b : env_sound e SD ->
  clsdecl (snd (apply_items e b a0)) = false ->
  forall nm a, In (nm, a) (decls (snd (apply_items e b a0))) -> In (SVar nm a) SD.
Proof.
  intros [_ Ha].
  apply J_apply_items with
    (J := fun s => clsdecl s = false -> forall nm a, In (nm, a) (decls s) -> In (SVar nm a) SD).
  - intros s s' Hd Hc H. rewrite <- Hd, <- Hc. exact H.
  - intros nm s H. unfold add_toplevel. destruct (dict_get _ _ _) as [a|] eqn:Eg; auto.
    cbn [decls clsdecl]. intros Hc. apply orb_false_iff in Hc. destruct Hc as [Hc1 Hc2].
    apply negb_false_iff in Hc2.
    intros nm' a' Hin. apply dict_set_In in Hin. destruct Hin as [Heq|Hin]; [|auto].
    inversion Heq; subst. apply Ha in Eg. rewrite qname_snoc in Eg.
    destruct (qname (qual s)); [|discriminate]. exact Eg.
  - intros _ ? ? [].
Qed.

Lemma inserted_from_stub_lemma : forall v p s,
  dotted_free (filter_stub v s) = true ->
  m_leak (merge v p s) = false -> m_clsdecl (merge v p s) = false -> m_err (merge v p s) = false ->
  (forall i sl sl' a,
     ann_at p i = Some sl -> s_ann sl = None ->
     ann_at (m_out (merge v p s)) i = Some sl' -> s_ann sl' = Some a ->
     exists a0, stub_gives (stub_all (filter_stub v s)) sl a0 /\ same_ann a a0) /\
  (forall nm a,
     In (nm, a) (added_decls (m_out (merge v p s))) ->
     In (nm, a) (added_decls p) \/
     exists a0, In (SVar nm a0) (stub_all (filter_stub v s)) /\ same_ann a a0).
Proof.
  intros v p s Hd Hl Hc He.
  pose proof (env_sound_merge v p s Hd) as Hsound.
  destruct (merge_flags v p s) as (Hl' & Hc' & He'). rewrite Hl' in Hl. rewrite Hc' in Hc.
  specialize (He' He). unfold merge_state in *.
  split.
  - intros i sl sl' a Hi Hn Hi' Ha. unfold ann_at in *.
    destruct (merge_out_cases v p s) as [Hout|Hout].
    + rewrite Hout in Hi'. rewrite Hi in Hi'. inversion Hi'; subst. congruence.
    + rewrite Hout in Hi'.
      destruct (ins_apply_items (merge_env v p s) _ p a0 [] Hsound eq_refl Hl) as [_ HF].
      destruct (Forall2_nth _ _ _ HF i sl Hi) as (sl2 & Hi2 & _ & Hann).
      pose proof (eq_trans (eq_sym Hi') Hi2) as Heq. inversion Heq; subst sl2.
      rewrite Hn, Ha in Hann. exact Hann.
  - intros nm a Hin. apply added_decls_out in Hin.
    destruct Hin as [Hin|(nm0 & a0' & Hdin & -> & ->)]; [left; exact Hin|right].
    unfold merge_state in Hdin.
    pose proof (decls_sound _ _ p Hsound Hc nm0 a0' Hdin) as Hsd.
    rewrite forallb_forall in He'. specialize (He' _ Hdin). cbn [fst] in He'.
    destruct nm0 as [|n [|? ?]]; try discriminate. cbn [hd].
    exists a0'. split; [exact Hsd|apply quote_same].
Qed.

(* ------------------------------------------------------------------------------------------ *)
(* witnesses of the refuted statements (ids: 10 Inner, 20 Outer / C, 30 f / m, 40 x, 50 self, 60 List) *)

Definition nested_p : list item :=
  [Cls 20 100 [] [Cls 10 101 [] [Other 102]];
   Fun 30 103 (mkParams [] [] NoStar [] None) None [Other 104]].
Definition nested_s : list item :=
  [Cls 20 100 [] [Cls 10 101 [] [Other 105]];
   Fun 30 103 (mkParams [] [] NoStar [] None) (Some (EAttr [20] 10)) [Other 105]].
Definition leak_p : list item :=
  [Cls 20 100 [] [Assign [TName 40] (mkVal 101 false); Assign [TName 40] (mkVal 102 false);
                  Fun 30 103 (mkParams [] [mkParam 50 None None] NoStar [] None) None [Other 104]];
   Fun 30 103 (mkParams [] [mkParam 50 None None] NoStar [] None) None [Other 105]].
Definition leak_s : list item :=
  [Cls 20 100 [] [AnnAssign (TName 40) (ESub (EName 60) [EName id_int]) None;
                  Fun 30 103 (mkParams [] [mkParam 50 None None] NoStar [] None) (Some (EName id_int)) [Other 106]];
   Fun 30 103 (mkParams [] [mkParam 50 None None] NoStar [] None) (Some (EName id_str)) [Other 106]].
Definition any_p : list item := [Assign [TName 40] (mkVal 101 false)].
Definition any_s : list item := [Import true [id_typing] [id_Any] [] 0; AnnAssign (TName 40) (EName id_Any) None].

Definition chain_p : list item :=
  [Cls 20 100 [] [Assign [TName 40; TName 41] (mkVal 101 false)]].
Definition chain_s : list item :=
  [Cls 20 100 [] [AnnAssign (TName 40) (ESub (EName 60) [EName id_int]) None;
                  AnnAssign (TName 41) (ESub (EName 60) [EName id_int]) None]].

Lemma merge_erases_refuted_lemma : exists p s, forall v, erase (m_out (merge v p s)) <> erase p.
Proof. exists nested_p, nested_s. intros v H. destruct v; vm_compute in H; discriminate. Qed.

Lemma no_bare_refuted_lemma :
  exists p s i sl sl' a,
    dotted_any_free s = true /\
    ann_at p i = Some sl /\ s_ann sl = None /\
    ann_at (m_out (merge AsWritten p s)) i = Some sl' /\ s_ann sl' = Some a /\
    s_which sl = WVar /\ bare_any_never a = true.
Proof.
  exists any_p, any_s, 0%nat, (mkSlot (Some [40]) None WVar None),
         (mkSlot (Some [40]) None WVar (Some (EName id_Any))), (EName id_Any).
  vm_compute. repeat split; reflexivity.
Qed.

Lemma inserted_from_stub_refuted_lemma :
  exists p s i sl sl' a, forall v,
    dotted_free (filter_stub v s) = true /\ m_clsdecl (merge v p s) = false /\ m_err (merge v p s) = false /\
    ann_at p i = Some sl /\ s_ann sl = None /\
    ann_at (m_out (merge v p s)) i = Some sl' /\ s_ann sl' = Some a /\
    ~ exists a0, stub_gives (stub_all (filter_stub v s)) sl a0 /\ same_ann a a0.
Proof.
  set (sh := mkShape 1 [] 0 false false).
  exists leak_p, leak_s, 4%nat, (mkSlot (Some [30]) (Some sh) WRet None),
         (mkSlot (Some [30]) (Some sh) WRet (Some (EName id_int))), (EName id_int).
  intros v.
  assert (Hs : stub_all (filter_stub v leak_s) =
               [SVar [20; 40] (ESub (EName 60) [EName id_int]);
                SFun [20; 30] (mkParams [] [mkParam 50 None None] NoStar [] None) (Some (EName id_int));
                SFun [30] (mkParams [] [mkParam 50 None None] NoStar [] None) (Some (EName id_str))]).
  { destruct v; vm_compute; reflexivity. }
  repeat split; try (destruct v; vm_compute; reflexivity).
  rewrite Hs. intros (a0 & Hg & Hsame). unfold stub_gives in Hg. cbn [s_qn s_which s_shape] in Hg.
  destruct Hg as (ps & r & Hin & _ & Hann).
  cbn [In] in Hin. destruct Hin as [H|[H|[H|[]]]]; try discriminate.
  inversion H; subst. cbn [ann_in] in Hann. inversion Hann; subst.
  destruct Hsame as [H1|(n & H1 & H2)]; discriminate.
Qed.

Lemma inserted_declaration_refuted_lemma :
  exists p s nm a, forall v,
    dotted_free (filter_stub v s) = true /\ m_leak (merge v p s) = false /\ m_err (merge v p s) = false /\
    In (nm, a) (added_decls (m_out (merge v p s))) /\ ~ In (nm, a) (added_decls p) /\
    ~ exists a0, In (SVar nm a0) (stub_all (filter_stub v s)) /\ same_ann a a0.
Proof.
  exists chain_p, chain_s, [40], (ESub (EName 60) [EName id_int]). intros v.
  assert (Hs : stub_all (filter_stub v chain_s) =
               [SVar [20; 40] (ESub (EName 60) [EName id_int]); SVar [20; 41] (ESub (EName 60) [EName id_int])]).
  { destruct v; vm_compute; reflexivity. }
  assert (Ho : added_decls (m_out (merge v chain_p chain_s)) =
               [([40], ESub (EName 60) [EName id_int]); ([41], ESub (EName 60) [EName id_int])]).
  { destruct v; vm_compute; reflexivity. }
  repeat split; try (destruct v; vm_compute; reflexivity).
  - rewrite Ho. left. reflexivity.
  - intros [].
  - rewrite Hs. intros (a0 & Hin & _). cbn [In] in Hin. destruct Hin as [H|[H|[]]]; discriminate.
Qed.
